"""C18i: the diagnostic history must be a faithful record of the run, also
after an interruption and a resume.

Violation: a run that stops at `max_n_steps` with beta < 1 and was asked for
`n_final_samples` writes its final (forced) checkpoint with the *final*
population (resampled and mutated at beta = 1, n_final_samples rows) but with
the loop's temperature and the loop's history.  Resuming from that checkpoint
(with a larger / no max_n_steps) continues the loop from a population that is
not the last stored population: the recorded ESS and incremental evidence
ratio of the next iteration do not equal their definitions recomputed from
the neighbouring stored populations, and the population size changes mid-run.

Run as: PYTHONPATH=<tree>/src python demo.py
"""
import math
import pickle
import sys

import numpy as np

from aspire.samplers.smc.base import SMCSampler
from aspire.samples import SMCSamples
from aspire.utils import effective_sample_size

DIMS, MU, SIG, SCALE = 2, 4.0, 0.05, 3.0


class GaussFlow:
    """Proposal N(0, SCALE^2 I) with an exact density."""

    def __init__(self, rng):
        self.rng = rng

    def log_prob(self, x):
        x = np.asarray(x, dtype=np.float64)
        return -0.5 * np.sum((x / SCALE) ** 2, axis=-1) - DIMS * (
            math.log(SCALE) + 0.5 * math.log(2 * math.pi)
        )

    def sample_and_log_prob(self, n):
        x = self.rng.normal(size=(n, DIMS)) * SCALE
        return x, self.log_prob(x)


class RWSMC(SMCSampler):
    """SMC with a plain random-walk Metropolis kernel targeting p_t(beta)."""

    def sample(self, n_samples, **kw):
        self.sampler_kwargs = {}
        return super().sample(n_samples, **kw)

    def mutate(self, particles, beta, n_steps=None):
        x = np.array(particles.x, dtype=np.float64)
        lp = np.asarray(self.log_prob(x, beta), dtype=np.float64)
        for _ in range(n_steps or 3):
            y = x + 0.3 * self.rng.normal(size=x.shape)
            lq = np.asarray(self.log_prob(y, beta), dtype=np.float64)
            acc = np.log(self.rng.uniform(size=len(x))) < lq - lp
            x[acc] = y[acc]
            lp[acc] = lq[acc]
        s = SMCSamples(
            x, xp=self.xp, beta=beta, dtype=self.dtype,
            parameters=self.parameters,
        )
        s.log_q = s.array_to_namespace(self.prior_flow.log_prob(s.x))
        s.log_prior = s.array_to_namespace(self.log_prior(s))
        s.log_likelihood = s.array_to_namespace(self.log_likelihood(s))
        return s


def make(seed):
    rng = np.random.default_rng(seed)

    def log_l(s):
        x = np.asarray(s.x, dtype=np.float64)
        return -0.5 * np.sum(((x - MU) / SIG) ** 2, axis=-1)

    def log_prior(s):
        x = np.asarray(s.x, dtype=np.float64)
        inside = np.all(np.abs(x) < 20, axis=-1)
        return np.where(inside, -DIMS * math.log(40.0), -np.inf)

    return RWSMC(
        log_l, log_prior, DIMS, GaussFlow(rng), xp=np, rng=rng,
        parameters=["a", "b"],
    )


def check(h, tag):
    """The property as stated; returns a list of violations."""
    errs = []
    n = len(h.beta)
    for name in ("ess", "ess_target", "eff_target", "log_norm_ratio",
                 "log_norm_ratio_var"):
        if len(getattr(h, name)) != n:
            errs.append(f"{tag}: len({name}) = {len(getattr(h, name))}, "
                        f"{n} iterations")
    if len(h.sample_history) != n + 1:
        errs.append(f"{tag}: {len(h.sample_history)} stored populations for "
                    f"{n} iterations")
        return errs
    b = [float(v) for v in h.beta]
    sizes = [len(p) for p in h.sample_history]
    if len(set(sizes)) != 1:
        errs.append(f"{tag}: population sizes change inside the run: {sizes}")
    for k in range(n + 1):
        want = 0.0 if k == 0 else b[k - 1]
        if h.sample_history[k].beta is None or float(
            h.sample_history[k].beta
        ) != want:
            errs.append(f"{tag}: population {k} labelled beta="
                        f"{h.sample_history[k].beta}, expected {want}")
    for k in range(n):
        pop = h.sample_history[k]  # the population iteration k+1 started from
        ess = float(effective_sample_size(pop.log_weights(b[k])))
        ratio = float(pop.log_evidence_ratio(b[k]))
        if not math.isclose(ess, float(h.ess[k]), rel_tol=1e-9):
            errs.append(f"{tag}: ess[{k}] recorded {float(h.ess[k]):.6g}, "
                        f"recomputed from stored population {ess:.6g}")
        if not math.isclose(ratio, float(h.log_norm_ratio[k]), rel_tol=1e-9,
                            abs_tol=1e-12):
            errs.append(f"{tag}: log_norm_ratio[{k}] recorded "
                        f"{float(h.log_norm_ratio[k]):.6g}, recomputed "
                        f"{ratio:.6g}")
    return errs


def main():
    errs = []

    # Control: an uninterrupted run, and a resume from an in-loop checkpoint
    states = []
    s = make(0)
    s.sample(300, checkpoint_callback=lambda st: states.append(pickle.dumps(st)),
             checkpoint_every=2)
    errs += check(s.history, "uninterrupted")
    r = make(1)
    r.sample(300, resume_from=states[0])
    errs += check(r.history, "resumed from in-loop checkpoint")

    # The run hits max_n_steps with beta < 1, was asked for n_final_samples
    s = make(0)
    s.sample(300, min_step=0.001, max_n_steps=3, n_final_samples=600,
             checkpoint_every=1)
    errs += check(s.history, "stopped at max_n_steps")
    assert float(s.history.beta[-1]) < 1.0
    last = s.last_checkpoint_bytes  # what a checkpoint file would hold
    # ... and is continued from its last checkpoint without the step limit
    r = make(1)
    r.sample(300, resume_from=last, n_final_samples=600)
    errs += check(r.history, "continued after max_n_steps + n_final_samples")

    if errs:
        for e in errs:
            print("FAIL", e)
        return 1
    print("PASS")
    return 0


if __name__ == "__main__":
    sys.exit(main())
