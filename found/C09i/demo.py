"""C09i: resampling selects by incremental weight and copies particles intact.

Run as:  PYTHONPATH=<tree>/src /venv/bin/python demo.py
Exits 1 and prints FAIL lines when the property is violated, 0 / PASS otherwise.
"""
import sys
import warnings

import numpy as np

warnings.filterwarnings("ignore")

import torch  # noqa: E402

from aspire.samples import SMCSamples  # noqa: E402
from aspire.utils import to_numpy  # noqa: E402


class SpyGenerator:
    """A numpy Generator that records the probability vector it is given."""

    def __init__(self, seed=0):
        self.g = np.random.default_rng(seed)
        self.p = None
        self.idx = None

    def choice(self, a, size=None, replace=True, p=None):
        self.p = np.array(p, dtype=np.float64)
        self.idx = self.g.choice(a, size=size, replace=replace, p=p)
        return self.idx


def reference_weights(log_l, log_p, log_q, beta0, beta1):
    a = [np.asarray(to_numpy(v), dtype=np.float64) for v in (log_l, log_p, log_q)]
    lw = (beta1 - beta0) * (a[0] + a[1] - a[2])
    w = np.exp(lw - lw.max())
    return w / w.sum()


def check(s, beta, n_samples=None, rtol=1e-5, ref=None):
    """Return a list of violations of C09 for s.resample(beta, n_samples)."""
    spy = SpyGenerator(0)
    out = s.resample(beta, n_samples=n_samples, rng=spy)
    bad = []
    if ref is None:
        ref = reference_weights(
            s.log_likelihood, s.log_prior, s.log_q, float(s.beta), beta
        )
    nz = ref > 0
    err = np.max(np.abs(spy.p[nz] - ref[nz]) / ref[nz])
    if err > rtol or np.any(spy.p[~nz] != 0):
        bad.append(
            f"probabilities given to the generator deviate from the incremental "
            f"weights by a relative {err:.3g}: p={np.round(spy.p, 4)} "
            f"expected={np.round(ref, 4)}"
        )
    for f in ("x", "log_likelihood", "log_prior", "log_q"):
        src = to_numpy(getattr(s, f).detach() if hasattr(getattr(s, f), "detach") else getattr(s, f))
        new = getattr(out, f)
        new = to_numpy(new.detach() if hasattr(new, "detach") else new)
        if not np.array_equal(new, src[spy.idx]):
            bad.append(f"field {f} is not a copy of the drawn source rows")
    if float(out.beta) != float(beta):
        bad.append(f"beta {out.beta} != {beta}")
    if len(out) != (len(s) if n_samples is None else n_samples):
        bad.append(f"size {len(out)}")
    return bad


failures = []

# ---------------------------------------------------------------------------
# 1. torch population whose log-likelihood carries autograd history (what a
#    torch likelihood with an nn.Parameter / nn.Module inside returns).
# ---------------------------------------------------------------------------
r = np.random.default_rng(1)
n = 20
x = torch.tensor(r.normal(size=(n, 2)))
mu = torch.nn.Parameter(torch.ones(2, dtype=torch.float64))  # requires_grad
log_l = -0.5 * torch.sum((x - mu) ** 2, dim=1)  # has grad_fn
s = SMCSamples(
    x=x,
    log_likelihood=log_l,
    log_prior=torch.tensor(r.normal(size=n)),
    log_q=torch.tensor(r.normal(size=n)),
    beta=0.25,
    dtype=torch.float64,
)
try:
    bad = check(s, 0.75)
    for b in bad:
        failures.append("torch population with autograd history: " + b)
except Exception as e:  # noqa: BLE001
    failures.append(
        "torch population whose log_likelihood carries autograd history: "
        f"resample raised {type(e).__name__}: {e}"
    )

# control: the same population detached resamples correctly
s_det = SMCSamples(
    x=x,
    log_likelihood=log_l.detach(),
    log_prior=s.log_prior,
    log_q=s.log_q,
    beta=0.25,
    dtype=torch.float64,
)
for b in check(s_det, 0.75):
    failures.append("control (detached torch population): " + b)

# ---------------------------------------------------------------------------
# 2. float32 population with large log-likelihoods.  All fields are exactly
#    representable in float32 and log_q = log_prior = 0, so the library's own
#    unnormalized_log_weights() are exact; the reference is computed from them.
#    log_weights() then adds log_evidence_ratio (~ the same magnitude) in
#    float32, which halves the resolution and merges distinct weights.
# ---------------------------------------------------------------------------
n = 8
log_l = (-3.0e6 + 0.25 * np.arange(n)).astype(np.float32)
assert np.array_equal(log_l.astype(np.float64), -3.0e6 + 0.25 * np.arange(n))
s32 = SMCSamples(
    x=r.normal(size=(n, 2)).astype(np.float32),
    log_likelihood=log_l,
    log_prior=np.zeros(n, np.float32),
    log_q=np.zeros(n, np.float32),
    beta=0.0,
    dtype="float32",
)
own = np.asarray(s32.unnormalized_log_weights(1.0), dtype=np.float64)
assert np.array_equal(own, log_l.astype(np.float64))  # exact in float32
ref = np.exp(own - own.max())
ref /= ref.sum()
for b in check(s32, 1.0, rtol=1e-3, ref=ref):
    failures.append("float32 population, log L ~ -3e6 (exactly representable): " + b)

# ---------------------------------------------------------------------------
# Controls that behave correctly (a sample of the classes tried)
# ---------------------------------------------------------------------------
import jax.numpy as jnp  # noqa: E402


def make(conv, dtype=None, n=40, d=3, beta=0.25, cut=False):
    g = np.random.default_rng(7)
    ll = g.normal(size=n) * 3
    if cut:
        ll[::3] = -np.inf
    return SMCSamples(
        x=conv(g.normal(size=(n, d))),
        log_likelihood=conv(ll),
        log_prior=conv(g.normal(size=n)),
        log_q=conv(g.normal(size=n)),
        beta=beta,
        dtype=dtype,
    )


controls = {
    "numpy float64": (make(np.asarray), 0.75, None, 1e-10),
    "numpy float64, -inf rows": (make(np.asarray, cut=True), 0.75, None, 1e-10),
    "numpy float32": (make(lambda a: np.asarray(a, np.float32), "float32"), 0.75, None, 1e-4),
    "torch float64": (make(torch.tensor, torch.float64), 0.75, 7, 1e-10),
    "torch float32": (make(torch.tensor), 0.75, 100, 1e-4),
    "jax float32": (make(jnp.asarray), 0.75, None, 1e-4),
    "size 0": (make(np.asarray), 0.75, 0, 1e-10),
    "population of one": (make(np.asarray, n=1), 0.75, 5, 1e-10),
    "numpy scalar beta": (make(np.asarray), np.float64(0.75), None, 1e-10),
    "same beta, new size": (make(np.asarray), 0.25, 11, 1e-10),
}
for name, (pop, beta, size, rtol) in controls.items():
    try:
        for b in check(pop, beta, n_samples=size, rtol=rtol):
            failures.append(f"control {name}: {b}")
    except Exception as e:  # noqa: BLE001
        failures.append(f"control {name}: raised {type(e).__name__}: {e}")

if failures:
    for f in failures:
        print("FAIL", f)
    sys.exit(1)
print("PASS")
sys.exit(0)
