"""C17h demo: prior-before-likelihood on the same points, evaluations counted.

Run as:  PYTHONPATH=<tree>/src /venv/bin/python demo.py

Checks the property on
  A. an SMC kernel target evaluation (SMCSampler.log_prob) when the proposal
     is a *trained ZukoFlow* (the default flow back-end) and the samples live
     in the default numpy namespace  -- no stand-in packages involved;
  B. the same configuration as a full run, sample_posterior("emcee_smc"),
     with a minimal stand-in for the (not installed) emcee package;
  C. a plain-MCMC run (sampler="emcee") in the torch namespace with the
     documented option preconditioning="flow" (zuko back-end);
  D. the likelihood recipe documented in docs/recipes.rst ("skip out-of-prior
     points"), executed verbatim with the importance sampler.
A control run with a stub flow (E) shows the oracle itself passes.
Prints one FAIL line per violation and exits 1; prints PASS and exits 0
otherwise.
"""
import logging
import os
import re
import sys
import types
import warnings

import numpy as np

warnings.filterwarnings("ignore")
logging.disable(logging.CRITICAL)
os.environ.setdefault("OMP_NUM_THREADS", "2")


# --------------------------------------------------------------------------
# tree location (taken from PYTHONPATH / the imported package)
# --------------------------------------------------------------------------
import aspire  # noqa: E402
from aspire import Aspire, Samples  # noqa: E402

SRC = os.path.dirname(os.path.dirname(os.path.abspath(aspire.__file__)))
TREE = os.path.dirname(SRC)


# --------------------------------------------------------------------------
# minimal, correct stand-in for emcee.EnsembleSampler (vectorised random-walk
# Metropolis on two half-ensembles; symmetric proposal)
# --------------------------------------------------------------------------
class _EnsembleSampler:
    def __init__(
        self, nwalkers, ndim, log_prob_fn, args=(), vectorize=False, moves=None
    ):
        assert vectorize
        self.nwalkers, self.ndim = nwalkers, ndim
        self._f = lambda z: np.array(
            [float(v) for v in log_prob_fn(z, *args)], dtype=float
        )
        self._rng = np.random.default_rng(99)
        self._chain, self._acc, self._n = [], np.zeros(nwalkers), 0

    def run_mcmc(self, z0, nsteps, progress=False, **kw):
        x = np.array(z0, dtype=float)
        lp = self._f(x)
        h = self.nwalkers // 2
        for _ in range(nsteps):
            for half in (slice(0, h), slice(h, None)):
                prop = x[half] + 0.5 * self._rng.standard_normal(x[half].shape)
                lp_new = self._f(prop)
                a = np.log(self._rng.uniform(size=len(prop))) < lp_new - lp[half]
                x[half] = np.where(a[:, None], prop, x[half])
                lp[half] = np.where(a, lp_new, lp[half])
                self._acc[half] += a
            self._n += 1
            self._chain.append(x.copy())

    @property
    def acceptance_fraction(self):
        return self._acc / max(self._n, 1)

    def get_autocorr_time(self, quiet=True, discard=0):
        return np.ones(self.ndim)

    def get_chain(self, flat=False, discard=0):
        c = np.stack(self._chain)[discard:]
        return c.reshape(-1, self.ndim) if flat else c


if "emcee" not in sys.modules:
    try:
        import emcee  # noqa: F401
    except ImportError:
        _m = types.ModuleType("emcee")
        _m.EnsembleSampler = _EnsembleSampler
        sys.modules["emcee"] = _m


# --------------------------------------------------------------------------
# the problem and the oracle
# --------------------------------------------------------------------------
def _np(a):
    if hasattr(a, "detach"):
        a = a.detach().cpu().numpy()
    return np.asarray(a, dtype=np.float64)


class Problem:
    """Uniform-box prior with a non-constant density, Gaussian likelihood.

    The likelihood records, for every call, whether the sample set already
    carries the log-prior of exactly the points it is asked to evaluate.
    """

    def __init__(self, dims=2, lo=-5.0, hi=5.0):
        self.dims, self.lo, self.hi = dims, lo, hi
        self.n_points = 0
        self.n_calls = 0
        self.errors = []

    def prior_np(self, x):
        x = _np(x).reshape(len(x), -1)
        inside = np.all((x >= self.lo) & (x <= self.hi), axis=-1)
        val = -0.05 * np.sum(x**2, -1) - self.dims * np.log(self.hi - self.lo)
        return np.where(inside, val, -np.inf)

    def log_prior(self, samples):
        return samples.xp.asarray(self.prior_np(samples.x), dtype=samples.dtype)

    def log_likelihood(self, samples):
        n = samples.x.shape[0]
        self.n_calls += 1
        self.n_points += n
        if samples.log_prior is None:
            self.errors.append("likelihood called without log_prior")
            mask = np.ones(n, bool)
        else:
            got = _np(samples.log_prior)
            want = self.prior_np(samples.x)
            want = want.astype(_np_dtype(samples.x)).astype(np.float64)
            if got.shape != (n,) or not np.array_equal(got, want):
                self.errors.append(
                    "log_prior carried by the sample set is not that of its points"
                )
            mask = np.isfinite(got.reshape(-1)[:n])
        x = _np(samples.x).reshape(n, -1)
        ll = np.where(mask, -0.5 * np.sum((x - 1.0) ** 2, -1), -np.inf)
        return samples.xp.asarray(ll, dtype=samples.dtype)


def _np_dtype(x):
    if hasattr(x, "detach"):
        x = x.detach().cpu().numpy()
    return np.asarray(x).dtype


class StubFlow:
    """Fixed Gaussian proposal; enough for Aspire(flow=...)."""

    def __init__(self, dims, sigma=3.0, seed=0):
        self.dims, self.sigma = dims, sigma
        self.rng = np.random.default_rng(seed)

    def log_prob(self, x):
        x = _np(x)
        return -0.5 * np.sum((x / self.sigma) ** 2, -1) - self.dims * np.log(
            self.sigma * np.sqrt(2 * np.pi)
        )

    def sample_and_log_prob(self, n):
        x = self.sigma * self.rng.standard_normal((n, self.dims))
        return x, self.log_prob(x)


PARAMS = ["a", "b"]
BOUNDS = {p: [-5.0, 5.0] for p in PARAMS}
X0 = np.random.default_rng(0).normal(0.8, 0.9, size=(300, 2)).clip(-4.9, 4.9)


def make_aspire(prob, xp=None, flow=None):
    return Aspire(
        log_likelihood=prob.log_likelihood,
        log_prior=prob.log_prior,
        dims=2,
        parameters=PARAMS,
        prior_bounds=BOUNDS,
        flow_backend="zuko",
        flow=flow,
        xp=xp,
    )


failures = []


def report(tag, prob, asp, exc):
    msgs = []
    if exc is not None:
        msgs.append(f"raised {type(exc).__name__}: {exc}")
    msgs.extend(sorted(set(prob.errors)))
    if exc is None and asp is not None:
        got = asp.n_likelihood_evaluations
        if got != prob.n_points:
            msgs.append(
                f"n_likelihood_evaluations={got} but the likelihood was asked "
                f"for {prob.n_points} points"
            )
    if msgs:
        failures.append(tag)
        print(f"FAIL [{tag}] " + " | ".join(msgs))
    else:
        print(f"ok   [{tag}] calls={prob.n_calls} points={prob.n_points}")


# --------------------------------------------------------------------------
# A. kernel target evaluation with a trained ZukoFlow proposal, numpy samples
# --------------------------------------------------------------------------
def case_A():
    prob = Problem()
    asp = make_aspire(prob)
    asp.fit(Samples(X0, parameters=PARAMS), n_epochs=2)  # xp := numpy
    exc = None
    for sampler_type in ("emcee_smc", "smc"):
        sampler = asp.init_sampler(sampler_type, preconditioning="default")
        z = sampler.fit_preconditioning_transform(X0[:8])
        before = prob.n_points
        try:
            sampler.log_prob(z, beta=0.5)
            if sampler.n_likelihood_evaluations != prob.n_points - before:
                prob.errors.append("kernel evaluation was not counted")
        except Exception as e:  # noqa: BLE001
            exc = e
            break
    report(
        "A kernel target evaluation, trained ZukoFlow proposal, numpy samples",
        prob,
        None,
        exc,
    )


# --------------------------------------------------------------------------
# B. the same as a full run
# --------------------------------------------------------------------------
def case_B():
    prob = Problem()
    asp = make_aspire(prob)
    asp.fit(Samples(X0, parameters=PARAMS), n_epochs=2)
    exc = None
    try:
        asp.sample_posterior(
            n_samples=40,
            sampler="emcee_smc",
            rng=np.random.default_rng(1),
            sampler_kwargs=dict(nsteps=2, progress=False),
        )
    except Exception as e:  # noqa: BLE001
        exc = e
    report(
        "B sample_posterior('emcee_smc'), trained ZukoFlow, numpy samples",
        prob,
        asp,
        exc,
    )


# --------------------------------------------------------------------------
# C. plain MCMC, torch namespace, preconditioning='flow' (zuko)
# --------------------------------------------------------------------------
def case_C():
    import array_api_compat.torch as txp

    prob = Problem()
    asp = make_aspire(prob, xp=txp, flow=StubFlow(2))
    exc = None
    try:
        asp.sample_posterior(
            n_samples=24,
            sampler="emcee",
            nsteps=2,
            preconditioning="flow",
            preconditioning_kwargs=dict(fit_kwargs=dict(n_epochs=2)),
        )
    except Exception as e:  # noqa: BLE001
        exc = e
    report(
        "C sample_posterior('emcee', preconditioning='flow'), torch samples",
        prob,
        asp,
        exc,
    )


# --------------------------------------------------------------------------
# D. the documented recipe (docs/recipes.rst), verbatim
# --------------------------------------------------------------------------
def case_D():
    path = os.path.join(TREE, "docs", "recipes.rst")
    if not os.path.exists(path):
        print("skip [D] docs/recipes.rst not found")
        return
    text = open(path).read()
    m = re.search(
        r"Checking the prior when evaluating the likelihood.*?"
        r"\.\. code-block:: python\n\n(.*?)\n(?=\S)",
        text,
        re.S,
    )
    code = "\n".join(line[4:] for line in m.group(1).splitlines())
    ns = {}
    exec(code, ns)  # defines log_likelihood(samples) as documented
    documented = ns["log_likelihood"]

    prob = Problem()
    calls = {"points": 0}

    def log_likelihood(samples):
        calls["points"] += len(samples.x)
        return documented(samples)

    asp = Aspire(
        log_likelihood=log_likelihood,
        log_prior=lambda s: prob.prior_np(s.x),
        dims=2,
        parameters=PARAMS,
        prior_bounds=BOUNDS,
        flow=StubFlow(2, sigma=4.0),
        xp=np,
    )
    exc = None
    try:
        out = asp.sample_posterior(n_samples=50, sampler="importance")
        outside = ~np.isfinite(np.asarray(out.log_prior))
        if not np.all(np.isneginf(np.asarray(out.log_likelihood)[outside])):
            prob.errors.append("out-of-prior points were not skipped")
    except Exception as e:  # noqa: BLE001
        exc = e
    prob.n_points = calls["points"]
    report(
        "D documented 'skip out-of-prior points' likelihood (docs/recipes.rst)",
        prob,
        asp,
        exc,
    )


# --------------------------------------------------------------------------
# E. control: stub flow, same oracle
# --------------------------------------------------------------------------
def case_E():
    for sampler, kw in (
        ("importance", {}),
        (
            "emcee_smc",
            dict(
                rng=np.random.default_rng(1),
                n_final_samples=50,
                sampler_kwargs=dict(nsteps=2, progress=False),
            ),
        ),
        ("emcee", dict(nsteps=2)),
    ):
        prob = Problem()
        asp = make_aspire(prob, xp=np, flow=StubFlow(2))
        exc = None
        try:
            asp.sample_posterior(n_samples=40, sampler=sampler, **kw)
        except Exception as e:  # noqa: BLE001
            exc = e
        report(f"E control, stub flow, {sampler}", prob, asp, exc)


if __name__ == "__main__":
    for case in (case_A, case_B, case_C, case_D, case_E):
        case()
    if failures:
        print(f"FAIL: {len(failures)} violation(s)")
        sys.exit(1)
    print("PASS")
    sys.exit(0)
