"""C05h: the log-density handed to the SMC / MCMC kernels.

Property: sampler.log_prob(z, beta) ==
    (1-beta) log q(x) + beta (log L(x) + log pi(x)) + log|det dx/dz|,
x the pre-image of z, with L, pi the user's functions and q the proposal.

Run:  PYTHONPATH=<tree>/src /venv/bin/python demo.py
Exits 1 and prints one FAIL line per violation, exits 0 printing PASS otherwise.

Three independent checks
  A. numpy / jax namespace with the library's own default proposal (ZukoFlow):
     log_prob must return numbers, not raise.
  B. user functions that read the parameters by NAME (samples.to_dict()):
     log_prob must hand them the user's parameter names.
  C. logit bounded-to-unbounded preconditioning, float32 and float64:
     the log-Jacobian at moderately large positive z.
"""

import logging
import math
import sys
import warnings

import numpy as np

warnings.filterwarnings("ignore")
logging.disable(logging.CRITICAL)

import array_api_compat.numpy as anp  # noqa: E402

from aspire import Aspire  # noqa: E402
from aspire.samples import Samples  # noqa: E402

failures = []


def fail(msg):
    failures.append(msg)
    print("FAIL", msg)


class GaussianFlow:
    """Correct stand-in proposal: N(0, 3^2 I) in the namespace it is given."""

    def __init__(self, dims, xp, seed=0):
        self.dims, self.xp = dims, xp
        self.rng = np.random.default_rng(seed)

    def log_prob(self, x):
        xp = self.xp
        x = xp.asarray(x)
        return -0.5 * xp.sum((x / 3.0) ** 2, axis=-1) - self.dims * math.log(
            3.0 * math.sqrt(2 * math.pi)
        )

    def sample_and_log_prob(self, n):
        x = self.xp.asarray(self.rng.normal(0.0, 3.0, size=(n, self.dims)))
        return x, self.log_prob(x)


# --------------------------------------------------------------------------
# A. the library's own proposal (zuko flow) with a numpy / jax sampler
# --------------------------------------------------------------------------
def check_A():
    try:
        import torch
        import zuko  # noqa: F401
    except ImportError:
        print("skip A (torch/zuko not importable)")
        return
    torch.set_num_threads(2)
    namespaces = [("numpy", anp)]
    try:
        import jax.numpy as jnp

        namespaces.append(("jax", jnp))
    except ImportError:
        pass

    params = ["x_0", "x_1"]
    bounds = {p: [-10.0, 10.0] for p in params}

    def log_likelihood(s):
        return -0.5 * s.xp.sum((s.x - 1.0) ** 2, axis=-1)

    def log_prior(s):
        xp = s.xp
        inb = xp.all((s.x >= -10) & (s.x <= 10), axis=-1)
        return xp.where(inb, -2 * math.log(20.0), -xp.inf)

    for name, xp in namespaces:
        torch.manual_seed(0)
        a = Aspire(
            log_likelihood=log_likelihood,
            log_prior=log_prior,
            dims=2,
            parameters=params,
            prior_bounds=bounds,
            flow_backend="zuko",
            dtype="float64",
            hidden_features=[8, 8],
        )
        x0 = np.random.default_rng(0).normal(1.0, 1.0, size=(200, 2))
        a.fit(Samples(x0, xp=xp), n_epochs=1)
        sampler = a.init_sampler("smc")  # MiniPCNSMC, default preconditioning
        x = np.array([[0.5, 1.5], [1.0, 0.0], [2.0, 2.0]])
        z = xp.asarray(x)  # default preconditioning = identity here
        beta = 0.5
        with torch.no_grad():
            log_q = a.flow.log_prob(torch.as_tensor(x)).numpy()
        ref = (1 - beta) * log_q + beta * (
            -0.5 * np.sum((x - 1.0) ** 2, axis=-1) - 2 * math.log(20.0)
        )
        try:
            out = np.asarray(sampler.log_prob(z, beta), dtype=float)
        except Exception as e:  # noqa: BLE001
            fail(
                f"A [{name} namespace, ZukoFlow proposal, {type(sampler).__name__}]"
                f" log_prob(z, beta={beta}) raised {type(e).__name__}: {e}"
                f"  (expected {ref})"
            )
            continue
        if not np.allclose(out, ref, rtol=1e-6, atol=1e-6):
            fail(f"A [{name}] log_prob={out} expected {ref}")


# --------------------------------------------------------------------------
# B. user functions that address parameters by name
# --------------------------------------------------------------------------
def check_B():
    def make(params, centres):
        def log_likelihood(s):
            d = s.to_dict(flat=True)
            return sum(-0.5 * (d[p] - c) ** 2 for p, c in zip(params, centres))

        def log_prior(s):
            d = s.to_dict(flat=True)
            ok = np.ones(len(s.x), dtype=bool)
            for p in params:
                ok &= np.abs(d[p]) < 20
            return np.where(ok, -len(params) * math.log(40.0), -np.inf)

        return log_likelihood, log_prior

    cases = [
        ("names ['mass', 'spin']", ["mass", "spin"], [1.0, -2.0]),
        # legal, default-looking names in another order: no exception, the
        # columns are silently exchanged
        ("names ['x_1', 'x_0']", ["x_1", "x_0"], [1.0, -2.0]),
    ]
    z = np.array([[0.3, -1.0], [2.0, 0.5]])
    beta = 0.7
    for label, params, centres in cases:
        ll, lp = make(params, centres)
        for sampler_type in ["smc", "minipcn"]:
            a = Aspire(
                log_likelihood=ll,
                log_prior=lp,
                dims=2,
                parameters=params,
                flow=GaussianFlow(2, anp),
                xp=anp,
            )
            sampler = a.init_sampler(sampler_type, preconditioning="none")
            # the same user functions work on the sampler's own initial
            # particles, which carry the user's names
            init = sampler.draw_initial_samples(4)
            assert init.parameters == params
            good = Samples(z, parameters=params, xp=anp)
            lq = np.asarray(a.flow.log_prob(z))
            if sampler_type == "smc":
                ref = (1 - beta) * lq + beta * (ll(good) + lp(good))
                call = lambda: sampler.log_prob(z, beta)  # noqa: E731
            else:
                ref = ll(good) + lp(good)
                call = lambda: sampler.log_prob(z)  # noqa: E731
            try:
                out = np.asarray(call(), dtype=float)
            except Exception as e:  # noqa: BLE001
                fail(
                    f"B [{label}, {type(sampler).__name__}] log_prob raised "
                    f"{type(e).__name__}: {e} -- the user's L/pi are handed "
                    f"a Samples object without the user's parameter names"
                )
                continue
            if not np.allclose(out, ref, rtol=1e-9, atol=1e-9):
                fail(
                    f"B [{label}, {type(sampler).__name__}] log_prob={out} "
                    f"expected {ref} (columns exchanged: L/pi see names "
                    f"x_0, x_1 instead of {params})"
                )


# --------------------------------------------------------------------------
# C. logit preconditioning: log-Jacobian on the upper side
# --------------------------------------------------------------------------
def check_C():
    params = ["a", "b"]
    lo, hi = -2.0, 5.0
    bounds = {p: [lo, hi] for p in params}

    def log_likelihood(s):
        return -0.5 * s.xp.sum((s.x - 1.0) ** 2, axis=-1)

    def log_prior(s):
        inb = np.all((s.x >= lo) & (s.x <= hi), axis=-1)
        return np.where(inb, -2 * math.log(hi - lo), -np.inf)

    def softplus(t):
        return np.logaddexp(0.0, t)

    for dtype, zs, tol in [
        ("float32", [13.8, 15.0, 17.0], 2e-3),
        ("float64", [37.0], 1e-8),
    ]:
        a = Aspire(
            log_likelihood=log_likelihood,
            log_prior=log_prior,
            dims=2,
            parameters=params,
            prior_bounds=bounds,
            flow=GaussianFlow(2, anp),
            xp=anp,
            dtype=dtype,
        )
        sampler = a.init_sampler(
            "smc",
            preconditioning="default",
            preconditioning_kwargs={"bounded_to_unbounded": True},
        )  # bounded_transform defaults to "logit", no affine step
        rng = np.random.default_rng(0)
        sampler.fit_preconditioning_transform(
            rng.uniform(lo + 0.5, hi - 0.5, size=(20, 2)).astype(dtype)
        )
        beta = 0.5
        for z0 in zs:
            for sign in (+1.0, -1.0):
                z = np.array([[0.0, sign * z0]], dtype=dtype)
                # pre-image as the library computes it (sampler dtype)
                x = np.asarray(
                    sampler.preconditioning_transform.inverse(z)[0], dtype=float
                )
                s = Samples(x, parameters=params, xp=anp, dtype="float64")
                z64 = z.astype(float)
                log_j = np.sum(
                    math.log(hi - lo) - softplus(z64) - softplus(-z64), axis=-1
                )
                ref = (
                    (1 - beta) * np.asarray(a.flow.log_prob(x))
                    + beta * (log_likelihood(s) + log_prior(s))
                    + log_j
                )
                out = np.asarray(sampler.log_prob(z, beta), dtype=float)
                if not np.allclose(out, ref, rtol=tol, atol=tol):
                    fail(
                        f"C [{dtype}, logit, z={z[0].tolist()}] log_prob="
                        f"{out[0]} expected {ref[0]:.6f} (pre-image x="
                        f"{x[0].tolist()}, log prior there="
                        f"{log_prior(s)[0]:.4f}, exact log|det dx/dz|="
                        f"{log_j[0]:.6f})"
                    )


check_A()
check_B()
check_C()

if failures:
    print(f"FAIL: {len(failures)} violation(s) of C05")
    sys.exit(1)
print("PASS")
sys.exit(0)
