"""C18h: the SMC diagnostic history must be a faithful record of the run,
also for runs that were interrupted and resumed.

Run as:  PYTHONPATH=<tree>/src /venv/bin/python demo.py

The SMC loop under test is aspire.samplers.smc.base.SMCSampler.sample (library
code, unmodified).  Only the mutation kernel is a stand-in (plain random-walk
Metropolis on the tempered target), because minipcn/emcee/blackjax are not
installed.  The stand-in appends one mcmc_acceptance entry per call, exactly as
the library's own kernels do.  Control runs (resume from pickled bytes) pass
the same checks, so what fails below is the library's behaviour.
"""
import math
import os
import pickle
import sys
import tempfile
from pathlib import Path

os.environ.setdefault("OMP_NUM_THREADS", "2")

import numpy as np  # noqa: E402

from aspire.samplers.smc.base import SMCSampler  # noqa: E402
from aspire.samples import SMCSamples  # noqa: E402

DIMS = 2
N = 200


class GaussFlow:
    """Stand-in proposal 'flow': N(0, 3^2 I)."""

    def __init__(self, seed):
        self.rng = np.random.default_rng(seed)

    def log_prob(self, x):
        x = np.asarray(x, dtype=np.float64)
        return -0.5 * np.sum((x / 3.0) ** 2, axis=-1) - DIMS * (
            math.log(3.0) + 0.5 * math.log(2 * math.pi)
        )

    def sample_and_log_prob(self, n):
        x = self.rng.normal(size=(n, DIMS)) * 3.0
        return x, self.log_prob(x)


def log_likelihood(samples):
    x = np.asarray(samples.x, dtype=np.float64)
    return -0.5 * np.sum(((x - 1.0) / 0.05) ** 2, axis=-1)


def log_prior(samples):
    x = np.asarray(samples.x, dtype=np.float64)
    inside = np.all(np.abs(x) < 10, axis=-1)
    return np.where(inside, -DIMS * math.log(20.0), -np.inf)


class TransientError(RuntimeError):
    pass


class RWSMC(SMCSampler):
    sampler_kwargs = None  # the concrete samplers set this in sample()
    n_mutate_calls = 0
    crash_at = None  # raise in the crash_at-th mutate call (a failing likelihood)

    def mutate(self, particles, beta, n_steps=None):
        self.n_mutate_calls += 1
        if self.crash_at is not None and self.n_mutate_calls == self.crash_at:
            raise TransientError("simulated transient failure in the likelihood")
        x = np.array(particles.x, dtype=np.float64)
        lp = np.array(self.log_prob(x, beta), dtype=np.float64)
        acc = 0.0
        for _ in range(5):
            prop = x + 0.5 * self.rng.normal(size=x.shape)
            lpp = np.array(self.log_prob(prop, beta), dtype=np.float64)
            a = np.log(self.rng.uniform(size=len(x))) < lpp - lp
            x[a] = prop[a]
            lp[a] = lpp[a]
            acc += a.mean()
        self.history.mcmc_acceptance.append(acc / 5)
        s = SMCSamples(
            x, xp=self.xp, beta=beta, dtype=self.dtype,
            parameters=self.parameters,
        )
        s.log_q = s.array_to_namespace(self.prior_flow.log_prob(s.x))
        s.log_prior = s.array_to_namespace(self.log_prior(s))
        s.log_likelihood = s.array_to_namespace(self.log_likelihood(s))
        return s


def make(seed=1):
    return RWSMC(
        log_likelihood=log_likelihood,
        log_prior=log_prior,
        dims=DIMS,
        prior_flow=GaussFlow(seed),
        xp=np,
        rng=np.random.default_rng(seed + 100),
    )


def _lse(a):
    m = np.max(a)
    return m + math.log(np.sum(np.exp(a - m)))


def check_history(h):
    """The property as stated; returns a list of violations."""
    v = []
    n = len(h.beta)
    for name in ("log_norm_ratio", "log_norm_ratio_var", "beta", "ess",
                 "ess_target", "eff_target", "mcmc_acceptance"):
        ln = len(getattr(h, name))
        if ln != n:
            v.append(f"len({name})={ln} but {n} temperatures recorded")
    sh = h.sample_history
    if len(sh) != n + 1:
        v.append(f"{len(sh)} stored populations for {n} recorded iterations "
                 f"(expected {n + 1})")
    betas = [float(b) for b in h.beta]
    if any(b2 <= b1 for b1, b2 in zip([0.0] + betas, betas)):
        v.append("recorded temperatures are not increasing: "
                 + ", ".join(f"{b:.4g}" for b in betas))
    m = min(n, len(sh) - 1)
    for i in range(m + 1):
        want = 0.0 if i == 0 else betas[i - 1]
        if float(sh[i].beta) != want:
            v.append(f"stored population {i} is at beta={float(sh[i].beta):.4g}"
                     f" but the recorded temperature is {want:.4g}")
            break
    for i in range(m):
        p = sh[i]
        d = (np.asarray(p.log_likelihood, float) + np.asarray(p.log_prior, float)
             - np.asarray(p.log_q, float))
        lw = (betas[i] - float(p.beta)) * d
        ess = math.exp(2 * _lse(lw) - _lse(2 * lw))
        lnr = _lse(lw) - math.log(len(lw))
        if not math.isclose(float(h.ess[i]), ess, rel_tol=1e-8):
            v.append(f"ess[{i}]={float(h.ess[i]):.6g} != {ess:.6g} recomputed "
                     "from the stored populations")
            break
        if not math.isclose(float(h.log_norm_ratio[i]), lnr, rel_tol=1e-8,
                            abs_tol=1e-10):
            v.append(f"log_norm_ratio[{i}]={float(h.log_norm_ratio[i]):.6g} != "
                     f"{lnr:.6g} recomputed from the stored populations")
            break
    return v


failures = []


def fail(tag, msgs):
    for m in msgs:
        print(f"FAIL [{tag}] {m}")
    failures.extend(msgs)


# ---------------------------------------------------------------------------
# Control: uninterrupted run, and resume from every checkpoint given as bytes.
# ---------------------------------------------------------------------------
states = []
s0 = make()
s0.sample(N, checkpoint_callback=states.append)  # checkpoint dicts, every it.
ctrl = check_history(s0.history)
for k, st in enumerate(states):
    s = make(seed=7)
    s.sample(N, resume_from=pickle.dumps(st))
    ctrl += [f"bytes ckpt {k}: {m}" for m in check_history(s.history)]
if ctrl:
    fail("control", ctrl)
else:
    print(f"ok   [control] uninterrupted run ({len(s0.history.beta)} iterations)"
          f" and resume from each of {len(states)} pickled checkpoints")

# ---------------------------------------------------------------------------
# F1a: retry after a transient failure, resuming from the documented
#      `sampler.last_checkpoint_state` (a dict).  The likelihood fails once in
#      the original run and once more in the resumed run before a new
#      checkpoint is due; the user retries from the same checkpoint.
# ---------------------------------------------------------------------------
s = make()
s.crash_at = 3  # fails in iteration 3 -> last checkpoint is iteration 2
try:
    s.sample(N, checkpoint_every=1)
except TransientError:
    pass
ckpt = s.last_checkpoint_state
assert isinstance(ckpt, dict) and ckpt["iteration"] == 2
s.crash_at = s.n_mutate_calls + 2  # resumed run: it. 3 fine, fails in it. 4
try:
    s.sample(N, checkpoint_every=5, resume_from=ckpt)
except TransientError:
    pass
assert s.last_checkpoint_state is ckpt  # no newer checkpoint was emitted
s.crash_at = None
s.sample(N, checkpoint_every=5, resume_from=s.last_checkpoint_state)
v = check_history(s.history)
if v:
    fail("F1a resume twice from last_checkpoint_state (dict)", v)
else:
    print("ok   [F1a]")

# ---------------------------------------------------------------------------
# F1b: a kept checkpoint dict is used to resume two (fresh) samplers.
# ---------------------------------------------------------------------------
ckpt = states[1]  # after iteration 2 of the control run
it0, beta0 = ckpt["iteration"], ckpt["meta"]["beta"]
v = []
for rep in range(2):
    s = make(seed=11 + rep)
    out = s.sample(N, resume_from=ckpt)
    v += [f"resume #{rep + 1}: {m}" for m in check_history(s.history)]
    done = s.n_mutate_calls
    if it0 + done != len(s.history.beta):
        v.append(
            f"resume #{rep + 1}: run started at iteration {it0} "
            f"(beta={beta0:.4g}) and performed {done} iterations, but the "
            f"history records {len(s.history.beta)} iterations ending at "
            f"beta={float(s.history.beta[-1]):.4g}"
        )
    if not np.array_equal(np.asarray(out.x),
                          np.asarray(s.history.sample_history[-1].x)):
        v.append(
            f"resume #{rep + 1}: the returned population is not the last "
            "stored population (it is the checkpoint population at "
            f"beta={beta0:.4g}, returned as the posterior with log_evidence="
            f"{float(out.log_evidence):.3f})"
        )
if v:
    fail("F1b resume twice from the same checkpoint dict", v)
else:
    print("ok   [F1b]")

# ---------------------------------------------------------------------------
# F2: eff_target[i] is not the target efficiency that determined beta[i].
#     determine_beta() solves ESS(beta)/N = target(beta_{i-1}); the loop then
#     records target(beta_i).  With a (low, high) target the recorded series is
#     shifted by one iteration against beta/ess.
# ---------------------------------------------------------------------------
lo, hi = 0.2, 0.9
s = make()
s.sample(300, target_efficiency=(lo, hi))
h = s.history
v = []
prev_beta = 0.0
for i, b in enumerate(h.beta):
    used = lo + (hi - lo) * prev_beta  # target the bisection aimed for
    eff = float(h.ess[i]) / 300
    rec = float(h.eff_target[i])
    if float(b) < 1.0 and abs(eff - used) < 1e-3 and abs(eff - rec) > 1e-3:
        v.append(
            f"iteration {i + 1}: beta={float(b):.4g} was chosen so that "
            f"ESS/N={eff:.4f} meets the target {used:.4f}, but "
            f"eff_target[{i}]={rec:.4f}"
        )
    prev_beta = float(b)
if v:
    fail("F2 eff_target is the next iteration's target", v[-2:])
else:
    print("ok   [F2]")

# ---------------------------------------------------------------------------
# F3: checkpoint_file_path accepts a pathlib.Path, resume_from does not.
# ---------------------------------------------------------------------------
with tempfile.TemporaryDirectory() as d:
    p = Path(d) / "run.h5"
    s = make()
    s.crash_at = 3
    try:
        s.sample(N, checkpoint_every=1, checkpoint_file_path=p)
    except TransientError:
        pass
    s2 = make(seed=5)
    s2.sample(N, resume_from=str(p))
    c = check_history(s2.history)
    if c:
        fail("control (resume from str path)", c)
    s3 = make(seed=5)
    try:
        s3.sample(N, resume_from=p)
        c = check_history(s3.history)
        if c:
            fail("F3", c)
        else:
            print("ok   [F3]")
    except TypeError as e:
        fail("F3 resume_from=pathlib.Path",
             [f"checkpoint written through checkpoint_file_path=Path(...) "
              f"cannot be resumed with the same Path: TypeError: {e}"])

if failures:
    print(f"FAIL ({len(failures)} violations)")
    sys.exit(1)
print("PASS")
sys.exit(0)
