"""C03h demo: the fitted proposal is not a normalised density, and the
log-density returned with the draws is not the log-probability at those draws,
when part of the training set lies ON a declared prior bound.

Run:  PYTHONPATH=<tree>/src /venv/bin/python demo.py

Input class: a bounded parameter a in [0, 1] (logit or probit map to the real
line, affine rescaling on = the only configuration `Aspire` builds), training
samples of which 30 % sit exactly on the upper bound (a posterior railing
against its prior bound; in single precision any a > 1 - 3e-8 rounds there).
Everything else is default: eps=1e-6, float32 unless stated.

Checks (the property as stated):
  P1  every log-density returned by sample_flow()/sample_and_log_prob() is
      finite and equals flow.log_prob at the very same draws;
  P2  exp(flow.log_prob) integrates to one over the support [0, 1]
      (float64 flow, quadrature in u = logit(a) so that the neighbourhood of
      the bounds is resolved);
  P3  the proposal can be sampled before training (Aspire.sample_flow creates
      the flow itself when there is none).
A control run (same code, training set strictly inside the bounds) must pass
P1 and P2, which shows the harness is sound.
"""

import os
import sys
import warnings

os.environ.setdefault("TQDM_DISABLE", "1")
os.environ.setdefault("OMP_NUM_THREADS", "2")
os.environ.setdefault("MKL_NUM_THREADS", "2")
os.environ.setdefault("OPENBLAS_NUM_THREADS", "2")
warnings.filterwarnings("ignore")

import logging  # noqa: E402

import numpy as np  # noqa: E402

logging.disable(logging.CRITICAL)

import jax  # noqa: E402
import torch  # noqa: E402

from aspire import Aspire  # noqa: E402
from aspire.samples import Samples  # noqa: E402

torch.set_num_threads(2)

FAILS = []
TOL_POINT = 1e-3  # float32 round-off on these flows is ~1e-5
TOL_NORM = 1e-3


def fail(msg):
    FAILS.append(msg)
    print("FAIL " + msg)


def tonp(a):
    if isinstance(a, torch.Tensor):
        return a.detach().cpu().numpy()
    return np.asarray(a)


def zeros(s):
    return np.zeros(len(s.x))


def training_set(on_bound):
    rng = np.random.default_rng(0)
    x = rng.beta(2.0, 2.0, size=(2000, 1))
    if on_bound:
        x[:600] = 1.0  # exactly the declared upper bound
    return x


def build(backend, bounded_transform, dtype):
    if backend == "zuko":
        kw = dict(hidden_features=[16, 16], transforms=2, seed=1)
        fit_kw = dict(n_epochs=100, batch_size=500, lr=5e-3)
    else:
        kw = dict(nn_width=16, flow_layers=2, key=jax.random.key(1))
        fit_kw = dict(max_epochs=100, batch_size=500, show_progress=False)
    aspire = Aspire(
        log_likelihood=zeros,
        log_prior=zeros,
        dims=1,
        parameters=["a"],
        prior_bounds={"a": [0.0, 1.0]},
        flow_backend=backend,
        bounded_transform=bounded_transform,
        dtype=dtype,
        **kw,
    )
    return aspire, fit_kw


def pointwise(aspire, label, n=4000):
    """P1: log_q returned with the draws == log_prob at the draws."""
    s = aspire.sample_flow(n)
    x = tonp(s.x)
    log_q = tonp(s.log_q).astype(float)
    log_p = tonp(aspire.flow.log_prob(s.x)).astype(float)
    ok = True
    n_bad = int(np.sum(~np.isfinite(log_q)))
    if n_bad:
        ok = False
        fail(
            f"[{label}] P1 sample_flow returned {n_bad}/{n} non-finite "
            f"log-densities (log_q={log_q[~np.isfinite(log_q)][0]}) at draws "
            f"x={x[~np.isfinite(log_q)][0, 0]!r}; flow.log_prob there is "
            f"{log_p[~np.isfinite(log_q)][0]:.3f}"
        )
    fin = np.isfinite(log_q) & np.isfinite(log_p)
    d = np.abs(log_q - log_p)[fin]
    n_off = int(np.sum(d > TOL_POINT))
    if n_off:
        ok = False
        fail(
            f"[{label}] P1 log_q != log_prob(x) on {n_off}/{n} draws "
            f"(max |difference| = {d.max():.3f} nats)"
        )
    if (x < 0.0).any() or (x > 1.0).any():
        ok = False
        fail(f"[{label}] draws outside the declared bounds")
    if ok:
        print(f"ok   [{label}] P1 log_q == log_prob(x) on all {n} draws")


def normalisation(aspire, label):
    """P2: integral of exp(log_prob) over [0, 1], computed in u = logit(a)."""
    u = np.linspace(-36.0, 36.0, 288001)
    a = 1.0 / (1.0 + np.exp(-u))
    da_du = a * (1.0 / (1.0 + np.exp(u)))
    log_p = tonp(aspire.flow.log_prob(a[:, None])).astype(float)
    integral = float(np.trapezoid(np.exp(log_p) * da_du, u))
    if abs(integral - 1.0) > TOL_NORM:
        fail(
            f"[{label}] P2 exp(log_prob) integrates to {integral:.5f} over "
            f"the support [0, 1], not 1"
        )
    else:
        print(f"ok   [{label}] P2 integral of exp(log_prob) = {integral:.5f}")


def main():
    # P3: before training
    aspire, _ = build("zuko", "logit", "float32")
    try:
        s = aspire.sample_flow(5)
        lp = tonp(aspire.flow.log_prob(s.x))
        if not np.allclose(tonp(s.log_q), lp, atol=TOL_POINT):
            fail("[untrained] P3 log_q != log_prob before training")
        else:
            print("ok   [untrained] P3 sample_flow before training")
    except Exception as e:  # noqa: BLE001
        fail(
            "[untrained] P3 Aspire.sample_flow() before training raised "
            f"{type(e).__name__}: {e}"
        )

    # control: same harness, training set strictly inside the bounds
    aspire, fit_kw = build("zuko", "logit", "float64")
    aspire.fit(Samples(training_set(False), parameters=["a"]), **fit_kw)
    pointwise(aspire, "control zuko logit float64, interior data")
    normalisation(aspire, "control zuko logit float64, interior data")

    # single precision (the default dtype of both back-ends), P1
    for backend in ["zuko", "flowjax"]:
        aspire, fit_kw = build(backend, "logit", "float32")
        aspire.fit(Samples(training_set(True), parameters=["a"]), **fit_kw)
        pointwise(aspire, f"{backend} logit float32, 30% of data on bound")

    # double precision, P1 and P2
    for bt in ["logit", "probit"]:
        aspire, fit_kw = build("zuko", bt, "float64")
        aspire.fit(Samples(training_set(True), parameters=["a"]), **fit_kw)
        pointwise(aspire, f"zuko {bt} float64, 30% of data on bound")
        normalisation(aspire, f"zuko {bt} float64, 30% of data on bound")

    if FAILS:
        print(f"FAIL ({len(FAILS)} violations)")
        return 1
    print("PASS")
    return 0


if __name__ == "__main__":
    sys.exit(main())
