"""C07h: adaptive temperature steps meet the ESS target and are maximal.

Run as:  PYTHONPATH=<tree>/src /venv/bin/python demo.py

Every check builds a population of (log L, log pi, log q) values, lets the
library choose the next temperature (SMCSampler.determine_beta, or a complete
SMCSampler.sample run with a no-move mutation kernel) and compares with an
oracle that evaluates ESS(beta)/N in float64 on exactly the values stored in
the population:

    meets target : eff(beta - slack) >= target
    maximal      : beta == 1  or  eff(beta + slack) < target

with slack = 10 * beta_tolerance (ESS is monotone decreasing in beta, so this
is "the largest beta, within the tolerance, whose ESS is at least the target").
"""

import signal
import sys

import numpy as np

from aspire.samplers.smc.base import SMCSampler
from aspire.samples import SMCSamples

TOL = 1e-6
failures = []


def fail(msg):
    failures.append(msg)
    print("FAIL " + msg, flush=True)


# ----------------------------------------------------------------- oracle
def true_eff(ll, lp, lq, b0, b):
    """ESS/N of the incremental weights, float64, max-shifted, from the
    stored values (whatever their dtype)."""
    d = (
        np.asarray(ll, dtype=np.float64)
        + np.asarray(lp, dtype=np.float64)
        - np.asarray(lq, dtype=np.float64)
    )
    lw = (b - b0) * d
    w = np.exp(lw - lw.max())
    return w.sum() ** 2 / (w**2).sum() / len(d)


def verdict(ll, lp, lq, b0, b, target, tol=TOL):
    slack = 10 * tol
    lo = true_eff(ll, lp, lq, b0, max(b - slack, b0))
    here = true_eff(ll, lp, lq, b0, b)
    hi = None if b >= 1.0 else true_eff(ll, lp, lq, b0, min(b + slack, 1.0))
    meets = lo >= target - 1e-12
    maximal = b >= 1.0 or hi < target
    return meets, maximal, here, lo, hi


def oracle_beta(ll, lp, lq, b0, target):
    if true_eff(ll, lp, lq, b0, 1.0) >= target:
        return 1.0
    lo, hi = b0, 1.0
    while hi - lo > 1e-10:
        mid = 0.5 * (lo + hi)
        if true_eff(ll, lp, lq, b0, mid) >= target:
            lo = mid
        else:
            hi = mid
    return lo


# ------------------------------------------------------------- stand-ins
class NoMoveSMC(SMCSampler):
    """SMC with the identity Markov kernel (leaves every target invariant)."""

    sampler_kwargs = None

    def mutate(self, particles, beta, n_steps=None):
        return SMCSamples(
            x=particles.x,
            log_likelihood=particles.log_likelihood,
            log_prior=particles.log_prior,
            log_q=particles.log_q,
            beta=beta,
            xp=self.xp,
            dtype=self.dtype,
            parameters=self.parameters,
        )


def bare_sampler(dtype=None, target=0.5):
    s = NoMoveSMC(None, None, 1, None, xp=np, dtype=dtype)
    s.adaptive = True
    s.adaptive_min_step = False
    s.target_efficiency_rate = 1.0
    s.target_efficiency = target
    return s


def population(ll, lp, lq, b0, dtype=None):
    return SMCSamples(
        x=np.zeros((len(ll), 1)),
        log_likelihood=ll,
        log_prior=lp,
        log_q=lq,
        beta=b0,
        xp=np,
        dtype=dtype,
    )


# ------------------------------------------------------------------------
# 1. float32 population whose log-likelihood has a large common offset
#    (unnormalised likelihood, log L ~ -1e6 +- 5).  Every stored value is an
#    ordinary float32; the same numbers in float64 are handled correctly.
# ------------------------------------------------------------------------
def check_float32_offset():
    rng = np.random.default_rng(0)
    n = 1000
    ll = (rng.normal(size=n) * 5 - 1e6).astype(np.float32)
    lp = np.zeros(n, dtype=np.float32)
    lq = rng.normal(size=n).astype(np.float32)
    target = 0.5

    # control: the same stored numbers as a float64 population
    s64 = bare_sampler(None, target)
    p64 = population(ll.astype(np.float64), lp.astype(np.float64), lq.astype(np.float64), 0.0)
    b64, _ = s64.determine_beta(p64, 0.0, np.nan, 0.0, beta_tolerance=TOL)
    m, x, *_ = verdict(p64.log_likelihood, p64.log_prior, p64.log_q, 0.0, b64, target)
    if not (m and x):
        fail(f"[float64 control] beta={b64!r} meets={m} maximal={x}")

    s32 = bare_sampler("float32", target)
    p32 = population(ll, lp, lq, 0.0, dtype="float32")
    assert p32.log_likelihood.dtype == np.float32
    b32, _ = s32.determine_beta(p32, 0.0, np.nan, 0.0, beta_tolerance=TOL)
    m, x, here, lo, hi = verdict(p32.log_likelihood, p32.log_prior, p32.log_q, 0.0, b32, target)
    bstar = oracle_beta(p32.log_likelihood, p32.log_prior, p32.log_q, 0.0, target)
    if not (m and x):
        fail(
            "[float32, log L ~ -1e6] determine_beta chose beta=%r but the largest beta "
            "meeting the target is %.7f (|diff| = %.1e = %.0f x beta_tolerance); meets target: %s, "
            "maximal: %s; true ESS/N at the chosen beta = %.5f, at beta-10*tol = %.5f, at "
            "beta+10*tol = %s, target %.2f (float64 control on the same numbers chose %.7f)"
            % (b32, bstar, abs(b32 - bstar), abs(b32 - bstar) / TOL, m, x, here, lo, hi, target, b64)
        )


# the same thing observed through a complete run: history.beta / history.ess /
# the population stored before each step
class FixedFlow:
    def __init__(self, x, log_q):
        self.x, self.log_q = x, log_q

    def sample_and_log_prob(self, n):
        return self.x[:n], self.log_q[:n]

    def log_prob(self, x):
        raise NotImplementedError


def check_float32_offset_full_run():
    rng = np.random.default_rng(0)
    n = 1000
    x = rng.normal(size=(n, 1)).astype(np.float32)
    log_q = (-0.5 * x[:, 0] ** 2 - 0.5 * np.log(2 * np.pi)).astype(np.float32)

    def log_likelihood(s):
        # unnormalised likelihood: a linear tilt plus a large constant
        return (np.float32(5.0) * s.x[:, 0] - np.float32(1e6)).astype(np.float32)

    def log_prior(s):
        return np.zeros(len(s.x), dtype=np.float32)

    smc = NoMoveSMC(
        log_likelihood, log_prior, 1, FixedFlow(x, log_q), xp=np,
        dtype="float32", rng=np.random.default_rng(1),
    )
    smc.sample(n, adaptive=True, target_efficiency=0.5, beta_tolerance=TOL)
    h = smc.history
    b0 = 0.0
    for t, b in enumerate(h.beta):
        p = h.sample_history[t]
        assert p.log_likelihood.dtype == np.float32 and p.beta == b0
        m, xmal, here, lo, hi = verdict(p.log_likelihood, p.log_prior, p.log_q, b0, b, 0.5)
        if not (m and xmal):
            bstar = oracle_beta(p.log_likelihood, p.log_prior, p.log_q, b0, 0.5)
            fail(
                "[float32 full run, step %d] history.beta=%r from beta=%r; largest beta meeting "
                "the target on the stored population is %.7f (|diff| = %.0f x beta_tolerance); "
                "meets target: %s, maximal: %s; true ESS/N at history.beta = %.5f, "
                "recorded history.ess/N = %.5f"
                % (t, b, b0, bstar, abs(b - bstar) / TOL, m, xmal, here, float(h.ess[t]) / len(p.x))
            )
            break
        b0 = b


# ------------------------------------------------------------------------
# 2. exact tie: half of the population has zero weight (log L = -inf, e.g. a
#    hard-constraint likelihood), the other half equal weights.  ESS = N/2 for
#    every beta > beta_prev, i.e. exactly the target 0.5: the full step meets
#    the target and beta must be 1.
# ------------------------------------------------------------------------
def check_exact_tie():
    n, k = 1000, 500
    ll = np.r_[np.zeros(k), np.full(n - k, -np.inf)]
    lp = np.zeros(n)
    lq = np.zeros(n)
    s = bare_sampler(None, 0.5)
    p = population(ll, lp, lq, 0.0)
    b, _ = s.determine_beta(p, 0.0, np.nan, 0.0, beta_tolerance=TOL)
    m, x, here, lo, hi = verdict(ll, lp, lq, 0.0, b, 0.5)
    if not (m and x):
        fail(
            "[tie: 500 of 1000 rows with log L = -inf, others equal] ESS/N is exactly 0.5 = target "
            "for every beta (true ESS/N at beta=1: %.17g) so the step must be 1.0, but "
            "determine_beta returned %r (a run needs ~1e6 iterations instead of 1)"
            % (true_eff(ll, lp, lq, 0.0, 1.0), b)
        )


# ------------------------------------------------------------------------
# 3. scalar target efficiency given as a NumPy float32 / 0-d array
# ------------------------------------------------------------------------
def check_scalar_target_types():
    rng = np.random.default_rng(2)
    n = 200
    ll, lp, lq = rng.normal(size=n) * 5, np.zeros(n), rng.normal(size=n)
    for label, value in [
        ("np.float32(0.5)", np.float32(0.5)),
        ("np.array(0.5)", np.array(0.5)),
    ]:
        try:
            s = bare_sampler(None, value)
            b, _ = s.determine_beta(population(ll, lp, lq, 0.0), 0.0, np.nan, 0.0)
            m, x, *_ = verdict(ll, lp, lq, 0.0, b, 0.5)
            if not (m and x):
                fail(f"[target_efficiency={label}] beta={b!r} meets={m} maximal={x}")
        except Exception as e:  # noqa: BLE001
            fail(
                f"[target_efficiency={label}] scalar target in (0, 1) rejected with "
                f"{type(e).__name__}: {e} (np.float64(0.5) and 0.5 are accepted)"
            )


# ------------------------------------------------------------------------
# 4. tolerance below the spacing of doubles in [0.5, 1): bisection never ends
# ------------------------------------------------------------------------
def check_tiny_tolerance():
    rng = np.random.default_rng(3)
    n = 200
    ll, lp, lq = rng.normal(size=n) * 20, np.zeros(n), rng.normal(size=n)
    s = bare_sampler(None, 0.5)
    p = population(ll, lp, lq, 0.5)

    class _Timeout(Exception):
        pass

    def handler(*_):
        raise _Timeout

    old = signal.signal(signal.SIGALRM, handler)
    signal.alarm(5)
    try:
        b, _ = s.determine_beta(p, 0.5, np.nan, 0.0, beta_tolerance=1e-16)
        m, x, *_ = verdict(ll, lp, lq, 0.5, b, 0.5, tol=1e-16)
        if not (m and x):
            fail(f"[beta_tolerance=1e-16] beta={b!r} meets={m} maximal={x}")
    except _Timeout:
        fail(
            "[beta_tolerance=1e-16, beta_prev=0.5] determine_beta did not return within 5 s: "
            "the bracket cannot get narrower than one ulp (1.1e-16) so "
            "'while beta_max - beta_min > beta_tolerance' never ends (same for beta_tolerance=0)"
        )
    finally:
        signal.alarm(0)
        signal.signal(signal.SIGALRM, old)


if __name__ == "__main__":
    np.seterr(all="ignore")
    check_float32_offset()
    check_float32_offset_full_run()
    check_exact_tie()
    check_scalar_target_types()
    check_tiny_tolerance()
    if failures:
        print(f"FAIL ({len(failures)} violation(s))")
        sys.exit(1)
    print("PASS")
    sys.exit(0)
