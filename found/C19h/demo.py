"""C19: temporary overrides must be fully restored on every exit path, at any
nesting depth.

Violation: a PoolHandler (the object returned by Aspire.enable_pool) that is
entered again while it is already active -- nesting depth 2 of the pool context
using the same context-manager object -- overwrites its saved "original"
callables with the already-swapped partials.  After the outermost exit the
instance's log_likelihood / log_prior are still the pool-bound partials, and
(with the default close_pool=True) they point at a closed pool.

Run:  PYTHONPATH=<tree>/src /venv/bin/python demo.py
"""
import sys
from multiprocessing.pool import ThreadPool  # a multiprocessing.pool.Pool subclass

import numpy as np

from aspire import Aspire
from aspire.samples import Samples


def _one(x):
    return -0.5 * float(np.sum(x**2))


def log_likelihood(samples, map_fn=map):
    return np.fromiter(map_fn(_one, np.asarray(samples.x)), dtype=float)


def log_prior(samples, map_fn=map):
    return np.fromiter(map_fn(_one, np.asarray(samples.x)), dtype=float)


def make():
    return Aspire(
        log_likelihood=log_likelihood,
        log_prior=log_prior,
        dims=2,
        parameters=["a", "b"],
    )


failures = []


def check(label, aspire, before):
    ll0, lp0, ck0 = before
    ck1 = getattr(aspire, "_checkpoint_defaults", "<absent>")
    bad = []
    if aspire.log_likelihood is not ll0:
        bad.append(f"log_likelihood is {aspire.log_likelihood!r}, was {ll0!r}")
    if aspire.log_prior is not lp0:
        bad.append(f"log_prior is {aspire.log_prior!r}, was {lp0!r}")
    if ck1 is not ck0 and ck1 != ck0:
        bad.append(f"_checkpoint_defaults is {ck1!r}, was {ck0!r}")
    if bad:
        failures.append(f"{label}: " + "; ".join(bad))


def snapshot(aspire):
    return (
        aspire.log_likelihood,
        aspire.log_prior,
        getattr(aspire, "_checkpoint_defaults", "<absent>"),
    )


# --- control: nesting with two distinct handlers is restored (passes) -------
pool = ThreadPool(2)
a = make()
s0 = snapshot(a)
try:
    with a.auto_checkpoint("unused.h5"):
        with a.enable_pool(pool, close_pool=False, parallelize_prior=True):
            with a.enable_pool(pool, close_pool=False):
                raise KeyboardInterrupt
except KeyboardInterrupt:
    pass
check("control: distinct handlers nested, BaseException exit", a, s0)

# --- 1. same handler nested to depth 2, normal exit --------------------------
a = make()
s0 = snapshot(a)
handler = a.enable_pool(pool, close_pool=False, parallelize_prior=True)
with a.auto_checkpoint("unused.h5"):
    with handler:
        with handler:
            pass
check("same handler nested (depth 2), normal exit", a, s0)

# --- 2. same handler nested to depth 2, exception exit -----------------------
a = make()
s0 = snapshot(a)
handler = a.enable_pool(pool, close_pool=False)
try:
    with handler:
        with handler:
            raise RuntimeError("injected")
except RuntimeError:
    pass
check("same handler nested (depth 2), exception exit", a, s0)

# --- 3. consequence with the default close_pool=True -------------------------
a = make()
s0 = snapshot(a)
handler = a.enable_pool(pool)  # close_pool=True: pool is closed on exit
with handler:
    with handler:
        pass
check("same handler nested (depth 2), close_pool=True", a, s0)
x = Samples(np.zeros((3, 2)), parameters=["a", "b"])
try:
    a.log_likelihood(x)
except ValueError as exc:  # "Pool not running"
    failures.append(
        "after leaving every context the instance's likelihood still maps "
        f"over the closed pool: ValueError({exc})"
    )

if failures:
    for f in failures:
        print("FAIL", f)
    sys.exit(1)
print("PASS")
sys.exit(0)
