"""C05i: the target handed to the kernels (sampler.log_prob) on legitimate inputs.

Run as: PYTHONPATH=<tree>/src /venv/bin/python demo.py

Three checks of the property "log_prob(z, beta) = (1-beta) log q(x) + beta (log L(x) +
log pi(x)) + log|det dx/dz|; a zero-prior point gets -inf":

 A. SMC kernels (SMCSampler.log_prob: MiniPCNSMC / EmceeSMC), xp = numpy, the user's
    likelihood is implemented with torch and returns a torch tensor.
 B. plain MCMC kernels (MCMCSampler.log_prob: Emcee / MiniPCN), xp = torch, the user's
    likelihood and prior return NumPy arrays (the pattern of docs/multiprocessing.rst).
 C. plain MCMC, zero-prior point at which the likelihood is undefined (NaN).

In A and B the same functions are accepted everywhere else the library evaluates them
(draw_initial_samples, the re-evaluation at the end of mutate, BlackJAXSMC.log_prob):
their output is brought to the samples' namespace with array_to_namespace. Only the
log_prob that the kernel calls adds the raw outputs.
"""

import math
import sys
import warnings

warnings.filterwarnings("ignore")

import numpy as np  # noqa: E402
import torch  # noqa: E402

import array_api_compat.numpy as nxp  # noqa: E402
import array_api_compat.torch as txp  # noqa: E402

from aspire.samplers.mcmc import MCMCSampler  # noqa: E402
from aspire.samplers.smc.base import SMCSampler  # noqa: E402
from aspire.samplers.smc.blackjax import BlackJAXSMC  # noqa: E402

DIMS = 2
BETA = 0.37
PARAMS = ["a", "b"]
failures = []


def make_flow(xp):
    """Stand-in proposal N(0.5, 1) living in the sampler's namespace."""

    class GaussianFlow:
        def log_prob(self, x):
            x = np.asarray(x, dtype=float)
            lq = -0.5 * np.sum((x - 0.5) ** 2, axis=-1) - 0.5 * DIMS * math.log(
                2 * math.pi
            )
            return xp.asarray(lq)

        def sample_and_log_prob(self, n):
            x = np.random.default_rng(1).normal(0.5, 1.0, size=(n, DIMS))
            return xp.asarray(x), self.log_prob(x)

    return GaussianFlow()


def ref_log_q(x):
    return -0.5 * np.sum((x - 0.5) ** 2, axis=-1) - 0.5 * DIMS * math.log(
        2 * math.pi
    )


def ref_log_l(x):
    return -0.5 * np.sum((x - 0.3) ** 2 / 0.25, axis=-1)


def ref_log_pi(x):
    return np.where(np.all(np.abs(x) < 10.0, axis=-1), 0.0, -np.inf)


def check(label, sampler_cls, xp, log_l, log_pi, smc):
    sampler = sampler_cls(
        log_likelihood=log_l,
        log_prior=log_pi,
        dims=DIMS,
        prior_flow=make_flow(xp),
        xp=xp,
        parameters=PARAMS,
    )
    # The library itself accepts these functions when it draws the particles
    init = sampler.draw_initial_samples(16)
    z = sampler.fit_preconditioning_transform(init.x)  # identity: z = x
    x = np.asarray(init.x, dtype=float)
    if smc:
        expected = (1 - BETA) * ref_log_q(x) + BETA * (
            ref_log_l(x) + ref_log_pi(x)
        )
    else:
        expected = ref_log_l(x) + ref_log_pi(x)
    try:
        got = sampler.log_prob(z, BETA) if smc else sampler.log_prob(z)
        got = np.asarray(got, dtype=float)
    except Exception as exc:  # noqa: BLE001
        failures.append(
            f"{label}: draw_initial_samples accepted L and pi, but the kernel's "
            f"log_prob raised {type(exc).__name__}: {str(exc)[:90]}"
        )
        return
    if got.shape != expected.shape or not np.allclose(got, expected, atol=1e-4):
        failures.append(f"{label}: log_prob {got[:3]} != expected {expected[:3]}")


# ---------------------------------------------------------------- A
def log_l_torch(samples):
    """A likelihood written with torch (e.g. a torch model): returns a tensor."""
    x = torch.as_tensor(np.asarray(samples.x), dtype=torch.float64)
    return -0.5 * torch.sum((x - 0.3) ** 2 / 0.25, dim=-1)


def log_pi_numpy(samples):
    x = np.asarray(samples.x)
    return np.where(np.all(np.abs(x) < 10.0, axis=-1), 0.0, -np.inf)


# control: the BlackJAX SMC class converts the outputs and is right on this input
check("A0 control BlackJAXSMC.log_prob xp=numpy, L->torch", BlackJAXSMC, nxp,
      log_l_torch, log_pi_numpy, smc=True)
n_control = len(failures)
check("A  SMCSampler.log_prob (smc / emcee_smc kernels) xp=numpy, L->torch tensor",
      SMCSampler, nxp, log_l_torch, log_pi_numpy, smc=True)


# ---------------------------------------------------------------- B
def log_l_numpy(samples):
    """docs/multiprocessing.rst pattern: always a NumPy array."""
    x = np.asarray(samples.x, dtype=float)
    return np.fromiter((-0.5 * np.sum((xi - 0.3) ** 2 / 0.25) for xi in x), dtype=float)


check("B0 control SMCSampler.log_prob xp=torch, L,pi->numpy", SMCSampler, txp,
      log_l_numpy, log_pi_numpy, smc=True)
check("B  MCMCSampler.log_prob (emcee / minipcn kernels) xp=torch, L,pi->NumPy arrays",
      MCMCSampler, txp, log_l_numpy, log_pi_numpy, smc=False)


# ---------------------------------------------------------------- C
def log_pi_positive(samples):
    """Prior support: a > 0 (and |x| < 10)."""
    x = samples.x
    ok = (x[:, 0] > 0) & np.all(np.abs(x) < 10.0, axis=-1)
    return np.where(ok, 0.0, -np.inf)


def log_l_scale(samples):
    """Gaussian with scale a: undefined (NaN) for a < 0, i.e. outside the prior."""
    x = samples.x
    return -np.log(x[:, 0]) - 0.5 * (x[:, 1] / x[:, 0]) ** 2


z_c = np.array([[1.0, 0.2], [-0.5, 0.2]])  # second row: zero prior
for label, cls, smc in [
    ("C0 control SMCSampler.log_prob zero-prior row", SMCSampler, True),
    ("C  MCMCSampler.log_prob zero-prior row (likelihood undefined there)",
     MCMCSampler, False),
]:
    s = cls(log_likelihood=log_l_scale, log_prior=log_pi_positive, dims=DIMS,
            prior_flow=make_flow(nxp), xp=nxp, parameters=PARAMS)
    s.fit_preconditioning_transform(z_c)
    lp = np.asarray(s.log_prob(z_c, BETA) if smc else s.log_prob(z_c), dtype=float)
    if not np.isfinite(lp[0]):
        failures.append(f"{label}: in-support row not finite: {lp}")
    if not (np.isinf(lp[1]) and lp[1] < 0):
        failures.append(
            f"{label}: zero-prior point got log-density {lp[1]} instead of -inf "
            "(emcee raises 'Probability function returned NaN' on it)"
        )

if failures:
    for f in failures:
        print("FAIL", f)
    sys.exit(1)
print("PASS")
sys.exit(0)
