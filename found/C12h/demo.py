"""C12h demo: checkpoint cadence / file completeness through Aspire.sample_posterior.

Run as:  PYTHONPATH=<tree>/src /venv/bin/python demo.py

Checks (black box: only the HDF5 file and the user callback are observed):

 1. `with aspire.auto_checkpoint(path): aspire.sample_posterior(checkpoint_every=3)`
    must write checkpoints at iterations 3, 6, 9 (+ the forced final one).
 2. `Aspire.resume_from_file(path).sample_posterior(checkpoint_every=3)` (resume of an
    interrupted run) must continue with the requested cadence 3.
 3. `sample_posterior(checkpoint_callback=cb, checkpoint_every=3)` must call cb at 3, 6, 9
    (+ final).  (same root cause as 1 and 2, no file involved)
 4. A run with an explicit `checkpoint_path=B` made inside
    `with aspire.auto_checkpoint(A)` after an earlier run in that context, interrupted by
    an exception in the likelihood, must leave configuration + flow + checkpoint in B and
    B must load with Aspire.resume_from_file.

Stand-ins: minipcn / orng are not installed, so tiny correct replacements (a random-walk
Metropolis kernel and a numpy Generator wrapper) are put in sys.modules; the SMC loop,
the checkpoint code and the Aspire front end are the library's own.  The zuko flow's
log_prob returns tensors that require grad, which the numpy SMC path cannot convert, so
autograd is switched off after the fit (unrelated to the property checked here).
"""

import logging
import os
import pickle
import sys
import tempfile
import types

import numpy as np

os.environ.setdefault("OMP_NUM_THREADS", "2")
os.environ.setdefault("MKL_NUM_THREADS", "2")


# --------------------------------------------------------------------------
# stand-ins for the uninstalled third-party packages
# --------------------------------------------------------------------------
class _Hist:
    def __init__(self, acc):
        self.acceptance_rate = acc


class _RWSampler:
    """Random-walk Metropolis with the call signature of minipcn.Sampler."""

    def __init__(
        self, log_prob_fn, step_fn, rng, dims, target_acceptance_rate, xp
    ):
        self.log_prob_fn = log_prob_fn
        self.rng = rng
        self.xp = xp

    def sample(self, z, n_steps):
        xp = self.xp
        z = xp.asarray(z)
        lp = self.log_prob_fn(z)
        chain, acc = [], []
        for _ in range(n_steps):
            step = self.rng.normal(size=tuple(z.shape)) * 0.3
            u = np.log(self.rng.uniform(size=z.shape[0]))
            zn = z + xp.asarray(step, dtype=z.dtype)
            lpn = self.log_prob_fn(zn)
            accept = (lpn - lp) > xp.asarray(u, dtype=lp.dtype)
            z = xp.where(accept[:, None], zn, z)
            lp = xp.where(accept, lpn, lp)
            chain.append(z)
            acc.append(float(np.mean(np.asarray(accept))))
        return chain, _Hist(np.array(acc))


_m = types.ModuleType("minipcn")
_m.Sampler = _RWSampler
_o = types.ModuleType("orng")


class _ArrayRNG:
    def __init__(self, backend=None, seed=0):
        self._g = np.random.default_rng(seed)

    def __getattr__(self, k):
        return getattr(self._g, k)


_o.ArrayRNG = _ArrayRNG
sys.modules.setdefault("minipcn", _m)
sys.modules.setdefault("orng", _o)

import array_api_compat.numpy as xnp  # noqa: E402
import h5py  # noqa: E402
import torch  # noqa: E402

from aspire import Aspire  # noqa: E402
from aspire.samples import Samples  # noqa: E402

logging.disable(logging.CRITICAL)


class Crash(Exception):
    pass


class Problem:
    """Toy likelihood/prior with a call counter, a crash hook and a file probe."""

    def __init__(self):
        self.n = 0
        self.crash_at = None
        self.watch = None  # path of the checkpoint file to poll
        self.seen = []  # distinct checkpoint iterations seen in the file

    def poll(self):
        if self.watch is None or not os.path.exists(self.watch):
            return
        with h5py.File(self.watch, "r") as f:
            if "checkpoint" not in f or "state" not in f["checkpoint"]:
                return
            blob = f["checkpoint"]["state"][...].tobytes()
        it = pickle.loads(blob)["iteration"]
        if not self.seen or self.seen[-1] != it:
            self.seen.append(it)

    def tick(self):
        self.poll()
        if self.crash_at is not None and self.n == self.crash_at:
            self.n += 1
            raise Crash(f"injected at likelihood/prior call {self.n - 1}")
        self.n += 1

    def log_likelihood(self, s):
        self.tick()
        return -0.5 * ((s.x - 1.0) ** 2).sum(-1) / 0.25

    def log_prior(self, s):
        self.tick()
        return -0.5 * (s.x**2).sum(-1) / 9.0


DIMS = 2
N_ITER = 9
RUN = dict(
    n_samples=30,
    sampler="smc",
    adaptive=False,
    n_steps=N_ITER,
)


def run_kwargs(seed):
    return dict(
        RUN,
        rng=np.random.default_rng(seed),
        sampler_kwargs={"n_steps": 2},
    )


def build(problem, flow=None):
    return Aspire(
        log_likelihood=problem.log_likelihood,
        log_prior=problem.log_prior,
        dims=DIMS,
        parameters=["a", "b"],
        flow_backend="zuko",
        hidden_features=[8, 8],
        transforms=2,
        xp=xnp,
        flow=flow,
    )


def expected_iterations(every, first=1, last=N_ITER):
    return [i for i in range(first, last + 1) if i % every == 0]


def main():
    tmp = tempfile.mkdtemp(prefix="c12h_")
    failures = []

    # one small fitted flow shared by all runs
    p0 = Problem()
    a0 = build(p0)
    train = Samples(
        np.random.default_rng(0).normal(0.0, 1.5, size=(200, DIMS)), xp=xnp
    )
    torch.manual_seed(0)
    a0.fit(train, n_epochs=1)
    torch.set_grad_enabled(False)
    flow = a0.flow

    # --- control: explicit path + cadence 3 is honoured -------------------
    prob = Problem()
    a = build(prob, flow)
    path = os.path.join(tmp, "control.h5")
    prob.watch = path
    torch.manual_seed(1)
    a.sample_posterior(
        checkpoint_path=path, checkpoint_every=3, **run_kwargs(1)
    )
    prob.poll()
    if prob.seen != expected_iterations(3):
        failures.append(
            f"control: checkpoint_path + checkpoint_every=3 wrote at {prob.seen}"
        )

    # --- 1. auto_checkpoint context + explicit checkpoint_every=3 ---------
    prob = Problem()
    a = build(prob, flow)
    path = os.path.join(tmp, "ctx.h5")
    prob.watch = path
    torch.manual_seed(1)
    with a.auto_checkpoint(path):
        a.sample_posterior(checkpoint_every=3, **run_kwargs(1))
    prob.poll()
    if prob.seen != expected_iterations(3):
        failures.append(
            "1. auto_checkpoint(path) + sample_posterior(checkpoint_every=3): "
            f"checkpoints written at iterations {prob.seen}, "
            f"requested cadence gives {expected_iterations(3)}"
        )

    # --- 2. interrupted run, resumed with checkpoint_every=3 --------------
    prob = Problem()
    a = build(prob, flow)
    path = os.path.join(tmp, "resume.h5")
    prob.crash_at = 20  # inside iteration 3; checkpoints of it. 1, 2 exist
    torch.manual_seed(1)
    try:
        a.sample_posterior(
            checkpoint_path=path, checkpoint_every=1, **run_kwargs(1)
        )
        failures.append("2. the injected exception did not surface")
    except Crash:
        pass
    prob2 = Problem()
    resumed = Aspire.resume_from_file(
        path,
        log_likelihood=prob2.log_likelihood,
        log_prior=prob2.log_prior,
    )
    prob2.watch = path
    prob2.poll()
    start = prob2.seen[-1]
    prob2.seen = []
    kw = run_kwargs(1)
    kw.pop("n_samples")
    resumed.sample_posterior(checkpoint_every=3, **kw)
    prob2.poll()
    want = expected_iterations(3, first=start + 1)
    got = [i for i in prob2.seen if i != start]
    if got != want:
        failures.append(
            f"2. resume_from_file(...).sample_posterior(checkpoint_every=3) "
            f"(resumed at iteration {start}): checkpoints written at "
            f"iterations {got}, requested cadence gives {want}"
        )

    # --- 3. custom callback + checkpoint_every=3 --------------------------
    prob = Problem()
    a = build(prob, flow)
    calls = []
    torch.manual_seed(1)
    a.sample_posterior(
        checkpoint_callback=lambda st: calls.append(st["iteration"]),
        checkpoint_every=3,
        **run_kwargs(1),
    )
    want = expected_iterations(3) + [N_ITER]
    if calls != want:
        failures.append(
            "3. sample_posterior(checkpoint_callback=cb, checkpoint_every=3): "
            f"callback invoked at iterations {calls}, expected {want}"
        )

    # --- 4. explicit path inside an auto_checkpoint context ---------------
    prob = Problem()
    a = build(prob, flow)
    path_a = os.path.join(tmp, "A.h5")
    path_b = os.path.join(tmp, "B.h5")
    torch.manual_seed(1)
    with a.auto_checkpoint(path_a):
        a.sample_posterior(**run_kwargs(1))
        prob.crash_at = prob.n + 20
        try:
            a.sample_posterior(
                checkpoint_path=path_b, checkpoint_every=1, **run_kwargs(2)
            )
            failures.append("4. the injected exception did not surface")
        except Crash:
            pass
    with h5py.File(path_b, "r") as f:
        have = {
            "configuration": "aspire_config" in f,
            "flow": "flow" in f,
            "checkpoint": "checkpoint" in f and "state" in f["checkpoint"],
        }
    problem = None
    if not all(have.values()):
        problem = f"file contents after the interruption: {have}"
    try:
        prob2 = Problem()
        Aspire.resume_from_file(
            path_b,
            log_likelihood=prob2.log_likelihood,
            log_prior=prob2.log_prior,
        )
    except Exception as e:  # noqa: BLE001
        problem = (problem or "") + f"; resume_from_file raised {e!r}"
    if problem:
        failures.append(
            "4. interrupted sample_posterior(checkpoint_path=B) inside "
            "auto_checkpoint(A) after an earlier run in the context: " + problem
        )

    if failures:
        for f in failures:
            print("FAIL", f)
        return 1
    print("PASS")
    return 0


if __name__ == "__main__":
    sys.exit(main())
