"""C10i: cached per-particle log-densities must belong to the particle's coordinates.

Run as: PYTHONPATH=<tree>/src /venv/bin/python demo.py

Finding 1 (importance sampler and initial SMC population)
    The coordinates drawn from the proposal are cast to the sampler's dtype
    (Samples(x, log_q=log_q, dtype=self.dtype)) but the log-proposal that came
    with them is kept, not re-evaluated: with a single-precision sampler, a
    proposal working in double precision and coordinates of large magnitude the
    stored log_q of row i is the proposal density of a different point than the
    stored (rounded) row i, while log-likelihood and log-prior are evaluated at
    the rounded row.
Finding 2 (torch likelihood carrying an autograd graph)
    A torch log-likelihood that depends on a tensor with requires_grad=True
    makes the SMC loop raise RuntimeError (numpy() on a tensor that requires
    grad); the importance sampler hands back log-densities that still carry the
    graph.
"""
import sys
import types
import warnings

import numpy as np

warnings.filterwarnings("ignore")

from aspire import Aspire  # noqa: E402
from aspire.utils import asarray, to_numpy  # noqa: E402


# --- minimal, correct stand-in for the (not installed) minipcn / orng ---------
class _Hist:
    def __init__(self, acc):
        self.acceptance_rate = acc


class _RWSampler:
    """Random-walk Metropolis on the target it is given; copies its input."""

    def __init__(self, log_prob_fn, step_fn=None, rng=None, dims=None,
                 target_acceptance_rate=0.234, xp=None):
        self.f, self.rng, self.xp = log_prob_fn, rng, xp

    def sample(self, z0, n_steps=5):
        z = to_numpy(z0).copy()
        dt = z.dtype
        lp = to_numpy(self.f(asarray(z.copy(), self.xp))).astype(float).copy()
        chain, acc = [z.copy()], []
        for _ in range(n_steps):
            prop = (z + 0.3 * self.rng.standard_normal(z.shape)).astype(dt)
            lpp = to_numpy(self.f(asarray(prop.copy(), self.xp))).astype(float)
            a = np.log(self.rng.uniform(size=len(z))) < (lpp - lp)
            z = np.where(a[:, None], prop, z)
            lp = np.where(a, lpp, lp)
            chain.append(z.copy())
            acc.append(a.mean())
        return asarray(np.stack(chain), self.xp), _Hist(np.array(acc))


_m = types.ModuleType("minipcn")
_m.Sampler = _RWSampler
sys.modules["minipcn"] = _m
_o = types.ModuleType("orng")
_o.ArrayRNG = lambda backend=None: np.random.default_rng(0)
sys.modules["orng"] = _o


# --- a proposal working in double precision -----------------------------------
class GaussFlow:
    def __init__(self, dims, mu, sig, seed, xp=np):
        self.dims, self.mu, self.sig, self.xp = dims, mu, sig, xp
        self.rng = np.random.default_rng(seed)

    def _lp(self, x):
        x = np.asarray(x, dtype=np.float64)
        return (-0.5 * ((x - self.mu) / self.sig) ** 2 - np.log(self.sig)
                - 0.5 * np.log(2 * np.pi)).sum(-1)

    def log_prob(self, x):
        return self.xp.asarray(self._lp(to_numpy(x)))

    def sample_and_log_prob(self, n):
        x = self.mu + self.sig * self.rng.standard_normal((n, self.dims))
        return self.xp.asarray(x), self.xp.asarray(self._lp(x))


failures = []

# ---------------- Finding 1 ----------------------------------------------------
MU, SIG, W = 1.0e6, 0.5, 3.0


def ll(s):
    x = to_numpy(s.x).astype(np.float64)
    return np.asarray((-0.5 * ((x - MU) / 1.0) ** 2).sum(-1), dtype=to_numpy(s.x).dtype)


def lp(s):
    x = to_numpy(s.x).astype(np.float64)
    inb = ((x >= MU - W) & (x <= MU + W)).all(-1)
    return np.where(inb, -2 * np.log(2 * W), -np.inf).astype(to_numpy(s.x).dtype)


def worst(S, flow):
    """Largest |stored - recomputed| over rows for the three cached fields."""
    out = {}
    for name, fn in (("log_likelihood", lambda: ll(S)), ("log_prior", lambda: lp(S)),
                     ("log_q", lambda: flow.log_prob(S.x))):
        a = to_numpy(getattr(S, name)).astype(np.float64)
        b = to_numpy(fn()).astype(np.float64)
        d = np.abs(a - b)
        d[a == b] = 0.0
        out[name] = float(np.max(d))
    return out


flow = GaussFlow(2, MU, SIG, seed=1)
a = Aspire(log_likelihood=ll, log_prior=lp, dims=2, parameters=["a", "b"],
           flow=flow, xp=np, dtype="float32",
           prior_bounds={"a": (MU - W, MU + W), "b": (MU - W, MU + W)})
S = a.sample_posterior(n_samples=200, sampler="importance")
w = worst(S, flow)
TOL = 1e-3  # float32 rounding of a log_q of size ~10 is 1e-6
if max(w.values()) > TOL:
    failures.append(
        f"importance sampler (float32 sampler, float64 proposal, |x|~1e6): "
        f"stored log_q differs from proposal.log_prob(stored x) by up to {w['log_q']:.3g} "
        f"(log_likelihood {w['log_likelihood']:.3g}, log_prior {w['log_prior']:.3g})")

flow = GaussFlow(2, MU, SIG, seed=1)
a = Aspire(log_likelihood=ll, log_prior=lp, dims=2, parameters=["a", "b"],
           flow=flow, xp=np, dtype="float32",
           prior_bounds={"a": (MU - W, MU + W), "b": (MU - W, MU + W)})
out, hist = a.sample_posterior(n_samples=100, sampler="smc", preconditioning="none",
                               rng=np.random.default_rng(3), return_history=True,
                               adaptive=False, n_steps=2, sampler_kwargs={"n_steps": 2})
w0 = worst(hist.sample_history[0], flow)
wl = worst(hist.sample_history[-1], flow)
if max(w0.values()) > TOL or max(wl.values()) > TOL:
    failures.append(
        f"SMC initial population history.sample_history[0] (same setting): stored log_q "
        f"differs from proposal.log_prob(stored x) by up to {w0['log_q']:.3g} "
        f"(after a mutation the same check gives {wl['log_q']:.3g})")

# ---------------- Finding 2 ----------------------------------------------------
try:
    import array_api_compat.torch as xt
    import torch
except Exception:  # pragma: no cover
    torch = None

if torch is not None:
    centre = torch.tensor([0.5, 0.5], dtype=torch.float64, requires_grad=True)

    def ll_t(s):
        return (-0.5 * ((s.x - centre) / 0.5) ** 2).sum(-1)

    def lp_t(s):
        inb = ((s.x >= -3) & (s.x <= 3)).all(-1)
        return torch.where(inb, torch.tensor(-2 * np.log(6.0), dtype=s.x.dtype),
                           torch.tensor(-np.inf, dtype=s.x.dtype))

    flow_t = GaussFlow(2, 0.0, 2.5, seed=1, xp=xt)
    at = Aspire(log_likelihood=ll_t, log_prior=lp_t, dims=2, parameters=["a", "b"],
                flow=flow_t, xp=xt, dtype="float64")
    try:
        out = at.sample_posterior(n_samples=40, sampler="smc", rng=np.random.default_rng(1),
                                  sampler_kwargs={"n_steps": 2})
        d = (out.log_likelihood.detach() - ll_t(out).detach()).abs().max().item()
        if d > 1e-9:
            failures.append(f"torch/autograd SMC: log_likelihood off by {d}")
    except Exception as e:  # noqa: BLE001
        failures.append(
            "SMC with a torch log-likelihood that carries an autograd graph "
            f"(depends on a requires_grad tensor) raises {type(e).__name__}: {e}")

if failures:
    for f in failures:
        print("FAIL", f)
    sys.exit(1)
print("PASS")
