"""C20h: runs are reproducible given the same explicit random sources.

Run as:  PYTHONPATH=<tree>/src /venv/bin/python demo.py

Two identically seeded runs of the library's SMC samplers are compared.
minipcn / orng / emcee are not installed, so minimal stand-ins are put into
sys.modules; they only provide the kernel (a vectorised random-walk
Metropolis step) and draw every random number from the generator they are
handed (minipcn) or, like emcee 3, from their own OS-seeded RandomState unless
the caller sets `random_state` / `rstate0` (emcee).  Everything else (argument
routing, tempering loop, resampling, final mutation) is the library's code.
"""

import sys
import types

import numpy as np

# --------------------------------------------------------------------------
# stand-ins for the optional kernels
# --------------------------------------------------------------------------
orng = types.ModuleType("orng")


class ArrayRNG:
    def __init__(self, backend="numpy", seed=None):
        self._g = np.random.default_rng(seed)

    def __getattr__(self, name):
        return getattr(self._g, name)


orng.ArrayRNG = ArrayRNG
sys.modules["orng"] = orng


def _rw_metropolis(log_prob, z, n_steps, normal, uniform):
    z = np.array(z, dtype=float)
    lp = np.asarray(log_prob(z), dtype=float)
    chain, acc = [], []
    for _ in range(n_steps):
        prop = z + 0.3 * normal(size=z.shape)
        lpp = np.asarray(log_prob(prop), dtype=float)
        a = np.log(uniform(size=len(z))) < (lpp - lp)
        z = np.where(a[:, None], prop, z)
        lp = np.where(a, lpp, lp)
        chain.append(z.copy())
        acc.append(a.mean())
    return np.array(chain), np.array(acc)


minipcn = types.ModuleType("minipcn")


class _MiniPCNHistory:
    def __init__(self, acc):
        self.acceptance_rate = acc


class MiniPCNSampler:
    n_steps_seen = []  # number of kernel steps of every call, for the report

    def __init__(self, log_prob_fn, step_fn=None, rng=None, dims=None,
                 target_acceptance_rate=None, xp=None):
        self.log_prob_fn = log_prob_fn
        self.rng = rng

    def sample(self, z, n_steps=10):
        MiniPCNSampler.n_steps_seen.append(n_steps)
        chain, acc = _rw_metropolis(
            self.log_prob_fn, z, n_steps, self.rng.normal, self.rng.uniform
        )
        return chain, _MiniPCNHistory(acc)


minipcn.Sampler = MiniPCNSampler
sys.modules["minipcn"] = minipcn

emcee = types.ModuleType("emcee")


class EnsembleSampler:
    """Random-source handling of emcee 3.x: a private RandomState seeded from
    the OS; only `random_state = ...` or `rstate0=` make it reproducible."""

    created = []

    def __init__(self, nwalkers, ndim, log_prob_fn, pool=None, moves=None,
                 args=None, kwargs=None, vectorize=False, **kw):
        self.ndim = ndim
        self.f = log_prob_fn
        self.args = args or ()
        self._random = np.random.mtrand.RandomState()
        self.seeded_by_caller = False
        EnsembleSampler.created.append(self)

    @property
    def random_state(self):
        return self._random.get_state()

    @random_state.setter
    def random_state(self, state):
        self._random.set_state(state)
        self.seeded_by_caller = True

    def run_mcmc(self, z, nsteps=None, rstate0=None, progress=False, **kw):
        if rstate0 is not None:
            self.random_state = rstate0
        self.chain, acc = _rw_metropolis(
            lambda y: self.f(y, *self.args), z, nsteps,
            self._random.normal, self._random.uniform,
        )
        self.acceptance_fraction = acc

    def get_autocorr_time(self, **kw):
        return np.ones(self.ndim)

    def get_chain(self, flat=False, discard=0):
        return self.chain


emcee.EnsembleSampler = EnsembleSampler
sys.modules["emcee"] = emcee

# --------------------------------------------------------------------------
import array_api_compat.numpy as xnp  # noqa: E402

from aspire import Aspire  # noqa: E402  (tree comes from PYTHONPATH)

DIMS = 2


class GaussFlow:
    """Proposal N(0, 2^2 I) drawing from its own seeded generator."""

    def __init__(self, seed):
        self.g = np.random.default_rng(seed)

    def log_prob(self, x):
        x = np.asarray(x, dtype=float)
        return -0.5 * np.sum((x / 2.0) ** 2, axis=-1) - DIMS * np.log(
            2.0 * np.sqrt(2 * np.pi)
        )

    def sample_and_log_prob(self, n):
        x = 2.0 * self.g.normal(size=(n, DIMS))
        return x, self.log_prob(x)


def log_likelihood(s):
    x = np.asarray(s.x, dtype=float)
    return -0.5 * np.sum((x - 1.0) ** 2 / 0.25, axis=-1)


def log_prior(s):
    x = np.asarray(s.x, dtype=float)
    return np.where(np.all(np.abs(x) < 10, axis=-1), -DIMS * np.log(20.0), -np.inf)


def run(sampler, seed, sampler_kwargs, **kw):
    """One complete run: fresh Aspire, fresh flow (seed 0), fresh generator."""
    a = Aspire(
        log_likelihood=log_likelihood, log_prior=log_prior, dims=DIMS,
        parameters=["a", "b"], flow=GaussFlow(0), xp=xnp,
    )
    s, h = a.sample_posterior(
        n_samples=64, sampler=sampler, return_history=True,
        rng=np.random.default_rng(seed), sampler_kwargs=sampler_kwargs, **kw,
    )
    return {
        "x": np.asarray(s.x).copy(),
        "log_likelihood": np.asarray(s.log_likelihood).copy(),
        "log_evidence": float(s.log_evidence),
        "beta": list(h.beta),
        "acc": [float(v) for v in h.mcmc_acceptance],
    }


def identical(r1, r2):
    return all(np.array_equal(np.asarray(r1[k]), np.asarray(r2[k])) for k in r1)


failures = []

# ---- control: equal but separate option dicts -> bit-identical --------------
c1 = run("smc", 1, dict(n_steps=3, n_final_steps=25), n_final_samples=100)
c2 = run("smc", 1, dict(n_steps=3, n_final_steps=25), n_final_samples=100)
control_ok = identical(c1, c2)
print("control (separate, equal sampler_kwargs dicts) identical:", control_ok)
if not control_ok:
    failures.append("control: two identically seeded smc runs differ")

# ---- finding 1: the SAME inputs given twice --------------------------------
opts = dict(n_steps=3, n_final_steps=25)
MiniPCNSampler.n_steps_seen.clear()
r1 = run("smc", 1, opts, n_final_samples=100)
steps1 = list(MiniPCNSampler.n_steps_seen)
opts_after = dict(opts)
MiniPCNSampler.n_steps_seen.clear()
r2 = run("smc", 1, opts, n_final_samples=100)
steps2 = list(MiniPCNSampler.n_steps_seen)
if not identical(r1, r2):
    failures.append(
        "smc (MiniPCNSMC): two runs with the same seed, the same flow seed and "
        "the same sampler_kwargs object differ: the first run removed "
        f"'n_final_steps' from the caller's dict (now {opts_after}); final "
        f"mutation used {steps1[-1]} kernel steps in run 1 and {steps2[-1]} in "
        f"run 2; max|dx|={np.max(np.abs(r1['x'] - r2['x'])):.3g}, "
        f"first log_likelihood {r1['log_likelihood'][0]!r} vs "
        f"{r2['log_likelihood'][0]!r}"
    )

# ---- finding 2: emcee_smc ignores the user's generator in the kernel --------
e1 = run("emcee_smc", 1, dict(nsteps=4, progress=False))
e2 = run("emcee_smc", 1, dict(nsteps=4, progress=False))
seeded = any(s.seeded_by_caller for s in EnsembleSampler.created)
if not identical(e1, e2) or not seeded:
    failures.append(
        "emcee_smc (EmceeSMC): two runs with rng=default_rng(1) differ "
        f"(identical={identical(e1, e2)}; log_evidence {e1['log_evidence']!r} "
        f"vs {e2['log_evidence']!r}); the library never hands a random state "
        f"to the emcee kernel (random_state/rstate0 set by caller: {seeded})"
    )

if failures:
    for f in failures:
        print("FAIL:", f)
    sys.exit(1)
print("PASS")
sys.exit(0)
