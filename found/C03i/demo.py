"""C03i: the fitted proposal is a normalised density; sampling and evaluation
agree, for both back-ends, before/after training and after a save/load cycle.

Run as  PYTHONPATH=<tree>/src /venv/bin/python demo.py
Exits 1 and prints one FAIL line per violation, exits 0 printing PASS otherwise.
"""

import io
import os
import sys
import warnings

os.environ.setdefault("OMP_NUM_THREADS", "2")
os.environ.setdefault("MKL_NUM_THREADS", "2")
warnings.filterwarnings("ignore")

import h5py  # noqa: E402
import numpy as np  # noqa: E402

import aspire  # noqa: E402,F401  (sets SCIPY_ARRAY_API)
from aspire import Aspire  # noqa: E402

failures = []


def roundtrip(flow):
    bio = io.BytesIO()
    with h5py.File(bio, "w") as h:
        flow.save(h)
    with h5py.File(bio, "r") as h:
        return type(flow).load(h)


# ---------------------------------------------------------------------------
# 1. flowjax back-end with a spline transformer (a documented flowjax
#    configuration, reachable through the library's own bijection_type /
#    bijection_kwargs options): sampling and evaluation must still agree after
#    a save/load cycle.
# ---------------------------------------------------------------------------
def check_flowjax_spline_roundtrip():
    import jax

    from aspire.flows.jax.flows import FlowJax

    rng = np.random.default_rng(0)
    data = rng.normal(size=(300, 2))
    for interval in (4, 4.0, (-4, 4)):
        tag = f"flowjax RationalQuadraticSpline(knots=4, interval={interval!r})"
        flow = FlowJax(
            2,
            key=jax.random.key(0),
            bijection_type="RationalQuadraticSpline",
            bijection_kwargs=dict(knots=4, interval=interval),
        )
        flow.fit(data, max_epochs=2, show_progress=False)
        x, log_q = flow.sample_and_log_prob(64)
        before = np.asarray(flow.log_prob(x))
        err = float(np.max(np.abs(before - np.asarray(log_q))))
        if not err < 1e-4:
            failures.append(f"{tag}: sample/log_prob disagree by {err:.2e}")
            continue
        try:
            loaded = roundtrip(flow)
            after = np.asarray(loaded.log_prob(x))
            x2, log_q2 = loaded.sample_and_log_prob(64)
            err2 = float(
                np.max(np.abs(np.asarray(loaded.log_prob(x2)) - np.asarray(log_q2)))
            )
        except Exception as exc:  # the property says this must work
            failures.append(
                f"{tag}: after save/load the flow cannot be evaluated: "
                f"{type(exc).__name__}: {str(exc)[:120]}"
            )
            continue
        d = float(np.max(np.abs(after - before)))
        if not (d < 1e-4 and err2 < 1e-4):
            failures.append(
                f"{tag}: after save/load log_prob changed by {d:.2e}, "
                f"sample/log_prob mismatch {err2:.2e}"
            )


# ---------------------------------------------------------------------------
# 2. Aspire with the flowjax back-end and device="cpu" (the docstring says the
#    device is only *used* by the PyTorch back-end, and FlowJax itself only
#    warns that it ignores it): the proposal must exist and be sampleable.
# ---------------------------------------------------------------------------
def check_flowjax_device_string():
    import jax

    def log_likelihood(s):
        return -0.5 * (np.asarray(s.x) ** 2).sum(-1)

    def log_prior(s):
        return np.zeros(len(s.x))

    for bounded in ("logit", "probit"):
        tag = f"Aspire(flow_backend='flowjax', device='cpu', bounded_transform={bounded!r})"
        a = Aspire(
            log_likelihood=log_likelihood,
            log_prior=log_prior,
            dims=2,
            parameters=["a", "b"],
            prior_bounds={"a": [0.1, 0.3], "b": [-2.0, 3.0]},
            bounded_transform=bounded,
            flow_backend="flowjax",
            device="cpu",
            key=jax.random.key(1),
        )
        try:
            s = a.sample_flow(50)
            lp = np.asarray(a.flow.log_prob(s.x))
            err = float(np.max(np.abs(lp - np.asarray(s.log_q))))
            x = np.asarray(s.x)
            ok = (
                err < 1e-3
                and (x[:, 0] >= 0.1 - 1e-7).all()
                and (x[:, 0] <= 0.3 + 1e-7).all()
            )
            if not ok:
                failures.append(f"{tag}: mismatch {err:.2e} or out of bounds")
        except Exception as exc:
            failures.append(
                f"{tag}: no proposal can be built: "
                f"{type(exc).__name__}: {str(exc)[:100]}"
            )


# ---------------------------------------------------------------------------
# 3. zuko back-end, training sets for which int(validation_fraction * n) == 0
#    (fewer than five rows with the default 0.2, or validation_fraction=0):
#    the slice x[:-0] is empty, so *no* row is used for training.
# ---------------------------------------------------------------------------
def check_zuko_small_training_set():
    from aspire.flows.torch.flows import ZukoFlow

    rng = np.random.default_rng(1)
    data = rng.normal(size=(200, 2))
    for tag, d, kw in (
        ("ZukoFlow.fit(4 rows)", data[:4], {}),
        ("ZukoFlow.fit(200 rows, validation_fraction=0.0)", data, dict(validation_fraction=0.0)),
    ):
        flow = ZukoFlow(2, hidden_features=[8, 8], seed=3)
        try:
            flow.fit(d, n_epochs=2, **kw)
            x, log_q = flow.sample_and_log_prob(32)
            err = float(np.max(np.abs(np.asarray(flow.log_prob(x)) - np.asarray(log_q))))
            if not err < 1e-4:
                failures.append(f"{tag}: sample/log_prob disagree by {err:.2e}")
        except Exception as exc:
            failures.append(
                f"{tag}: training raises {type(exc).__name__}: {str(exc)[:100]}"
            )


check_flowjax_spline_roundtrip()
check_flowjax_device_string()
check_zuko_small_training_set()

if failures:
    for f in failures:
        print("FAIL", f)
    sys.exit(1)
print("PASS")
sys.exit(0)
