"""C04h demo: parameter transforms must be bijections with exact log-Jacobians.

Run as:  PYTHONPATH=<tree>/src /venv/bin/python demo.py
Exits 1 and prints one FAIL line per violated check, exits 0 printing PASS
otherwise.  Deterministic (no random input except a seeded flow fit).
"""

import os
import sys
import warnings

os.environ.setdefault("OMP_NUM_THREADS", "2")
os.environ.setdefault("MKL_NUM_THREADS", "2")
os.environ.setdefault("OPENBLAS_NUM_THREADS", "2")
warnings.filterwarnings("ignore")

import numpy as np  # noqa: E402
import torch  # noqa: E402

torch.set_num_threads(2)

from aspire.transforms import (  # noqa: E402
    CompositeTransform,
    FlowPreconditioningTransform,
    LogitTransform,
)

failures = []


def fail(msg):
    failures.append(msg)
    print("FAIL", msg)


# ---------------------------------------------------------------------------
# 1. A torch-namespace transform given a NumPy array (what Emcee/MCMCSampler
#    .log_prob does with emcee's coordinate array when Aspire runs with
#    xp=torch): forward / inverse / fit must not change their argument, must
#    be repeatable, and inverse(forward(x)) must give back the caller's x.
# ---------------------------------------------------------------------------
def check_alias():
    t = CompositeTransform(
        parameters=["a", "b", "c"],
        periodic_parameters=["c"],
        prior_bounds={"a": [0.0, 1.0], "b": [-2.0, 2.0], "c": [0.0, 6.0]},
        bounded_to_unbounded=True,
        bounded_transform="logit",
        affine_transform=False,
        xp=torch,
        dtype=torch.float64,
    )
    x = np.array([[0.3, 1.5, 7.0], [0.9, -1.0, 2.0]])
    x_before = x.copy()
    y1, lj1 = t.forward(x)
    y1 = y1.clone()  # the returned tensor shares memory with x as well
    if not np.array_equal(x, x_before):
        fail(
            "alias/forward: CompositeTransform(xp=torch).forward(numpy x) "
            f"overwrote the caller's array: before={x_before.tolist()} "
            f"after={x.tolist()}"
        )
    y2, lj2 = t.forward(x)
    if not (torch.equal(y1, y2) and torch.equal(lj1, lj2)):
        fail(
            "alias/repeat: two forward() calls on the same array object "
            f"differ: first y={y1.tolist()} log_j={lj1.tolist()}; "
            f"second y={y2.tolist()} log_j={lj2.tolist()}"
        )
    back = t.inverse(y1)[0].numpy()
    # the two bounded (non-periodic) columns must come back unchanged
    if not np.allclose(back[:, :2], x[:, :2], rtol=0, atol=1e-12):
        fail(
            "alias/roundtrip: inverse(forward(x)) differs from the caller's "
            "x (which forward() changed) on the bounded columns: "
            f"max|inverse(forward(x)) - x| = "
            f"{np.abs(back[:, :2] - x[:, :2]).max():.3g}"
        )

    # inverse direction: the sampler's coordinates z are overwritten
    z = np.array([[0.5, -1.0, 1.0], [2.0, 3.0, 4.0]])
    z_before = z.copy()
    t.inverse(z)
    if not np.array_equal(z, z_before):
        fail(
            "alias/inverse: CompositeTransform(xp=torch).inverse(numpy z) "
            f"overwrote z: before={z_before.tolist()} after={z.tolist()}"
        )

    # fit
    xf = np.array([[0.3, 1.5, 7.0], [0.9, -1.0, 2.0]])
    xf_before = xf.copy()
    t.fit(xf)
    if not np.array_equal(xf, xf_before):
        fail("alias/fit: CompositeTransform(xp=torch).fit(numpy x) overwrote x")


# ---------------------------------------------------------------------------
# 2. float32 logit transform on [0, 1] (no rescaling error): the inverse
#    log-Jacobian must be the negative of the forward one at the corresponding
#    point.  The inputs are exactly representable float32 numbers at least
#    1.19e-6 from the bound, i.e. outside the 1e-6 clipping margin.
# ---------------------------------------------------------------------------
def check_float32_logit():
    for name, xp in (("numpy", np), ("torch", torch)):
        t = LogitTransform(lower=[0.0], upper=[1.0], xp=xp, dtype="float32")
        k = np.arange(20, 400, dtype=np.float32) * np.float32(2.0**-24)
        for side, u in (("lower", k), ("upper", np.float32(1) - k)):
            x = xp.asarray(u.reshape(-1, 1))
            y, lj = t.forward(x)
            xx, lji = t.inverse(y)
            lj = np.asarray(lj, dtype=np.float64)
            lji = np.asarray(lji, dtype=np.float64)
            y64 = np.asarray(y, dtype=np.float64)[:, 0]
            # exact values in double precision
            u64 = u.astype(np.float64)
            true_fwd = -np.log(u64) - np.log1p(-u64)
            a = np.abs(y64)
            true_inv = -(a + 2 * np.log1p(np.exp(-a)))
            e_fwd = np.abs(lj - true_fwd).max()
            e_inv = np.abs(lji - true_inv).max()
            e_neg = np.abs(lj + lji).max()
            if e_neg > 1e-3 or e_inv > 1e-3 or e_fwd > 1e-3:
                fail(
                    f"float32-logit/{name}/{side} side: max|lj_fwd+lj_inv|="
                    f"{e_neg:.3g}, inverse log-Jacobian error {e_inv:.3g}, "
                    f"forward log-Jacobian error {e_fwd:.3g} (tolerance 1e-3; "
                    "the mirror-image points on the other side agree to 1e-6)"
                )


# ---------------------------------------------------------------------------
# 3. Flow preconditioning with the default (zuko) back-end in the jax
#    namespace: forward/fit must return the forward image, not raise.
# ---------------------------------------------------------------------------
def check_flow_jax():
    import jax.numpy as jnp

    rng = np.random.default_rng(0)
    X = np.column_stack([rng.uniform(0.1, 0.9, 200), rng.normal(size=200)])
    results = {}
    for name, xp in (("numpy", np), ("jax.numpy", jnp)):
        t = FlowPreconditioningTransform(
            parameters=["a", "b"],
            prior_bounds={"a": [0.0, 1.0], "b": [-np.inf, np.inf]},
            xp=xp,
            dtype="float32",
            affine_transform=False,
            flow_kwargs=dict(hidden_features=[8], transforms=1),
            fit_kwargs=dict(n_epochs=2),
        )
        x = xp.asarray(X, dtype=xp.float32)
        try:
            yf = t.fit(x)
            y, lj = t.forward(x)
            xx, lji = t.inverse(y)
            results[name] = np.asarray(y)
            err = np.abs(np.asarray(xx) - X).max()
            if err > 1e-4 or not np.array_equal(np.asarray(yf), np.asarray(y)):
                fail(f"flow/{name}: round trip error {err:.3g}")
        except Exception as e:  # noqa: BLE001
            fail(
                f"flow/{name}: FlowPreconditioningTransform(xp={name}, "
                f"flow_backend='zuko').fit/forward raised "
                f"{type(e).__name__}: {str(e)[:120]}"
            )


if __name__ == "__main__":
    import contextlib
    import io

    check_alias()
    check_float32_logit()
    with contextlib.redirect_stderr(io.StringIO()):  # hide tqdm bars
        check_flow_jax()
    if failures:
        print(f"FAIL ({len(failures)} violated checks)")
        sys.exit(1)
    print("PASS")
    sys.exit(0)
