"""C11 -- resuming from a checkpoint must reproduce the uninterrupted run.

Run as:  PYTHONPATH=<tree>/src /venv/bin/python demo.py

Four independent checks (one PASS/FAIL line each); exit status 1 if any fails.

  B  resume from the last checkpoint passed as a *dictionary*, after the first
     resume attempt was itself interrupted before it wrote a new checkpoint
  D  BlackJAXSMC: resume from every checkpoint emitted (JAX key in the payload?)
  A  retry loop that passes the same `sampler_kwargs` dict (with n_final_steps)
     to the interrupted call and to the resuming call
  C  resume_from given as pathlib.Path (the path checkpoint_file_path accepted)

minipcn / orng / blackjax are not installed: tiny correct stand-ins (random-walk
Metropolis drawing only from the generator / key they are handed) are put in
sys.modules, so everything between them is the library's own code.
"""
import collections
import os
import pathlib
import pickle
import sys
import tempfile
import types
import warnings

warnings.filterwarnings("ignore")
import numpy as np  # noqa: E402

# --------------------------------------------------------------------------
# stand-ins for the missing third-party packages
# --------------------------------------------------------------------------


class _Hist:
    def __init__(self, acc):
        self.acceptance_rate = acc


class _RWSampler:
    """minipcn.Sampler stand-in: random-walk Metropolis, randomness only from rng."""

    def __init__(self, log_prob_fn, step_fn=None, rng=None, dims=None,
                 target_acceptance_rate=0.234, xp=None):
        self.log_prob_fn, self.rng = log_prob_fn, rng

    def sample(self, z, n_steps=10):
        z = np.array(z, dtype=float, copy=True)
        lp = np.asarray(self.log_prob_fn(z), dtype=float)
        chain, acc = [z.copy()], []
        for _ in range(n_steps):
            prop = z + 0.3 * self.rng.standard_normal(z.shape)
            lpp = np.asarray(self.log_prob_fn(prop), dtype=float)
            a = np.log(self.rng.uniform(size=len(z))) < (lpp - lp)
            z = np.where(a[:, None], prop, z)
            lp = np.where(a, lpp, lp)
            chain.append(z.copy())
            acc.append(a.mean())
        return np.stack(chain), _Hist(np.array(acc))


_m = types.ModuleType("minipcn")
_m.Sampler = _RWSampler
sys.modules["minipcn"] = _m
_o = types.ModuleType("orng")
_o.ArrayRNG = lambda backend=None: (_ for _ in ()).throw(
    RuntimeError("demo always passes rng explicitly"))
sys.modules["orng"] = _o

from aspire.samplers.smc.minipcn import MiniPCNSMC  # noqa: E402

# --------------------------------------------------------------------------
# problem definition
# --------------------------------------------------------------------------


class GaussFlow:
    def __init__(self, dims, seed):
        self.dims, self.rng = dims, np.random.default_rng(seed)

    def log_prob(self, x):
        x = np.asarray(x, dtype=float)
        return (-0.5 * np.sum((x / 2.0) ** 2, axis=-1)
                - self.dims * np.log(2.0 * np.sqrt(2 * np.pi)))

    def sample_and_log_prob(self, n):
        x = 2.0 * self.rng.standard_normal((n, self.dims))
        return x, self.log_prob(x)


class Crash(Exception):
    pass


class Like:
    """Gaussian log-likelihood; raises Crash at its crash_at-th call."""

    def __init__(self, crash_at=None):
        self.calls, self.crash_at = 0, crash_at

    def __call__(self, samples):
        self.calls += 1
        if self.crash_at is not None and self.calls == self.crash_at:
            raise Crash(f"injected fault at likelihood call {self.calls}")
        x = np.asarray(samples.x, dtype=float)
        return -0.5 * np.sum(((x - 1.0) / 0.5) ** 2, axis=-1)


def log_prior(samples):
    return -0.5 * np.sum((np.asarray(samples.x, dtype=float) / 3.0) ** 2, axis=-1)


def make(like):
    return MiniPCNSMC(log_likelihood=like, log_prior=log_prior, dims=2,
                      prior_flow=GaussFlow(2, seed=5), xp=np,
                      rng=np.random.default_rng(1))


def summary(samples, history):
    return dict(
        x=np.asarray(samples.x),
        log_evidence=float(samples.log_evidence),
        log_evidence_error=float(samples.log_evidence_error),
        beta=[float(b) for b in history.beta],
        ess=[float(b) for b in history.ess],
        log_norm_ratio=[float(b) for b in history.log_norm_ratio],
        mcmc_acceptance=[float(b) for b in history.mcmc_acceptance],
    )


def diff(a, b):
    out = []
    for k in a:
        if isinstance(a[k], np.ndarray):
            if a[k].shape != b[k].shape or not np.array_equal(a[k], b[k]):
                out.append(f"{k}: populations differ")
        elif a[k] != b[k]:
            out.append(f"{k}: {a[k]} != {b[k]}")
    return out


failures = []


def report(tag, problems):
    if problems:
        failures.append(tag)
        print(f"FAIL [{tag}] " + " | ".join(problems))
    else:
        print(f"PASS [{tag}]")


# --------------------------------------------------------------------------
# B. dictionary checkpoint, second resume after an interrupted first resume
# --------------------------------------------------------------------------
def check_dict_resume_twice():
    kw = dict(adaptive=True, target_efficiency=0.8)
    skw = lambda: {"n_steps": 3}  # noqa: E731

    s = make(Like())
    ref = summary(s.sample(64, sampler_kwargs=skw(), **kw), s.history)

    # original run, interrupted at likelihood call 12 (inside iteration 3)
    s1 = make(Like(crash_at=12))
    try:
        s1.sample(64, sampler_kwargs=skw(), checkpoint_every=1, **kw)
    except Crash:
        pass
    last = s1.last_checkpoint_state  # the last checkpoint written, as a dict
    n_before = len(last["history"].beta)

    # first resume: interrupted again, before it writes any new checkpoint
    s2 = make(Like(crash_at=3))
    try:
        s2.sample(64, sampler_kwargs=skw(), checkpoint_every=1,
                  resume_from=last, **kw)
    except Crash:
        pass
    assert s2.last_checkpoint_state is None  # `last` is still the last one
    n_after = len(last["history"].beta)

    # second resume from the same (still last) checkpoint
    s3 = make(Like())
    got = summary(
        s3.sample(64, sampler_kwargs=skw(), resume_from=last, **kw), s3.history
    )
    problems = diff(ref, got)
    if n_after != n_before:
        problems.insert(
            0,
            f"checkpoint dict mutated by the resumed sampler: history.beta "
            f"had {n_before} entries, now {n_after}",
        )
    report("B dict checkpoint resumed twice", problems)


# --------------------------------------------------------------------------
# D. BlackJAXSMC: resume from each emitted checkpoint
# --------------------------------------------------------------------------
def check_blackjax_key():
    try:
        import jax
        import jax.numpy as jnp
    except Exception as e:  # pragma: no cover
        print(f"SKIP [D blackjax] jax unavailable: {e}")
        return
    jax.config.update("jax_enable_x64", True)

    State = collections.namedtuple("State", ["position", "logdensity"])
    Info = collections.namedtuple("Info", ["is_accepted"])

    class RMH:  # blackjax.rmh stand-in: random-walk Metropolis driven by the key
        def __init__(self, f, q):
            self.f, self.q = f, q

        def init(self, position):
            return State(position, self.f(position))

        def step(self, key, state):
            k1, k2 = jax.random.split(key)
            prop = self.q(k1, state.position)
            lp = self.f(prop)
            acc = jnp.log(jax.random.uniform(k2)) < lp - state.logdensity
            return (State(jnp.where(acc, prop, state.position),
                          jnp.where(acc, lp, state.logdensity)), Info(acc))

    bj = types.ModuleType("blackjax")
    bj.rmh = lambda f, q: RMH(f, q)
    sys.modules["blackjax"] = bj
    from aspire.samplers.smc.blackjax import BlackJAXSMC

    class JFlow:
        def __init__(self, dims, seed):
            self.dims, self.rng = dims, np.random.default_rng(seed)

        def log_prob(self, x):
            x = jnp.asarray(x)
            return (-0.5 * jnp.sum((x / 2.0) ** 2, axis=-1)
                    - self.dims * jnp.log(2.0 * jnp.sqrt(2 * jnp.pi)))

        def sample_and_log_prob(self, n):
            x = jnp.asarray(2.0 * self.rng.standard_normal((n, self.dims)))
            return x, self.log_prob(x)

    def run(resume=None, cb=None):
        s = BlackJAXSMC(
            log_likelihood=lambda s: -0.5 * jnp.sum(((s.x - 1.0) / 0.5) ** 2, axis=-1),
            log_prior=lambda s: -0.5 * jnp.sum((s.x / 3.0) ** 2, axis=-1),
            dims=2, prior_flow=JFlow(2, 5), xp=jnp, rng=np.random.default_rng(1),
        )
        out = s.sample(
            64, adaptive=True, target_efficiency=0.8,
            rng_key=jax.random.key(7),
            sampler_kwargs={"algorithm": "rwmh", "n_steps": 3, "sigma": 0.3},
            checkpoint_callback=cb, resume_from=resume,
        )
        return summary(out, s.history)

    payloads = []
    ref = run(cb=lambda st: payloads.append(pickle.dumps(st)))
    again = run()
    assert not diff(ref, again), "uninterrupted run is not deterministic"
    problems = []
    for i, blob in enumerate(payloads):
        d = diff(ref, run(resume=blob))
        if d:
            problems.append(
                f"resume from checkpoint {i + 1}/{len(payloads)} "
                f"(iteration {pickle.loads(blob)['iteration']}): "
                + "; ".join(x.split(":")[0] for x in d)
            )
    has_key = any("key" in k.lower() for k in pickle.loads(payloads[0]))
    if problems:
        problems.insert(0, f"JAX key stored in the payload: {has_key}")
    report("D BlackJAXSMC resume (JAX key)", problems)


# --------------------------------------------------------------------------
# A. retry loop reusing one sampler_kwargs dict that holds n_final_steps
# --------------------------------------------------------------------------
def check_reused_sampler_kwargs():
    kw = dict(adaptive=True, target_efficiency=0.8, n_final_samples=100)

    s = make(Like())
    ref = summary(
        s.sample(64, sampler_kwargs={"n_steps": 3, "n_final_steps": 7}, **kw),
        s.history,
    )

    sampler_kwargs = {"n_steps": 3, "n_final_steps": 7}  # defined once
    like = Like(crash_at=10)
    last = None
    got = None
    for attempt in range(3):  # the usual "retry from the last checkpoint" loop
        smp = make(like)
        try:
            out = smp.sample(64, sampler_kwargs=sampler_kwargs,
                             checkpoint_every=1, resume_from=last, **kw)
            got = summary(out, smp.history)
            break
        except Crash:
            last = smp.last_checkpoint_bytes or last
            like = Like()
    problems = diff(ref, got)
    if "n_final_steps" not in sampler_kwargs:
        problems.insert(
            0, f"sample() removed n_final_steps from the caller's dict: {sampler_kwargs}"
        )
    report("A reused sampler_kwargs (n_final_steps)", problems)


# --------------------------------------------------------------------------
# C. resume_from as pathlib.Path
# --------------------------------------------------------------------------
def check_pathlib():
    kw = dict(adaptive=True, target_efficiency=0.8)
    s = make(Like())
    ref = summary(s.sample(64, sampler_kwargs={"n_steps": 3}, **kw), s.history)
    path = pathlib.Path(tempfile.mkdtemp()) / "run.h5"
    s1 = make(Like(crash_at=12))
    try:
        s1.sample(64, sampler_kwargs={"n_steps": 3}, checkpoint_every=1,
                  checkpoint_file_path=path, **kw)  # Path accepted here
    except Crash:
        pass
    problems = []
    for label, src in (("str", str(path)), ("pathlib.Path", path)):
        s2 = make(Like())
        try:
            got = summary(
                s2.sample(64, sampler_kwargs={"n_steps": 3}, resume_from=src, **kw),
                s2.history,
            )
            problems += [f"{label}: {d}" for d in diff(ref, got)]
        except Exception as e:
            problems.append(f"resume_from={label} raised {type(e).__name__}: {e}")
    report("C resume_from as pathlib.Path", problems)


if __name__ == "__main__":
    os.environ.setdefault("OMP_NUM_THREADS", "2")
    check_dict_resume_twice()
    check_blackjax_key()
    check_reused_sampler_kwargs()
    check_pathlib()
    if failures:
        print(f"FAIL: {len(failures)} check(s) violated C11: " + "; ".join(failures))
        sys.exit(1)
    print("PASS")
    sys.exit(0)
