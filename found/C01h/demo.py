"""C01h demo: posterior samples / evidence on closed-form targets.

Run as:  PYTHONPATH=<tree>/src /venv/bin/python demo.py

Target family used: "truncated Gaussian hugging a bound"
    prior      : uniform on [0, 10]^d            (log_prior = -inf outside)
    likelihood : exp(-|x|^2 / 2)
    => Z = (sqrt(pi/2) * erf(10/sqrt 2) / 10)^d,  posterior = N(0,1) truncated to [0,10]

Checks (one FAIL line each):
  A. SMC evidence when the proposal flow leaks outside the prior support
     (Aspire(bounded_to_unbounded=False), analytic Gaussian flow centred on the bound).
     Importance sampling on the very same configuration is the control.
  B. SMC driven by the library's own (trained) ZukoFlow, numpy samples.
  C. Aspire(flow=<ready flow>) with the documented default xp=None.
  D. A likelihood that addresses parameters by name (Samples.to_dict()).

minipcn / orng are not installed, so a plain symmetric random-walk Metropolis
kernel (trivially correct: symmetric proposal, exact MH accept) stands in for
minipcn.Sampler; everything else is the library.
"""

import logging
import math
import sys
import traceback
import types
import warnings

import numpy as np

warnings.filterwarnings("ignore")
logging.disable(logging.CRITICAL)


# --------------------------------------------------------------------------
# stand-ins for the missing optional kernels
# --------------------------------------------------------------------------
def _np(v):
    if hasattr(v, "detach"):
        v = v.detach().cpu().numpy()
    return np.asarray(v, dtype=float)


class _Hist:
    def __init__(self, acc):
        self.acceptance_rate = acc


class RWSampler:
    """Vectorised symmetric random-walk Metropolis (one chain per particle)."""

    def __init__(self, log_prob_fn, step_fn=None, rng=None, dims=None,
                 target_acceptance_rate=0.234, xp=None):
        self.log_prob_fn = log_prob_fn
        self.rng = rng if rng is not None else np.random.default_rng(0)

    def sample(self, z, n_steps=10):
        z = np.array(_np(z), copy=True)
        n, d = z.shape
        scale = 2.38 / math.sqrt(d) * z.std(axis=0)
        scale = np.where(scale > 0, scale, 1.0)
        lp = _np(self.log_prob_fn(z.copy()))
        chain, acc = [z.copy()], []
        for _ in range(n_steps):
            prop = z + scale * self.rng.normal(size=z.shape)
            lpp = _np(self.log_prob_fn(prop.copy()))
            lpp = np.where(np.isnan(lpp), -np.inf, lpp)
            a = np.log(self.rng.uniform(size=n)) < (lpp - lp)
            z = np.where(a[:, None], prop, z)
            lp = np.where(a, lpp, lp)
            chain.append(z.copy())
            acc.append(a.mean())
        return np.stack(chain), _Hist(np.array(acc))


_m = types.ModuleType("minipcn")
_m.Sampler = RWSampler
sys.modules.setdefault("minipcn", _m)
_o = types.ModuleType("orng")
_o.ArrayRNG = lambda backend=None, **kw: np.random.default_rng(0)
sys.modules.setdefault("orng", _o)

from aspire import Aspire  # noqa: E402
from aspire.samples import Samples  # noqa: E402


class GaussFlow:
    """Analytic 'flow': independent N(mu, sigma^2) per dimension (exact log_prob)."""

    def __init__(self, dims, mu, sigma, seed):
        self.dims, self.mu, self.sigma = dims, mu, sigma
        self.rng = np.random.default_rng(seed)

    def log_prob(self, x):
        x = np.asarray(x, dtype=float)
        return (-0.5 * ((x - self.mu) / self.sigma) ** 2
                - math.log(self.sigma) - 0.5 * math.log(2 * math.pi)).sum(-1)

    def sample_and_log_prob(self, n):
        x = self.mu + self.sigma * self.rng.normal(size=(n, self.dims))
        return x, self.log_prob(x)


LO, HI = 0.0, 10.0


def make_target(d):
    def log_prior(s):
        x = np.asarray(s.x, dtype=float)
        inside = ((x >= LO) & (x <= HI)).all(-1)
        return np.where(inside, -d * math.log(HI - LO), -np.inf)

    def log_like(s):
        x = np.asarray(s.x, dtype=float)
        return -0.5 * (x ** 2).sum(-1)

    log_z = d * math.log(math.sqrt(math.pi / 2) * math.erf(HI / math.sqrt(2)) / (HI - LO))
    mean = math.sqrt(2 / math.pi)          # half-normal (upper bound 10 is irrelevant)
    var = 1 - 2 / math.pi
    return log_prior, log_like, log_z, mean, var


failures = []


def fail(msg):
    failures.append(msg)
    print("FAIL", msg)


# --------------------------------------------------------------------------
# A. evidence with a proposal that leaks outside the prior support
# --------------------------------------------------------------------------
def check_leaky_flow(d=1, reps=6, n=2000):
    log_prior, log_like, log_z, mean, var = make_target(d)
    names = [f"x{i}" for i in range(d)]
    for sampler in ("importance", "smc"):
        dz, mm, vv = [], [], []
        for seed in range(reps):
            a = Aspire(
                log_likelihood=log_like, log_prior=log_prior, dims=d,
                parameters=names, prior_bounds={k: (LO, HI) for k in names},
                bounded_to_unbounded=False,           # the option under test
                flow=GaussFlow(d, 0.0, 1.5, seed),    # half its mass per dim is outside [0, 10]
                xp=np,
            )
            kw = {}
            if sampler == "smc":
                kw = dict(rng=np.random.default_rng(100 + seed),
                          sampler_kwargs=dict(n_steps=20))
            s = a.sample_posterior(n, sampler=sampler, **kw)
            x = np.asarray(s.x, dtype=float)
            if sampler == "importance":
                w = np.asarray(s.weights, dtype=float)
                w = w / w.sum()
                m = (w[:, None] * x).sum(0)
                v = (w[:, None] * (x - m) ** 2).sum(0)
            else:
                m, v = x.mean(0), x.var(0)
            dz.append(float(s.log_evidence) - log_z)
            mm.append(m.mean())
            vv.append(v.mean())
        se = lambda q: np.std(q, ddof=1) / math.sqrt(len(q))  # noqa: E731
        dzm, dzs = float(np.mean(dz)), float(se(dz))
        print(f"[A] d={d} {sampler:10s}: mean(log Z_hat) - log Z = {dzm:+.4f} +/- {dzs:.4f}"
              f" | mean {np.mean(mm):.4f} (true {mean:.4f}) var {np.mean(vv):.4f} (true {var:.4f})")
        # calibrated bound: 5 standard errors + 0.05 slack for the O(var/2) bias of log Z_hat
        if abs(dzm) > 5 * dzs + 0.05:
            fail(f"A: {sampler} evidence on truncated Gaussian (d={d}) with a flow leaking outside the "
                 f"prior bounds: mean(log Z_hat)-log Z = {dzm:+.4f} +/- {dzs:.4f} "
                 f"(-log P_q(prior support) = {d * math.log(2):.4f}); importance sampling on the same "
                 f"configuration is unbiased")
        if abs(np.mean(mm) - mean) > 5 * se(mm) + 0.03 or abs(np.mean(vv) - var) > 5 * se(vv) + 0.03:
            fail(f"A: {sampler} posterior moments off: mean {np.mean(mm):.4f} vs {mean:.4f}, "
                 f"var {np.mean(vv):.4f} vs {var:.4f}")


# --------------------------------------------------------------------------
# B. SMC with the library's own trained ZukoFlow
# --------------------------------------------------------------------------
def check_zuko_smc():
    d = 1
    log_prior, log_like, log_z, mean, var = make_target(d)
    rng = np.random.default_rng(7)
    x_train = np.abs(rng.normal(size=(1000, d)))
    a = Aspire(log_likelihood=log_like, log_prior=log_prior, dims=d, parameters=["x0"],
               prior_bounds={"x0": (LO, HI)}, flow_backend="zuko")
    import array_api_compat.numpy as nxp
    a.fit(Samples(x_train, parameters=["x0"], xp=nxp), n_epochs=20)
    s = a.sample_posterior(2000)  # importance sampling works
    print(f"[B] zuko importance: log Z_hat - log Z = {float(s.log_evidence) - log_z:+.3f}")
    try:
        s = a.sample_posterior(1000, sampler="smc", rng=np.random.default_rng(3),
                               sampler_kwargs=dict(n_steps=10))
    except Exception as e:  # noqa: BLE001
        frames = [f for f in traceback.extract_tb(e.__traceback__) if "aspire" in f.filename]
        where = f"{frames[-1].filename.split('/src/')[-1]}:{frames[-1].lineno}" if frames else "?"
        fail(f"B: SMC with a trained ZukoFlow (numpy samples) raises {type(e).__name__}: "
             f"{str(e)[:80]} [last library frame {where}]")
        return
    dz = float(s.log_evidence) - log_z
    print(f"[B] zuko smc: log Z_hat - log Z = {dz:+.3f}")
    if not np.isfinite(dz) or abs(dz) > 0.5:
        fail(f"B: SMC with trained ZukoFlow: log Z_hat - log Z = {dz:+.3f}")


# --------------------------------------------------------------------------
# C. ready-made flow, xp left at its documented default (None)
# --------------------------------------------------------------------------
def check_xp_none():
    d = 1
    log_prior, log_like, log_z, mean, var = make_target(d)
    a = Aspire(log_likelihood=log_like, log_prior=log_prior, dims=d, parameters=["x0"],
               prior_bounds={"x0": (LO, HI)}, flow=GaussFlow(d, 0.0, 1.5, 0))
    try:
        s = a.sample_posterior(4000)
    except Exception as e:  # noqa: BLE001
        fail(f"C: Aspire(flow=..., xp=None).sample_posterior('importance') raises "
             f"{type(e).__name__}: {str(e)[:70]}")
        return
    dz = float(s.log_evidence) - log_z
    print(f"[C] xp=None importance: log Z_hat - log Z = {dz:+.3f}")
    if abs(dz) > 0.2:
        fail(f"C: xp=None importance evidence off by {dz:+.3f}")


# --------------------------------------------------------------------------
# D. likelihood addressing parameters by name
# --------------------------------------------------------------------------
def check_named_parameters():
    d = 2
    log_prior, _, log_z, mean, var = make_target(d)
    names = ["mass", "phase"]

    def log_like(s):
        p = s.to_dict()
        return -0.5 * (np.asarray(p["mass"], float) ** 2 + np.asarray(p["phase"], float) ** 2)

    def mk(seed):
        return Aspire(log_likelihood=log_like, log_prior=log_prior, dims=d, parameters=names,
                      prior_bounds={k: (LO, HI) for k in names},
                      flow=GaussFlow(d, 2.0, 1.0, seed), xp=np)  # essentially inside the bounds

    s = mk(0).sample_posterior(4000)
    print(f"[D] named likelihood, importance: log Z_hat - log Z = {float(s.log_evidence) - log_z:+.3f}")
    try:
        s = mk(0).sample_posterior(1000, sampler="smc", rng=np.random.default_rng(5),
                                   sampler_kwargs=dict(n_steps=10))
    except Exception as e:  # noqa: BLE001
        fail(f"D: SMC calls the user's likelihood with Samples that lost the parameter names "
             f"(x_0, x_1 instead of {names}): {type(e).__name__}: {e}")
        return
    print(f"[D] named likelihood, smc: log Z_hat - log Z = {float(s.log_evidence) - log_z:+.3f}")


if __name__ == "__main__":
    for chk in (check_leaky_flow, check_zuko_smc, check_xp_none, check_named_parameters):
        try:
            chk()
        except Exception as e:  # noqa: BLE001
            fail(f"{chk.__name__}: unexpected {type(e).__name__}: {e}")
    if failures:
        print(f"FAIL ({len(failures)} violation(s))")
        sys.exit(1)
    print("PASS")
    sys.exit(0)
