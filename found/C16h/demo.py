"""C16: selection / concatenate / pickle / dict conversion keep sample sets aligned.

Run as: PYTHONPATH=<tree>/src /venv/bin/python demo.py
Exits 1 and prints one FAIL line per violation; exits 0 printing PASS otherwise.
"""

import pickle
import sys
import warnings

import numpy
import numpy as np

warnings.filterwarnings("ignore")

from aspire.samples import BaseSamples, Samples, SMCSamples  # noqa: E402

rng = np.random.default_rng(0)
n, d = 10, 3
x = rng.normal(size=(n, d))
ll = rng.normal(size=n)
lp = rng.normal(size=n)
lq = rng.normal(size=n)
lw = ll + lp - lq

fails = []


def fail(tag, msg):
    fails.append(tag)
    print(f"FAIL [{tag}] {msg}")


def check(tag, fn):
    """fn returns None when the property holds, or a message."""
    try:
        msg = fn()
    except Exception as e:  # an exception on a covered input is a violation
        msg = f"raised {type(e).__name__}: {str(e)[:160]}"
    if msg:
        fail(tag, msg)


# ---------------------------------------------------------------------------
# 1. Evidence attached to a set must be carried by selection, not recomputed.
#    Samples.__getitem__ copies log_evidence / log_evidence_error onto the
#    slice but leaves evidence / evidence_error at the values recomputed from
#    the rows of the slice.
# ---------------------------------------------------------------------------
def evidence_carried():
    s = Samples(x, ll, lp, lq, log_evidence=-3.0, log_evidence_error=0.1)
    assert np.isclose(s.evidence, np.exp(-3.0))
    assert np.isclose(s.evidence_error, 0.1 * np.exp(-3.0))
    for name, sel in [
        ("slice", slice(0, 5)),
        ("mask", np.arange(n) % 2 == 0),
        ("index array", np.array([7, 1, 1, -1])),
    ]:
        t = s[sel]
        if not np.isclose(t.log_evidence, -3.0):
            return f"{name}: log_evidence {t.log_evidence} != -3.0"
        if not np.isclose(t.evidence, s.evidence):
            return (
                f"{name}: log_evidence carried ({float(t.log_evidence)}) but "
                f"evidence={float(t.evidence):.6g} was recomputed from the "
                f"selected rows (attached evidence {float(s.evidence):.6g}, "
                f"exp(log_evidence)={np.exp(float(t.log_evidence)):.6g})"
            )
        if not np.isclose(t.evidence_error, s.evidence_error):
            return (
                f"{name}: evidence_error={float(t.evidence_error):.6g} "
                f"recomputed, attached {float(s.evidence_error):.6g}"
            )


check("select-evidence", evidence_carried)


def evidence_carried_default():
    # no evidence passed in: the set's own estimate is the attached evidence
    s = Samples(x, ll, lp, lq)
    t = s[:5]
    if not np.isclose(t.log_evidence, s.log_evidence):
        return "log_evidence not carried"
    if not np.isclose(t.evidence, s.evidence):
        return (
            f"slice has log_evidence={float(t.log_evidence):.6g} (carried) but "
            f"evidence={float(t.evidence):.6g} != parent evidence "
            f"{float(s.evidence):.6g} = exp(log_evidence)"
        )


check("select-evidence-default", evidence_carried_default)


# ---------------------------------------------------------------------------
# 2. Concatenating the pieces of a partition restores the original.
#    BaseSamples.concatenate only forwards the four per-sample arrays, so
#    set-level fields of the subclasses (beta, log_evidence, ...) are lost.
# ---------------------------------------------------------------------------
def concat_smc():
    m = SMCSamples(
        x, ll, lp, lq, beta=0.3, log_evidence=-2.0, log_evidence_error=0.2
    )
    c = SMCSamples.concatenate([m[:4], m[4:]])
    if not np.array_equal(c.x, m.x) or not np.array_equal(c.log_q, m.log_q):
        return "rows differ"
    if c.beta != m.beta or c.log_evidence != m.log_evidence:
        return (
            f"SMCSamples partition (beta={m.beta}, log_evidence="
            f"{m.log_evidence}) concatenates to beta={c.beta}, "
            f"log_evidence={c.log_evidence}, log_evidence_error="
            f"{c.log_evidence_error}"
        )


check("concat-smc", concat_smc)


def concat_samples():
    # final SMC output: Samples without log_q, evidence attached by the run
    m = SMCSamples(
        x, ll, lp, lq, beta=1.0, log_evidence=-2.0, log_evidence_error=0.2
    )
    s = m.to_standard_samples()
    parts = [s[:4], s[4:]]
    assert parts[0].log_evidence == -2.0
    c = Samples.concatenate(parts)
    if c.log_evidence is None or not np.isclose(c.log_evidence, -2.0):
        return (
            f"Samples partition with attached log_evidence={s.log_evidence} "
            f"concatenates to log_evidence={c.log_evidence}"
        )


check("concat-samples", concat_samples)


def concat_samples_weighted():
    s = Samples(x, ll, lp, lq, log_evidence=-3.0, log_evidence_error=0.1)
    c = Samples.concatenate([s[:4], s[4:]])
    if not np.isclose(c.log_evidence, -3.0):
        return (
            "weighted Samples partition with attached log_evidence=-3.0 "
            f"concatenates to recomputed log_evidence={float(c.log_evidence):.6g}"
        )


check("concat-samples-weighted", concat_samples_weighted)


# ---------------------------------------------------------------------------
# 3. Empty selections (empty slice, all-False mask, empty index array).
# ---------------------------------------------------------------------------
def empty_selection():
    for cls in (BaseSamples, SMCSamples, Samples):
        s = cls(x, ll, lp, lq)
        for name, sel in [
            ("s[0:0]", slice(0, 0)),
            ("all-False mask", np.zeros(n, dtype=bool)),
            ("empty index array", np.array([], dtype=int)),
        ]:
            try:
                t = s[sel]
            except Exception as e:
                return (
                    f"{cls.__name__} {name} raised {type(e).__name__}: "
                    f"{str(e)[:100]}"
                )
            if len(t) != 0 or t.x.shape != (0, d) or t.log_q.shape != (0,):
                return f"{cls.__name__} {name}: wrong shapes"


check("empty-selection", empty_selection)


# ---------------------------------------------------------------------------
# 4. to_dict()/from_dict() (default flat layout) with a parameter whose name
#    is also a field name: the column overwrites the field in the dictionary
#    and the field silently comes back as None.
# ---------------------------------------------------------------------------
def dict_name_clash_beta():
    m = SMCSamples(x, ll, lp, lq, beta=0.3, parameters=["alpha", "beta", "gamma"])
    r = SMCSamples.from_dict(m.to_dict())
    if not np.array_equal(r.x, m.x):
        return "x differs"
    if r.beta != m.beta:
        return (
            "SMCSamples with a parameter called 'beta': to_dict()/from_dict() "
            f"returns beta={r.beta} instead of {m.beta}"
        )


check("dict-name-clash-beta", dict_name_clash_beta)


def dict_name_clash_field():
    s = Samples(x, ll, lp, lq, parameters=["mass", "log_prior", "spin"])
    r = Samples.from_dict(s.to_dict())
    if r.log_prior is None or not np.array_equal(r.log_prior, s.log_prior):
        return (
            "Samples with a parameter called 'log_prior': round trip returns "
            f"log_prior={r.log_prior} and log_w={r.log_w}"
        )


check("dict-name-clash-log_prior", dict_name_clash_field)


# ---------------------------------------------------------------------------
# 5. "in the same namespace": a set built with xp=numpy (as the library's own
#    BaseSamples.to_numpy / NumpySMCSampler do with array_api_compat.numpy vs
#    numpy) changes namespace under selection and pickling, after which
#    concatenate refuses to join it with its own pieces.
# ---------------------------------------------------------------------------
def namespace_kept():
    a = Samples(x, ll, lp, lq, xp=numpy)
    b = pickle.loads(pickle.dumps(a))
    t = a[:4]
    if b.xp is not a.xp or t.xp is not a.xp:
        msg = (
            f"xp={a.xp.__name__} becomes {b.xp.__name__} after pickling and "
            f"{t.xp.__name__} after slicing"
        )
        try:
            Samples.concatenate([a, b])
        except ValueError as e:
            msg += f"; concatenate([a, unpickled a]) raises ValueError: {e}"
        return msg


check("namespace-kept", namespace_kept)


# ---------------------------------------------------------------------------
# 6. Reversed slice on a torch-backed set.
# ---------------------------------------------------------------------------
def torch_reversed():
    import torch

    a = Samples(
        torch.asarray(x), torch.asarray(ll), torch.asarray(lp), torch.asarray(lq)
    )
    t = a[::-1]
    if not np.allclose(np.asarray(t.log_q), lq[::-1].astype(np.float32)):
        return "rows misaligned"


check("torch-reversed-slice", torch_reversed)


# ---------------------------------------------------------------------------
# Controls that hold (kept so that a repaired library prints PASS on them too)
# ---------------------------------------------------------------------------
def controls():
    for cls in (BaseSamples, Samples, SMCSamples):
        s = cls(x, ll, lp, lq)
        for sel in [
            slice(None, None, -1),
            slice(1, None, 3),
            np.array([-1, -3, 0, 0]),
            [0, 2, 2],
            np.arange(n) % 3 == 0,
        ]:
            t = s[sel]
            for nm, ref in [
                ("x", x),
                ("log_likelihood", ll),
                ("log_prior", lp),
                ("log_q", lq),
            ]:
                if not np.array_equal(getattr(t, nm), ref[sel]):
                    return f"{cls.__name__} {nm} misaligned for {sel}"
            if cls is Samples:
                if not np.allclose(t.log_w, lw[sel]) or not np.allclose(
                    t.weights, np.exp(lw[sel])
                ):
                    return "weights misaligned"
        c = cls.concatenate([s[:3], s[3:7], s[7:]])
        if not np.array_equal(c.x, x) or not np.array_equal(c.log_q, lq):
            return "concatenate rows differ"
        p = pickle.loads(pickle.dumps(s))
        if not np.array_equal(p.x, x) or p.dtype != s.dtype:
            return "pickle differs"
        for flat in (True, False):
            r = cls.from_dict(s.to_dict(flat=flat))
            if not np.array_equal(r.x, x) or not np.array_equal(r.log_q, lq):
                return "dict round trip differs"


check("controls", controls)

if fails:
    print(f"FAIL: {len(fails)} violation(s): {', '.join(fails)}")
    sys.exit(1)
print("PASS")
sys.exit(0)
