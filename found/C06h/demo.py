"""C06h: SMC temperature schedule -- strictly increasing, ends exactly at 1.

Run as:  PYTHONPATH=<tree>/src /venv/bin/python demo.py
The SMC loop of the library (aspire.samplers.smc.base.SMCSampler.sample) is
used unmodified; only the mutation kernel is a stand-in (plain random-walk
Metropolis on the tempered target the library itself provides via log_prob).
"""
import logging
import math
import pathlib
import signal
import sys
import tempfile

import numpy as np

from aspire.samplers.smc.base import SMCSampler
from aspire.samples import SMCSamples

logging.disable(logging.CRITICAL)
DIMS = 2
N = 200


class GaussFlow:
    """N(0, 3^2 I) stand-in for the prior flow."""

    def __init__(self, seed):
        self.rng = np.random.default_rng(seed)

    def log_prob(self, x):
        x = np.asarray(x, dtype=np.float64)
        return -0.5 * np.sum((x / 3.0) ** 2, axis=-1) - DIMS * math.log(
            3.0 * math.sqrt(2 * math.pi)
        )

    def sample_and_log_prob(self, n):
        x = 3.0 * self.rng.standard_normal((n, DIMS))
        return x, self.log_prob(x)


class RWSMC(SMCSampler):
    """SMCSampler + a correct random-walk Metropolis kernel."""

    sampler_kwargs = None
    n_mutate = 0
    fail_after = None  # raise KeyboardInterrupt in the k-th mutation

    def mutate(self, particles, beta, n_steps=None):
        if self.fail_after is not None and self.n_mutate >= self.fail_after:
            raise KeyboardInterrupt
        self.n_mutate += 1
        x = np.array(particles.x, dtype=np.float64)
        lp = np.asarray(self.log_prob(x, beta), dtype=np.float64)
        for _ in range(n_steps or 3):
            prop = x + 0.3 * self.rng.standard_normal(x.shape)
            lpp = np.asarray(self.log_prob(prop, beta), dtype=np.float64)
            acc = np.log(self.rng.uniform(size=len(x))) < lpp - lp
            x[acc] = prop[acc]
            lp[acc] = lpp[acc]
        s = SMCSamples(x, xp=self.xp, beta=beta, dtype=self.dtype)
        s.log_q = s.array_to_namespace(self.prior_flow.log_prob(s.x))
        s.log_prior = s.array_to_namespace(self.log_prior(s))
        s.log_likelihood = s.array_to_namespace(self.log_likelihood(s))
        return s


def log_l(s):
    x = np.asarray(s.x, dtype=np.float64)
    return -0.5 * np.sum(((x - 1.0) / 0.05) ** 2, axis=-1)


def log_p(s):
    x = np.asarray(s.x, dtype=np.float64)
    inside = np.all(np.abs(x) < 10, axis=-1)
    return np.where(inside, -DIMS * math.log(20.0), -np.inf)


def make(seed):
    return RWSMC(
        log_l, log_p, DIMS, GaussFlow(seed), xp=np,
        rng=np.random.default_rng(seed),
    )


def schedule_ok(betas):
    b = [float(v) for v in betas]
    return (
        len(b) > 0
        and all(0.0 < v <= 1.0 for v in b)
        and all(b[i] < b[i + 1] for i in range(len(b) - 1))
    )


failures = []


def fail(msg):
    failures.append(msg)
    print("FAIL " + msg)


# ---------------------------------------------------------------- reference
states = []
ref = make(1)
ref.sample(
    N, target_efficiency=0.8, checkpoint_every=1,
    checkpoint_callback=states.append,
)
assert schedule_ok(ref.history.beta) and ref.history.beta[-1] == 1.0
assert len(states) >= 4, "need a mid-run payload"

# ---- A. resume twice from the same (documented) checkpoint *dict* ---------
payload = states[1]  # after iteration 2, beta << 1
beta_ckpt = float(payload["meta"]["beta"])
n_hist = len(payload["history"].beta)
assert beta_ckpt < 1.0 and payload["history"].beta[-1] == beta_ckpt

first = make(2)
first.sample(N, target_efficiency=0.8, resume_from=payload)
ok_first = schedule_ok(first.history.beta) and first.history.beta[-1] == 1.0

if len(payload["history"].beta) != n_hist:
    fail(
        "A0 resuming from a checkpoint dict mutates the payload: its history "
        f"grew from {n_hist} to {len(payload['history'].beta)} temperatures"
    )

second = make(3)
out = second.sample(N, target_efficiency=0.8, resume_from=payload)
pop_beta = None
# temperature of the population actually returned: it is the payload's
# population iff no SMC iteration was run
if second.n_mutate == 0:
    pop_beta = beta_ckpt
if not ok_first:
    fail(f"A1 first resume: bad schedule {first.history.beta}")
if second.n_mutate == 0 and beta_ckpt < 1.0:
    fail(
        "A2 second resume from the same checkpoint dict ran 0 iterations and "
        f"returned the population at beta={pop_beta:.6g} as final samples "
        f"(history.beta[-1]={second.history.beta[-1]}, log_evidence="
        f"{float(out.log_evidence):.3f} copied from the first resumed run)"
    )

# ---- B. a resumed run that is interrupted, then resumed again -------------
payload = states[2]  # states[1] was polluted by A; take a fresh one
n_hist = len(payload["history"].beta)
broken = make(4)
broken.fail_after = 2
try:
    broken.sample(N, target_efficiency=0.8, resume_from=payload)
except KeyboardInterrupt:
    pass
again = make(5)
again.sample(N, target_efficiency=0.8, resume_from=payload)
if not schedule_ok(again.history.beta):
    b = [round(float(v), 6) for v in again.history.beta]
    fail(
        "B  resume after an interrupted resume (same dict): history.beta is "
        f"not strictly increasing: {b}; {len(b)} temperatures recorded for "
        f"{n_hist} + {again.n_mutate} iterations, log-evidence increments "
        "double counted"
    )

# ---- C. target efficiency given as a NumPy float32 scalar -----------------
try:
    c = make(6)
    c.sample(N, target_efficiency=np.float32(0.5))
    if not (schedule_ok(c.history.beta) and c.history.beta[-1] == 1.0):
        fail(f"C  float32 target efficiency: bad schedule {c.history.beta}")
except TypeError as e:
    fail(f"C  target_efficiency=np.float32(0.5) raises TypeError: {e}")

# ---- D. resume_from given as pathlib.Path (checkpoint_file_path takes one) -
with tempfile.TemporaryDirectory() as d:
    path = pathlib.Path(d) / "ckpt.h5"
    w = make(7)
    w.sample(N, checkpoint_every=1, checkpoint_file_path=path,
             max_n_steps=1, min_step=0.0)
    assert w.history.beta[-1] < 1.0
    r = make(8)
    r.sample(N, resume_from=str(path))
    assert schedule_ok(r.history.beta) and r.history.beta[-1] == 1.0
    try:
        r = make(8)
        r.sample(N, resume_from=path)
        if not (schedule_ok(r.history.beta) and r.history.beta[-1] == 1.0):
            fail(f"D  Path resume: bad schedule {r.history.beta}")
    except TypeError as e:
        fail(f"D  resume_from=pathlib.Path(...) raises TypeError: {e}")

# ---- E. beta_tolerance = 0 (exact bisection) never returns ----------------
class _Timeout(Exception):
    pass


def _alarm(*_):
    raise _Timeout


signal.signal(signal.SIGALRM, _alarm)
signal.alarm(20)
try:
    e = make(9)
    e.sample(N, beta_tolerance=0.0)
    signal.alarm(0)
    if not (schedule_ok(e.history.beta) and e.history.beta[-1] == 1.0):
        fail(f"E  beta_tolerance=0: bad schedule {e.history.beta}")
except _Timeout:
    fail("E  beta_tolerance=0.0: determine_beta bisection spins forever "
         "(no return within 20 s)")
finally:
    signal.alarm(0)

if failures:
    sys.exit(1)
print("PASS")
