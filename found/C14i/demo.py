"""Shared helpers: fake minipcn/orng, problem setup, file inspection."""
import os
import pickle
import sys
import types

import numpy as np

os.environ.setdefault("OMP_NUM_THREADS", "2")


# ---- minimal, correct stand-ins for the uninstalled minipcn / orng ----
class _Hist:
    def __init__(self, acc):
        self.acceptance_rate = acc


class _RWSampler:
    """Random-walk Metropolis on all particles in parallel (numpy)."""

    def __init__(self, log_prob_fn, step_fn=None, rng=None, dims=None,
                 target_acceptance_rate=0.234, xp=None):
        self.log_prob_fn = log_prob_fn
        self.rng = rng
        self.dims = dims

    def sample(self, z, n_steps=5):
        z = np.array(z, dtype=float)
        lp = np.asarray(self.log_prob_fn(z), dtype=float)
        chain = [z.copy()]
        acc = []
        for _ in range(n_steps):
            prop = z + 0.3 * self.rng.normal(size=z.shape)
            lp_new = np.asarray(self.log_prob_fn(prop), dtype=float)
            u = np.log(self.rng.uniform(size=len(z)))
            ok = u < (lp_new - lp)
            z = np.where(ok[:, None], prop, z)
            lp = np.where(ok, lp_new, lp)
            acc.append(ok.mean())
            chain.append(z.copy())
        return np.array(chain), _Hist(np.array(acc))


class _ArrayRNG(np.random.Generator):
    def __init__(self, backend=None, seed=1234):
        super().__init__(np.random.PCG64(seed))


def install_fakes():
    m = types.ModuleType("minipcn")
    m.Sampler = _RWSampler
    sys.modules["minipcn"] = m
    o = types.ModuleType("orng")
    o.ArrayRNG = _ArrayRNG
    sys.modules["orng"] = o


install_fakes()

import torch  # noqa: E402

from aspire import Aspire  # noqa: E402
from aspire.samples import Samples  # noqa: E402
from aspire.utils import AspireFile, load_from_h5_file  # noqa: E402

DIMS = 2


def log_likelihood(s):
    x = np.asarray(s.x)
    return -0.5 * np.sum((x - 1.0) ** 2, axis=-1) / 0.5**2


def log_prior(s):
    x = np.asarray(s.x)
    return -0.5 * np.sum(x**2, axis=-1) / 9.0 - DIMS * np.log(3.0) - 0.5 * DIMS * np.log(2 * np.pi)


def data(which, n=400):
    rng = np.random.default_rng(0 if which == "A" else 1)
    if which == "A":
        x = rng.normal(0.0, 2.0, size=(n, DIMS))
    else:
        x = rng.normal(3.0, 0.7, size=(n, DIMS))
    return Samples(x, xp=np)


def make_aspire(**kw):
    torch.manual_seed(0)
    return Aspire(
        log_likelihood=log_likelihood,
        log_prior=log_prior,
        dims=DIMS,
        parameters=["a", "b"],
        flow_backend="zuko",
        **kw,
    )


FIT = dict(n_epochs=15, batch_size=200)
SMC = dict(n_samples=60, sampler="minipcn_smc", sampler_kwargs=dict(n_steps=3))


def inspect(path):
    """Return dict(config_sampler, ckpt_sampler, max_abs_dlogq, has_flow, has_ckpt)."""
    out = {}
    with AspireFile(path, "r") as f:
        out["has_flow"] = "flow" in f
        out["has_config"] = "aspire_config" in f
        out["has_ckpt"] = "checkpoint" in f and "state" in f["checkpoint"]
        cfg = load_from_h5_file(f, "aspire_config") if out["has_config"] else {}
        out["config_sampler"] = cfg.get("sampler_type")
        sc = cfg.get("sampler_config") or {}
        out["config_sampler_class"] = sc.get("sampler_class")
        state = None
        if out["has_ckpt"]:
            state = pickle.loads(f["checkpoint"]["state"][...].tobytes())
        out["ckpt_sampler"] = state.get("sampler") if state else None
        out["ckpt_iteration"] = state.get("iteration") if state else None
        if state and out["has_flow"]:
            from aspire.flows.torch.flows import ZukoFlow

            flow = ZukoFlow.load(f, "flow")
            s = state["samples"]
            lq = flow.log_prob(torch.as_tensor(np.asarray(s.x)))
            lq = lq.detach().numpy()
            out["max_dlogq"] = float(np.max(np.abs(lq - np.asarray(s.log_q))))
    return out


# ----------------------------------------------------------------------
import logging  # noqa: E402
import shutil  # noqa: E402
import tempfile  # noqa: E402

logging.disable(logging.CRITICAL)


class Stop(BaseException):
    pass


class Interrupting:
    """Likelihood that dies after `limit` calls: a run killed mid-way."""

    def __init__(self, limit):
        self.n, self.limit = 0, limit

    def __call__(self, s):
        self.n += 1
        if self.n > self.limit:
            raise Stop()
        return log_likelihood(s)


def resume(f):
    return Aspire.resume_from_file(
        f, log_likelihood=log_likelihood, log_prior=log_prior
    )


def consistent(info):
    """C14 as stated, read from the file alone."""
    problems = []
    if info["has_ckpt"]:
        names = {"MiniPCNSMC": {"smc", "minipcn_smc"}}
        ok = info["config_sampler"] in names.get(info["ckpt_sampler"], set())
        if not ok:
            problems.append(
                "aspire_config.sampler_type=%r but checkpoint['sampler']=%r"
                % (info["config_sampler"], info["ckpt_sampler"])
            )
        if info.get("max_dlogq", 0.0) > 1e-4:
            problems.append(
                "file flow log_prob differs from the checkpoint particles' "
                "stored log_q by up to %.3g" % info["max_dlogq"]
            )
    return problems


def try_resume(f):
    try:
        resume(f).sample_posterior()
        return None
    except Exception as e:  # noqa: BLE001
        return "%s: %s" % (type(e).__name__, e)


def main():
    d = tempfile.mkdtemp(prefix="c14i_")
    fails = []

    # Reference histories: a complete and an interrupted SMC run, flow A
    f_full = os.path.join(d, "full.h5")
    a = make_aspire()
    with a.auto_checkpoint(f_full):
        a.fit(data("A"), **FIT)
        a.sample_posterior(**SMC)
    f_int = os.path.join(d, "interrupted.h5")
    b = make_aspire()
    b.log_likelihood = Interrupting(8)
    try:
        with b.auto_checkpoint(f_int):
            b.fit(data("A"), **FIT)
            b.sample_posterior(**SMC)
    except Stop:
        pass
    b.log_likelihood = log_likelihood
    for name, f in [("complete SMC run", f_full), ("interrupted SMC run", f_int)]:
        p = consistent(inspect(f))
        print("reference %-22s %s" % (name, "consistent" if not p else p))
        if p:
            fails.append("reference history %s: %s" % (name, p))

    # (1) SMC then importance sampling, same automatic checkpoint file
    f = os.path.join(d, "h1.h5")
    shutil.copy(f_full, f)
    with a.auto_checkpoint(f):
        a.sample_posterior(n_samples=50, sampler="importance")
    p = consistent(inspect(f))
    err = try_resume(f)
    if p or err:
        fails.append(
            "[1] fit(A); sample SMC; sample importance, all in auto_checkpoint(f): "
            + "; ".join(p)
            + (" -> resume_from_file(f).sample_posterior() raises " + err if err else "")
        )

    # (1') same with the plain-MCMC sampler and an explicit checkpoint_path
    f = os.path.join(d, "h1c.h5")
    shutil.copy(f_int, f)
    a.sample_posterior(n_samples=20, sampler="minipcn", n_steps=5, checkpoint_path=f)
    p = consistent(inspect(f))
    err = try_resume(f)
    if p or err:
        fails.append(
            "[1'] interrupted SMC in f; sample_posterior(sampler='minipcn', checkpoint_path=f): "
            + "; ".join(p)
            + (" -> resume raises " + err if err else "")
        )

    # (2) importance in the context, later resume_from_file and run SMC through
    #     the resumed object (its defaults carry save_config=False)
    f = os.path.join(d, "h2.h5")
    c = make_aspire()
    with c.auto_checkpoint(f):
        c.fit(data("A"), **FIT)
        c.sample_posterior(n_samples=50)
    r = resume(f)
    r.sample_posterior(**SMC)
    p = consistent(inspect(f))
    err = try_resume(f)
    if p or err:
        fails.append(
            "[2] fit(A)+importance in auto_checkpoint(f); resume_from_file(f).sample_posterior(SMC): "
            + "; ".join(p)
            + (" -> second resume raises " + err if err else "")
        )

    # (3) refit WITH overwrite=True into a file holding a mid-run checkpoint
    f = os.path.join(d, "h3.h5")
    shutil.copy(f_int, f)
    r = resume(f)
    r.fit(data("B"), overwrite=True, **FIT)
    p = consistent(inspect(f))
    if p:
        err = try_resume(f)
        fails.append(
            "[3] interrupted SMC under flow A; resume_from_file(f).fit(B, overwrite=True): "
            + "; ".join(p)
            + (" -> resume raises " + err if err
               else " -> resume_from_file(f).sample_posterior() silently continues the A-weighted population with flow B")
        )

    # histories that behave (kept as a control)
    f = os.path.join(d, "nest.h5")
    e = make_aspire()
    with e.auto_checkpoint(f):
        e.fit(data("A"), **FIT)
        with e.auto_checkpoint(f, every=2):
            e.sample_posterior(**SMC)
        e.sample_posterior(**SMC)
    resume(f).sample_posterior()
    resume(f).sample_posterior()
    p = consistent(inspect(f))
    if p:
        fails.append("[control] nested contexts / resume after resume: " + "; ".join(p))

    shutil.rmtree(d, ignore_errors=True)
    if fails:
        for line in fails:
            print("FAIL", line)
        sys.exit(1)
    print("PASS")
    sys.exit(0)


if __name__ == "__main__":
    main()
