"""C08h demo: SMC evidence = accumulated product of incremental ratios.

Run as:  PYTHONPATH=<tree>/src /venv/bin/python demo.py

The SMC loop of aspire (aspire.samplers.smc.base.SMCSampler.sample) is used
unmodified; only `mutate` (normally delegated to minipcn/emcee/blackjax, which
are not installed) is replaced by a plain random-walk Metropolis kernel on the
tempered target, and the flow by an analytic Gaussian proposal.

Checks
  1. (main) resume_from=<checkpoint dict>: a run resumed from an in-memory
     checkpoint dictionary must return the evidence of the uninterrupted run,
     and recomputation from history.sample_history / history.beta must
     reproduce every per-step ratio and the sum -- also when the same
     dictionary has been used for an (interrupted) resume before.
  2. a second, uninterrupted resume from the same dictionary must perform the
     remaining iterations itself.
  3. resume_from=pathlib.Path of the file written via checkpoint_file_path.
  4. torch target whose log-likelihood carries requires_grad.
"""
import copy
import math
import os
import pathlib
import sys
import tempfile
import warnings

import numpy as np

warnings.filterwarnings("ignore")

import array_api_compat.numpy as xnp  # noqa: E402

from aspire.samplers.smc.base import SMCSampler  # noqa: E402
from aspire.samples import SMCSamples  # noqa: E402
from aspire.utils import asarray, to_numpy  # noqa: E402

DIMS = 2
N = 150


class GaussFlow:
    """Analytic N(0, 3^2 I) proposal ("prior flow")."""

    def __init__(self, xp, seed=0, scale=3.0):
        self.xp, self.scale = xp, scale
        self.rng = np.random.default_rng(seed)

    def log_prob(self, x):
        x = np.asarray(to_numpy(x), dtype=np.float64)
        lp = -0.5 * np.sum((x / self.scale) ** 2, axis=-1) - DIMS * (
            math.log(self.scale) + 0.5 * math.log(2 * math.pi)
        )
        return asarray(lp, self.xp)

    def sample_and_log_prob(self, n):
        x = asarray(self.rng.normal(size=(n, DIMS)) * self.scale, self.xp)
        return x, self.log_prob(x)


class RWSMC(SMCSampler):
    """aspire's SMC loop + a random-walk Metropolis mutation kernel."""

    sampler_kwargs = None
    n_mutations = 0

    def mutate(self, particles, beta, n_steps=None):
        self.n_mutations += 1
        z = np.array(to_numpy(particles.x), dtype=np.float64)

        def logp(zz):
            return np.array(
                to_numpy(self.log_prob(asarray(zz, self.xp), beta)),
                dtype=np.float64,
            )

        lp = logp(z)
        for _ in range(n_steps or 3):
            prop = z + 0.5 * self.rng.normal(size=z.shape)
            lpp = logp(prop)
            acc = np.log(self.rng.uniform(size=len(z))) < (lpp - lp)
            z[acc], lp[acc] = prop[acc], lpp[acc]
        s = SMCSamples(
            asarray(z, self.xp), xp=self.xp, beta=beta, dtype=self.dtype,
            parameters=self.parameters,
        )
        s.log_q = s.array_to_namespace(self.prior_flow.log_prob(s.x))
        s.log_prior = s.array_to_namespace(self.log_prior(s))
        s.log_likelihood = s.array_to_namespace(self.log_likelihood(s))
        return s


def np_target():
    def log_likelihood(samples):
        x = samples.x
        return -0.5 * xnp.sum(((x - 1.0) / 0.5) ** 2, axis=-1) - DIMS * (
            math.log(0.5) + 0.5 * math.log(2 * math.pi)
        )

    def log_prior(samples):
        x = samples.x
        return xnp.sum(
            xnp.where((x >= -10) & (x <= 10), math.log(1 / 20), -xnp.inf),
            axis=-1,
        )

    return log_likelihood, log_prior


def make(seed=1):
    ll, lp = np_target()
    return RWSMC(
        log_likelihood=ll, log_prior=lp, dims=DIMS, prior_flow=GaussFlow(xnp),
        xp=xnp, rng=np.random.default_rng(seed),
    )


def recompute(history):
    """Per-step log mean incremental weight and its delta-method variance,
    from the recorded populations (before resampling) and temperatures."""
    ratios, variances = [], []
    for k, beta in enumerate(history.beta):
        if k >= len(history.sample_history):
            ratios.append(float("nan")), variances.append(float("nan"))
            continue
        s = history.sample_history[k]
        lw = (beta - s.beta) * (
            np.asarray(s.log_likelihood, float)
            + np.asarray(s.log_prior, float)
            - np.asarray(s.log_q, float)
        )
        m = lw.max()
        u = np.exp(lw - m)
        ratios.append(m + math.log(u.mean()))
        variances.append(u.var() / (len(u) * u.mean() ** 2))
    return np.array(ratios), np.array(variances)


def consistent(history, result, tol=1e-9):
    r, v = recompute(history)
    got_r = np.array([float(x) for x in history.log_norm_ratio])
    got_v = np.array([float(x) for x in history.log_norm_ratio_var])
    problems = []
    if len(history.sample_history) != len(history.beta) + 1:
        problems.append(
            f"{len(history.beta)} temperatures but "
            f"{len(history.sample_history)} recorded populations"
        )
    if not (np.diff([0.0] + list(history.beta)) > 0).all():
        problems.append(f"temperatures not increasing: {history.beta}")
    if r.shape != got_r.shape or not np.allclose(r, got_r, rtol=tol, atol=tol):
        problems.append(f"per-step ratios {got_r} != recomputed {r}")
    elif not np.allclose(v, got_v, rtol=1e-7, atol=0):
        problems.append(f"per-step variances {got_v} != recomputed {v}")
    if not abs(float(result.log_evidence) - np.nansum(r)) < 1e-8:
        problems.append(
            f"log_evidence {float(result.log_evidence)} != recomputed sum {np.nansum(r)}"
        )
    return problems


failures = []

# ---------------------------------------------------------------- reference
states = []
ref = make()
r_ref = ref.sample(N, checkpoint_callback=states.append)
assert not consistent(ref.history, r_ref), consistent(ref.history, r_ref)
E0, dE0 = float(r_ref.log_evidence), float(r_ref.log_evidence_error)
print(f"reference run: log Z = {E0:.6f} +/- {dE0:.6f}, betas = {ref.history.beta}")

# Sanity: a resume from a *fresh copy* of a mid-run checkpoint reproduces it
fresh = make(seed=10)
r_fresh = fresh.sample(N, resume_from=copy.deepcopy(states[0]))
assert float(r_fresh.log_evidence) == E0 and not consistent(fresh.history, r_fresh)

# ------------------------------------------- 1. resume from the dict, twice
ckpt = copy.deepcopy(states[0])  # the user's in-memory checkpoint after it. 1
n_hist_before = len(ckpt["history"].log_norm_ratio)


def interrupting_callback(state):
    raise KeyboardInterrupt  # e.g. Ctrl-C / job pre-emption after one more it.


first = make(seed=10)
try:
    first.sample(N, resume_from=ckpt, checkpoint_callback=interrupting_callback)
except KeyboardInterrupt:
    pass
n_hist_after = len(ckpt["history"].log_norm_ratio)

second = make(seed=10)
r2 = second.sample(N, resume_from=ckpt)
E2, dE2 = float(r2.log_evidence), float(r2.log_evidence_error)
problems = consistent(second.history, r2)
if E2 != E0 or dE2 != dE0 or problems:
    failures.append(
        "FAIL [1] resume_from=<dict> after an interrupted resume from the same "
        f"dict: log Z = {E2:.6f} +/- {dE2:.6f} but the uninterrupted run gives "
        f"{E0:.6f} +/- {dE0:.6f}; checkpoint dict's history grew "
        f"{n_hist_before} -> {n_hist_after} entries during the first resume; "
        f"history.beta = {second.history.beta}; " + "; ".join(problems)
    )

# ------------------ 2. two complete resumes from one dict (no interruption)
ckpt = copy.deepcopy(states[1])  # after iteration 2 of 4
a = make(seed=10)
ra = a.sample(N, resume_from=ckpt)
b = make(seed=10)
rb = b.sample(N, resume_from=ckpt)
todo = len(ref.history.beta) - 2
if a.n_mutations != todo or b.n_mutations != todo or float(rb.log_evidence) != E0:
    same_pop = np.array_equal(np.asarray(rb.x), np.asarray(states[1]["samples"].x))
    failures.append(
        "FAIL [2] second resume from the same checkpoint dict: performed "
        f"{b.n_mutations} of the {todo} remaining iterations (first resume: "
        f"{a.n_mutations}) yet reports log Z = {float(rb.log_evidence):.6f} "
        f"summed over {len(b.history.log_norm_ratio)} ratios; returned "
        f"population is the beta={states[1]['meta']['beta']:.4f} checkpoint "
        f"population: {same_pop}"
    )

# ------------------------------------------ 3. resume_from = pathlib.Path
tmp = pathlib.Path(tempfile.mkdtemp()) / "smc ckpt.h5"
w = make()
rw = w.sample(N, checkpoint_every=1, checkpoint_file_path=tmp)
assert float(rw.log_evidence) == E0
try:
    p = make(seed=3)
    rp = p.sample(N, resume_from=tmp)
    if float(rp.log_evidence) != E0:
        failures.append(f"FAIL [3] resume from Path: {float(rp.log_evidence)} != {E0}")
except Exception as exc:  # noqa: BLE001
    s_ok = make(seed=3).sample(N, resume_from=str(tmp))
    failures.append(
        "FAIL [3] resume_from=pathlib.Path(file written through "
        f"checkpoint_file_path=Path) raises {exc!r}; the same file given as "
        f"str resumes fine (log Z = {float(s_ok.log_evidence):.6f})"
    )

# --------------------- 4. torch likelihood whose output carries requires_grad
try:
    import torch
    import array_api_compat.torch as xt

    mean = torch.tensor(1.0, requires_grad=True)  # e.g. a trainable emulator

    def t_ll(samples):
        return -0.5 * torch.sum(((samples.x - mean) / 0.5) ** 2, dim=-1)

    def t_lp(samples):
        return torch.zeros(len(samples.x)) + DIMS * math.log(1 / 20)

    t = RWSMC(
        log_likelihood=t_ll, log_prior=t_lp, dims=DIMS, prior_flow=GaussFlow(xt),
        xp=xt, rng=np.random.default_rng(1),
    )
    try:
        rt = t.sample(100)
        float(rt.log_evidence)
    except RuntimeError as exc:
        import traceback

        tb = traceback.extract_tb(exc.__traceback__)
        where = next(
            (f"{os.path.basename(f.filename)}:{f.lineno}" for f in reversed(tb)
             if "aspire" in f.filename and "site-packages" not in f.filename),
            "?",
        )
        failures.append(
            "FAIL [4] torch log-likelihood with requires_grad: SMC run raises "
            f"{exc!r} at {where} (first evidence-ratio log line) instead of "
            "returning an evidence"
        )
except ImportError:
    pass

if failures:
    print("FAIL")
    for f in failures:
        print(f)
    sys.exit(1)
print("PASS")
sys.exit(0)
