"""C13h: saved objects must reload to observationally equal objects.

Run as:  PYTHONPATH=<tree>/src /venv/bin/python demo.py
Prints one FAIL line per violated check and exits 1; prints PASS and exits 0
otherwise.
"""
import logging
import os
import sys
import tempfile
import warnings

warnings.filterwarnings("ignore")
os.environ.setdefault("OMP_NUM_THREADS", "2")
os.environ.setdefault("MKL_NUM_THREADS", "2")
os.environ.setdefault("OPENBLAS_NUM_THREADS", "2")

import h5py
import numpy as np

logging.disable(logging.CRITICAL)

import jax
import jax.numpy as jnp

from aspire import Aspire
from aspire.history import FlowHistory
from aspire.samples import Samples, SMCSamples
from aspire.utils import AspireFile

TMP = tempfile.mkdtemp(prefix="C13h_")
FAILS = []


def fail(tag, msg):
    FAILS.append(tag)
    print(f"FAIL [{tag}] {msg}")


def log_likelihood(s):
    return -0.5 * (s.x**2).sum(-1)


def log_prior(s):
    return 0.0 * s.x[:, 0]


PARAMS = ["a", "b"]
BOUNDS = {"a": [0.0, 1.0], "b": [-1.0, 1.0]}
X = np.random.default_rng(0).uniform(0.1, 0.9, (64, 2))


# --- A. configuration rebuilt from file: flow option `key` (flowjax) --------
# This is the library's own usage (tests/integration_tests, examples/
# blackjax_smc_example.py): Aspire(flow_backend="flowjax", key=jax.random.key(..)).
def check_config_flowjax_key():
    fn = os.path.join(TMP, "config_key.h5")
    a = Aspire(
        log_likelihood=log_likelihood,
        log_prior=log_prior,
        dims=2,
        parameters=PARAMS,
        prior_bounds=BOUNDS,
        flow_backend="flowjax",
        key=jax.random.key(2),
    )
    a.fit(Samples(X, parameters=PARAMS), max_epochs=1, show_progress=False)
    with AspireFile(fn, "w") as f:
        a.save_config(f, include_sampler_config=False)
        a.save_flow(f)
    b = Aspire.resume_from_file(
        fn, log_likelihood=log_likelihood, log_prior=log_prior
    )
    k0 = a.config_dict(include_sampler_config=False)["flow_kwargs"]["key"]
    k1 = b.config_dict(include_sampler_config=False)["flow_kwargs"].get("key")
    same = False
    try:
        same = bool(
            np.array_equal(
                np.asarray(jax.random.key_data(k0)),
                np.asarray(jax.random.key_data(k1)),
            )
        )
    except Exception:
        same = False
    if not same:
        extra = ""
        try:
            b.init_flow()
        except Exception as e:  # the rebuilt instance cannot build its flow
            extra = f"; rebuilt.init_flow() raises {type(e).__name__}"
        fail(
            "config-flowjax-key",
            f"flow_kwargs['key'] saved as {type(k0).__name__} (typed JAX key) "
            f"reloads as {type(k1).__name__} {k1!r}{extra}",
        )


# --- B. FlowHistory.save(file) then FlowHistory.load(file) ------------------
def check_flow_history_default_paths():
    fn = os.path.join(TMP, "flow_history.h5")
    h = FlowHistory(training_loss=[1.0, 0.5], validation_loss=[1.1, 0.6])
    with h5py.File(fn, "w") as f:
        h.save(f)
    try:
        with h5py.File(fn, "r") as f:
            h2 = FlowHistory.load(f)
        ok = np.allclose(h2.training_loss, h.training_loss) and np.allclose(
            h2.validation_loss, h.validation_loss
        )
        if not ok:
            fail("flow-history-default-path", "series differ after reload")
    except Exception as e:
        fail(
            "flow-history-default-path",
            f"FlowHistory.save(f) followed by FlowHistory.load(f) raises "
            f"{type(e).__name__}: {e}",
        )


# --- C. fitted state 'not yet fitted': init_flow() then save_flow() ---------
def check_unfitted_flow_save():
    fn = os.path.join(TMP, "unfitted.h5")
    a = Aspire(
        log_likelihood=log_likelihood,
        log_prior=log_prior,
        dims=2,
        parameters=PARAMS,
        prior_bounds=BOUNDS,
    )
    a.init_flow()
    try:
        with AspireFile(fn, "w") as f:
            a.save_config(f, include_sampler_config=False)
            a.save_flow(f)
        b = Aspire.resume_from_file(
            fn, log_likelihood=log_likelihood, log_prior=log_prior
        )
        del b
    except Exception as e:
        fail(
            "unfitted-flow-save",
            f"Aspire.init_flow(); Aspire.save_flow(f) raises "
            f"{type(e).__name__}: {e}",
        )


# --- D. flat layout, parameter called 'beta' in an SMC population -----------
def check_flat_layout_field_name():
    fn = os.path.join(TMP, "flat_beta.h5")
    rng = np.random.default_rng(1)
    ll, lp, lq = rng.normal(size=(3, 6))
    s = SMCSamples(
        x=rng.normal(size=(6, 2)),
        log_likelihood=ll,
        log_prior=lp,
        log_q=lq,
        beta=0.5,
        parameters=["alpha", "beta"],
    )
    try:
        with h5py.File(fn, "w") as f:
            s.save(f, flat=True)
        with h5py.File(fn, "r") as f:
            s2 = SMCSamples.load(f)
        if s2.beta is None or float(s2.beta) != 0.5:
            fail(
                "flat-layout-beta",
                f"SMCSamples(parameters=['alpha','beta'], beta=0.5).save(flat=True) "
                f"reloads with beta={s2.beta!r}",
            )
        elif not np.array_equal(s2.x, s.x):
            fail("flat-layout-beta", "x differs")
    except Exception as e:
        fail("flat-layout-beta", f"raises {type(e).__name__}: {e}")


# --- E. FlowJax: the saved PRNG key is not the key of the reloaded flow -----
def check_flowjax_key_state():
    from aspire.flows.jax.flows import FlowJax

    fn = os.path.join(TMP, "flowjax.h5")
    fl = FlowJax(dims=2, key=jax.random.key(3))
    with h5py.File(fn, "w") as f:
        fl.save(f)
    with h5py.File(fn, "r") as f:
        fl2 = FlowJax.load(f)
    lp1 = np.asarray(fl.log_prob(X[:8]))
    lp2 = np.asarray(fl2.log_prob(X[:8]))
    if not np.array_equal(lp1, lp2):
        fail("flowjax-key-state", "log_prob differs after reload")
    k1 = np.asarray(jax.random.key_data(fl.key))
    k2 = np.asarray(jax.random.key_data(fl2.key))
    s1 = np.asarray(fl.sample(3))
    s2 = np.asarray(fl2.sample(3))
    if not np.array_equal(k1, k2) or not np.array_equal(s1, s2):
        fail(
            "flowjax-key-state",
            f"FlowJax.load(f).key={k2.tolist()} but the saved flow had "
            f"key={k1.tolist()}; next sample() of the two flows differ "
            f"(max |dx|={np.max(np.abs(s1 - s2)):.3g})",
        )


# --- F. ZukoFlow(flow_class=<callable>) (signature: `str | Callable`) -------
def check_zuko_callable_flow_class():
    import torch
    import zuko

    from aspire.flows.torch.flows import ZukoFlow

    fn = os.path.join(TMP, "zuko_callable.h5")
    fl = ZukoFlow(dims=2, flow_class=zuko.flows.NSF, hidden_features=[8])
    try:
        with h5py.File(fn, "w") as f:
            fl.save(f)
        with h5py.File(fn, "r") as f:
            fl2 = ZukoFlow.load(f)
        x = torch.tensor(X[:8], dtype=fl.dtype)
        if not np.array_equal(
            fl.log_prob(x).detach().numpy(), fl2.log_prob(x).detach().numpy()
        ):
            fail("zuko-callable-flow-class", "log_prob differs after reload")
    except Exception as e:
        fail(
            "zuko-callable-flow-class",
            f"ZukoFlow(flow_class=zuko.flows.NSF) saves but load raises "
            f"{type(e).__name__}: {e}",
        )


# --- G. parameter names given as a numpy string array -----------------------
def check_numpy_parameter_names():
    fn = os.path.join(TMP, "np_names.h5")
    s = Samples(x=X[:5], parameters=np.array(["a", "b"]))
    try:
        with h5py.File(fn, "w") as f:
            s.save(f)
        with h5py.File(fn, "r") as f:
            raw = f["samples/parameters"][()]
            s2 = Samples.load(f)
        if list(s2.parameters) != ["a", "b"] or not np.array_equal(s2.x, s.x):
            fail("numpy-parameter-names", f"parameters {s2.parameters!r}")
    except Exception as e:
        fail(
            "numpy-parameter-names",
            f"Samples(parameters=np.array(['a','b'])) is written as the string "
            f"{raw!r}; load raises {type(e).__name__}: {e}",
        )


# --- H. weighted Samples slice: evidence after reload -----------------------
def check_sliced_samples_evidence():
    fn = os.path.join(TMP, "slice.h5")
    rng = np.random.default_rng(2)
    ll, lp, lq = rng.normal(size=(3, 6))
    s = Samples(
        x=rng.normal(size=(6, 2)), log_likelihood=ll, log_prior=lp, log_q=lq
    )[:3]
    with h5py.File(fn, "w") as f:
        s.save(f)
    with h5py.File(fn, "r") as f:
        s2 = Samples.load(f)
    for name in ("log_evidence", "evidence", "evidence_error"):
        a, b = float(getattr(s, name)), float(getattr(s2, name))
        if not np.isclose(a, b, rtol=1e-12):
            fail(
                "sliced-samples-evidence",
                f"samples[:3].{name}={a!r} but reloaded {name}={b!r}",
            )
            break


CHECKS = [
    check_config_flowjax_key,
    check_flow_history_default_paths,
    check_unfitted_flow_save,
    check_flat_layout_field_name,
    check_flowjax_key_state,
    check_zuko_callable_flow_class,
    check_numpy_parameter_names,
    check_sliced_samples_evidence,
]

for check in CHECKS:
    try:
        check()
    except Exception as e:  # a check that cannot run is reported, not hidden
        fail(check.__name__, f"unexpected {type(e).__name__}: {e}")

if FAILS:
    print(f"FAIL ({len(FAILS)} violated checks: {', '.join(FAILS)})")
    sys.exit(1)
print("PASS")
sys.exit(0)
