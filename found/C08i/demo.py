"""C08i: SMC evidence = accumulated product of incremental ratios.

Run as  PYTHONPATH=<tree>/src /venv/bin/python demo.py

Finding 1 (main): a run that stops at max_n_steps with beta < 1 and enlarges
the final population (n_final_samples) writes a final checkpoint that holds
the enlarged population -- already reweighted to and mutated at beta = 1 --
labelled with the loop temperature (< 1), and that population is not in the
recorded history.  Resuming that checkpoint (more steps allowed) accumulates
incremental ratios on a population that is not at the temperature claimed:
the ratios cannot be reproduced from the recorded populations/temperatures
and the log-evidence is wrong by many reported sigmas.  The same sequence
without n_final_samples reproduces the uninterrupted run exactly.

Finding 2 (minor): with the plain `torch` module as the namespace the
per-step variance uses torch.var's Bessel correction, so the reported
uncertainty differs from numpy / array_api_compat.torch by sqrt(n/(n-1)).
"""

import math
import pickle
import sys

import numpy as np

import array_api_compat.numpy as anp
from aspire.samplers.smc.base import SMCSampler
from aspire.samples import SMCSamples
from aspire.utils import to_numpy

DIMS = 2
SIGMA = 3.0


class GaussFlow:
    """Proposal N(0, SIGMA^2 I); exact log_prob, own fixed-seed generator."""

    def __init__(self, xp, seed):
        self.xp = xp
        self.rng = np.random.default_rng(seed)

    def _lp(self, x):
        x = np.asarray(to_numpy(x), dtype=np.float64)
        return (
            -0.5 * np.sum((x / SIGMA) ** 2, axis=-1)
            - DIMS * math.log(SIGMA)
            - 0.5 * DIMS * math.log(2 * math.pi)
        )

    def log_prob(self, x):
        return self.xp.asarray(self._lp(x))

    def sample_and_log_prob(self, n):
        x = self.rng.normal(size=(n, DIMS)) * SIGMA
        return self.xp.asarray(x), self.xp.asarray(self._lp(x))


class RWSMC(SMCSampler):
    """SMC with a plain (correct) random-walk Metropolis kernel that leaves
    p_t(beta) = q^(1-beta) (L pi)^beta invariant, driven by self.rng."""

    sampler_kwargs = None

    def _evaluate(self, x, beta):
        s = SMCSamples(
            self.xp.asarray(x),
            xp=self.xp,
            beta=beta,
            dtype=self.dtype,
            parameters=self.parameters,
        )
        s.log_q = s.array_to_namespace(self.prior_flow.log_prob(s.x))
        s.log_prior = s.array_to_namespace(self.log_prior(s))
        s.log_likelihood = s.array_to_namespace(self.log_likelihood(s))
        return s

    def mutate(self, particles, beta, n_steps=None):
        x = np.asarray(to_numpy(particles.x), dtype=np.float64)
        lp = np.asarray(to_numpy(particles.log_p_t(beta)), dtype=np.float64)
        for _ in range(n_steps or 3):
            prop = x + 0.5 * self.rng.normal(size=x.shape)
            lpp = np.asarray(
                to_numpy(self._evaluate(prop, beta).log_p_t(beta)),
                dtype=np.float64,
            )
            acc = np.log(self.rng.uniform(size=len(x))) < lpp - lp
            x = np.where(acc[:, None], prop, x)
            lp = np.where(acc, lpp, lp)
        return self._evaluate(x, beta)


def log_likelihood(s):
    return -25.0 * s.xp.sum((s.x - 1.0) ** 2, axis=-1)


def log_prior(s):
    return -0.5 * s.xp.sum((s.x / 5.0) ** 2, axis=-1)


def make(seed=1):
    return RWSMC(
        log_likelihood,
        log_prior,
        DIMS,
        GaussFlow(anp, seed),
        anp,
        rng=np.random.default_rng(seed + 100),
    )


def recompute(history):
    """Per-step ratios/variances in float64 from the recorded populations
    (sample_history[k] = population before iteration k+1's resampling) and the
    recorded temperatures."""
    betas = [0.0] + [float(b) for b in history.beta]
    ratios, variances = [], []
    for k in range(len(history.beta)):
        s = history.sample_history[k]
        lw = (betas[k + 1] - betas[k]) * (
            np.asarray(s.log_likelihood, dtype=np.float64)
            + np.asarray(s.log_prior, dtype=np.float64)
            - np.asarray(s.log_q, dtype=np.float64)
        )
        m = lw.max()
        u = np.exp(lw - m)
        ratios.append(m + math.log(u.mean()))
        variances.append(u.var() / (len(u) * u.mean() ** 2))
    return np.array(ratios), np.array(variances)


def property_holds(sampler, out):
    r, v = recompute(sampler.history)
    rec = np.array([float(x) for x in sampler.history.log_norm_ratio])
    recv = np.array([float(x) for x in sampler.history.log_norm_ratio_var])
    return (
        np.allclose(r, rec, rtol=1e-9, atol=1e-9)
        and np.allclose(v, recv, rtol=1e-7, atol=1e-12)
        and np.isclose(float(out.log_evidence), r.sum(), rtol=1e-9, atol=1e-9)
        and np.isclose(
            float(out.log_evidence_error), math.sqrt(v.sum()), rtol=1e-7
        )
    ), r, rec


COMMON = dict(target_efficiency=0.8, min_step=0.01)
failures = []

# Uninterrupted reference run
ref = make()
out_ref = ref.sample(500, **COMMON)
ok, _, _ = property_holds(ref, out_ref)
if not ok:
    failures.append("uninterrupted run does not reproduce its own ratios")
logz_ref = float(out_ref.log_evidence)


def interrupted(n_final_samples):
    """Three iterations, (optional) final enlargement, checkpoint; resume."""
    states = []
    first = make()
    first.sample(
        500,
        max_n_steps=3,
        n_final_samples=n_final_samples,
        checkpoint_callback=lambda s: states.append(pickle.dumps(s)),
        checkpoint_every=1,
        **COMMON,
    )
    last = pickle.loads(states[-1])
    second = make()
    out = second.sample(500, resume_from=states[-1], **COMMON)
    return first, last, second, out


# Control: same sequence without the enlargement
_, last, second, out = interrupted(None)
ok, _, _ = property_holds(second, out)
if not ok or float(out.log_evidence) != logz_ref:
    failures.append(
        "control (no enlargement): resumed run differs from uninterrupted run: "
        f"{float(out.log_evidence)} vs {logz_ref}"
    )

# Finding 1
first, last, second, out = interrupted(2000)
ok, r, rec = property_holds(second, out)
label_beta = float(last["meta"]["beta"])
pop_beta = float(last["samples"].beta)
if pop_beta != label_beta:
    failures.append(
        "final checkpoint after the n_final_samples enlargement: population is "
        f"at beta={pop_beta} (resample(1.0)+mutate(1.0)) but is checkpointed "
        f"with beta={label_beta}; the step {label_beta}->1 has no recorded ratio"
    )
if not ok:
    failures.append(
        "resume of that checkpoint: recorded per-step ratios "
        f"{np.round(rec, 4).tolist()} are not reproduced from the recorded "
        f"populations/temperatures {np.round(r, 4).tolist()}; returned "
        f"log_evidence={float(out.log_evidence):.4f} +/- "
        f"{float(out.log_evidence_error):.4f} but recomputed sum={r.sum():.4f}, "
        f"uninterrupted run (and the same sequence without n_final_samples) "
        f"gives {logz_ref:.4f}"
    )
elif abs(float(out.log_evidence) - logz_ref) > 10 * float(
    out.log_evidence_error
):
    failures.append(
        "resume after enlargement: evidence depends on the enlargement: "
        f"{float(out.log_evidence)} vs {logz_ref}"
    )

# Finding 2 (minor): plain torch namespace -> Bessel-corrected variance
try:
    import torch

    g = np.random.default_rng(0)
    n = 50
    fields = dict(
        x=g.normal(size=(n, 2)),
        log_likelihood=g.normal(size=n),
        log_prior=g.normal(size=n),
        log_q=g.normal(size=n),
    )
    s_np = SMCSamples(**fields, xp=anp, beta=0.0)
    s_t = SMCSamples(
        **{k: torch.as_tensor(v) for k, v in fields.items()},
        xp=torch,
        beta=0.0,
        dtype=torch.float64,
    )
    v_np = float(s_np.log_evidence_ratio_variance(0.5))
    v_t = float(s_t.log_evidence_ratio_variance(0.5))
    if not np.isclose(v_np, v_t, rtol=1e-9):
        failures.append(
            "per-step variance depends on the namespace: xp=torch gives "
            f"{v_t!r}, numpy gives {v_np!r} (ratio {v_t / v_np:.6f} = n/(n-1) "
            f"= {n / (n - 1):.6f}); same population, same temperatures"
        )
except ImportError:
    pass

if failures:
    for f in failures:
        print("FAIL:", f)
    sys.exit(1)
print("PASS")
sys.exit(0)
