"""C09h: SMCSamples.resample on populations the property's quantifier covers.

Run as:  PYTHONPATH=<tree>/src /venv/bin/python demo.py
Exits 1 and prints FAIL lines when the property is violated, 0 / PASS otherwise.

Property: every resampling step draws each new particle with probability
proportional to its incremental weight, copies x / log_likelihood / log_prior /
log_q from one source row, and the result carries the new temperature and the
requested size -- for every population, temperature pair, size, random stream
and array namespace.
"""

import math
import sys
import types
import warnings

import numpy as np

warnings.filterwarnings("ignore")

import torch  # noqa: E402
import array_api_compat.torch as txp  # noqa: E402

from aspire.samples import SMCSamples  # noqa: E402

FAILS = []


class SpyRNG:
    """numpy Generator that records the probability vector it is handed."""

    def __init__(self, seed):
        self.g = np.random.default_rng(seed)
        self.p = None
        self.idx = None

    def choice(self, a, size=None, replace=True, p=None):
        self.p = np.array(p, dtype=np.float64, copy=True)
        self.idx = self.g.choice(a, size=size, replace=replace, p=p)
        return self.idx


def _np(v):
    return np.asarray(v.detach() if hasattr(v, "detach") else v)


def check_resample(name, pop, beta_new, n_samples=None, rtol=1e-9):
    """Check the property for one resampling step; record a FAIL line if broken."""
    lq, ll, lp = (_np(pop.log_q), _np(pop.log_likelihood), _np(pop.log_prior))
    db = float(beta_new) - float(pop.beta)
    if db == 0.0:
        # zero-length temperature move: every incremental weight is (p/q)**0 = 1
        want = np.full(len(lq), 1.0 / len(lq))
    else:
        lw = db * ((ll.astype(np.float64) + lp) - lq)
        want = np.exp(lw - lw.max())
        want /= want.sum()
    spy = SpyRNG(7)
    try:
        new = pop.resample(beta_new, n_samples=n_samples, rng=spy)
    except BaseException as e:  # noqa: BLE001
        FAILS.append(
            f"FAIL [{name}] resample raised {type(e).__name__}: {e}"
        )
        return
    if not np.allclose(spy.p, want, rtol=rtol, atol=1e-300):
        FAILS.append(f"FAIL [{name}] probability vector differs from weights")
    for f in ("x", "log_likelihood", "log_prior", "log_q"):
        if not np.array_equal(_np(getattr(new, f)), _np(getattr(pop, f))[spy.idx]):
            FAILS.append(f"FAIL [{name}] field {f} is not a copy of source rows")
    size = len(pop) if n_samples is None else n_samples
    if len(new) != size or new.beta != beta_new:
        FAILS.append(f"FAIL [{name}] size/temperature not carried")


g = np.random.default_rng(0)
n, d = 40, 2
x = g.normal(size=(n, d))
ll = -0.5 * (x**2).sum(-1)
lp = np.full(n, -1.0)
lq = -0.5 * ((x - 0.3) ** 2).sum(-1)

# ---------------------------------------------------------------- control
check_resample(
    "numpy float64 control",
    SMCSamples(x=x, log_likelihood=ll, log_prior=lp, log_q=lq, beta=0.1),
    0.6,
)
check_resample(
    "torch float64, no grad, control",
    SMCSamples(
        x=torch.tensor(x), log_likelihood=torch.tensor(ll),
        log_prior=torch.tensor(lp), log_q=torch.tensor(lq),
        beta=0.1, dtype="float64",
    ),
    0.6,
)

# ------------------------------------------------------------- finding 1a
# torch population whose log_q is attached to the autograd graph -- exactly
# what ZukoFlow.log_prob (no torch.no_grad) hands to SMCSamples in the SMC
# loop, or what a torch likelihood with learnable parameters returns.
theta = torch.tensor(1.0, dtype=torch.float64, requires_grad=True)
pop = SMCSamples(
    x=torch.tensor(x), log_likelihood=torch.tensor(ll),
    log_prior=torch.tensor(lp), log_q=torch.tensor(lq) * theta,
    beta=0.1, dtype="float64",
)
check_resample("torch population with log_q requiring grad", pop, 0.6)

# ------------------------------------------------------------- finding 1b
# The same thing reached through the library's own code: torch namespace,
# zuko flow, MiniPCNSMC with n_final_samples != n_samples.  minipcn / orng are
# not installed, so a plain random-walk Metropolis stands in for minipcn.Sampler
# (it only moves particles; populations and resampling are the library's).


class _Hist:
    def __init__(self):
        self.acceptance_rate = []


class _RWSampler:
    def __init__(self, log_prob_fn, step_fn=None, rng=None, dims=None,
                 target_acceptance_rate=None, xp=None):
        self.f, self.rng = log_prob_fn, rng

    def sample(self, z, n_steps=1):
        hist, chain = _Hist(), []
        lp_ = self.f(z).detach()
        for _ in range(n_steps):
            zn = z + torch.as_tensor(
                0.3 * self.rng.normal(size=tuple(z.shape)), dtype=z.dtype
            )
            lpn = self.f(zn).detach()
            u = torch.as_tensor(
                np.log(self.rng.uniform(size=z.shape[0])), dtype=z.dtype
            )
            acc = (lpn - lp_) > u
            z = torch.where(acc[:, None], zn, z)
            lp_ = torch.where(acc, lpn, lp_)
            hist.acceptance_rate.append(float(acc.double().mean()))
            chain.append(z)
        return chain, hist


try:
    import zuko  # noqa: F401

    have_zuko = True
except Exception:  # noqa: BLE001
    have_zuko = False

if have_zuko:
    m = types.ModuleType("minipcn")
    m.Sampler = _RWSampler
    sys.modules["minipcn"] = m
    o = types.ModuleType("orng")
    o.ArrayRNG = lambda backend=None: np.random.default_rng(0)
    sys.modules["orng"] = o

    from aspire import Aspire
    from aspire.samples import Samples

    torch.manual_seed(0)

    def log_likelihood(s):
        return -0.5 * ((s.x - 1.0) ** 2).sum(-1)

    def log_prior(s):
        inside = (s.x >= -10) & (s.x <= 10)
        return txp.where(inside, math.log(1 / 20), -math.inf).sum(-1)

    init = Samples(
        torch.tensor(np.random.default_rng(1).normal(1, 1.5, size=(200, 2))),
        xp=txp,
    )
    asp = Aspire(
        log_likelihood=log_likelihood, log_prior=log_prior, dims=2,
        parameters=["a", "b"], prior_bounds={"a": [-10, 10], "b": [-10, 10]},
        flow_backend="zuko", xp=txp,
    )
    import contextlib
    import io

    with contextlib.redirect_stderr(io.StringIO()):
        asp.fit(init, n_epochs=1)
    try:
        asp.sample_posterior(
            n_samples=50, sampler="minipcn_smc", adaptive=False, n_steps=1,
            n_final_samples=80, rng=np.random.default_rng(2),
            sampler_kwargs=dict(n_steps=2),
        )
    except BaseException as e:  # noqa: BLE001
        import traceback

        frames = traceback.extract_tb(e.__traceback__)
        in_resample = any(
            f.name == "resample" and f.filename.endswith("samples.py")
            for f in frames
        )
        where = "inside SMCSamples.resample" if in_resample else "elsewhere"
        pop = asp.sampler.history.sample_history[-1]
        FAILS.append(
            "FAIL [Aspire torch+zuko minipcn_smc, n_final_samples=80] "
            f"{type(e).__name__} raised {where}: {e} "
            f"(population built by MiniPCNSMC.mutate has "
            f"log_q.requires_grad={bool(pop.log_q.requires_grad)})"
        )

# -------------------------------------------------------------- finding 2
# zero-likelihood rows (a population drawn from the proposal at beta = 0) and
# a change of population size without a temperature move: 0 * (-inf) = NaN.
ll0 = ll.copy()
ll0[::4] = -np.inf
pop0 = SMCSamples(x=x, log_likelihood=ll0, log_prior=lp, log_q=lq, beta=0.0)
check_resample("zero-likelihood rows, beta 0 -> 0.5 (control)", pop0, 0.5)
check_resample(
    "zero-likelihood rows, beta 0 -> 0 with n_samples=15", pop0, 0.0, 15
)

if FAILS:
    print("\n".join(FAILS))
    sys.exit(1)
print("PASS")
sys.exit(0)
