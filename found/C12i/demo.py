"""C12i demo: a checkpoint file together with a user checkpoint callback.

Run as:  PYTHONPATH=<tree>/src /venv/bin/python demo.py

Property C12: while sampling with a checkpoint file, checkpoints are written at
the requested cadence plus once at the end, and after any interruption the file
contains the configuration, the proposal and the most recent checkpoint
payload, loadable by the documented resume route.

Checks
  0. control: checkpoint_path alone, crash mid-run -> file holds the most recent
     checkpoint (expected to hold on the unmodified library)
  1. checkpoint_path (or auto_checkpoint) + checkpoint_callback, crash mid-run
     -> the file must still hold the most recent checkpoint
  2. checkpoint_callback that is a bound method of an object that cannot be
     deep-copied (holds a lock, like a storage client) -> the run must finish
     and return its samples
  3. sample_posterior(checkpoint_callback=cb, checkpoint_every=2) without a
     file -> the callback must be invoked at iterations 2, 4 and at the end
"""
import logging
import os
import pickle
import sys
import tempfile
import threading
import types

import numpy as np

logging.disable(logging.CRITICAL)


# --- stand-ins for the packages that are not installed -----------------------
class _Hist:
    def __init__(self, acc):
        self.acceptance_rate = acc


class _RWSampler:
    """Correct random-walk Metropolis kernel with the minipcn interface."""

    def __init__(self, log_prob_fn, step_fn=None, rng=None, dims=None,
                 target_acceptance_rate=0.234, xp=None):
        self.log_prob_fn = log_prob_fn
        self.rng = rng

    def sample(self, z, n_steps=1):
        z = np.array(z, dtype=float, copy=True)
        lp = np.asarray(self.log_prob_fn(z), dtype=float)
        chain, acc = [z.copy()], []
        for _ in range(n_steps):
            prop = z + 0.3 * self.rng.standard_normal(z.shape)
            lp_new = np.asarray(self.log_prob_fn(prop), dtype=float)
            a = np.log(self.rng.uniform(size=len(z))) < (lp_new - lp)
            z[a], lp[a] = prop[a], lp_new[a]
            acc.append(a.mean())
            chain.append(z.copy())
        return np.stack(chain), _Hist(np.array(acc))


_m = types.ModuleType("minipcn")
_m.Sampler = _RWSampler
sys.modules["minipcn"] = _m
_o = types.ModuleType("orng")


class _ArrayRNG:
    def __init__(self, backend=None):
        self._g = np.random.default_rng(0)

    def __getattr__(self, k):
        return getattr(self._g, k)


_o.ArrayRNG = _ArrayRNG
sys.modules["orng"] = _o

import h5py  # noqa: E402

from aspire import Aspire  # noqa: E402


class GaussFlow:
    def __init__(self, dims):
        self.dims, self.rng, self.s = dims, np.random.default_rng(0), 2.0

    def log_prob(self, x):
        x = np.asarray(x, dtype=float)
        return (-0.5 * np.sum((x / self.s) ** 2, axis=-1)
                - self.dims * np.log(self.s * np.sqrt(2 * np.pi)))

    def sample_and_log_prob(self, n):
        x = self.s * self.rng.standard_normal((n, self.dims))
        return x, self.log_prob(x)

    def save(self, h5, path="flow"):
        h5.require_group(path).attrs["kind"] = "gauss"


class Crash(Exception):
    pass


def make(crash_at=None):
    n = [0]

    def tick():
        i = n[0]
        n[0] += 1
        if crash_at is not None and i == crash_at:
            raise Crash(f"crash at likelihood/prior call {i}")

    def ll(s):
        tick()
        return -0.5 * np.sum((np.asarray(s.x) - 1.0) ** 2 / 0.25, axis=-1)

    def lp(s):
        tick()
        return -0.5 * np.sum(np.asarray(s.x) ** 2 / 9.0, axis=-1)

    return Aspire(log_likelihood=ll, log_prior=lp, dims=2,
                  parameters=["a", "b"], flow=GaussFlow(2), xp=np)


def kw(**k):
    d = dict(n_samples=30, sampler="smc", adaptive=False, n_steps=5,
             sampler_kwargs={"n_steps": 2}, rng=np.random.default_rng(1))
    d.update(k)
    return d


def file_state(path):
    with h5py.File(path, "r") as f:
        keys = sorted(f.keys())
        if "checkpoint" in f and "state" in f["checkpoint"]:
            return keys, f["checkpoint"]["state"][...].tobytes()
    return keys, None


CRASH_AT = 25  # inside iteration 3 of 5: iterations 1 and 2 are complete
fails = []
tmp = tempfile.mkdtemp(prefix="c12i_")

# 0. control ---------------------------------------------------------------
path = os.path.join(tmp, "control.h5")
a = make(CRASH_AT)
try:
    a.sample_posterior(checkpoint_path=path, checkpoint_every=1, **kw())
except Crash:
    pass
keys, blob = file_state(path)
done = len(a._sampler.history.sample_history) - 1
if (blob is None or pickle.loads(blob)["iteration"] != done
        or blob != a._sampler.last_checkpoint_bytes
        or "aspire_config" not in keys or "flow" not in keys):
    fails.append(f"control: file does not hold the checkpoint of iteration {done}")
else:
    print(f"ok   control: crash after {done} iterations, file holds iteration "
          f"{pickle.loads(blob)['iteration']} byte-for-byte, keys {keys}")

# 1. checkpoint file + user callback -----------------------------------------
for label in ("checkpoint_path=", "auto_checkpoint()"):
    path = os.path.join(tmp, f"cb_{label[0]}.h5")
    a = make(CRASH_AT)
    seen = []

    def monitor(state, seen=seen):
        seen.append(state["iteration"])

    try:
        if label == "checkpoint_path=":
            a.sample_posterior(checkpoint_path=path, checkpoint_every=1,
                               checkpoint_callback=monitor, **kw())
        else:
            with a.auto_checkpoint(path, every=1):
                a.sample_posterior(checkpoint_callback=monitor, **kw())
    except Crash:
        pass
    keys, blob = file_state(path)
    if blob is None:
        fails.append(
            f"{label} + checkpoint_callback: interrupted after iterations "
            f"{seen} were checkpointed (the callback received them), but the "
            f"checkpoint file holds only {keys}: no /checkpoint/state, so "
            f"resume_from_file restarts from scratch"
        )
    elif pickle.loads(blob)["iteration"] != seen[-1]:
        fails.append(f"{label} + checkpoint_callback: file holds iteration "
                     f"{pickle.loads(blob)['iteration']}, callback saw {seen}")
    else:
        print(f"ok   {label} + checkpoint_callback: file holds iteration {seen[-1]}")

# 2. callback bound to an object that cannot be deep-copied -------------------


class Pusher:
    """Stands for a storage client: holds a lock."""

    def __init__(self):
        self.lock = threading.Lock()
        self.got = []

    def push(self, state):
        with self.lock:
            self.got.append(state["iteration"])


pusher = Pusher()
a = make(None)
try:
    out = a.sample_posterior(checkpoint_callback=pusher.push, **kw())
    print(f"ok   lock-holding callback: invoked at {pusher.got}, "
          f"{len(out.x)} samples returned")
except Exception as e:  # noqa: BLE001
    fails.append(
        f"callback bound to an object holding a lock: the run completed "
        f"(callback invoked at iterations {pusher.got}) and then "
        f"sample_posterior raised {type(e).__name__}: {e} -- the samples are lost"
    )

# 3. requested cadence with a user callback and no checkpoint file ------------
seen = []
a = make(None)
a.sample_posterior(checkpoint_callback=lambda st: seen.append(st["iteration"]),
                   checkpoint_every=2, **kw())
if seen != [2, 4, 5]:
    fails.append(
        f"sample_posterior(checkpoint_callback=cb, checkpoint_every=2), 5 "
        f"iterations: callback invoked at iterations {seen}, the requested "
        f"cadence dictates [2, 4] plus the final one [5]"
    )
else:
    print(f"ok   cadence 2 with a user callback: invoked at {seen}")

if fails:
    for f in fails:
        print("FAIL", f)
    sys.exit(1)
print("PASS")
sys.exit(0)
