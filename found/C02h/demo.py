"""C02h: weights / evidence / ESS are exact functionals of the per-sample
log-densities, for all N >= 2, all three array namespaces, both float widths.

Run as:  PYTHONPATH=<tree>/src /venv/bin/python demo.py
Exits 1 and prints FAIL lines when the property is violated, else prints PASS.
"""

import math
import sys
import warnings

import numpy as np

warnings.simplefilter("ignore")

import jax.numpy as jnp  # noqa: E402
import torch  # noqa: E402

from aspire.samples import Samples  # noqa: E402

failures = []


def reference(log_w):
    """log Z, ESS and relative evidence error in float64 from the log-weights."""
    lw = np.asarray(log_w, dtype=np.float64)
    m = lw.max()
    w = np.exp(lw - m)
    n = len(w)
    log_z = m + math.log(w.sum() / n)
    ess = w.sum() ** 2 / (w**2).sum()
    rel = math.sqrt(((w - w.mean()) ** 2).sum() / (n * (n - 1))) / w.mean()
    return log_z, ess, rel


def make(ns, x, ll, lp, lq, dtype):
    conv = {
        "numpy": lambda a: np.asarray(a, dtype=dtype),
        "torch": lambda a: torch.tensor(np.asarray(a), dtype=getattr(torch, dtype)),
        "jax": lambda a: jnp.asarray(np.asarray(a), dtype=dtype),
    }[ns]
    return Samples(
        x=conv(x),
        log_likelihood=conv(ll),
        log_prior=conv(lp),
        log_q=conv(lq),
        dtype=dtype,
    )


# ---------------------------------------------------------------------------
# 1. Main finding: an ordinary weighted sample set of N >= 46342 samples in the
#    jax namespace (jax's default configuration, i.e. float32 / x64 disabled).
#    numpy and torch get exactly the same data and must agree with the
#    float64 reference.
# ---------------------------------------------------------------------------
rng = np.random.default_rng(1234)
N = 50_000
x = rng.normal(size=(N, 2))
ll = -0.5 * (x**2).sum(axis=1) * 3.0
lp = np.full(N, -2.0)
lq = -0.5 * (x**2).sum(axis=1) - math.log(2 * math.pi)
ll[rng.choice(N, 100, replace=False)] = -np.inf  # zero-weight rows

for ns in ("numpy", "torch", "jax"):
    try:
        s = make(ns, x, ll, lp, lq, "float32")
    except Exception as e:  # noqa: BLE001
        failures.append(
            f"[N={N}, {ns}, float32] constructing the weighted Samples raised "
            f"{type(e).__name__}: {str(e).splitlines()[0][:160]}"
        )
        continue
    lw = np.asarray(s.log_w.tolist(), dtype=np.float64)
    log_z, ess, rel = reference(lw)
    got = (
        float(s.log_evidence),
        float(s.effective_sample_size),
        float(s.log_evidence_error),
    )
    tol = 1e-4
    if not (
        abs(got[0] - log_z) <= tol * max(1.0, abs(log_z))
        and abs(got[1] - ess) <= tol * ess
        and abs(got[2] - rel) <= tol * rel
        and 1.0 <= got[1] <= N * (1 + tol)
    ):
        failures.append(
            f"[N={N}, {ns}, float32] (logZ, ESS, rel.err) = {got}, "
            f"reference {(log_z, ess, rel)}"
        )

# The threshold is n * (n - 1) > 2**31 - 1, i.e. n >= 46342
for n in (46341, 46342):
    try:
        s = make("jax", x[:n], ll[:n], lp[:n], lq[:n], "float32")
        log_z, ess, rel = reference(np.asarray(s.log_w, dtype=np.float64))
        ok = abs(float(s.log_evidence) - log_z) < 1e-4 * max(1, abs(log_z))
        if not ok:
            failures.append(f"[N={n}, jax] log-evidence {s.log_evidence} != {log_z}")
    except Exception as e:  # noqa: BLE001
        failures.append(
            f"[N={n}, jax, float32] constructing the weighted Samples raised "
            f"{type(e).__name__} (N={n - 1} works)"
        )

# ---------------------------------------------------------------------------
# 2. Secondary: a slice carries the log-evidence of the full set, but
#    .evidence / .evidence_error on the very same object are those of the
#    subset, so evidence != exp(log_evidence) and evidence_error !=
#    log_evidence_error * evidence; they silently change under to_numpy().
# ---------------------------------------------------------------------------
rng = np.random.default_rng(1)
n = 12
xs = rng.normal(size=(n, 2))
s = Samples(
    x=xs,
    log_likelihood=rng.normal(size=n) * 3,
    log_prior=rng.normal(size=n),
    log_q=rng.normal(size=n),
)
sub = s[:5]
ev, lz = float(sub.evidence), float(sub.log_evidence)
ee, lze = float(sub.evidence_error), float(sub.log_evidence_error)
if not (
    math.isclose(ev, math.exp(lz), rel_tol=1e-9)
    and math.isclose(ee, lze * ev, rel_tol=1e-9)
    and math.isclose(ee, float(sub.to_numpy().evidence_error), rel_tol=1e-9)
):
    failures.append(
        "[slice s[:5], numpy float64] evidence fields disagree on one object: "
        f"evidence={ev:.6g} but exp(log_evidence)={math.exp(lz):.6g}; "
        f"evidence_error={ee:.6g} but log_evidence_error*exp(log_evidence)="
        f"{lze * math.exp(lz):.6g}; after to_numpy() evidence_error="
        f"{float(sub.to_numpy().evidence_error):.6g}"
    )
# a permutation (the full set) must be consistent
p = s[rng.permutation(n)]
if not (
    math.isclose(float(p.evidence), math.exp(float(p.log_evidence)), rel_tol=1e-9)
    and math.isclose(float(p.log_evidence), float(s.log_evidence), rel_tol=1e-12)
    and math.isclose(
        float(p.effective_sample_size), float(s.effective_sample_size), rel_tol=1e-12
    )
):
    failures.append("[permutation] evidence / ESS changed under a permutation")

# ---------------------------------------------------------------------------
# 3. Minor: ESS in [1, N] is broken by rounding for tied (equal) weights:
#    exp(2*log(N) - log(N)) > N, so efficiency > 1.
# ---------------------------------------------------------------------------
over = []
for ns, dtype, n in (
    ("numpy", "float64", 3),
    ("numpy", "float64", 10),
    ("numpy", "float32", 5),
    ("torch", "float64", 10),
    ("jax", "float32", 10),
):
    z = np.zeros(n)
    t = make(ns, z[:, None], z + 3.0, z, z, dtype)
    ess = float(t.effective_sample_size)
    if not (1.0 <= ess <= n):
        over.append(f"{ns}/{dtype}/N={n}: ESS={ess!r}, efficiency={float(t.efficiency)!r}")
if over:
    failures.append("[tied weights] ESS outside [1, N]: " + "; ".join(over))

# ---------------------------------------------------------------------------
# Controls that behave correctly (small N, all namespaces, both widths,
# magnitudes up to 1e5, ties, -inf subset, rejection sampling rule).
# ---------------------------------------------------------------------------
rng = np.random.default_rng(7)
for ns in ("numpy", "torch", "jax"):
    for dtype in ("float32", "float64"):
        if ns == "jax" and dtype == "float64":
            continue  # x64 is disabled in jax's default configuration
        eps = float(np.finfo(dtype).eps)
        for trial in range(30):
            n = int(rng.integers(2, 40))
            ll_ = rng.normal(size=n) * 10 ** rng.uniform(-1, 5)
            lp_ = rng.normal(size=n) * 10 ** rng.uniform(-1, 5)
            lq_ = rng.normal(size=n) * 10 ** rng.uniform(-1, 5)
            if trial % 3 == 0:
                ll_[rng.choice(n, int(rng.integers(0, n - 1)), replace=False)] = -np.inf
            if trial % 4 == 0:
                ll_[: n // 2], lp_[: n // 2], lq_[: n // 2] = ll_[0], lp_[0], lq_[0]
            t = make(ns, rng.normal(size=(n, 2)), ll_, lp_, lq_, dtype)
            lw = np.asarray(t.log_w.tolist(), dtype=np.float64)
            log_z, ess, rel = reference(lw)
            if not (
                abs(float(t.log_evidence) - log_z) <= 8 * eps * max(1, abs(log_z))
                and abs(float(t.effective_sample_size) - ess) <= 64 * eps * ess
                and abs(float(t.log_evidence_error) - rel) <= 64 * eps * max(rel, 1e-30)
            ):
                failures.append(f"[control {ns}/{dtype}/trial {trial}] inaccurate")
            # rejection sampling: keep exactly when u < w / w_max
            u = np.random.default_rng(trial).uniform(size=n)
            kept = t.rejection_sample(np.random.default_rng(trial))
            expect = (lw - lw.max()) > np.log(u)
            if len(kept) != int(expect.sum()):
                failures.append(f"[control {ns}/{dtype}/trial {trial}] rejection rule")

if failures:
    for f in failures:
        print("FAIL", f)
    sys.exit(1)
print("PASS")
