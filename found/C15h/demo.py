"""C15h demo: array-namespace / dtype conversions in aspire.

Run as:  PYTHONPATH=<tree>/src /venv/bin/python demo.py
Prints one FAIL line per violated check and exits 1; prints PASS and exits 0
when every check holds.
"""

import math
import sys
import types
import warnings

warnings.simplefilter("ignore")

import numpy as np
import torch
import jax

jax.config.update("jax_enable_x64", True)  # as in the library's own test-suite
import jax.numpy as jnp
import array_api_compat.numpy as np_xp
import array_api_compat.torch as torch_xp

from aspire import Aspire
from aspire.samples import Samples, SMCSamples
from aspire.samplers.smc.base import SMCSampler
from aspire.utils import asarray, to_numpy

NS = {"numpy": np_xp, "torch": torch_xp, "jax": jnp}
FAILS = []


def width(a):
    return str(a.dtype).split(".")[-1]


def fail(tag, msg):
    FAILS.append(f"FAIL [{tag}] {msg}")


# ----------------------------------------------------------------------------
# helpers (stand-ins for packages that are not installed; both are plain
# random-walk Metropolis kernels, correct for any target)
# ----------------------------------------------------------------------------
class GaussFlow:
    """N(0, 2^2) proposal that hands out arrays of namespace xp / dtype."""

    def __init__(self, dims, xp, dtype, seed=0):
        self.dims, self.xp, self.dtype = dims, xp, dtype
        self.rng = np.random.default_rng(seed)

    def _lp(self, x):
        x = np.asarray(x, dtype=np.float64)
        return -0.5 * (x**2).sum(-1) / 4 - self.dims * 0.5 * math.log(
            2 * math.pi * 4
        )

    def sample_and_log_prob(self, n):
        x = 2 * self.rng.normal(size=(n, self.dims))
        return (
            asarray(x, self.xp, dtype=self.dtype),
            asarray(self._lp(x), self.xp, dtype=self.dtype),
        )

    def log_prob(self, x):
        return asarray(self._lp(to_numpy(x)), self.xp, dtype=self.dtype)


def install_fake_minipcn():
    m = types.ModuleType("minipcn")

    class _History:
        def __init__(self):
            self.acceptance_rate = []

    class Sampler:
        def __init__(self, log_prob_fn, step_fn=None, rng=None, dims=None,
                     target_acceptance_rate=0.234, xp=None):
            self.f = log_prob_fn
            self.rng = np.random.default_rng(1)

        def sample(self, z0, n_steps=10):
            z = np.array(z0, copy=True)
            lp = np.asarray(self.f(z), dtype=np.float64)
            chain, h = [], _History()
            for _ in range(n_steps):
                prop = (z + 0.3 * self.rng.normal(size=z.shape)).astype(z.dtype)
                lpp = np.asarray(self.f(prop), dtype=np.float64)
                acc = np.log(self.rng.uniform(size=len(z))) < lpp - lp
                z = np.where(acc[:, None], prop, z)
                lp = np.where(acc, lpp, lp)
                chain.append(z.copy())
                h.acceptance_rate.append(acc.mean())
            return np.stack(chain), h

    m.Sampler = Sampler
    sys.modules["minipcn"] = m


class RWSMC(SMCSampler):
    """SMC with a random-walk Metropolis mutation; everything except
    `mutate` (schedule, weights, resampling, checkpoint/restore, evidence)
    is the library's SMCSampler."""

    sampler_kwargs = None

    def mutate(self, particles, beta, n_steps=None):
        z = to_numpy(self.fit_preconditioning_transform(particles.x))
        conv = lambda a: asarray(a, self.xp, dtype=particles.dtype)  # noqa
        lp = to_numpy(self.log_prob(conv(z), beta)).astype(np.float64)
        nacc = 0.0
        for _ in range(n_steps or 3):
            prop = (z + 0.3 * self.rng.normal(size=z.shape)).astype(z.dtype)
            lpp = to_numpy(self.log_prob(conv(prop), beta)).astype(np.float64)
            acc = np.log(self.rng.uniform(size=len(z))) < lpp - lp
            z = np.where(acc[:, None], prop, z)
            lp = np.where(acc, lpp, lp)
            nacc += acc.mean()
        x = self.preconditioning_transform.inverse(conv(z))[0]
        s = SMCSamples(x, xp=self.xp, beta=beta, dtype=self.dtype,
                       parameters=self.parameters)
        s.log_q = s.array_to_namespace(self.prior_flow.log_prob(s.x))
        s.log_prior = s.array_to_namespace(self.log_prior(s))
        s.log_likelihood = s.array_to_namespace(self.log_likelihood(s))
        self.history.mcmc_acceptance.append(nacc / (n_steps or 3))
        return s


def log_likelihood(s):
    return -0.5 * ((s.x - 1.0) ** 2).sum(-1)


def log_prior(s):
    return 0 * s.x.sum(-1) - 2 * math.log(20.0)


# ----------------------------------------------------------------------------
# 1. Proposal (ZukoFlow) outputs consumed in every sample namespace
# ----------------------------------------------------------------------------
def check_flow_outputs():
    from aspire.flows.torch.flows import ZukoFlow

    torch.manual_seed(0)
    flow = ZukoFlow(dims=2, hidden_features=[8], dtype="float64", seed=1)
    x, log_q = flow.sample_and_log_prob(6)
    for name, xp in NS.items():
        # (a) what every SMC mutation does with the proposal's log_prob
        try:
            s = SMCSamples(x, log_q=log_q, xp=xp, dtype="float64", beta=0.0)
            s.log_q = s.array_to_namespace(flow.log_prob(s.x))
            if width(s.log_q) != "float64":
                fail("flow->" + name, f"log_q width {width(s.log_q)}")
        except Exception as e:
            fail(
                "flow->" + name,
                "ZukoFlow.log_prob output cannot be put into a "
                f"{name} sample set: {type(e).__name__}: {e}",
            )
        # (b) the library's own SMCSampler.log_prob (smc/base.py:407-421)
        try:
            smc = RWSMC(log_likelihood, log_prior, 2, prior_flow=flow, xp=xp,
                        dtype="float64", rng=np.random.default_rng(0))
            z = asarray(np.zeros((3, 2)), xp, dtype="float64")
            smc.log_prob(z, beta=0.5)
        except Exception as e:
            fail(
                "SMCSampler.log_prob/" + name,
                f"zuko proposal + {name} samples: {type(e).__name__}: {e}",
            )
    # (c) the flow's own output-namespace argument
    for name, xp in NS.items():
        for meth in ("log_prob", "forward"):
            try:
                getattr(flow, meth)(np.zeros((3, 2)), xp=xp)
            except Exception as e:
                fail(f"ZukoFlow.{meth}(xp={name})", f"{type(e).__name__}: {e}")


# ----------------------------------------------------------------------------
# 2. Requested precision == precision of the population a sampler returns
# ----------------------------------------------------------------------------
def check_minipcn_dtype():
    install_fake_minipcn()
    for name, xp in NS.items():
        for dt in ("float32", "float64"):
            seen = set()

            def ll(s):
                seen.add(width(s.x))
                return log_likelihood(s)

            a = Aspire(log_likelihood=ll, log_prior=log_prior, dims=2,
                       parameters=["a", "b"], xp=xp, dtype=dt,
                       flow=GaussFlow(2, np_xp, "float64"))
            out = a.sample_posterior(n_samples=20, sampler="minipcn",
                                     n_steps=4, preconditioning="none")
            got = {f: width(getattr(out, f))
                   for f in ("x", "log_likelihood", "log_prior")}
            if set(got.values()) != {dt} or seen != {dt}:
                fail(
                    f"minipcn/{name}/{dt}",
                    f"requested {dt}, returned population is {got} "
                    f"(dtype field {out.dtype}); likelihood saw {sorted(seen)}",
                )


def check_sample_flow_dtype():
    for dt in ("float32", "float64"):
        for oname, oxp in [("default", None)] + list(NS.items()):
            a = Aspire(log_likelihood=log_likelihood, log_prior=log_prior,
                       dims=2, parameters=["a", "b"], dtype=dt,
                       flow=GaussFlow(2, torch_xp, dt))
            s = a.sample_flow(5, xp=oxp)
            if width(s.x) != dt or width(s.log_q) != dt:
                fail(
                    f"sample_flow/{dt}/xp={oname}",
                    f"Aspire(dtype={dt}) and a {dt} flow, but sample_flow "
                    f"returns x:{width(s.x)} log_q:{width(s.log_q)}",
                )


# ----------------------------------------------------------------------------
# 3. Conversions keep the floating-point width for every accepted spelling
# ----------------------------------------------------------------------------
def check_builtin_float():
    x = np.array([[1 / 3, 16777217.0], [2.0**53 + 2, -1e-300]])
    s = Samples(x=torch.asarray(x), dtype=float)  # accepted; data is float64
    if width(s.x) != "float64":
        return
    for name, xp in NS.items():
        t = s.to_namespace(xp)
        if width(t.x) != width(s.x) or not np.array_equal(
            to_numpy(t.x), to_numpy(s.x)
        ):
            fail(
                f"dtype=float torch->{name}",
                f"source x is {width(s.x)}, converted x is {width(t.x)}; "
                f"max abs change {np.abs(to_numpy(t.x).astype(np.float64) - x).max():.3g}",
            )
    t = Samples.from_samples(s)
    if width(t.x) != width(s.x):
        fail("dtype=float from_samples", f"{width(s.x)} -> {width(t.x)}")


def check_to_numpy_dtype_argument():
    x = np.random.default_rng(0).normal(size=(4, 2))
    for cls, kw in ((Samples, {}), (SMCSamples, {"beta": 0.5})):
        for name, xp in NS.items():
            s = cls(x=x, xp=xp, **kw)
            for dt in ("float32", np.float32, "float64"):
                try:
                    t = s.to_numpy(dtype=dt)  # BaseSamples.to_numpy signature
                    exp = "float32" if "32" in str(dt) else "float64"
                    if width(t.x) != exp:
                        fail(f"{cls.__name__}.to_numpy(dtype)", width(t.x))
                except TypeError as e:
                    fail(f"{cls.__name__}.to_numpy(dtype={dt!r}) from {name}",
                         f"TypeError: {e}")
                    break
            else:
                continue
            break


def check_to_numpy_evidence_namespace():
    x = np.random.default_rng(0).normal(size=(4, 2))
    for name, xp in (("torch", torch_xp), ("jax", jnp)):
        s = SMCSamples(x=x, log_likelihood=np.zeros(4), log_prior=np.zeros(4),
                       log_q=np.zeros(4), xp=xp, beta=1.0)
        s.log_evidence = s.array_to_namespace(1.25)  # as SMCSampler.sample does
        t = s.to_numpy()
        u = s.to_namespace(np_xp)
        if not isinstance(t.log_evidence, (float, np.ndarray, np.generic)):
            fail(
                f"SMCSamples.to_numpy from {name}",
                "log_evidence of the NumPy sample set is still a "
                f"{type(t.log_evidence).__module__}.{type(t.log_evidence).__name__}"
                f" (to_namespace(numpy) gives {type(u.log_evidence).__name__})",
            )


# ----------------------------------------------------------------------------
# 4. A population restored in another namespace
# ----------------------------------------------------------------------------
def check_cross_namespace_resume():
    def run(xp, resume_from=None, max_n_steps=None, cb=None):
        smc = RWSMC(log_likelihood, log_prior, 2,
                    prior_flow=GaussFlow(2, np_xp, "float64"), xp=xp,
                    dtype="float64", rng=np.random.default_rng(3),
                    parameters=["a", "b"])
        out = smc.sample(20, adaptive=True, max_n_steps=max_n_steps,
                         checkpoint_every=1, resume_from=resume_from)
        return smc, out

    for sname, sxp in NS.items():
        first, _ = run(sxp, max_n_steps=1)
        payload = first.last_checkpoint_bytes
        for tname, txp in NS.items():
            try:
                _, out = run(txp, resume_from=payload)
                if width(out.x) != "float64" or (
                    out.xp.__name__.split(".")[-1]
                    != txp.__name__.split(".")[-1]
                ):
                    fail(f"resume {sname}->{tname}", f"{out.xp} {width(out.x)}")
            except Exception as e:
                fail(f"resume {sname}->{tname}",
                     f"run checkpointed in {sname} cannot be restored and "
                     f"finished in {tname}: {type(e).__name__}: {e}")


if __name__ == "__main__":
    for check in (
        check_flow_outputs,
        check_minipcn_dtype,
        check_sample_flow_dtype,
        check_builtin_float,
        check_to_numpy_dtype_argument,
        check_to_numpy_evidence_namespace,
        check_cross_namespace_resume,
    ):
        check()
    if FAILS:
        for line in FAILS:
            print(line)
        print(f"FAIL: {len(FAILS)} violations of C15")
        sys.exit(1)
    print("PASS")
    sys.exit(0)
