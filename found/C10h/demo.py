"""C10h demo: cached per-particle log-densities must belong to the particle's
coordinates (initial population, every history population, resume).

Run:  PYTHONPATH=<tree>/src /venv/bin/python demo.py
Exits 1 and prints one FAIL line per violated check, else prints PASS.

No external sampler package is needed: the checks call the library's own
initial-population code (MCMCSampler.draw_initial_samples), the importance
sampler, the in-kernel target (SMCSampler.log_prob / MCMCSampler.log_prob) and,
for the resume check, the library's SMC loop with a plain random-walk
Metropolis `mutate` written here in the same way as the library's kernels.
"""
import copy
import logging
import sys
import warnings

import numpy as np

warnings.filterwarnings("ignore")
logging.disable(logging.CRITICAL)

import array_api_compat.numpy as xnp  # noqa: E402

from aspire import Aspire  # noqa: E402
from aspire.samplers.mcmc import MCMCSampler  # noqa: E402
from aspire.samplers.smc.base import SMCSampler  # noqa: E402
from aspire.samples import Samples, SMCSamples  # noqa: E402

FAILS = []


def fail(tag, msg):
    FAILS.append(tag)
    print(f"FAIL [{tag}] {msg}")


# --------------------------------------------------------------------------
# helpers
# --------------------------------------------------------------------------
class GaussFlow:
    """Exact independent-normal proposal: log_prob and sample_and_log_prob
    are the same density by construction."""

    def __init__(self, mu, sigma, seed=0):
        self.mu = np.asarray(mu, float)
        self.sigma = np.asarray(sigma, float)
        self.gen = np.random.default_rng(seed)

    def log_prob(self, x):
        z = (np.asarray(x, float) - self.mu) / self.sigma
        return (
            -0.5 * z**2 - np.log(self.sigma) - 0.5 * np.log(2 * np.pi)
        ).sum(-1)

    def sample_and_log_prob(self, n):
        x = self.mu + self.sigma * self.gen.normal(size=(n, len(self.mu)))
        return x, self.log_prob(x)


def box_prior(lo, hi):
    def lp(s):
        x = np.asarray(s.x, float)
        d = x.shape[1]
        return np.where(
            ((x >= lo) & (x <= hi)).all(-1), -d * np.log(hi - lo), -np.inf
        )

    return lp


def gauss_like(s):
    x = np.asarray(s.x, float)
    return -0.5 * (((x - 0.5) / 0.3) ** 2).sum(-1)


# --------------------------------------------------------------------------
# A. real flow, bounded parameter, draws within eps of a bound:
#    stored log_q (from sample_and_log_prob) is not flow.log_prob(x_i)
# --------------------------------------------------------------------------
def check_A():
    try:
        import torch
    except ImportError:
        print("skip A (torch missing)")
        return
    rng = np.random.default_rng(0)
    n = 1500
    # wide uniform prior on an amplitude, posterior close to the lower bound
    lo, hi = 0.0, 1.0e6
    x = np.stack([rng.uniform(0.0, 4.0, n), rng.uniform(0.2, 0.8, n)], 1)
    bounds = {"amp": (lo, hi), "b": (0.0, 1.0)}

    def lp(s):
        xx = np.asarray(s.x, float)
        ok = (
            (xx[:, 0] >= lo)
            & (xx[:, 0] <= hi)
            & (xx[:, 1] >= 0)
            & (xx[:, 1] <= 1)
        )
        return np.where(ok, -np.log(hi - lo), -np.inf)

    def ll(s):
        xx = np.asarray(s.x, float)
        return -0.5 * ((xx[:, 0] - 2.0) / 1.0) ** 2

    for dtype in ("float64", None):  # None = library default (float32 flow)
        torch.manual_seed(0)
        a = Aspire(
            log_likelihood=ll,
            log_prior=lp,
            dims=2,
            parameters=["amp", "b"],
            prior_bounds=bounds,
            xp=xnp,
            dtype=dtype,
        )
        a.fit(Samples(x, parameters=["amp", "b"]), n_epochs=5)
        flow = a.flow

        def ref_log_q(xx):
            with torch.no_grad():
                return np.asarray(flow.log_prob(xx).detach().numpy(), float)

        # importance sampler (samplers/importance.py)
        torch.manual_seed(1)
        s = a.sample_posterior(2000, sampler="importance")
        sets = [("importance sampler", s)]
        # initial SMC/MCMC population (samplers/mcmc.py:9-44)
        mc = MCMCSampler(
            log_likelihood=ll,
            log_prior=lp,
            dims=2,
            prior_flow=flow,
            xp=xnp,
            dtype=dtype,
            parameters=["amp", "b"],
        )
        torch.manual_seed(2)
        sets.append(("initial population", mc.draw_initial_samples(2000)))
        for name, st in sets:
            stored = np.asarray(st.log_q, float)
            ref = ref_log_q(np.asarray(st.x))
            fin = np.isfinite(np.asarray(st.log_prior, float))
            d = np.abs(stored - ref)
            bad = fin & ~(d <= 1e-2 + 1e-3 * np.abs(ref))
            if bad.any():
                i = int(np.argmax(np.where(bad, d, -1)))
                fail(
                    f"A:{name}:{dtype or 'default'}",
                    f"{int(bad.sum())}/{len(stored)} finite-prior rows have "
                    f"stored log_q != flow.log_prob(x_i); worst row x={np.asarray(st.x)[i]} "
                    f"stored log_q={stored[i]:.4f} flow.log_prob={ref[i]:.4f} "
                    f"(|diff|={d[i]:.3f} nat)",
                )


# --------------------------------------------------------------------------
# B. parameter names given as an array: initial population needs a second
#    draw (out-of-prior rejection) -> Samples.concatenate raises
# --------------------------------------------------------------------------
def check_B():
    lp = box_prior(-2.0, 2.0)
    for names in (["a", "b"], ("a", "b"), np.array(["a", "b"])):
        flow = GaussFlow([0, 0], [1.5, 1.5], seed=0)
        mc = MCMCSampler(
            log_likelihood=gauss_like,
            log_prior=lp,
            dims=2,
            prior_flow=flow,
            xp=xnp,
            parameters=names,
        )
        kind = type(names).__name__
        try:
            s = mc.draw_initial_samples(64)
        except Exception as e:  # noqa: BLE001
            fail(
                f"B:{kind}",
                f"draw_initial_samples(64) with parameters={names!r} raised "
                f"{type(e).__name__}: {e}",
            )
            continue
        ok = (
            len(s) == 64
            and np.isfinite(s.log_prior).all()
            and np.allclose(s.log_q, flow.log_prob(s.x))
            and np.allclose(s.log_prior, lp(s))
            and np.allclose(s.log_likelihood, gauss_like(s))
        )
        if not ok:
            fail(f"B:{kind}", "initial population not aligned / wrong size")


# --------------------------------------------------------------------------
# C. the in-kernel target evaluates the user's functions on a sample set
#    that lost the parameter names (x_0, x_1 instead of the user's names)
# --------------------------------------------------------------------------
def check_C():
    seen = []

    def ll(s):
        seen.append(list(s.parameters))
        i = list(s.parameters).index("mu")
        j = list(s.parameters).index("sigma")
        x = np.asarray(s.x, float)
        return -0.5 * ((x[:, i] - 0.5) / 0.3) ** 2 - 0.5 * (
            (x[:, j] - 1.0) / 0.2
        ) ** 2

    lp = box_prior(-2.0, 2.0)
    flow = GaussFlow([0, 0], [1.0, 1.0], seed=0)
    z = np.array([[0.1, 0.9], [0.4, 1.1]])
    for cls, kw in ((SMCSampler, {"beta": 0.5}), (MCMCSampler, {})):
        smp = cls(
            log_likelihood=ll,
            log_prior=lp,
            dims=2,
            prior_flow=flow,
            xp=xnp,
            parameters=["mu", "sigma"],
        )
        # the same likelihood works for the initial population ...
        init = smp.draw_initial_samples(8)
        assert init.parameters == ["mu", "sigma"]
        # ... but not inside the mutation kernel
        try:
            smp.log_prob(z, **kw)
        except Exception as e:  # noqa: BLE001
            fail(
                f"C:{cls.__name__}.log_prob",
                f"user likelihood got parameters={seen[-1]} instead of "
                f"['mu', 'sigma'] -> {type(e).__name__}: {e}",
            )


# --------------------------------------------------------------------------
# D. resume twice from the same checkpoint dictionary
# --------------------------------------------------------------------------
class RWSMC(SMCSampler):
    """SMC with an independent random-walk Metropolis kernel (numpy)."""

    def sample(self, n_samples, **kw):
        self.sampler_kwargs = {}
        return super().sample(n_samples, **kw)

    def mutate(self, particles, beta, n_steps=None):
        gen = self.rng
        z = np.array(self.fit_preconditioning_transform(particles.x))
        lp = np.asarray(self.log_prob(z, beta=beta), float)
        for _ in range(n_steps or 5):
            prop = z + 0.3 * gen.normal(size=z.shape)
            lpp = np.asarray(self.log_prob(prop, beta=beta), float)
            acc = ((lpp - lp) > np.log(gen.uniform(size=len(z)))) & np.isfinite(
                lpp
            )
            z = np.where(acc[:, None], prop, z)
            lp = np.where(acc, lpp, lp)
        x = self.preconditioning_transform.inverse(z)[0]
        self.history.mcmc_acceptance.append(0.0)
        s = SMCSamples(
            x, xp=self.xp, beta=beta, dtype=self.dtype,
            parameters=self.parameters,
        )
        s.log_q = s.array_to_namespace(self.prior_flow.log_prob(s.x))
        s.log_prior = s.array_to_namespace(self.log_prior(s))
        s.log_likelihood = s.array_to_namespace(self.log_likelihood(s))
        return s


def check_D():
    lp = box_prior(-2.0, 2.0)

    def new(seed):
        return RWSMC(
            log_likelihood=gauss_like,
            log_prior=lp,
            dims=2,
            prior_flow=GaussFlow([0, 0], [1.5, 1.5], seed=0),
            xp=xnp,
            parameters=["a", "b"],
            rng=np.random.default_rng(seed),
        )

    states = []
    s0 = new(3)
    s0.sample(64, checkpoint_callback=states.append)
    ck = states[0]  # checkpoint after the first iteration (beta < 1)
    beta_ck = ck["meta"]["beta"]
    n_beta_before = len(ck["history"].beta)
    assert beta_ck < 1.0
    for k in (1, 2):
        smp = new(4)
        out = smp.sample(64, resume_from=ck)
        hist = smp.history
        last = hist.sample_history[-1]
        if not np.array_equal(np.asarray(out.x), np.asarray(last.x)):
            same_as_ck = np.array_equal(
                np.asarray(out.x), np.asarray(ck["samples"].x)
            )
            fail(
                f"D:resume#{k}",
                f"resume #{k} from the same checkpoint dict (beta={beta_ck:.3f}) "
                f"returned a population that is not the last one in the history"
                f"{' - it is the un-tempered checkpoint population itself' if same_as_ck else ''}"
                f"; history.beta={['%.3f' % b for b in hist.beta]}",
            )
        # every population recorded must still be self-consistent
        for t, p in enumerate(hist.sample_history):
            if not (
                np.allclose(p.log_likelihood, gauss_like(p))
                and np.allclose(p.log_prior, lp(p))
                and np.allclose(p.log_q, smp.prior_flow.log_prob(p.x))
            ):
                fail(f"D:resume#{k}:hist[{t}]", "log-densities not aligned")
    if len(ck["history"].beta) != n_beta_before:
        fail(
            "D:checkpoint-mutated",
            f"resuming changed the caller's checkpoint: history.beta had "
            f"{n_beta_before} entries, now {len(ck['history'].beta)}",
        )


# --------------------------------------------------------------------------
# E. Aspire.convert_to_samples(x): log-densities for user-supplied rows
# --------------------------------------------------------------------------
def check_E():
    lp = box_prior(-2.0, 2.0)
    a = Aspire(
        log_likelihood=gauss_like, log_prior=lp, dims=2,
        parameters=["a", "b"], xp=xnp,
    )
    x = np.random.default_rng(0).normal(size=(5, 2))
    try:
        s = a.convert_to_samples(x)
    except Exception as e:  # noqa: BLE001
        fail(
            "E:convert_to_samples",
            f"convert_to_samples(x) (default evaluate=True, no log_q) raised "
            f"{type(e).__name__}: {e}",
        )
        return
    if not (
        np.allclose(s.log_likelihood, gauss_like(s))
        and np.allclose(s.log_prior, lp(s))
    ):
        fail("E:convert_to_samples", "log-densities not aligned")


if __name__ == "__main__":
    for chk in (check_A, check_B, check_C, check_D, check_E):
        try:
            chk()
        except Exception as e:  # noqa: BLE001
            import traceback

            traceback.print_exc()
            fail(chk.__name__, f"unexpected {type(e).__name__}: {e}")
    if FAILS:
        print(f"FAIL ({len(FAILS)} violations)")
        sys.exit(1)
    print("PASS")
    sys.exit(0)
