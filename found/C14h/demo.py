"""C14h: a checkpoint file must stay self-consistent under any operation sequence.

Run as:  PYTHONPATH=<tree>/src /venv/bin/python demo.py

Observables (from the property):
  (O1) the flow stored in the file, evaluated on the stored checkpoint's
       particles, reproduces their stored log_q;
  (O2) aspire_config.sampler_type names the sampler class recorded in
       checkpoint['sampler'];
  and resuming from the file must work and must not mix a population with a
  different proposal.

Exits 1 and prints one FAIL line per violated history, exits 0 printing PASS
otherwise.
"""
import contextlib
import io
import logging
import os
import pickle
import sys
import tempfile
import types

import numpy as np
import torch

logging.disable(logging.CRITICAL)


# --------------------------------------------------------------------------
# Stand-ins for the two uninstalled third-party packages used by the "smc"
# (MiniPCNSMC) sampler: a plain vectorised random-walk Metropolis kernel with
# the call signature of minipcn.Sampler, and orng.ArrayRNG -> numpy Generator.
# --------------------------------------------------------------------------
class _History:
    def __init__(self):
        self.acceptance_rate = []


class _RWSampler:
    def __init__(self, log_prob_fn, step_fn=None, rng=None, dims=None,
                 target_acceptance_rate=0.234, xp=None, **kw):
        self.log_prob_fn = log_prob_fn
        self.rng = rng if rng is not None else np.random.default_rng(0)

    def sample(self, z, n_steps=10):
        z = np.array(z, dtype=float, copy=True)
        lp = np.asarray(self.log_prob_fn(z), dtype=float)
        chain, hist = [z.copy()], _History()
        for _ in range(int(n_steps)):
            prop = z + 0.05 * self.rng.standard_normal(z.shape)
            lp_new = np.asarray(self.log_prob_fn(prop), dtype=float)
            acc = np.log(self.rng.uniform(size=len(z))) < (lp_new - lp)
            z[acc] = prop[acc]
            lp[acc] = lp_new[acc]
            hist.acceptance_rate.append(float(acc.mean()))
            chain.append(z.copy())
        return np.stack(chain), hist


_m = types.ModuleType("minipcn")
_m.Sampler = _RWSampler
sys.modules["minipcn"] = _m
_o = types.ModuleType("orng")
_o.ArrayRNG = lambda backend=None, **kw: np.random.default_rng(0)
sys.modules["orng"] = _o

from aspire import Aspire  # noqa: E402
from aspire.flows import get_flow_wrapper  # noqa: E402
from aspire.samples import Samples  # noqa: E402
from aspire.utils import AspireFile, load_from_h5_file  # noqa: E402

# --------------------------------------------------------------------------
# Problem
# --------------------------------------------------------------------------
dims = 2
params = ["x_0", "x_1"]
bounds = {p: [-10, 10] for p in params}


def log_likelihood(s):
    x = np.asarray(s.x)
    return -0.5 * np.sum((x - 2.0) ** 2, axis=-1) / 0.05**2


def log_prior(s):
    x = np.asarray(s.x)
    inside = np.all((x > -10) & (x < 10), axis=-1)
    return np.where(inside, -dims * np.log(20.0), -np.inf)


_rng = np.random.default_rng(1)
DATA_A = Samples(_rng.normal(2.0, 1.0, size=(300, dims)), parameters=params)
DATA_B = Samples(_rng.normal(1.0, 2.0, size=(300, dims)), parameters=params)


def new_aspire():
    return Aspire(log_likelihood=log_likelihood, log_prior=log_prior,
                  dims=dims, parameters=params, prior_bounds=bounds,
                  flow_backend="zuko")


def quiet(fn, *a, **k):
    """Call fn with the training progress bar silenced."""
    with contextlib.redirect_stderr(io.StringIO()):
        return fn(*a, **k)


def fit(a, data, **kw):
    return quiet(a.fit, data, n_epochs=5, **kw)


def sample(a, **kw):
    # The zuko log_prob returns a tensor that tracks gradients; sampling is
    # inference only, so do it without gradients (no effect on the results).
    with torch.no_grad():
        return a.sample_posterior(**kw)


def smc(a, seed=2, **kw):
    """Fixed 5-step temperature ladder (beta = 0.2, 0.4, ...)."""
    kw.setdefault("n_samples", 40)
    return sample(a, sampler="smc", adaptive=False, n_steps=5,
                  rng=np.random.default_rng(seed),
                  sampler_kwargs={"n_steps": 3}, **kw)


def resume(path):
    return Aspire.resume_from_file(path, log_likelihood=log_likelihood,
                                   log_prior=log_prior)


# --------------------------------------------------------------------------
# Reading the artifacts back from the file
# --------------------------------------------------------------------------
CLASS_TYPES = {
    "ImportanceSampler": {"importance"},
    "MiniPCNSMC": {"smc", "minipcn_smc"},
    "EmceeSMC": {"emcee_smc"},
    "BlackJAXSMC": {"blackjax_smc"},
}


def read_file(path):
    with AspireFile(path, "r") as f:
        cfg = (load_from_h5_file(f, "aspire_config")
               if "aspire_config" in f else None)
        state = None
        if "checkpoint" in f and "state" in f["checkpoint"]:
            state = pickle.loads(f["checkpoint"]["state"][...].tobytes())
        flow = None
        if "flow" in f:
            FlowClass, _ = get_flow_wrapper(backend="zuko")
            flow = FlowClass.load(f, path="flow")
    return flow, cfg, state


def violations(path, tol=1e-3):
    """The two observables of C14 on the file as it is now."""
    flow, cfg, state = read_file(path)
    out = []
    if state is None:
        return out
    x = np.asarray(state["samples"].x)
    log_q = np.asarray(state["samples"].log_q, dtype=float)
    if flow is None:
        out.append("file holds a checkpoint but no flow")
    else:
        with torch.no_grad():
            lq = np.asarray(flow.log_prob(x), dtype=float)
        d = float(np.max(np.abs(lq - log_q)))
        if not d <= tol:
            out.append("file flow log_prob differs from the checkpoint "
                       f"particles' stored log_q by up to {d:.3g}")
    if cfg is not None:
        st = cfg.get("sampler_type")
        if st not in CLASS_TYPES.get(state["sampler"], {state["sampler"]}):
            out.append(f"aspire_config.sampler_type={st!r} but "
                       f"checkpoint['sampler']={state['sampler']!r}")
    return out


failures = []
tmp = tempfile.mkdtemp(prefix="c14h_")


def history(name):
    def deco(fn):
        path = os.path.join(tmp, name + ".h5")
        try:
            v = fn(path)
        except Exception as e:  # an exception on a covered history
            v = [f"{type(e).__name__}: {e}"]
        if v:
            failures.append(name)
            print(f"FAIL [{name}] " + "; ".join(v))
        else:
            print(f"ok   [{name}]")
        return fn
    return deco


# --------------------------------------------------------------------------
# Controls: histories on which the file stays consistent
# --------------------------------------------------------------------------
@history("control_fit_then_smc")
def _(path):
    a = new_aspire()
    fit(a, DATA_A, checkpoint_path=path)
    smc(a, checkpoint_path=path)
    return violations(path)


@history("control_midrun_then_resume_to_end")
def _(path):
    a = new_aspire()
    fit(a, DATA_A, checkpoint_path=path)
    smc(a, checkpoint_path=path, max_n_steps=2)  # stops at beta = 0.4
    v = violations(path)
    r = resume(path)
    smc(r, seed=3)
    _, _, state = read_file(path)
    assert state["meta"]["beta"] == 1.0
    return v + violations(path)


@history("control_nested_contexts_refit_overwrite_then_smc")
def _(path):
    a = new_aspire()
    with a.auto_checkpoint(path):
        fit(a, DATA_A)
        with a.auto_checkpoint(path):
            smc(a)
        fit(a, DATA_B, overwrite=True)
        smc(a)
    return violations(path)


# --------------------------------------------------------------------------
# H1 (main finding): refit WITH overwrite=True into a file that holds a
# checkpoint.  fit() replaces /flow but leaves /checkpoint/state, whose
# particles were weighted under the old flow.  resume_from_file() then pairs
# the new flow with the old population and continues without complaint.
# --------------------------------------------------------------------------
@history("H1_refit_overwrite_true_keeps_old_checkpoint")
def _(path):
    a = new_aspire()
    fit(a, DATA_A, checkpoint_path=path)
    smc(a, checkpoint_path=path, max_n_steps=2)   # mid-run, beta = 0.4
    before = violations(path)
    assert not before, before                      # consistent so far
    fit(a, DATA_B, checkpoint_path=path, overwrite=True)
    v = violations(path)
    if v:
        # what a later resume does with that file
        _, _, state = read_file(path)
        r = resume(path)
        with torch.no_grad():
            lq_new = np.asarray(r.flow.log_prob(np.asarray(state["samples"].x)),
                                dtype=float)
        d = float(np.max(np.abs(lq_new - np.asarray(state["samples"].log_q))))
        try:
            _, hist = smc(r, seed=3, return_history=True)
            v.append("resume_from_file()+sample_posterior() continued from "
                     f"beta={state['meta']['beta']} to beta={hist.beta[-1]} "
                     "with the new flow on particles whose log_q (off by up "
                     f"to {d:.3g}) came from the old flow, no error raised")
        except Exception as e:
            v.append(f"resume raised {type(e).__name__}: {e}")
    return v


# Same thing on an object made by resume_from_file (its default path is the
# file): refit with overwrite, then sample.
@history("H1b_resumed_object_refit_overwrite_then_sample")
def _(path):
    a = new_aspire()
    fit(a, DATA_A, checkpoint_path=path)
    smc(a, checkpoint_path=path, max_n_steps=2)
    r = resume(path)
    fit(r, DATA_B, overwrite=True)      # goes to the file (resume default)
    smc(r, seed=3, max_n_steps=2)       # resumes the bytes loaded earlier
    return violations(path)


# --------------------------------------------------------------------------
# H2: importance sampling aimed at a file that holds an SMC checkpoint.
# The configuration is deleted and rewritten naming "importance" although
# the importance sampler writes no checkpoint; the file can then no longer
# be resumed.
# --------------------------------------------------------------------------
@history("H2_importance_after_smc_same_file")
def _(path):
    a = new_aspire()
    fit(a, DATA_A, checkpoint_path=path)
    smc(a, checkpoint_path=path, max_n_steps=2)
    sample(a, n_samples=20, sampler="importance", checkpoint_path=path)
    v = violations(path)
    try:
        sample(resume(path))
    except Exception as e:
        v.append(f"resume_from_file()+sample_posterior() raised "
                 f"{type(e).__name__}: {e}")
    return v


# --------------------------------------------------------------------------
# H3: explicit checkpoint_path inside an auto_checkpoint context of another
# file.  The context's saved_flow flag (about the context's file) is applied
# to the explicit file, so that file gets a configuration and a checkpoint
# but no flow.
# --------------------------------------------------------------------------
@history("H3_explicit_path_inside_context_of_other_file")
def _(path):
    a = new_aspire()
    fit(a, DATA_A)
    ctx_file = path.replace(".h5", "_ctx.h5")
    with a.auto_checkpoint(ctx_file):
        smc(a)                           # context file: flag saved_flow set
        smc(a, checkpoint_path=path)     # explicit, different file
    v = violations(ctx_file) + violations(path)
    try:
        resume(path)
    except Exception as e:
        v.append(f"resume_from_file() raised {type(e).__name__}: {e}")
    return v


if failures:
    print("FAIL: C14 violated on " + ", ".join(failures))
    sys.exit(1)
print("PASS")
sys.exit(0)
