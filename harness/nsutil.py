"""Array-namespace helpers shared by the implementation-side drivers."""
import math
import os

os.environ.setdefault("SCIPY_ARRAY_API", "1")
import numpy as _np  # noqa: E402


def namespaces():
    import array_api_compat.numpy as npx
    import array_api_compat.torch as tx
    import jax
    jax.config.update("jax_enable_x64", True)
    import jax.numpy as jnp
    return {"numpy": npx, "torch": tx, "jax": jnp}


def native_dtype(xp_name, width):
    """width in {'float32','float64'} -> the namespace's own dtype object."""
    if xp_name == "torch":
        import torch
        return getattr(torch, width)
    if xp_name == "jax":
        import jax.numpy as jnp
        return jnp.dtype(width)
    return _np.dtype(width)


def dtype_name(dt):
    s = str(dt)
    return s.split(".")[-1].replace("'>", "").replace("dtype('", "").replace("')", "")


def to_list(a):
    """Any array -> nested python list of floats (exact)."""
    try:
        import torch
        if isinstance(a, torch.Tensor):
            a = a.detach().cpu().numpy()
    except Exception:
        pass
    return _np.asarray(a).tolist()


def to_float(a):
    return float(_np.asarray(to_list(a)))


def eps_of(width):
    return 2.0 ** -23 if width == "float32" else 2.0 ** -52


def mk(xp, values, dtype):
    return xp.asarray(values, dtype=dtype)


def mpf_list(vals):
    import mpmath as mp
    return [mp.mpf(v) if math.isfinite(v) else (mp.inf if v > 0 else -mp.inf) for v in vals]


def NS_OF(samples):
    """Name of the namespace a sample set's arrays live in."""
    t = type(samples.x).__module__
    if t.startswith("torch"):
        return "torch"
    if t.startswith("jax") or "jaxlib" in t:
        return "jax"
    return "numpy"
