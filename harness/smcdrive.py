"""Drive the real SMC samplers (against the stub kernel packages) and record everything the
control model is parametrised by: every efficiency query, evidence ratio, resample / mutate event,
target-efficiency evaluation, checkpoint payload — in program order (oracle replay, DESIGN 4.2)."""
from __future__ import annotations

import copy
import math
import pickle

import numpy as np

from harness import nsutil


# ----------------------------------------------------------------------------- analytic stand-in flow
class FakeFlow:
    """Independent normal proposal with closed-form density; taggable and savable.
    Registered as the external flow backend "fake" (stubs/verif_fakeflow-0.0.dist-info)."""
    import array_api_compat.numpy as xp

    def __init__(self, dims, mu=0.0, sigma=2.0, seed=0, tag="A", out_xp=None, device=None, data_transform=None, dtype=None, support=None, **kw):
        self.dims = dims
        self.support = support      # None: density on all of R^d; a number: log-density -inf where some |x_i - mu_i| exceeds it
        self.mu = np.full(dims, float(mu)) if np.ndim(mu) == 0 else np.asarray(mu, float)
        self.sigma = np.full(dims, float(sigma)) if np.ndim(sigma) == 0 else np.asarray(sigma, float)
        self.rng = np.random.default_rng(seed)
        self.tag = tag
        self.out_xp = out_xp
        self.n_fit = 0

    def _lp(self, x):
        x = np.asarray(nsutil.to_list(x), dtype=float).reshape(-1, self.dims)
        z = (x - self.mu) / self.sigma
        lp = -0.5 * np.sum(z * z, axis=1) - np.sum(np.log(self.sigma)) - 0.5 * self.dims * math.log(2 * math.pi)
        if self.support is not None:
            lp = np.where(np.all(np.abs(x - self.mu) <= self.support, axis=1), lp, -np.inf)
        return lp

    def _out(self, a):
        return a if self.out_xp is None else self.out_xp.asarray(a)

    def log_prob(self, x):
        return self._out(self._lp(x))

    def sample_and_log_prob(self, n):
        x = self.mu + self.sigma * self.rng.normal(size=(n, self.dims))
        return self._out(x), self._out(self._lp(x))

    def sample(self, n):
        return self.sample_and_log_prob(n)[0]

    def fit(self, x, **kw):
        x = np.asarray(nsutil.to_list(x), dtype=float).reshape(-1, self.dims)
        self.mu = x.mean(0)
        self.sigma = x.std(0) + 1e-3
        self.n_fit += 1
        self.tag = kw.get("tag", self.tag)
        from aspire.history import FlowHistory
        return FlowHistory()

    def save(self, h5_file, path="flow"):
        g = h5_file.create_group(path)
        g.attrs["tag"] = self.tag
        g.create_dataset("mu", data=self.mu)
        g.create_dataset("sigma", data=self.sigma)

    @classmethod
    def load(cls, h5_file, path="flow"):
        g = h5_file[path]
        f = cls(len(g["mu"][()]), tag=g.attrs["tag"])
        f.mu, f.sigma = g["mu"][()], g["sigma"][()]
        return f

    def config_dict(self):
        return {"tag": self.tag}


# ----------------------------------------------------------------------------- targets (user callables)
class Target:
    """Gaussian likelihood of width `s` centred at `c`, normal or box prior; counts and logs calls."""

    def __init__(self, dims, s=1.0, c=0.5, prior="normal", box=5.0, nan_above=None):
        self.dims, self.s, self.c, self.prior, self.box = dims, s, c, prior, box
        self.nan_above = nan_above
        self.calls = []          # ("prior"|"lik", n_points, prior_attached_ok)
        self.fail_at = None      # raise at the k-th call (0-based over both callables)
        self.shift0 = 0.0        # offset of coordinate 0's prior interval
        self.answers_in = None   # None: answer in the samples' namespace and dtype; "float32"/"float64": NumPy arrays of that width
        self.answers_ns = None   # "torch": answer with torch tensors whatever the samples' namespace (a model written in torch)
        self.ncalls = 0

    def _x(self, samples):
        return np.asarray(nsutil.to_list(samples.x), dtype=float).reshape(-1, self.dims)

    def L(self, x):
        v = -0.5 * np.sum((x - self.c) ** 2, axis=1) / self.s ** 2
        if self.nan_above is not None:
            v = np.where(x[:, 0] > self.nan_above, np.nan, v)
        return v

    def Pi(self, x):
        if self.prior == "normal":
            return -0.5 * np.sum(x * x, axis=1) / 9.0
        lo, hi = self.box_bounds()
        inside = np.all((x >= lo) & (x <= hi), axis=1)
        return np.where(inside, -float(np.sum(np.log(hi - lo))), -np.inf)

    def box_bounds(self):
        """Per-coordinate bounds of the box prior: a DIFFERENT interval for every coordinate (coordinate i: [-box+0.5 i, box-0.25 i]),
        so that a parameter handled with another parameter's bounds is visible."""
        i = np.arange(self.dims, dtype=float)
        lo, hi = -self.box + 0.5 * i, self.box - 0.25 * i
        lo[0] += self.shift0            # an interval that does not contain 0 (a standardised coordinate is mostly outside it)
        hi[0] += self.shift0
        return lo, hi

    def bounds_dict(self):
        """prior_bounds for Aspire, written in REVERSE parameter order (bounds belong to parameters by name, not by position)."""
        lo, hi = self.box_bounds()
        return {pname(i): (float(lo[i]), float(hi[i])) for i in reversed(range(self.dims))}

    def _names_ok(self, samples):
        want = getattr(self, "expect_names", None)
        if want is None or not hasattr(samples, "parameters"):
            return True
        return list(samples.parameters or []) == want

    def _tick(self):
        k = self.ncalls
        self.ncalls += 1
        if self.fail_at is not None and k == self.fail_at:
            raise RuntimeError(f"injected fault at user-call {k}")

    def log_prior(self, samples):
        self._tick()
        x = self._x(samples)
        self.calls.append(("prior", len(x), None, self._names_ok(samples)))
        if self.answers_ns == "torch":
            import torch
            return torch.as_tensor(np.asarray(self.Pi(x), dtype=float))
        if self.answers_in is not None:       # a user model that answers in its own precision (NumPy), whatever was requested
            return np.asarray(self.Pi(x), dtype=self.answers_in)
        return samples.xp.asarray(self.Pi(x), dtype=samples.dtype) if hasattr(samples, "xp") else self.Pi(x)

    def log_likelihood(self, samples):
        self._tick()
        x = self._x(samples)
        lp = samples.log_prior
        ok = lp is not None and np.allclose(np.asarray(nsutil.to_list(lp), dtype=float), self.Pi(x), rtol=1e-5, atol=1e-5, equal_nan=True) \
            and len(np.atleast_1d(np.asarray(nsutil.to_list(lp)))) == len(x)
        self.calls.append(("lik", len(x), bool(ok), self._names_ok(samples)))
        if self.answers_ns == "torch":
            import torch
            return torch.as_tensor(np.asarray(self.L(x), dtype=float))
        if self.answers_in is not None:
            return np.asarray(self.L(x), dtype=self.answers_in)
        return samples.xp.asarray(self.L(x), dtype=samples.dtype)


# ----------------------------------------------------------------------------- recording
class Recorder:
    """Monkey-patches (in this process only) the observation points named in DESIGN 4.2."""

    def __init__(self):
        self.events = []
        self.vid = 0
        self._undo = []

    def new_id(self, obj):
        obj._vid = self.vid
        self.vid += 1
        return obj._vid

    def install(self, sampler):
        import aspire.samplers.smc.base as smcb
        from aspire.samples import SMCSamples
        rec = self

        def patch(obj, name, new):
            old = getattr(obj, name)
            setattr(obj, name, new)
            self._undo.append((obj, name, old))
            return old

        o_lw = SMCSamples.log_weights
        o_ratio = SMCSamples.log_evidence_ratio
        o_var = SMCSamples.log_evidence_ratio_variance
        o_res = SMCSamples.resample
        o_ess = smcb.effective_sample_size
        self._pending = None

        def lw(s, beta):
            rec._pending = (getattr(s, "_vid", -1), float(beta))
            return o_lw(s, beta)

        def ess(log_w):
            v = o_ess(log_w)
            pid, b = rec._pending if rec._pending else (-1, float("nan"))
            rec._pending = None
            rec.events.append(("ess", pid, b, nsutil.to_float(v)))
            return v

        def ratio(s, beta):
            v = o_ratio(s, beta)
            rec.events.append(("ratio", getattr(s, "_vid", -1), float(beta), nsutil.to_float(v)))
            return v

        def var(s, beta):
            v = o_var(s, beta)
            rec.events.append(("var", getattr(s, "_vid", -1), float(beta), nsutil.to_float(v)))
            return v

        def res(s, beta, n_samples=None, rng=None):
            out = o_res(s, beta, n_samples=n_samples, rng=rng)
            if out is not s:
                rec.new_id(out)
            rec.events.append(("resample", getattr(s, "_vid", -1), float(beta), n_samples, out._vid, len(out.x)))
            return out

        patch(SMCSamples, "log_weights", lw)
        patch(SMCSamples, "log_evidence_ratio", ratio)
        patch(SMCSamples, "log_evidence_ratio_variance", var)
        patch(SMCSamples, "resample", res)
        patch(smcb, "effective_sample_size", ess)

        o_db = sampler.determine_beta
        o_mut = sampler.mutate
        o_cte = sampler.current_target_efficiency

        def db(samples, beta, beta_step, min_step, beta_tolerance=1e-6):
            rec.events.append(("db_in", getattr(samples, "_vid", -1), float(beta), float(beta_step), float(min_step), float(beta_tolerance)))
            b, ms = o_db(samples, beta, beta_step, min_step, beta_tolerance=beta_tolerance)
            rec.events.append(("db_out", float(b), float(ms)))
            return b, ms

        def mut(particles, beta, n_steps=None):
            out = o_mut(particles, beta, n_steps=n_steps) if n_steps is not None else o_mut(particles, beta)
            rec.new_id(out)
            rec.events.append(("mutate", getattr(particles, "_vid", -1), float(beta), n_steps is not None, out._vid, len(out.x)))
            return out

        def cte(beta):
            v = o_cte(beta)
            rec.events.append(("cte", float(beta), float(v)))
            return v

        sampler.determine_beta = db
        sampler.mutate = mut
        sampler.current_target_efficiency = cte
        self._undo.append((sampler, "determine_beta", None))
        o_dis = sampler.draw_initial_samples

        def dis(n):
            out = o_dis(n)
            return out
        sampler.draw_initial_samples = dis
        # SMCSamples.from_samples creates the initial / restored population: tag it
        from aspire.samples import SMCSamples as S2
        o_fs = S2.from_samples.__func__

        def fs(cls, samples, **kw):
            out = o_fs(cls, samples, **kw)
            if cls is S2:
                rec.new_id(out)
                rec.events.append(("init", out._vid, len(out.x), float(out.beta) if out.beta is not None else None))
            return out
        patch(S2, "from_samples", classmethod(fs))

    def uninstall(self):
        for obj, name, old in reversed(self._undo):
            if old is None:
                try:
                    delattr(obj, name)
                except Exception:
                    pass
            else:
                setattr(obj, name, old)
        self._undo = []


PNAMES = ["mass", "spin", "chi", "tilt", "phase", "incl"]       # names a user gives: not the defaults x_0.., not alphabetical


def pname(i):
    return PNAMES[i]


def make_aspire(target, flow, xp, dtype, dims, **kw):
    from aspire import Aspire
    params = [pname(i) for i in range(dims)]
    target.expect_names = list(params)       # every sample set handed to the user's functions carries the user's names
    return Aspire(log_likelihood=target.log_likelihood, log_prior=target.log_prior, dims=dims, parameters=params,
                  flow=flow, xp=xp, dtype=dtype, **kw)


def make_sampler(kind, target, flow, xp, dtype, dims, rng=None, preconditioning="default", preconditioning_kwargs=None,
                 aspire_kw=None):
    """Build the sampler the way Aspire.sample_posterior does (Aspire.init_sampler), so the default
    preconditioning transform is the one real runs get. kind: 'minipcn_smc' | 'emcee_smc' | 'minipcn' | 'emcee' | 'importance'."""
    a = make_aspire(target, flow, xp, dtype, dims, **(aspire_kw or {}))
    kw = {}
    if rng is not None and kind in ("minipcn_smc", "smc"):
        kw["rng"] = rng
    s = a.init_sampler(kind, preconditioning=preconditioning, preconditioning_kwargs=preconditioning_kwargs, **kw)
    if rng is not None and kind == "emcee_smc":
        s.rng = rng
    s._aspire = a
    return s


def base_sample(sampler, n_samples, rng=None, sampler_kwargs=None, **kw):
    """Call SMCSampler.sample directly on a MiniPCNSMC instance so that every option of the base
    loop (beta_tolerance, store_sample_history, ...) is reachable; replicates MiniPCNSMC.sample's prologue."""
    from aspire.samplers.smc.base import SMCSampler
    from aspire.utils import determine_backend_name
    sampler.sampler_kwargs = dict(sampler_kwargs or {})
    sampler.sampler_kwargs.setdefault("n_steps", 2)
    sampler.sampler_kwargs.setdefault("target_acceptance_rate", 0.234)
    sampler.sampler_kwargs.setdefault("step_fn", "tpcn")
    sampler.backend_str = determine_backend_name(xp=sampler.xp)
    if rng is not None:
        sampler.rng = rng
    f = SMCSampler.sample
    f = getattr(f, "__wrapped__", f)
    return f(sampler, n_samples, **kw)


def split_iterations(events):
    """Group the flat event list into per-iteration records."""
    its = []
    cur = None
    pre = []
    for e in events:
        if e[0] == "db_in":
            cur = {"pid": e[1], "beta_prev": e[2], "beta_step": e[3], "ms_in": e[4], "tol": e[5], "queries": [], "cte": [],
                   "after": []}
            its.append(cur)
            cur["_in_db"] = True
        elif cur is None:
            pre.append(e)
        elif e[0] == "db_out":
            cur["beta"], cur["ms_out"] = e[1], e[2]
            cur["_in_db"] = False
        elif cur.get("_in_db"):
            if e[0] == "ess":
                cur["queries"].append((e[2], e[3]))
            elif e[0] == "cte":
                cur["cte"].append((e[1], e[2]))
        else:
            cur["after"].append(e)
    return pre, its


# ----------------------------------------------------------------------------- whole-sampler runs through Aspire
PRECOND_OPTS = [
    (None, None, {}),
    ("default", {}, {}),
    ("default", {"bounded_to_unbounded": True, "bounded_transform": "logit"}, {"bounds": True}),
    ("default", {"bounded_to_unbounded": True, "bounded_transform": "probit", "affine_transform": True}, {"bounds": True}),
    ("default", {"affine_transform": True}, {}),
    ("default", {}, {"bounds": True, "periodic": True}),
    ("none", None, {}),
]


def aspire_sample(kind, nsname, dims, N, seed, pre=None, pkw=None, opt=None, prior=None, s=1.0, flow_sigma=2.5, width="float64",
                  sample_kwargs=None, target=None, callback=None):
    """Aspire.sample_posterior for any sampler kind with the stub kernels. Returns (aspire, samples, target, flow)."""
    import emcee
    NS = nsutil.namespaces()
    xp = NS[nsname]
    dt = nsutil.native_dtype(nsname, width)
    opt = opt or {}
    prior = prior or ("box" if opt.get("bounds") else "normal")
    tgt = target or Target(dims, s=s, c=0.3, prior=prior)
    flow = FakeFlow(dims, sigma=flow_sigma, seed=seed % 1000)
    akw = {}
    if opt.get("bounds"):
        akw["prior_bounds"] = tgt.bounds_dict()
    if opt.get("periodic"):
        akw["periodic_parameters"] = [pname(0)]
    a = make_aspire(tgt, flow, xp, dt, dims, **akw)
    emcee.reset_counter(seed % 997)
    kw = dict(sample_kwargs or {})
    rng = np.random.default_rng(seed)
    if kind in ("minipcn_smc", "minipcn", "emcee"):
        kw.setdefault("rng", rng)
    if kind == "minipcn_smc":
        kw.setdefault("sampler_kwargs", {"n_steps": 2})
    elif kind == "emcee_smc":
        kw.setdefault("sampler_kwargs", {"nsteps": 2, "progress": False})
    elif kind == "minipcn":
        kw.setdefault("n_steps", 3)
    elif kind == "emcee":
        kw.setdefault("nsteps", 3)
        kw.setdefault("progress", False)
    if callback is not None:
        kw["checkpoint_callback"] = callback
    pk = dict(pkw) if pkw is not None else None
    out = a.sample_posterior(N, sampler=kind, preconditioning=pre, preconditioning_kwargs=pk, **kw)
    if kind == "emcee_smc":
        pass
    return a, out, tgt, flow
