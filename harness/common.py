"""Shared machinery for every property check: context, verdicts, evidence, Coq driver.

Every check (``./check Cxx``) goes through ``run_property`` below:

  1. TIE-a   regenerate coq/Gen/*.v from /repo's working tree (tools/translate.py)
  2. PROVE   build the cone of coq/Props/Cxx.v (full .vo), capture Print Assumptions
  3. TIE-b   correspondence: model evaluated inside Coq (vm_compute) vs implementation
  4. SEARCH  the property predicate evaluated on the implementation
  5. verdict + evidence/Cxx.json
"""
from __future__ import annotations

import fcntl
import hashlib
import json
import os
import random
import re
import shutil
import subprocess
import sys
import time
import traceback
from pathlib import Path

VERIF = Path(__file__).resolve().parent.parent
REPO = Path(os.environ.get("ASPIRE_REPO", "/repo"))
COQ = VERIF / "coq"
WORK = VERIF / ".work"
REPLAYS = VERIF / "replays"
EVID = VERIF / "evidence"
KNOWN_FILE = VERIF / "known_findings.json"

KERNEL_TB = [
    "Coq 8.16.1 kernel (coqc, full .vo build, no -vos/-vok); vm_compute used for finite-domain theorems and for evaluating the executable model in the correspondence check; native_compute is NOT used",
    "no Axiom/Parameter/Conjecture/Admitted/admit in the development (source scan on every run); guard, positivity and universe checks left on",
]

FORBIDDEN = re.compile(
    r"\b(Admitted|admit|Axiom|Axioms|Parameter|Parameters|Conjecture|Conjectures|Admit\s+Obligations|bypass_check|give_up)\b"
    r"|Unset\s+Guard|Unset\s+Positivity|Unset\s+Universe|type-in-type|impredicative-set"
)


def sh(cmd, timeout=1200, cwd=None, env=None):
    e = dict(os.environ)
    if env:
        e.update(env)
    try:
        p = subprocess.run(cmd, shell=isinstance(cmd, str), cwd=cwd, env=e, timeout=timeout,
                           stdout=subprocess.PIPE, stderr=subprocess.STDOUT, text=True, errors="replace")
        return p.returncode, p.stdout
    except subprocess.TimeoutExpired as ex:
        out = ex.stdout or ""
        if isinstance(out, bytes):
            out = out.decode("utf8", "replace")
        return 124, out + "\n[timeout after %ss]" % timeout


class Lock:
    def __init__(self, name="coq"):
        WORK.mkdir(exist_ok=True)
        self.path = WORK / (name + ".lock")

    def __enter__(self):
        self.f = open(self.path, "w")
        fcntl.flock(self.f, fcntl.LOCK_EX)
        return self

    def __exit__(self, *a):
        fcntl.flock(self.f, fcntl.LOCK_UN)
        self.f.close()


# --------------------------------------------------------------------------- Coq driver

def scan_forbidden():
    """Reject escape hatches anywhere in the development (comments stripped)."""
    bad = []
    for p in sorted(COQ.rglob("*.v")):
        if ".work" in p.parts:
            continue
        txt = p.read_text()
        txt = strip_comments(txt)
        # top-level Variable/Hypothesis outside a Section
        depth = 0
        for ln, line in enumerate(txt.splitlines(), 1):
            s = line.strip()
            if re.match(r"Section\b", s):
                depth += 1
            elif re.match(r"End\b", s) and depth > 0:
                depth -= 1
            elif depth == 0 and re.match(r"(Variable|Variables|Hypothesis|Hypotheses|Context)\b", s):
                bad.append(f"{p.relative_to(COQ)}:{ln}: top-level {s.split()[0]}")
            m = FORBIDDEN.search(line)
            if m:
                bad.append(f"{p.relative_to(COQ)}:{ln}: {m.group(0)}")
    return bad


def strip_comments(txt):
    out = []
    i = 0
    depth = 0
    n = len(txt)
    while i < n:
        if txt.startswith("(*", i):
            depth += 1
            i += 2
        elif txt.startswith("*)", i) and depth > 0:
            depth -= 1
            i += 2
        else:
            if depth == 0:
                out.append(txt[i])
            elif txt[i] == "\n":
                out.append("\n")
            i += 1
    return "".join(out)


def coq_project_files():
    files = []
    for sub in ("Lib", "Gen", "Model", "Proofs", "Props"):
        for p in sorted((COQ / sub).glob("*.v")):
            files.append(f"{sub}/{p.name}")
    return files


def ensure_makefile():
    proj = "-Q . AV\n-arg -w -arg -notation-overridden,-deprecated,-ambiguous-paths\n" + "\n".join(coq_project_files()) + "\n"
    pf = COQ / "_CoqProject"
    changed = (not pf.exists()) or pf.read_text() != proj
    if changed:
        pf.write_text(proj)
    if changed or not (COQ / "Makefile").exists():
        rc, out = sh("coq_makefile -f _CoqProject -o Makefile", cwd=COQ, timeout=120)
        if rc != 0:
            raise RuntimeError("coq_makefile failed: " + out)


def coq_make(targets, jobs=16, timeout=1500):
    """Full .vo build of the given targets (and their dependency cone)."""
    with Lock("coq"):
        ensure_makefile()
        t = " ".join(targets)
        rc, out = sh(f"make -j{jobs} {t}", cwd=COQ, timeout=timeout)
        return rc == 0, out


def coq_props(prop, timeout=1500):
    """Rebuild coq/Props/<prop>.vo from its sources; always re-run the Props file itself so the
    Print Assumptions output is captured on every run."""
    vo = COQ / "Props" / f"{prop}.vo"
    with Lock("coq"):
        ensure_makefile()
        if vo.exists():
            vo.unlink()
        rc, out = sh(f"make -j16 Props/{prop}.vo", cwd=COQ, timeout=timeout)
    return rc == 0, out


def theorem_names(prop):
    txt = strip_comments((COQ / "Props" / f"{prop}.v").read_text())
    return re.findall(r"^\s*(?:Theorem|Lemma|Corollary)\s+([A-Za-z0-9_']+)", txt, re.M)


def parse_assumptions(out):
    """Return the set of axiom names printed by Print Assumptions in a coqc log."""
    axioms = set()
    closed = 0
    for block in re.split(r"\n(?=Axioms:|Closed under the global context)", out):
        if block.startswith("Closed under"):
            closed += 1
        if block.startswith("Axioms:"):
            for m in re.finditer(r"^([A-Za-z_][A-Za-z0-9_.']*)\s*:", block[len("Axioms:"):], re.M):
                axioms.add(m.group(1))
    return sorted(axioms), closed


def coq_eval(name, text, timeout=900):
    """Compile one generated .v file (correspondence cases) against the built development.
    Returns (ok, stdout)."""
    d = WORK / "cases"
    d.mkdir(parents=True, exist_ok=True)
    f = d / f"{name}.v"
    f.write_text(text)
    rc, out = sh(f"coqc -Q {COQ} AV -w -notation-overridden,-deprecated {f}", cwd=d, timeout=timeout,
                 env={"OCAMLRUNPARAM": "l=2000M"})
    for ext in (".vo", ".vok", ".vos", ".glob"):
        q = f.with_suffix(ext)
        if q.exists():
            q.unlink()
    aux = d / f".{name}.aux"
    if aux.exists():
        aux.unlink()
    return rc == 0, out


def coq_eval_many(named_texts, timeout=900, par=8):
    """Run several case files in parallel."""
    from concurrent.futures import ThreadPoolExecutor
    with ThreadPoolExecutor(max_workers=par) as ex:
        futs = [ex.submit(coq_eval, n, t, timeout) for n, t in named_texts]
        return [f.result() for f in futs]


def parse_eval_lists(out):
    """Parse outputs of `Eval vm_compute in (...)` that print `= [a; b; ...] : list T` or `= v : T`.
    Returns list of raw strings (inside of '= ... :')."""
    res = []
    for m in re.finditer(r"^\s*= (.*?)\n\s*: ", out, re.S | re.M):
        res.append(" ".join(m.group(1).split()))
    return res


# --------------------------------------------------------------------------- float <-> Coq literal

def ckpt_name(stem, i) -> str:
    """Checkpoint file names as users write them: lower case, capitalised run names, upper-case extensions (all accepted by aspire)."""
    return [f"{stem}.h5", f"{stem.capitalize()}_Run.H5", f"GW_{stem}.hdf5", f"{stem}_Final.HDF5"][i % 4]


def as_user_path(path, i):
    """Users hand over file names as str or as pathlib.Path; every second one is a Path."""
    import pathlib
    return pathlib.Path(path) if i % 2 else path


def fhex(x: float) -> str:
    """Python float -> Coq PrimFloat literal (bit exact)."""
    import math
    if x != x:
        return "nan"
    if x == math.inf:
        return "infinity"
    if x == -math.inf:
        return "neg_infinity"
    h = float(x).hex()
    if h.startswith("-"):
        return f"(-{h[1:]})%float"
    return f"{h}%float"


def zlit(n: int) -> str:
    return f"({n})%Z" if n < 0 else f"{n}%Z"


# --------------------------------------------------------------------------- context / verdict

class Ctx:
    def __init__(self, prop, tier, seed):
        self.prop = prop
        self.tier = tier
        self.seed = seed
        self.rng = random.Random(seed)
        self.t0 = time.time()
        self.obligations = []      # (name, ok, detail)
        self.violations = []       # dict(key, what, replay)
        self.known_hits = []
        self.samples = []
        self.evaluations = 0
        self.distinct = set()
        self.traces = 0
        self.trusted = list(KERNEL_TB)
        self.assumptions = []
        self.extra = {}
        self.rule = ""
        self.hist = {}
        self.broken = []           # names of obligations that failed (for no-failing-input-found)
        self.known = json.loads(KNOWN_FILE.read_text()) if KNOWN_FILE.exists() else []

    @property
    def quick(self):
        return self.tier == "quick"

    def scale(self, quick, thorough):
        return quick if self.quick else thorough

    # -- recording
    def oblig(self, name, ok, detail=""):
        self.obligations.append((name, bool(ok), detail))
        if not ok:
            self.broken.append((name, detail))

    def count(self, key=None, nontrivial=True, kind=None):
        self.evaluations += 1
        if nontrivial and key is not None:
            self.distinct.add(key if isinstance(key, (str, int, tuple)) else repr(key))
        if kind is not None:
            self.hist[kind] = self.hist.get(kind, 0) + 1

    def sample(self, s, limit=6):
        if len(self.samples) < limit:
            self.samples.append(s)

    def trust(self, *items):
        for i in items:
            if i not in self.trusted:
                self.trusted.append(i)

    def assume(self, *items):
        for i in items:
            if i not in self.assumptions:
                self.assumptions.append(i)

    def violation(self, key, what, replay):
        """A concrete input/history on which the property fails on the real code."""
        for k in self.known:
            if k.get("property") == self.prop and k.get("status") == "known" and k.get("key") == key:
                if key not in [h["key"] for h in self.known_hits]:
                    self.known_hits.append({"key": key, "what": k.get("what", what)})
                return False
        if key in [v["key"] for v in self.violations]:
            return True
        self.violations.append({"key": key, "what": what, "replay": replay})
        return True

    # -- finishing
    def finish(self):
        REPLAYS.mkdir(exist_ok=True)
        EVID.mkdir(exist_ok=True)
        lines = []
        for h in self.known_hits:
            lines.append(f"KNOWN-FINDING: property={self.prop} {h['what']} [key={h['key']}]")
        nviol = 0
        for v in self.violations:
            hsh = hashlib.sha1(v["key"].encode()).hexdigest()[:10]
            path = REPLAYS / f"{self.prop}-{hsh}.json"
            path.write_text(json.dumps({"property": self.prop, "key": v["key"], "what": v["what"], "seed": self.seed,
                                        "tier": self.tier, "replay": v["replay"]}, indent=1, default=str))
            lines.append(f"VIOLATION property={self.prop} replay={path}")
            nviol += 1
        if self.broken and not self.violations:
            # a proof obligation / the tie no longer checks, and the search found no failing input
            hsh = hashlib.sha1(repr(self.broken).encode()).hexdigest()[:10]
            path = REPLAYS / f"{self.prop}-broken-{hsh}.json"
            path.write_text(json.dumps({"property": self.prop, "seed": self.seed, "tier": self.tier,
                                        "no_failing_input_found": True,
                                        "broken_obligations": [{"name": n, "detail": d[-6000:]} for n, d in self.broken]},
                                       indent=1, default=str))
            lines.append(f"VIOLATION property={self.prop} replay={path} no-failing-input-found")
            nviol += 1
        elif self.broken:
            for n, d in self.broken:
                print(f"[{self.prop}] broken obligation: {n}: {d[-800:]}")
        nob = len(self.obligations)
        ndis = sum(1 for o in self.obligations if o[1])
        cov = {
            "obligations": nob,
            "discharged": ndis,
            "checker_cmd": f"cd /verif && ./check {self.prop} --tier {self.tier}   (runs: tools/translate.py; make -C coq Props/{self.prop}.vo [coqc, full .vo]; correspondence cases via coqc/vm_compute; implementation search)",
            "trusted_base": self.trusted,
            "evaluations": self.evaluations,
            "distinct_nontrivial": len(self.distinct),
            "rule": self.rule,
            "samples": self.samples or [{"note": "no sample recorded"}],
            "traces_validated_against_impl": self.traces,
            "obligation_list": [{"name": n, "ok": ok} for n, ok, _ in self.obligations],
            "input_distribution": self.hist,
            "known_findings_hit": self.known_hits,
        }
        cov.update(self.extra)
        ev = {
            "property_id": self.prop,
            "tier": self.tier,
            "seed": self.seed,
            "level": "proof",
            "coverage": cov,
            "assumptions": self.assumptions,
            "wall_s": round(time.time() - self.t0, 2),
            "violations": nviol,
        }
        (EVID / f"{self.prop}.json").write_text(json.dumps(ev, indent=1, default=str))
        for l in lines:
            print(l)
        print(f"[{self.prop}] tier={self.tier} seed={self.seed} obligations={ndis}/{nob} evaluations={self.evaluations} "
              f"distinct={len(self.distinct)} violations={nviol} known={len(self.known_hits)} wall={ev['wall_s']}s")
        return 1 if nviol else 0


# --------------------------------------------------------------------------- the standard pipeline

def standard_prove(ctx, gen_targets=None):
    """Steps 1 and 2. Returns True when translator + proofs are all clean."""
    ok_all = True
    bad = scan_forbidden()
    ctx.oblig("source-scan:no-axioms-no-admits", not bad, "\n".join(bad))
    # 1. translator (always regenerates all Gen files; they are cheap)
    sys.path.insert(0, str(VERIF / "tools"))
    try:
        import translate
        with Lock("coq"):
            status = translate.generate(REPO / "src" / "aspire", COQ / "Gen")
        for name, (ok, detail) in status.items():
            if gen_targets is None or any(name.startswith(g) for g in gen_targets):
                ctx.oblig(f"translate:{name}", ok, detail)
                ok_all &= ok
    except Exception:
        ctx.oblig("translate:run", False, traceback.format_exc())
        ok_all = False
    # 2. proofs
    ok, out = coq_props(ctx.prop)
    names = theorem_names(ctx.prop)
    if ok:
        for n in names:
            ctx.oblig(f"theorem:{n}", True)
    else:
        # find which theorem(s) failed: everything in the Props file is a one-line `exact`, so a failure
        # is either in the cone (Proofs/Bridge) or a statement mismatch; report all as undischarged.
        err = out[-6000:]
        for n in names:
            ctx.oblig(f"theorem:{n}", False, err)
        ok_all = False
    axioms, closed = parse_assumptions(out)
    ctx.extra["print_assumptions"] = {"axioms": axioms, "closed_theorems": closed}
    if axioms:
        ctx.trust("axioms reported by Print Assumptions for Props/%s.v (all declared by the Coq standard library): %s"
                  % (ctx.prop, ", ".join(axioms)))
    else:
        ctx.trust("Print Assumptions for Props/%s.v: every theorem closed under the global context (no axioms)" % ctx.prop)
    if ctx.tier == "thorough" and ok:
        rc, chk = sh(f"coqchk -silent -o -Q . AV AV.Props.{ctx.prop}", cwd=COQ, timeout=1500)
        ctx.oblig("coqchk:Props/%s.vo" % ctx.prop, rc == 0, chk[-3000:])
        ctx.extra["coqchk_tail"] = chk[-1500:]
    return ok_all


def run_property(prop, tier, seed, module):
    ctx = Ctx(prop, tier, seed)
    try:
        module.run(ctx)
    except Exception:
        ctx.oblig("harness:no-internal-error", False, traceback.format_exc())
        print(traceback.format_exc())
    return ctx.finish()
