"""C16 — slicing, concatenating, pickling and dict-converting samples keep rows aligned."""
import copy
import json
import pickle
import re

import numpy as np

from harness import common, nsutil

GEN = ["base_getitem", "smc_getitem", "samples_getitem", "resample_rows"]


class Ref:
    """Plain-list reference model of a sample set: rows of tags."""

    def __init__(self, rows, has, scal):
        self.rows, self.has, self.scal = rows, has, scal   # rows: list of (xtag, ll, lp, lq)

    def sel(self, idx):
        return Ref([self.rows[i] for i in idx], self.has, dict(self.scal))


def idx_list(kind, n, rng):
    if kind == "array":
        return [rng.randrange(n) for _ in range(rng.choice([1, 2, n, n + 2]))]
    if kind == "mask":
        m = [rng.random() < 0.6 for _ in range(n)]
        if not any(m):
            m[0] = True
        return m
    if kind == "slice":
        a = rng.choice([0, 0, 1, n // 2])
        b = rng.choice([n, n, max(a + 1, n - 1), n + 3])
        st = rng.choice([1, 1, 2, 3])
        if not list(range(n))[a:b:st]:      # empty selections are not generated (as for masks): a weighted set of zero rows has
            a, b, st = 0, n, 1              # no defined weights (0/0) and the constructor rejects it in every namespace
        return (a, b, st)
    raise ValueError


def run(ctx):
    from aspire.samples import BaseSamples, Samples, SMCSamples
    common.standard_prove(ctx, gen_targets=GEN)
    NS = nsutil.namespaces()
    classes = {"BaseSamples": BaseSamples, "Samples": Samples, "SMCSamples": SMCSamples}
    ctx.rule = ("random sequences (length 1-5) of select (integer index, index array, boolean mask, slice with step) / pickle / "
                "to_dict-from_dict (flat and nested) / split-and-concatenate operations on real sample sets of the three classes x "
                "{numpy,torch,jax} x {float32,float64} x optional-field subsets, with integer-tagged rows (every value identifies its "
                "row), from random.Random(VERIF_SEED); after every operation all per-sample fields (x, log-densities, log_w, weights) "
                "are compared EXACTLY with a plain list-of-rows reference, carried scalars (beta, evidence) are compared, and the same "
                "sequence is evaluated by the Coq model (vm_compute); distinct = (class, ns, dtype, fields, op sequence)")
    ctx.trust("numpy/torch/jax indexing semantics (Lib/Soa.v idx_of_mask / idx_of_slice are the model of masks and slices)",
              "pickle and dict round trips are the identity in the model; their tie is this differential check")
    coq_rows = []
    nseq = 0
    # scripted sequences run first (select, THEN a round trip through the constructor; twice-selected sets; ...) on weighted sets in
    # every namespace: the random sequences below reach them only with some probability
    SCRIPTS = [["slice", "dict-flat"], ["mask", "dict-nested"], ["array", "pickle", "slice"], ["slice", "dict-flat", "mask"],
               ["mask", "pickle", "dict-nested", "array"], ["slice", "split-concat", "dict-flat"]]
    scripted = [(sc, ns_, w_) for sc in SCRIPTS for ns_, w_ in (("numpy", "float64"), ("torch", "float32"), ("jax", "float64"))]
    for rep in range(ctx.scale(90, 700)):
        cname = ctx.rng.choice(list(classes))
        nsname = ctx.rng.choice(["numpy", "torch", "jax"])
        width = ctx.rng.choice(["float64", "float32"])
        n = ctx.rng.choice([3, 4, 6, 9])
        d = ctx.rng.choice([1, 2, 3])
        has = ctx.rng.choice([(1, 1, 1), (1, 1, 1), (1, 1, 0), (0, 0, 0), (0, 1, 1)])
        script = None
        if rep < len(scripted):
            script, nsname, width = scripted[rep]
            cname, has, n = "Samples", (1, 1, 1), 9
        xp, dt = NS[nsname], nsutil.native_dtype(nsname, width)
        x = np.asarray([[1000 + 10 * i + k for k in range(d)] for i in range(n)], float)
        kw = {}
        if has[0]:
            kw["log_likelihood"] = [100.0 + i for i in range(n)]
        if has[1]:
            kw["log_prior"] = [200.0 + i for i in range(n)]
        if has[2]:
            kw["log_q"] = [300.0 + i for i in range(n)]
        scal = {}
        if cname == "SMCSamples":
            kw.update(beta=0.25, log_evidence=-3.5, log_evidence_error=0.5)
            scal = {"beta": 0.25, "log_evidence": -3.5, "log_evidence_error": 0.5}
        if cname == "Samples" and not all(has) and ctx.rng.random() < 0.7:
            # a weightless set that carries an evidence: the shape of every SMC result (to_standard_samples)
            kw.update(log_evidence=-7.5, log_evidence_error=0.25)
            scal = {"log_evidence": -7.5, "log_evidence_error": 0.25}
        s = classes[cname](x, xp=xp, dtype=dt, parameters=["zeta", "alpha", "mu"][:d], **kw)
        if cname == "Samples" and all(has):
            scal = {"log_evidence": nsutil.to_float(s.log_evidence), "log_evidence_error": nsutil.to_float(s.log_evidence_error)}
        ref = Ref([(i, 100 + i if has[0] else None, 200 + i if has[1] else None, 300 + i if has[2] else None) for i in range(n)], has, scal)
        ops = []
        cur_idx = list(range(n))
        case = {"cls": cname, "ns": nsname, "dtype": width, "N": n, "dims": d, "fields": has}
        ok_seq = True
        for step in range(len(script) if script else ctx.rng.choice([1, 2, 3, 5])):
            m = len(cur_idx)
            if m == 0:
                break
            kind = script[step] if script else ctx.rng.choice(["array", "mask", "slice", "int", "pickle", "dict-flat", "dict-nested", "split-concat"])
            try:
                # an index given as a plain Python list (of integers, or of booleans = a mask) means the same as the array;
                # JAX itself rejects list indices, so lists are used under numpy and torch only
                as_list = nsname != "jax" and ctx.rng.random() < 0.4
                if kind == "array":
                    il = idx_list("array", m, ctx.rng)
                    # some of the indices are written from the end (i - m names the same row as i)
                    il_given = [i - m if ctx.rng.random() < 0.25 else i for i in il]
                    s = s[list(il_given)] if as_list else s[np.asarray(il_given)]
                    ops.append(("IList", il))
                    cur_idx = [cur_idx[i] for i in il]
                elif kind == "mask":
                    mk = idx_list("mask", m, ctx.rng)
                    s = s[[bool(b) for b in mk]] if as_list else s[np.asarray(mk)]
                    ops.append(("IMask", mk))
                    cur_idx = [cur_idx[i] for i in range(m) if mk[i]]
                elif kind == "slice" and nsname != "torch" and ctx.rng.random() < 0.35:
                    # a slice with a NEGATIVE step (torch itself rejects those): open, negative and out-of-range ends, clipped the way
                    # Python sequences clip them; the model sees the equivalent index list
                    for _ in range(20):
                        sl = slice(ctx.rng.choice([None, -1, -2, m - 1, m + 3, m // 2, -m]), ctx.rng.choice([None, None, -4, 0, -m - 2, 1, -m]),
                                   ctx.rng.choice([-1, -1, -2, -3]))
                        il = list(range(m))[sl]
                        if il:
                            break
                    else:
                        sl, il = slice(None, None, -1), list(range(m))[::-1]
                    s = s[sl]
                    ops.append(("IList", il))
                    case = dict(case, negative_step_slices=case.get("negative_step_slices", []) + [[sl.start, sl.stop, sl.step]])
                    cur_idx = [cur_idx[i] for i in il]
                elif kind == "slice":
                    a, b, st = idx_list("slice", m, ctx.rng)
                    s = s[a:b:st]
                    ops.append(("ISlice", (a, b, st)))
                    cur_idx = cur_idx[a:b:st]
                elif kind == "int":
                    if step > 0 or cname == "Samples":
                        continue
                    i = ctx.rng.randrange(m)
                    one = s[i]
                    row = np.asarray(nsutil.to_list(one.x), float).reshape(-1)
                    want = x[cur_idx[i]]
                    okr = np.array_equal(row, want)
                    for f, base in (("log_likelihood", 100), ("log_prior", 200), ("log_q", 300)):
                        v = getattr(one, f)
                        if v is not None and float(np.asarray(nsutil.to_list(v))) != base + cur_idx[i]:
                            okr = False
                    if not okr:
                        ctx.violation(f"int-index:{cname}:{nsname}", f"{cname}[{i}] is not row {cur_idx[i]} in every field", dict(case, ops=ops, index=i))
                    continue
                elif kind == "pickle":
                    s = pickle.loads(pickle.dumps(s))
                    ops.append(("OPickle", None))
                elif kind in ("dict-flat", "dict-nested"):
                    dct = s.to_dict(flat=(kind == "dict-flat"))
                    s = classes[cname].from_dict(dct)
                    ops.append(("ODict", None))
                else:
                    k = ctx.rng.randrange(0, m + 1)
                    if k in (0, m):
                        continue
                    a_, b_ = s[:k], s[k:]
                    s2 = classes[cname].concatenate([a_, b_])
                    # "concatenating the pieces of a partition restores the original": the per-sample fields, and what the set carries
                    # as a whole (temperature, attached evidence) — both pieces carry the same values, so does their union
                    check_fields(ctx, s2, cur_idx, x, has, cname, dict(case, ops=ops + [("split-concat", k)]), scal=scal, ns=nsname, width=width)
                    continue
            except Exception as e:
                ctx.violation(f"op-raises:{kind}:{cname}:{nsname}:{type(e).__name__}", f"{kind} on {cname}/{nsname}/{width} raised {type(e).__name__}: {str(e)[:150]}",
                              dict(case, ops=ops, op=kind))
                ok_seq = False
                break
            if not check_fields(ctx, s, cur_idx, x, has, cname, dict(case, ops=ops), scal=scal, ns=nsname, width=width):
                ok_seq = False
                break
            if list(s.parameters) != ["zeta", "alpha", "mu"][:d]:
                ctx.violation(f"parameter-names:{cname}", f"parameter names became {list(s.parameters)} (columns are still in the original order)", dict(case, ops=ops))
                ok_seq = False
                break
        nseq += 1
        ctx.count(json.dumps([case, ops], sort_keys=True, default=str), len(ops) >= 1, kind=f"{cname}/{nsname}/{width}")
        if len(ctx.samples) < 3 and len(ops) >= 2:
            ctx.sample(dict(case, ops=ops, final_rows=cur_idx))
        # the same sequence through the Coq model (Z tags)
        if ok_seq and ops and len(coq_rows) < 400:
            def z(v):
                return f"({v})%Z"

            def ol(flag, base):
                return "(Some [" + "; ".join(z(base + i) for i in range(n)) + "])" if flag else "None"
            sset = (f"(Build_sset Z Z [{'; '.join(z(i) for i in range(n))}] {ol(has[0], 100)} {ol(has[1], 200)} {ol(has[2], 300)} None None None None None)")
            opl = []
            for o, a in ops:
                if o == "IList":
                    opl.append("OGet (IList [" + "; ".join(f"{i}%nat" for i in a) + "])")
                elif o == "IMask":
                    opl.append("OGet (IMask [" + "; ".join("true" if b else "false" for b in a) + "])")
                elif o == "ISlice":
                    opl.append(f"OGet (ISlice {a[0]}%nat {a[1]}%nat {a[2]}%nat)")
                else:
                    opl.append(o)
            exp = "[" + "; ".join(z(i) for i in cur_idx) + "]"
            expl = lambda flag, base: ("(Some [" + "; ".join(z(base + i) for i in cur_idx) + "])") if flag else "None"
            coq_rows.append(f"chk {sset} [{'; '.join(opl)}] {exp} {expl(has[0], 100)} {expl(has[1], 200)} {expl(has[2], 300)}")
    t = """From Coq Require Import List Bool Arith ZArith.
From AV Require Import Lib.Soa Model.SamplesAlg.
Import ListNotations.
Fixpoint zl (a b : list Z) : bool := match a, b with [], [] => true | x :: a', y :: b' => Z.eqb x y && zl a' b' | _, _ => false end.
Definition ozl (a b : option (list Z)) : bool := match a, b with Some u, Some v => zl u v | None, None => true | _, _ => false end.
Definition chk (s : sset Z Z) (ops : list (op)) (ex : list Z) (ell elp elq : option (list Z)) : bool :=
  let r := fold_left (fun st o => apply_op Z Z 0%Z 0%Z o st) ops s in
  zl (a_x _ _ r) ex && ozl (a_ll _ _ r) ell && ozl (a_lp _ _ r) elp && ozl (a_lq _ _ r) elq.
"""
    t += "Eval vm_compute in ([" + ";\n ".join(coq_rows or ["true"]) + "]).\n"
    ok, out = common.coq_eval("C16_ops", t)
    res = common.parse_eval_lists(out)
    flags = re.findall(r"true|false", res[0]) if ok and res else []
    ctx.oblig("correspondence:op-sequences-vs-Model/SamplesAlg", ok and flags and all(f == "true" for f in flags),
              out[-1200:] if not ok else f"{flags.count('false')} of {len(flags)} sequences differ (first index {flags.index('false') if 'false' in flags else None})")
    ctx.traces = len(flags)
    ctx.extra["sequences"] = nseq
    # ---- concatenating sets that carry DIFFERENT optional fields: a field survives only when every piece has it, and the rows of
    #      the result stay aligned (theorem C16_concat_keeps_rows_aligned on the model)
    import itertools
    nhet = 0
    for cname, nsname in itertools.product(("BaseSamples", "SMCSamples", "Samples"), ("numpy", "torch", "jax")):
        xp, dt = NS[nsname], nsutil.native_dtype(nsname, "float64")
        for ha, hb in (((1, 1, 1), (1, 1, 0)), ((1, 0, 1), (1, 1, 1)), ((0, 1, 1), (1, 1, 0)), ((1, 1, 1), (1, 1, 1)), ((0, 0, 0), (1, 0, 0))):
            def piece(has, off, n):
                kw = {}
                for f, flag, base in (("log_likelihood", has[0], 100), ("log_prior", has[1], 200), ("log_q", has[2], 300)):
                    if flag:
                        kw[f] = [float(base + off + i) for i in range(n)]
                xs = np.asarray([[1000.0 + off + i, 5.0] for i in range(n)])
                return classes[cname](xs, xp=xp, dtype=dt, parameters=["zeta", "alpha"], **kw)
            case = {"cls": cname, "ns": nsname, "fields_a": ha, "fields_b": hb}
            nhet += 1
            ctx.count(("heterogeneous-concat", cname, nsname, ha, hb), True, kind="concat/different-fields")
            try:
                r = classes[cname].concatenate([piece(ha, 0, 3), piece(hb, 50, 4)])
            except Exception as e:
                if cname == "Samples" and all(ha) != all(hb):
                    continue          # a weighted and a weightless piece: rejecting is acceptable, misaligning is not
                ctx.violation(f"concat-raises:{cname}:{type(e).__name__}", f"concatenating pieces with fields {ha} and {hb} raised {e!r}", case)
                continue
            nrow = len(np.asarray(nsutil.to_list(r.x), float).reshape(-1, 2))
            for k, (f, base) in enumerate((("log_likelihood", 100), ("log_prior", 200), ("log_q", 300))):
                v = getattr(r, f)
                both = bool(ha[k] and hb[k])
                if (v is not None) != both:
                    ctx.violation(f"concat-field-presence:{f}:{cname}", f"pieces have {f}: {bool(ha[k])}, {bool(hb[k])}; the concatenation has it: {v is not None}", case)
                    break
                if v is not None:
                    got = [float(t) for t in np.asarray(nsutil.to_list(v), float).reshape(-1)]
                    want = [float(base + i) for i in range(3)] + [float(base + 50 + i) for i in range(4)]
                    if len(got) != nrow or got != want:
                        ctx.violation(f"concat-rows-misaligned:{f}:{cname}", f"{f} has {len(got)} entries {got[:8]} for {nrow} rows (expected {want})", case)
                        break
    ctx.extra["heterogeneous_concatenations"] = nhet


def check_fields(ctx, s, cur_idx, x, has, cname, case, scal=None, ns=None, width=None):
    want_x = x[cur_idx] if len(cur_idx) else x[:0]
    got_x = np.asarray(nsutil.to_list(s.x), float).reshape(-1, x.shape[1])
    ok = True
    if got_x.shape != want_x.shape or not np.array_equal(got_x, want_x):
        ctx.violation(f"rows:x:{cname}", f"x rows are {got_x[:, 0].tolist()[:8]}, expected rows {cur_idx[:8]}", case)
        ok = False
    for f, flag, base in (("log_likelihood", has[0], 100), ("log_prior", has[1], 200), ("log_q", has[2], 300)):
        v = getattr(s, f)
        if (v is not None) != bool(flag):
            ctx.violation(f"field-presence:{f}:{cname}", f"{f} present={v is not None}, expected {bool(flag)}", case)
            ok = False
        elif v is not None:
            got = [float(t) for t in np.asarray(nsutil.to_list(v), float).reshape(-1)]
            want = [float(base + i) for i in cur_idx]
            if got != want:
                ctx.violation(f"rows:{f}:{cname}", f"{f} = {got[:8]} but the selected rows are {cur_idx[:8]}", case)
                ok = False
    if cname == "Samples" and all(has):
        lw = np.asarray(nsutil.to_list(s.log_w), float).reshape(-1)
        want = np.asarray([100.0 + i + 200.0 + i - (300.0 + i) for i in cur_idx])
        if lw.shape != want.shape or not np.array_equal(lw, want):
            ctx.violation("rows:log_w:Samples", f"log_w = {lw.tolist()[:8]} not aligned with rows {cur_idx[:8]}", case)
            ok = False
        w = np.asarray(nsutil.to_list(s.weights), float).reshape(-1)
        if w.shape != want.shape:
            ctx.violation("rows:weights:Samples", f"{len(w)} weights for {len(want)} rows", case)
            ok = False
        # the effective sample size the set reports is that of ITS rows (C02's formula on the selected log-weights)
        if len(want):
            sw = np.exp(want - want.max())
            ess_want = float(sw.sum() ** 2 / (sw * sw).sum())
            ess_got = nsutil.to_float(s.effective_sample_size) if s.effective_sample_size is not None else None
            if ess_got is None or abs(ess_got - ess_want) > 1e-4 * ess_want:
                ctx.violation("ess-of-selection:Samples", f"effective_sample_size = {ess_got}, (sum w)^2 / sum w^2 of the selected rows = {ess_want}", case)
                ok = False
    if scal:
        for k, v in scal.items():
            g = getattr(s, k)
            if g is None or abs(nsutil.to_float(g) - v) > 1e-6 * (1 + abs(v)):
                ctx.violation(f"scalar-not-carried:{k}:{cname}", f"{k} = {g}, the set carried {v}", case)
                ok = False
    # the evidence a set carries is ONE quantity: where the set also reports it on the linear scale (Samples.evidence,
    # .evidence_error), that is the carried log-evidence exponentiated (and the carried relative error times it), not a value
    # recomputed from the selected rows
    if scal and "log_evidence" in scal and getattr(s, "evidence", None) is not None and getattr(s, "log_evidence", None) is not None:
        import math as _m
        le_, ev_ = nsutil.to_float(s.log_evidence), nsutil.to_float(s.evidence)
        tol_ = 1e-4 if (width == "float32") else 1e-9
        if _m.isfinite(le_) and abs(le_) < 80 and abs(ev_ - _m.exp(le_)) > tol_ * _m.exp(le_):
            ctx.violation(f"evidence-recomputed:{cname}", f"evidence = {ev_} but the carried log_evidence = {le_} (exp = {_m.exp(le_)})", case)
            ok = False
        lee_ = getattr(s, "log_evidence_error", None)
        eve_ = getattr(s, "evidence_error", None)
        if ok and lee_ is not None and eve_ is not None and _m.isfinite(le_) and abs(le_) < 80:
            want_ = nsutil.to_float(lee_) * _m.exp(le_)
            if abs(nsutil.to_float(eve_) - want_) > 10 * tol_ * (abs(want_) + 1e-300):
                ctx.violation(f"evidence-error-recomputed:{cname}", f"evidence_error = {nsutil.to_float(eve_)} but carried relative error x evidence = {want_}", case)
                ok = False
    if ns is not None:
        if nsutil.NS_OF(s) != ns:
            ctx.violation(f"namespace-changed:{cname}", f"result lives in {nsutil.NS_OF(s)}, source in {ns}", case)
            ok = False
        if nsutil.dtype_name(s.x.dtype) != width:
            ctx.violation(f"dtype-changed:{cname}", f"result is {s.x.dtype}, source {width}", case)
            ok = False
    return ok
