"""C08 — the SMC evidence is the accumulated sum of incremental log-ratios."""
import copy
import json
import math

from harness import common, nsutil
from harness import smcbatch as sb
from harness import smcreplay as sr

GEN = ["logsumexp", "unnormalized_log_weights", "log_evidence_ratio", "log_evidence_ratio_variance", "compute_weights"]


def run(ctx):
    import mpmath as mp
    mp.mp.dps = 40
    common.standard_prove(ctx, gen_targets=GEN)
    ctx.rule = ("SMC runs over schedules, n_final_samples, checkpoint cadences and namespaces from random.Random(VERIF_SEED); each "
                "run = one case: every recorded ratio/variance recomputed in mpmath from the stored population before that "
                "iteration and the temperature used, their sum compared with the returned log-evidence; runs repeated with a "
                "different cadence / n_final_samples and the same generators must give bit-identical evidence; every run replayed "
                "through the Coq model; non-trivial = >= 2 iterations")
    cfgs = [c for c in sb.gen_batch(ctx, ctx.scale(40, 300), extreme_frac=0.05)
            if c["sample_kwargs"].get("store_sample_history", True)][: ctx.scale(28, 200)]
    runs, results = sb.run_and_replay(ctx, cfgs)
    irfile = common.COQ / "Gen" / "kernels_ir.json"
    irall = json.loads(irfile.read_text())["ir"] if irfile.exists() else {}
    import translate
    ev = translate.make_evaluator(irall)
    tie = {"log_evidence_ratio": [True, ""], "log_evidence_ratio_variance": [True, ""]}
    def audit(r, key, extra=None):
        cfg, h = r.cfg, r.history
        rep0 = dict({"cfg": cfg}, **(extra or {}))
        T = len(h.beta)
        if len(h.log_norm_ratio) != T or len(h.sample_history) != T + 1:
            ctx.violation(f"one-ratio-per-iteration:{key}", f"{len(h.log_norm_ratio)} ratios, {len(h.sample_history)} populations for {T} iterations", rep0)
            return
        tot, totv = mp.mpf(0), mp.mpf(0)
        f32 = "float32" in str(h.sample_history[0].dtype)
        rel = 1e-4 if f32 else 1e-9
        for t in range(T):
            pop = h.sample_history[t]          # the population as it stood BEFORE iteration t+1's resampling
            ess, ratio, rvar = sb.mp_step_quantities(pop, float(h.beta[t]))
            got, gotv = nsutil.to_float(h.log_norm_ratio[t]), nsutil.to_float(h.log_norm_ratio_var[t])
            if abs(got - ratio) > rel * (1 + abs(ratio)):
                ctx.violation(f"ratio-definition:{key}:{t}", f"recorded ratio {got} != log mean incremental weight {ratio} (iteration {t+1})",
                              dict(rep0, iteration=t + 1, beta=float(h.beta[t])))
            if abs(gotv - rvar) > 100 * rel * (1e-12 + abs(rvar)):
                ctx.violation(f"variance-definition:{key}:{t}", f"recorded variance {gotv} != {rvar}", dict(rep0, iteration=t + 1))
            tot += mp.mpf(got)
            totv += mp.mpf(gotv)
            if irall and t < 2 and not f32:
                try:
                    ll, lp, lq, b0 = sb.pop_arrays(pop)
                    A = dict(x=list(range(len(ll))), ll=[mp.mpf(float(v)) for v in ll], lp=[mp.mpf(float(v)) for v in lp],
                             lq=[mp.mpf(float(v)) for v in lq], beta0=mp.mpf(b0), beta=mp.mpf(float(h.beta[t])))
                    g1, g2 = float(ev("log_evidence_ratio", **A)), float(ev("log_evidence_ratio_variance", **A))
                    if abs(g1 - got) > 1e-9 * (1 + abs(got)) and tie["log_evidence_ratio"][0]:
                        tie["log_evidence_ratio"] = [False, f"IR {g1} impl {got} cfg {cfg}"]
                    if abs(g2 - gotv) > 1e-7 * (1e-12 + abs(gotv)) and tie["log_evidence_ratio_variance"][0]:
                        tie["log_evidence_ratio_variance"] = [False, f"IR {g2} impl {gotv} cfg {cfg}"]
                except Exception as e:
                    tie["log_evidence_ratio"] = [False, repr(e)]
        le, lee = nsutil.to_float(r.result.log_evidence), nsutil.to_float(r.result.log_evidence_error)
        if extra is None:
          ctx.sample({"cfg": {k: cfg[k] for k in ("kind", "ns", "N", "s")}, "iterations": T, "log_evidence": le,
                      "sum_of_ratios": float(tot)})
        if abs(le - float(tot)) > 10 * rel * (1 + abs(float(tot))):
            ctx.violation(f"evidence-is-sum:{key}", f"log_evidence {le} != sum of ratios {float(tot)}", rep0)
        if not (abs(lee - math.sqrt(float(totv))) <= 100 * rel * (1e-12 + abs(lee))):
            ctx.violation(f"error-is-root-sum-var:{key}", f"log_evidence_error {lee} != sqrt(sum var) {math.sqrt(float(totv))}", rep0)
    for r in runs:
        if r.error is None:
            audit(r, f"{r.cfg['seed']}")
    # single-precision populations: the same recomputation with float32 tolerances (not replayed through the binary64 model)
    for cfg in sb.f32_cfgs(ctx, ctx.scale(12, 60)):
        r = sr.do_run(cfg)
        ctx.count(sb.cfg_key(cfg), r.error is None and r.history is not None and len(r.history.beta) >= 2, kind=f"float32/{cfg['kind']}/{cfg['ns']}")
        if r.error is not None:
            ctx.violation(f"float32-run-raises:{r.error[0]}", f"single-precision run raised {r.error[:2]}", {"cfg": cfg})
        else:
            audit(r, f"float32:{cfg['seed']}", extra={"width": "float32"})
    # metamorphic pairs: same generators, different cadence / final enlargement => same evidence, bit for bit
    npairs = 0
    for r in [r for r in runs if r.error is None and r.cfg["kind"] != "emcee_smc"][: ctx.scale(8, 40)]:
        c2 = copy.deepcopy(r.cfg)
        c2["ckpt"] = "cb-every" if r.cfg["ckpt"] == "none" else "none"
        c2["every"] = 2
        sk = c2["sample_kwargs"]
        if "n_final_samples" in sk:
            sk.pop("n_final_samples")
        else:
            sk["n_final_samples"] = 2 * c2["N"]
        r2 = sr.do_run(c2)
        npairs += 1
        ctx.count(("pair", r.cfg["seed"]), True, kind="metamorphic-pair")
        if r2.error is not None:
            continue
        a, b = nsutil.to_float(r.result.log_evidence), nsutil.to_float(r2.result.log_evidence)
        ea, eb = nsutil.to_float(r.result.log_evidence_error), nsutil.to_float(r2.result.log_evidence_error)
        if a != b or ea != eb or [float(x) for x in r.history.beta] != [float(x) for x in r2.history.beta]:
            ctx.violation(f"depends-on-cadence-or-enlargement:{r.cfg['seed']}",
                          f"log_evidence {a} vs {b} when only checkpoint cadence / n_final_samples differ", {"cfg": r.cfg, "cfg2": c2})
    # "... or on whether the run was checkpointed": a run interrupted by an exception in a user call and resumed from the last
    # checkpoint (the dictionary the callback kept, and its serialised form) is a run too: same recomputation, same evidence
    nres = 0
    import pickle
    for r in [r for r in runs if r.error is None and r.cfg["kind"] != "emcee_smc" and r.cfg["ckpt"] in ("cb", "cb-every")][: ctx.scale(5, 30)]:
        total = r.target.ncalls
        if total < 8:
            continue
        for kf in sorted({total // 2, ctx.rng.randrange(4, total - 1)}):
            bad = sr.do_run(r.cfg, fail_at=kf)
            if bad.error is None or not bad.payloads:
                continue
            last = bad.payloads[-1]
            for route, src in (("live-dict", last["live"]), ("bytes", last["bytes"])):
                r2 = sr.do_run(r.cfg, resume_from=src, vid0=10000)
                nres += 1
                ctx.count(("resumed", r.cfg["seed"], kf, route), True, kind=f"resumed/{route}")
                extra = {"fault_at_user_call": kf, "resumed_from_iteration": last["iteration"], "route": route}
                if r2.error is not None:
                    ctx.violation(f"resumed-run-raises:{route}:{r2.error[0]}", f"resume after a fault at user call {kf}: {r2.error[:2]}", dict({"cfg": r.cfg}, **extra))
                    continue
                audit(r2, f"resumed:{route}:{r.cfg['seed']}", extra)
                a, b = nsutil.to_float(r.result.log_evidence), nsutil.to_float(r2.result.log_evidence)
                ea, eb = nsutil.to_float(r.result.log_evidence_error), nsutil.to_float(r2.result.log_evidence_error)
                if a != b or ea != eb:
                    ctx.violation(f"depends-on-interruption:{route}:{r.cfg['seed']}",
                                  f"log_evidence {b} +- {eb} after interruption and resume, {a} +- {ea} uninterrupted", dict({"cfg": r.cfg}, **extra))
    ctx.extra["resumed_runs_audited"] = nres
    # a second (and third) FRESH run on the same sampler object — a seed / schedule study that drives one sampler repeatedly: every
    # run is a run of its own, its evidence the sum of ITS ratios over ITS populations
    nreuse = 0
    for r in [r for r in runs if r.error is None and r.cfg["kind"] != "emcee_smc"][: ctx.scale(4, 20)]:
        prev = r
        for k in range(2):
            c2 = copy.deepcopy(r.cfg)
            c2["ckpt"] = ("cb-every", "none")[k] if r.cfg["ckpt"] == "none" else ("none", "cb-every")[k]
            c2["every"] = 2
            r2 = sr.do_run(c2, retry_on=prev, vid0=20000 * (k + 1))
            nreuse += 1
            ctx.count(("reused-sampler", r.cfg["seed"], k), True, kind="reused-sampler")
            extra = {"history": f"fresh run number {k + 2} on the same sampler object"}
            if r2.error is not None:
                ctx.violation(f"reused-sampler-raises:{r2.error[0]}", f"fresh run {k + 2} on a sampler that has already run: {r2.error[:2]}", dict({"cfg": c2}, **extra))
                break
            audit(r2, f"reused-sampler:{k}:{r.cfg['seed']}", extra)
            prev = r2
    ctx.extra["fresh_runs_on_a_used_sampler"] = nreuse
    for k, (ok, d) in tie.items():
        ctx.oblig(f"correspondence:IR-vs-impl:{k}", ok and bool(irall), d)
    ctx.extra["metamorphic_pairs"] = npairs
