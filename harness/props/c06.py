"""C06 — the SMC temperature schedule strictly increases, ends exactly at 1, terminates."""
import math

from harness import common, nsutil
from harness import smcbatch as sb
from harness import smcreplay as sr


def run(ctx):
    common.standard_prove(ctx, gen_targets=[])
    ctx.rule = ("real SMC runs (MiniPCNSMC / EmceeSMC / base SMCSampler.sample, stub kernels) over schedule options "
                "{adaptive, fixed n_steps, min_step, max_n_steps, scalar/ramped target efficiency, tolerance} x population spreads "
                "(likelihood widths 3 .. 1e-3, log-L spreads to ~1e7) x namespaces x checkpoint options, all from random.Random(VERIF_SEED); "
                "corpus of earlier failures first; each run is replayed bit-exactly through the Coq model (binary64 instance) and the "
                "schedule predicates are evaluated on history.beta; distinct = distinct configuration; non-trivial = >= 2 iterations")
    n = ctx.scale(36, 240)
    cfgs = sb.gen_batch(ctx, n, extreme_frac=0.15)
    # fixed-schedule sweep on the implementation (every n in a range): exactly n iterations
    sweep = list(range(1, ctx.scale(41, 400)))
    runs, results = sb.run_and_replay(ctx, cfgs)

    def check_schedule(r, tag="", resumed_from=None):
        cfg = r.cfg
        sk = cfg["sample_kwargs"]
        key = tag + "cfg:" + repr(sorted(sk.items())) + f":s={cfg['s']}:N={cfg['N']}"
        if r.error is not None:
            what = "run did not finish" if r.error[0] == "watchdog" else f"run raised {r.error[0]}: {r.error[1][:200]}"
            ctx.violation(f"raises-or-spins:{r.error[0]}:{key}", what, {"cfg": cfg, "error": r.error})
            return
        betas = [float(b) for b in r.history.beta]
        if ctx.samples.__len__() < 4:
            ctx.sample({"cfg": {k: v for k, v in cfg.items()}, "betas": betas})
        prev = 0.0
        for b in betas:
            if not (prev < b <= 1.0):
                ctx.violation(f"not-increasing-in-(0,1]:{key}", f"temperatures {betas}", {"cfg": cfg, "betas": betas, "resumed_from_iteration": resumed_from})
                break
            prev = b
        cap = sk.get("max_n_steps")
        if betas and betas[-1] != 1.0 and not (cap is not None and len(betas) >= cap):
            ctx.violation(f"does-not-end-at-1:{key}", f"last temperature {betas[-1]}", {"cfg": cfg, "betas": betas, "resumed_from_iteration": resumed_from})
        if cap is not None and len(betas) > cap:
            ctx.violation(f"cap-exceeded:{key}", f"{len(betas)} iterations > max_n_steps={cap}", {"cfg": cfg, "betas": betas, "resumed_from_iteration": resumed_from})
        if not sk.get("adaptive", True) and cap is None and len(betas) != sk["n_steps"]:
            ctx.violation(f"fixed-steps:n={sk['n_steps']}", f"fixed schedule of {sk['n_steps']} steps ran {len(betas)} iterations",
                          {"cfg": cfg, "betas": betas, "resumed_from_iteration": resumed_from})
        ms = sk.get("min_step")
        if ms is not None and sk.get("adaptive", True):
            p = 0.0
            for b in betas:
                if b != 1.0 and b < p + ms - 1e-12:
                    ctx.violation(f"min-step:{key}", f"step {p}->{b} smaller than min_step={ms}", {"cfg": cfg, "betas": betas, "resumed_from_iteration": resumed_from})
                    break
                p = b
        # kernel invocations = iterations (+1 for the final enlargement)
        nm = sum(1 for e in r.events if e[0] == "mutate")
        nf = sk.get("n_final_samples")
        want = len(betas) + (1 if (nf is not None and nf != cfg["N"]) else 0)
        if nm != want and resumed_from is None:
            ctx.violation(f"kernel-invocations:{key}", f"{nm} kernel invocations for {len(betas)} iterations", {"cfg": cfg})

    for r in runs:
        check_schedule(r)
    # the same predicates on RESUMED runs: a run continued from a mid-run payload, and one continued from the last payload of a run
    # that had already stopped (at temperature 1 or at its step cap), still has an increasing schedule, honours the cap and the floor
    nres = 0
    for r in [r for r in runs if r.error is None and any(p["bytes"] is not None for p in r.payloads)][: ctx.scale(14, 80)]:
        picks = {len(r.payloads) - 1, ctx.rng.randrange(len(r.payloads))}
        for pi in sorted(picks):
            pl = r.payloads[pi]
            r2 = sr.do_run(r.cfg, resume_from=pl["bytes"], vid0=10000)
            nres += 1
            last = pi == len(r.payloads) - 1
            ctx.count(("resumed", r.cfg["seed"], pl["iteration"]), True, kind="resumed/" + ("from-the-last-payload" if last else "mid-run"))
            check_schedule(r2, tag="resumed:" + ("last:" if last else ""), resumed_from=pl["iteration"])
            # a finished run resumed from its LAST payload adds nothing (no kernel, no generator involved); how many steps a run
            # resumed mid-way still takes is C11's business (and EmceeSMC is not reproducible by construction, F25)
            if r2.error is None and last and len(r2.history.beta) != len(r.history.beta):
                ctx.violation("resumed-iterations:" + ("last" if last else "mid"), f"resumed from iteration {pl['iteration']}: {len(r2.history.beta)} iterations in all, the "
                              f"uninterrupted run took {len(r.history.beta)}", {"cfg": r.cfg, "resumed_from_iteration": pl["iteration"],
                                                                               "betas": [float(b) for b in r2.history.beta]})
    ctx.extra["resumed_runs_checked"] = nres
    # single-precision populations (numerical check only; not replayed through the binary64 model)
    n32 = 0
    for cfg in sb.f32_cfgs(ctx, ctx.scale(12, 60)):
        r = sr.do_run(cfg)
        n32 += 1
        ctx.count(sb.cfg_key(cfg), r.error is None and r.history is not None and len(r.history.beta) >= 2, kind=f"float32/{cfg['kind']}/{cfg['ns']}")
        check_schedule(r, tag="float32:")
    ctx.extra["float32_runs_checked"] = n32
    # a positive tolerance below the spacing of the floats around the bracket (finding F58, repaired; Coq: C06_bisection_adjacent_floats_f64):
    # the bisection cannot shrink a bracket of adjacent floats; it must stop there instead of spinning
    cfg58 = dict(kind="base", ns="numpy", width="float64", N=8, dims=1, s=0.5, c=0.5, prior="normal", seed=7, mcmc_steps=1, ckpt="none",
                 sample_kwargs=dict(adaptive=True, beta_tolerance=1e-17))
    r58 = sr.do_run(cfg58, budget_s=3)
    ctx.count(("tolerance-below-float-spacing",), True, kind="tolerance-below-float-spacing")
    if r58.error is None:
        check_schedule(r58, tag="tolerance-below-float-spacing:")
    else:
        ctx.violation("spins:tolerance-below-float-spacing" if r58.error[0] == "watchdog" else f"raises:tolerance-below-float-spacing:{r58.error[0]}",
                      f"adaptive run with beta_tolerance=1e-17: {'did not finish within 3 s of CPU time (bisection loop)' if r58.error[0] == 'watchdog' else r58.error[:2]}",
                      {"cfg": cfg58})
    # direct sweep: fixed schedule of n steps for every n (cheap populations)
    bad = []
    for nsteps in sweep:
        cfg = dict(kind="base", ns="numpy", width="float64", N=4, dims=1, s=2.0, c=0.0, prior="normal", seed=1, mcmc_steps=1,
                   ckpt="none", sample_kwargs=dict(adaptive=False, n_steps=nsteps, store_sample_history=False))
        r = sr.do_run(cfg)
        ctx.count(("fixed-sweep", nsteps), True, kind="fixed-sweep")
        if r.error is not None:
            ctx.violation(f"raises-or-spins:fixed:n={nsteps}", f"fixed n_steps={nsteps}: {r.error[:2]}", {"cfg": cfg})
        elif len(r.history.beta) != nsteps or float(r.history.beta[-1]) != 1.0:
            bad.append(nsteps)
            ctx.violation(f"fixed-steps:n={nsteps}", f"fixed schedule of {nsteps} steps ran {len(r.history.beta)} iterations",
                          {"cfg": cfg, "betas": [float(b) for b in r.history.beta]})
    ctx.extra["fixed_sweep"] = {"n_range": [sweep[0], sweep[-1]], "wrong_counts": bad}
