"""C13 — saved samples, histories, transforms, flows and configuration reload unchanged."""
import json
import math
import os
import re
import shutil
import struct
import tempfile

import numpy as np

from harness import common, nsutil
from harness import smcdrive as sd

KEYS = ["a", "b", "cfg", "k1", "flow_kwargs", "x_0"]


def gen_leaf(rng):
    k = rng.choice(["none", "bool", "int", "float", "str", "strlist", "strlist", "numlist", "tuple", "npint", "npfloat", "arr1", "arr2", "arr0", "empty"])
    if k == "none":
        return None
    if k == "bool":
        return rng.random() < 0.5
    if k == "int":
        return rng.randrange(-5, 1000)
    if k == "float":
        return rng.choice([0.5, -2.25, 1e-6, 3.0])
    if k == "str":
        return rng.choice(["zuko", "logit", "", "a.b", "x y", "__noNe__", "float32", "Λ_1", "naïve"])
    if k == "strlist":
        return [rng.choice(["x_0", "x_1", "phi", "", "α", "Λ_1", "mass 1"]) for _ in range(rng.choice([0, 1, 3]))]
    if k == "numlist":
        return [rng.randrange(10) for _ in range(rng.choice([1, 2, 4]))]
    if k == "tuple":
        return tuple(float(rng.randrange(-3, 4)) for _ in range(2))
    if k == "npint":
        return np.int64(rng.randrange(100))
    if k == "npfloat":
        return rng.choice([np.float64(1.5), np.float32(0.25)])
    if k == "arr1":
        return np.arange(rng.choice([1, 3]), dtype=rng.choice(["float64", "float32", "int64"]))
    if k == "arr2":
        return np.arange(6, dtype=float).reshape(2, 3)
    if k == "arr0":
        return np.asarray(7)
    return {}


def gen_tree(rng, depth):
    d = {}
    for k in rng.sample(KEYS, rng.choice([1, 2, 3, 4])):
        if depth > 0 and rng.random() < 0.35:
            d[k] = gen_tree(rng, depth - 1)
        else:
            d[k] = gen_leaf(rng)
    return d


def fbits(x):
    return struct.unpack("<q", struct.pack("<d", float(x)))[0]


def to_coq(v):
    """Python value -> Model/Codec.v `value` literal."""
    z = lambda n: f"({int(n)})%Z"
    s = lambda t: '"' + t.replace('"', '""') + '"'
    if v is None:
        return "VNone"
    if isinstance(v, (bool, np.bool_)):
        return f"(VBool {'true' if v else 'false'})"
    if isinstance(v, (int, np.integer)):
        return f"(VInt {z(v)})"
    if isinstance(v, (float, np.floating)):
        return f"(VFloat {z(fbits(v))})"
    if isinstance(v, str):
        return f"(VStr {s(v)})"
    if isinstance(v, dict):
        return "(VDict [" + "; ".join(f"({s(k)}, {to_coq(x)})" for k, x in v.items()) + "])"
    if isinstance(v, (list, tuple)):
        if all(isinstance(t, str) for t in v):
            return "(VStrList [" + "; ".join(s(t) for t in v) + "])"
        return "(VNumList [" + "; ".join(z(fbits(t)) for t in v) + "])"
    if isinstance(v, np.ndarray):
        if v.dtype.kind in "SUO":
            return "(VStrList [" + "; ".join(s(str(t)) for t in v.tolist()) + "])"
        return "(VArr [" + "; ".join(f"{n}%nat" for n in v.shape) + "] [" + "; ".join(z(fbits(t)) for t in v.reshape(-1)) + "])"
    raise ValueError(type(v))


def leaves(v, path=()):
    if isinstance(v, dict) and v:
        for k, x in v.items():
            yield from leaves(x, path + (k,))
    else:
        yield path, v


def same_value(a, b):
    """Observational equality after a save/load cycle (numpy scalars equal python scalars, tuples/lists equal arrays)."""
    if a is None or b is None:
        return a is None and b is None
    if isinstance(a, dict) or isinstance(b, dict):
        return isinstance(a, dict) and isinstance(b, dict) and set(a) == set(b) and all(same_value(a[k], b[k]) for k in a)
    if isinstance(a, str) or isinstance(b, str):
        return isinstance(a, str) and isinstance(b, str) and a == b
    if isinstance(a, (list, tuple)) and len(a) and all(isinstance(t, str) for t in a):
        return isinstance(b, (list, tuple, np.ndarray)) and [str(t) for t in b] == list(a)
    try:
        aa, bb = np.asarray(a), np.asarray(b)
        if aa.dtype.kind in "SUO" or bb.dtype.kind in "SUO":
            return aa.shape == bb.shape and [str(t) for t in aa.reshape(-1)] == [str(t) for t in bb.reshape(-1)]
        return aa.shape == bb.shape and bool(np.array_equal(aa, bb))
    except Exception:
        return False


def run(ctx):
    import h5py
    from aspire.utils import load_from_h5_file, recursively_save_to_h5_file
    common.standard_prove(ctx, gen_targets=[])
    root = tempfile.mkdtemp(prefix="c13_", dir=str(common.WORK))
    NS = nsutil.namespaces()
    ctx.rule = ("(a) random configuration dictionaries (None, bools, ints, floats, strings incl. '' and dotted, string lists incl. [], number "
                "lists/tuples, numpy scalars, 0/1/2-d arrays, empty dicts, nesting to depth 3) through real HDF5 files, compared with the "
                "original by value and leaf-by-leaf with the Coq codec model (vm_compute); (b) sample sets: class x namespace x dtype x "
                "optional-field subset x flat/nested layout; (c) SMC histories of real runs (every series and stored population) and flow "
                "histories; (d) every transform class with fitted state; (e) zuko and flowjax flows (with keyword options, trained); (f) "
                "Aspire configurations rebuilt by resume_from_file; all from random.Random(VERIF_SEED); distinct = object saved")
    ctx.trust("h5py's observable coercions (scalar datasets come back as numpy scalars, str datasets as bytes/str, numeric lists as arrays) are "
              "modelled by Model/Codec.v `decode`/`canon` and compared with real files each run")
    try:
        # ---------------- (a) codec
        rows = []
        for rep in range(ctx.scale(150, 1500)):
            tree = gen_tree(ctx.rng, ctx.rng.choice([0, 1, 2, 3]))
            path = os.path.join(root, f"c{rep}.h5")
            ctx.count(json.dumps(tree, default=str, sort_keys=True), bool(tree) and any(isinstance(v, dict) for v in tree.values()), kind="config-tree")
            try:
                with h5py.File(path, "w") as f:
                    recursively_save_to_h5_file(f, "cfg", tree)
                with h5py.File(path, "r") as f:
                    back = load_from_h5_file(f, "cfg") if tree else {}
            except Exception as e:
                ctx.violation(f"codec-raises:{type(e).__name__}", f"saving/loading {tree!r} raised {e!r}", {"tree": repr(tree)})
                continue
            finally:
                if os.path.exists(path):
                    os.remove(path)
            if not same_value(tree, back):
                bad = [p for p, v in leaves(tree) if not same_value(v, dict_get(back, p))]
                kinds = sorted({kind_of(dict_get(tree, p)) for p in bad}) or ["structure"]
                ctx.violation("codec-roundtrip:" + "+".join(kinds), f"reloaded dictionary differs at {bad[:3]}: saved {[dict_get(tree, p) for p in bad[:2]]!r}, "
                              f"loaded {[dict_get(back, p) for p in bad[:2]]!r}", {"tree": repr(tree), "loaded": repr(back)})
            if len(ctx.samples) < 2 and len(tree) >= 3:
                ctx.sample({"saved": repr(tree)[:300], "loaded": repr(back)[:300]})
            # model: every leaf of the REAL loaded tree must be what the model's load(save tree) holds at that path
            if tree and len(rows) < 600 and 'array0d' not in {kind_of(v) for _, v in leaves(tree)}:
                exp = []
                for p, v in leaves(back):
                    exp.append("(" + "[" + "; ".join('"' + k + '"' for k in p) + "], " + to_coq(v) + ")")
                rows.append(f"chk {to_coq(tree)} [{'; '.join(exp)}]")
        t = """From Coq Require Import List Bool ZArith String.
From AV Require Import Model.Codec.
Import ListNotations.
Fixpoint zl (a b : list Z) : bool := match a, b with [], [] => true | x :: a', y :: b' => Z.eqb x y && zl a' b' | _, _ => false end.
Fixpoint nl (a b : list nat) : bool := match a, b with [], [] => true | x :: a', y :: b' => Nat.eqb x y && nl a' b' | _, _ => false end.
Fixpoint sl (a b : list string) : bool := match a, b with [], [] => true | x :: a', y :: b' => String.eqb x y && sl a' b' | _, _ => false end.
Definition leaf_eqb (a b : value) : bool :=
  match a, b with
  | VNone, VNone => true | VBool x, VBool y => Bool.eqb x y | VInt x, VInt y => Z.eqb x y | VFloat x, VFloat y => Z.eqb x y
  | VInt x, VFloat y => false | VStr x, VStr y => String.eqb x y | VStrList x, VStrList y => sl x y
  | VArr s d, VArr s' d' => nl s s' && zl d d' | VDict [], VDict [] => true | _, _ => false end.
Definition chk (v : value) (leaves : list (list string * value)) : bool :=
  match v with
  | VDict kvs => let t := VDict (load (save kvs)) in
                 forallb (fun pl => match lookup (fst pl) t with Some x => leaf_eqb x (snd pl) | None => false end) leaves
                 && Nat.eqb (List.length (save kvs)) (List.length leaves)
  | _ => false end.
"""
        shards = [rows[i:i + 150] for i in range(0, len(rows), 150)]
        outs = common.coq_eval_many([(f"C13_{i}", t + "Eval vm_compute in ([" + ";\n ".join(sh) + "]).\n") for i, sh in enumerate(shards)])
        bad, okall = [], True
        for (ok, out), sh in zip(outs, shards):
            if not ok:
                okall = False
                bad.append(out[-700:])
                continue
            flags = re.findall(r"true|false", common.parse_eval_lists(out)[0])
            bad += [sh[i][:400] for i, fl in enumerate(flags) if fl == "false"]
        ctx.oblig("correspondence:codec-model-vs-hdf5", okall and not bad, f"{len(bad)} trees differ; first: {bad[:1]}")
        ctx.traces = len(rows)
        # ---------------- (b) sample sets
        from aspire.samples import BaseSamples, Samples, SMCSamples
        classes = {"BaseSamples": BaseSamples, "Samples": Samples, "SMCSamples": SMCSamples}
        for cname, cls in classes.items():
            for nsname in NS:
                for width in ("float32", "float64"):
                    for fields in ((1, 1, 1), (1, 1, 0), (0, 0, 0)):
                        for flat in (False, True):
                            if ctx.quick and ctx.rng.random() < 0.5:
                                continue
                            xp, dt = NS[nsname], nsutil.native_dtype(nsname, width)
                            kw = {}
                            if fields[0]:
                                kw["log_likelihood"] = [0.5, 1.0, 2.0, -1.0]
                            if fields[1]:
                                kw["log_prior"] = [0.0, 0.5, 1.0, 0.25]
                            if fields[2]:
                                kw["log_q"] = [1.0, 1.0, 2.0, 0.0]
                            if cname == "SMCSamples":
                                kw.update(beta=0.25, log_evidence=-1.5, log_evidence_error=0.125)
                            # parameter names as physicists write them: not alphabetical, and (every third case) with a space or a non-ASCII letter
                            pnames = [["zeta", "alpha"], ["zeta", "alpha"], ["Λ_1", "mass 1"]][(sum(fields) + int(flat)) % 3]
                            s = cls(np.arange(8.0).reshape(4, 2) + 0.5, xp=xp, dtype=dt, parameters=pnames, **kw)
                            case = {"cls": cname, "ns": nsname, "dtype": width, "fields": fields, "flat": flat}
                            ctx.count(json.dumps(case), True, kind=f"samples/{cname}")
                            path = os.path.join(root, "s.h5")
                            try:
                                with h5py.File(path, "w") as f:
                                    s.save(f, flat=flat)
                                with h5py.File(path, "r") as f:
                                    t2 = cls.load(f)
                            except Exception as e:
                                ctx.violation(f"samples-raises:{cname}:{type(e).__name__}", f"{cname} save/load ({nsname}, {width}, fields {fields}, flat={flat}) raised {e!r}", case)
                                continue
                            diffs = []
                            if nsutil.NS_OF(t2) != nsname:
                                diffs.append(f"namespace {nsutil.NS_OF(t2)}")
                            if nsutil.dtype_name(t2.x.dtype) != width or nsutil.dtype_name(t2.dtype) != width:
                                diffs.append(f"dtype {t2.x.dtype}/{t2.dtype}")
                            if t2.parameters != s.parameters:
                                diffs.append(f"parameters {t2.parameters}")
                            for fname in ("x", "log_likelihood", "log_prior", "log_q"):
                                a, b = getattr(s, fname), getattr(t2, fname)
                                if (a is None) != (b is None) or (a is not None and not np.array_equal(np.asarray(nsutil.to_list(a)), np.asarray(nsutil.to_list(b)))):
                                    diffs.append(fname)
                            for fname in ("beta", "log_evidence", "log_evidence_error"):
                                if hasattr(s, fname):
                                    a, b = getattr(s, fname), getattr(t2, fname)
                                    if (a is None) != (b is None) or (a is not None and abs(nsutil.to_float(a) - nsutil.to_float(b)) > 1e-6):
                                        diffs.append(fname)
                            if diffs:
                                ctx.violation(f"samples-roundtrip:{cname}:{diffs[0].split()[0]}", f"{cname} reloaded differs in {diffs}", case)
        # ---------------- (b') parameter names that contain the codec's own separators ("." joins nested keys into dataset names, "/"
        # is HDF5's path separator): the save succeeds; what comes back is checked like any other sample set
        from aspire.samples import Samples as _S
        for pn, tag in ((["x.y", "q"], "dot"), (["m1/m2", "q"], "slash")):
            for flat in (True, False):
                s0 = _S(np.arange(8.0).reshape(4, 2) + 0.5, parameters=pn, log_likelihood=[0.5, 1.0, 2.0, -1.0], log_prior=[0.0] * 4, log_q=[1.0] * 4)
                case = {"cls": "Samples", "parameters": pn, "flat": flat}
                ctx.count(json.dumps(case), True, kind="samples/separator-in-name")
                path = os.path.join(root, "sep.h5")
                try:
                    with h5py.File(path, "w") as f:
                        s0.save(f, flat=flat)
                except Exception:
                    continue          # rejected when saving: nothing was saved, nothing to reload
                try:
                    with h5py.File(path, "r") as f:
                        t0 = _S.load(f)
                    same = list(t0.parameters) == pn and np.array_equal(np.asarray(t0.x), np.asarray(s0.x))
                except Exception as e:
                    same = False
                    t0 = e
                if not same:
                    ctx.violation(f"samples-name-with-{tag}", f"Samples with parameters {pn} was saved without complaint but does not reload: "
                                  f"{t0!r:.160}", case)
        # a parameter called like one of the set's own fields, flat layout (finding F62)
        try:
            from aspire.samples import SMCSamples as _SMC
            s0 = _SMC(np.arange(8.0).reshape(4, 2) + 0.5, parameters=["alpha", "beta"], log_likelihood=[0.5, 1.0, 2.0, -1.0], log_prior=[0.0] * 4, log_q=[1.0] * 4, beta=0.5)
            path = os.path.join(root, "clash.h5")
            ctx.count("samples/name-like-a-field", True, kind="samples/name-like-a-field")
            with h5py.File(path, "w") as f:
                s0.save(f, flat=True)
            with h5py.File(path, "r") as f:
                t0 = _SMC.load(f)
            if t0.beta is None or float(t0.beta) != 0.5 or not np.array_equal(np.asarray(t0.x), np.asarray(s0.x)):
                ctx.violation("samples-name-like-a-field", f"SMCSamples(parameters=['alpha','beta'], beta=0.5) saved flat reloads with beta={t0.beta!r}", {"parameters": ["alpha", "beta"], "flat": True})
        except Exception as e:
            ctx.violation("samples-name-like-a-field", f"SMCSamples with a parameter called 'beta' (flat layout): {e!r:.160}", {"parameters": ["alpha", "beta"], "flat": True})
        # parameter names handed over as a NumPy array or a tuple (what slicing a table of names gives) instead of a list
        for pn_given, tag in ((np.array(["zeta", "alpha"]), "array"), (("zeta", "alpha"), "tuple")):
            case = {"cls": "Samples", "parameters": f"{tag} of names"}
            ctx.count(json.dumps(case), True, kind="samples/names-" + tag)
            path = os.path.join(root, "pn.h5")
            try:
                s0 = _S(np.arange(8.0).reshape(4, 2) + 0.5, parameters=pn_given, log_likelihood=[0.5, 1.0, 2.0, -1.0], log_prior=[0.0] * 4, log_q=[1.0] * 4)
                with h5py.File(path, "w") as f:
                    s0.save(f)
                with h5py.File(path, "r") as f:
                    t0 = _S.load(f)
                pieces = _S.concatenate([s0[:2], s0[2:]])
                if [str(p) for p in t0.parameters] != ["zeta", "alpha"] or not np.array_equal(np.asarray(t0.x), np.asarray(s0.x)) or len(pieces.x) != 4:
                    ctx.violation(f"samples-names-as-{tag}", f"Samples with parameters given as a {tag} reloads with parameters {t0.parameters!r}", case)
            except Exception as e:
                ctx.violation(f"samples-names-as-{tag}:{type(e).__name__}", f"Samples with parameters given as a {tag}: save / load / concatenate raised {e!r:.160}", case)
        # ---------------- (c) histories
        from aspire.history import FlowHistory, SMCHistory
        for nsname in NS:
            a, out, tgt, flow = sd.aspire_sample("minipcn_smc", nsname, 2, 8, 3)
            h = a.sampler.history
            path = os.path.join(root, "h.h5")
            ctx.count(("history", nsname), True, kind="history")
            try:
                with h5py.File(path, "w") as f:
                    h.save(f)
                with h5py.File(path, "r") as f:
                    h2 = SMCHistory.load(f)
                for fname in ("beta", "ess", "ess_target", "eff_target", "log_norm_ratio", "log_norm_ratio_var", "mcmc_acceptance"):
                    av = [nsutil.to_float(v) for v in getattr(h, fname)]
                    bv = [nsutil.to_float(v) for v in np.atleast_1d(getattr(h2, fname))]
                    if len(av) != len(bv) or not np.allclose(av, bv, rtol=1e-12, atol=0):
                        ctx.violation(f"history-roundtrip:{fname}", f"history.{fname} reloaded as {bv[:3]} (saved {av[:3]})", {"ns": nsname})
                if len(h2.sample_history) != len(h.sample_history):
                    ctx.violation("history-roundtrip:sample_history-length", f"{len(h2.sample_history)} stored populations reloaded, {len(h.sample_history)} saved", {"ns": nsname})
                else:
                    for i, (p, q) in enumerate(zip(h.sample_history, h2.sample_history)):
                        if not np.array_equal(np.asarray(nsutil.to_list(p.x)), np.asarray(nsutil.to_list(q.x))) or float(p.beta) != float(q.beta) \
                                or nsutil.NS_OF(q) != nsname:
                            ctx.violation("history-roundtrip:stored-population", f"stored population {i} differs after reload", {"ns": nsname})
                            break
            except Exception as e:
                ctx.violation(f"history-raises:{type(e).__name__}", f"SMCHistory save/load raised {e!r}", {"ns": nsname})
        fh = FlowHistory(training_loss=[1.0, 0.5], validation_loss=[1.5, 0.75])
        with h5py.File(os.path.join(root, "fh.h5"), "w") as f:
            fh.save(f)
        try:
            with h5py.File(os.path.join(root, "fh.h5"), "r") as f:
                fh2 = FlowHistory.load(f)            # save() and load() with their own defaults are a pair
            if list(np.atleast_1d(fh2.training_loss)) != fh.training_loss or list(np.atleast_1d(fh2.validation_loss)) != fh.validation_loss:
                ctx.violation("history-roundtrip:flow", "FlowHistory reloaded differs", {})
        except Exception as e:
            ctx.violation(f"history-raises:flow:{type(e).__name__}", f"FlowHistory.save(f) followed by FlowHistory.load(f) (default locations) raised {e!r:.200}", {})
        # ---------------- (d) transforms
        from aspire import transforms as T
        # parameter names NOT in alphabetical order and a different interval for each (HDF5 groups iterate alphabetically: a
        # loader that relies on the stored order of a dictionary would hand a parameter another parameter's bounds)
        names = ["w", "b", "m"]
        lo_, hi_ = np.asarray([0.0, -5.0, 10.0]), np.asarray([2.0, 1.0, 40.0])
        X = lo_ + np.random.default_rng(ctx.rng.randrange(1 << 30)).uniform(0.1, 0.9, size=(12, 3)) * (hi_ - lo_)
        for nsname in NS:
            for width in ("float32", "float64"):
                xp, dt = NS[nsname], nsutil.native_dtype(nsname, width)
                bounds = {k: (float(a), float(b)) for k, a, b in zip(names, lo_, hi_)}
                objs = {
                    "Identity": T.IdentityTransform(xp=xp, dtype=dt),
                    "Periodic": T.PeriodicTransform(lo_, hi_, xp=xp, dtype=dt),
                    "Logit": T.LogitTransform(lo_, hi_, xp=xp, dtype=dt, eps=1e-5),
                    "Probit": T.ProbitTransform(lo_, hi_, xp=xp, dtype=dt, eps=1e-5),
                    "Affine": T.AffineTransform(xp=xp, dtype=dt),
                    "Composite": T.CompositeTransform(parameters=names, periodic_parameters=["w"], prior_bounds=bounds,
                                                      bounded_to_unbounded=True, bounded_transform="logit", affine_transform=True, xp=xp, dtype=dt),
                    "Composite-noaffine": T.CompositeTransform(parameters=names, prior_bounds=dict(reversed(list(bounds.items()))),
                                                               bounded_to_unbounded=True, bounded_transform="probit", affine_transform=False, xp=xp, dtype=dt),
                    "FlowTransform": T.FlowTransform(parameters=names, prior_bounds=bounds, bounded_transform="probit", xp=xp, dtype=dt),
                }
                for name, tr in objs.items():
                    if ctx.quick and ctx.rng.random() < 0.4:
                        continue
                    case = {"transform": name, "ns": nsname, "dtype": width}
                    ctx.count(json.dumps(case), True, kind=f"transform/{name}")
                    path = os.path.join(root, "t.h5")
                    try:
                        xin = xp.asarray(X, dtype=dt)
                        tr.fit(xin)
                        y0, j0 = tr.forward(xin)
                        with h5py.File(path, "w") as f:
                            tr.save(f)
                        with h5py.File(path, "r") as f:
                            tr2 = T.BaseTransform.load(f)
                        y1, j1 = tr2.forward(xin)
                        if type(tr2) is not type(tr):
                            ctx.violation(f"transform-roundtrip:class:{name}", f"reloaded as {type(tr2).__name__}", case)
                        if not np.allclose(np.asarray(nsutil.to_list(y0), float), np.asarray(nsutil.to_list(y1), float), rtol=1e-6, atol=1e-6) or \
                                not np.allclose(np.asarray(nsutil.to_list(j0), float), np.asarray(nsutil.to_list(j1), float), rtol=1e-6, atol=1e-6):
                            ctx.violation(f"transform-roundtrip:map:{name}", f"{name} maps differently after reload", case)
                        if nsutil.dtype_name(tr2.dtype) != nsutil.dtype_name(tr.dtype) or tr2.xp.__name__ != tr.xp.__name__:
                            ctx.violation(f"transform-roundtrip:dtype-or-namespace:{name}", f"{name}: dtype {tr2.dtype} / xp {tr2.xp.__name__} after reload "
                                          f"(was {tr.dtype} / {tr.xp.__name__})", case)
                    except Exception as e:
                        ctx.violation(f"transform-raises:{name}:{type(e).__name__}", f"{name} ({nsname}, {width}) save/load raised {e!r}", case)
        # ---------------- (e) flows
        data_all = data = np.random.default_rng(5).normal(size=(60, 2))
        data3 = np.random.default_rng(6).normal(size=(60, 3)) * np.asarray([1.0, 0.3, 2.0]) + np.asarray([0.0, 1.0, -2.0])

        def flow_case(name, make, fitkw, data=None):
            data = data_all if data is None else data
            case = {"flow": name}
            ctx.count(("flow", name), True, kind="flow")
            path = os.path.join(root, "f.h5")
            try:
                fl = make()
                fl.fit(data, **fitkw)
                lp0 = np.asarray(nsutil.to_list(fl.log_prob(data[:5])), float)
                with h5py.File(path, "w") as f:
                    fl.save(f)
                with h5py.File(path, "r") as f:
                    fl2 = type(fl).load(f)
                lp1 = np.asarray(nsutil.to_list(fl2.log_prob(data[:5])), float)
                if not np.allclose(lp0, lp1, rtol=1e-5, atol=1e-5):
                    ctx.violation(f"flow-roundtrip:density:{name}", f"log_prob after reload {lp1[:3]} != before {lp0[:3]}", case)
                if nsutil.dtype_name(fl2.dtype) != nsutil.dtype_name(fl.dtype):
                    ctx.violation(f"flow-roundtrip:dtype:{name}", f"dtype {fl2.dtype} after reload, {fl.dtype} before", case)
            except Exception as e:
                ctx.violation(f"flow-raises:{name}:{type(e).__name__}", f"{name} save/load raised {type(e).__name__}: {str(e)[:200]}", case)

        import jax
        from aspire.flows.jax.flows import FlowJax
        from aspire.flows.torch.flows import ZukoFlow
        from aspire.transforms import FlowTransform
        for width in ("float32", "float64"):
            flow_case(f"zuko-plain-{width}", lambda: ZukoFlow(2, seed=1, dtype=width), {"n_epochs": 1})
            flow_case(f"zuko-options-{width}", lambda: ZukoFlow(2, seed=1, dtype=width, hidden_features=[8, 8], transforms=2), {"n_epochs": 1})
            flow_case(f"zuko-bounded-{width}", lambda: ZukoFlow(2, seed=1, dtype=width, data_transform=FlowTransform(
                parameters=["w", "b"], prior_bounds={"b": (-7.0, 9.0), "w": (-9.0, 11.0)}, xp=ZukoFlow.xp, dtype=width)), {"n_epochs": 1})
            flow_case(f"flowjax-plain-{width}", lambda: FlowJax(2, key=jax.random.key(0), dtype=width), {"max_epochs": 1, "show_progress": False})
            # three coordinates (flowjax then permutes the coordinates between layers with a permutation drawn from the flow's key:
            # structural, non-float leaves that must survive the round trip), built with a key other than the loader's template key
            flow_case(f"flowjax-3d-{width}", lambda: FlowJax(3, key=jax.random.key(7), dtype=width), {"max_epochs": 2, "show_progress": False}, data3)
            flow_case(f"zuko-3d-{width}", lambda: ZukoFlow(3, seed=3, dtype=width), {"n_epochs": 1}, data3)
            flow_case(f"flowjax-options-{width}", lambda: FlowJax(2, key=jax.random.key(0), dtype=width, flow_layers=2, nn_width=8),
                      {"max_epochs": 1, "show_progress": False})
        # ---------------- (f) configuration rebuilt by resume_from_file
        from aspire import Aspire
        for nsname in NS:
            for width in (None, "float32", "float64"):
                for variant in range(3):
                    tgt = sd.Target(2, prior="box")
                    cfgkw = dict(parameters=["x_0", "x_1"], prior_bounds=tgt.bounds_dict(),
                                 periodic_parameters=["x_0"] if variant else None, bounded_to_unbounded=bool(variant),
                                 bounded_transform="probit" if variant else "logit", eps=1e-5 if variant else 1e-6)
                    if variant == 2:
                        # names as physicists write them (a space, a Greek letter), bounds given as a list and as an array, an EMPTY list
                        # of periodic parameters, flow options with a tuple, a string and a None
                        lo_, hi_ = tgt.box_bounds()
                        nm = ["Λ_1", "mass 1"]
                        cfgkw.update(parameters=nm, periodic_parameters=[],
                                     prior_bounds={nm[1]: [float(lo_[1]), float(hi_[1])], nm[0]: np.array([float(lo_[0]), float(hi_[0])])})
                    a = Aspire(log_likelihood=tgt.log_likelihood, log_prior=tgt.log_prior, dims=2, flow=sd.FakeFlow(2), xp=NS[nsname],
                               dtype=None if width is None else nsutil.native_dtype(nsname, width), flow_backend="fake",
                               **cfgkw, **({"hidden": 4, "opts": {"k": [1, 2]}} if variant == 1 else
                                           {"hidden": 4, "opts": {"k": (1, 2), "act": "tanh", "norm": None}} if variant == 2 else {}))
                    path = os.path.join(root, f"cfg_{nsname}_{width}_{variant}.h5")
                    case = {"ns": nsname, "dtype": width, "variant": variant}
                    ctx.count(("config", nsname, width, variant), True, kind="config-rebuild")
                    try:
                        if width != "float32":
                            # the file has a past: an earlier instance with MORE settings (extra flow options, a nested option dictionary with
                            # more keys, a periodic parameter, other bounds) wrote its configuration to the same file first
                            case["file_history"] = "an earlier, richer configuration was saved to the same file"
                            pre = Aspire(log_likelihood=tgt.log_likelihood, log_prior=tgt.log_prior, dims=2, flow=sd.FakeFlow(2), xp=NS[nsname],
                                         flow_backend="fake", parameters=["x_0", "x_1"], prior_bounds={"x_0": [-50.0, 50.0], "x_1": [-60.0, 60.0]},
                                         periodic_parameters=["x_1"], bounded_to_unbounded=True, bounded_transform="probit", eps=1e-4,
                                         hidden=9, extra_opt={"z": [3, 4]}, opts={"k": [5], "zz": 1, "act": "relu"})
                            pre.sample_posterior(5, sampler="importance", checkpoint_path=path)
                        a.sample_posterior(5, sampler="importance", checkpoint_path=path)
                        b = Aspire.resume_from_file(path, log_likelihood=tgt.log_likelihood, log_prior=tgt.log_prior)
                        c0, c1 = a.config_dict(include_sampler_config=False), b.config_dict(include_sampler_config=False)
                        for k in ("dims", "parameters", "periodic_parameters", "prior_bounds", "bounded_to_unbounded", "bounded_transform",
                                  "flow_matching", "xp", "flow_backend", "flow_kwargs", "eps", "dtype"):
                            if not same_value(c0.get(k), c1.get(k)):
                                ctx.violation(f"config-rebuild:{k}", f"rebuilt instance has {k}={c1.get(k)!r}, the writer had {c0.get(k)!r}", case)
                        # the settings themselves, not only their printed form (config_dict is the writer, it cannot be the only observer)
                        for k in ("dims", "parameters", "periodic_parameters", "prior_bounds", "bounded_to_unbounded", "bounded_transform",
                                  "flow_matching", "flow_backend", "flow_kwargs", "eps"):
                            if not same_value(getattr(a, k), getattr(b, k)):
                                ctx.violation(f"config-rebuild-attr:{k}", f"rebuilt instance has .{k}={getattr(b, k)!r}, the writer had {getattr(a, k)!r}", case)
                        if a.xp is not b.xp and getattr(a.xp, "__name__", a.xp) != getattr(b.xp, "__name__", b.xp):
                            ctx.violation("config-rebuild-attr:xp", f"rebuilt instance has namespace {b.xp!r}, the writer had {a.xp!r}", case)
                        da = None if a.dtype is None else nsutil.dtype_name(a.dtype)
                        db = None if b.dtype is None else nsutil.dtype_name(b.dtype)
                        if da != db:
                            ctx.violation("config-rebuild-attr:dtype", f"rebuilt instance has precision {db!r}, the writer had {da!r}", case)
                    except Exception as e:
                        ctx.violation(f"config-rebuild-raises:{type(e).__name__}", f"resume_from_file raised {e!r}", case)
    finally:
        shutil.rmtree(root, ignore_errors=True)


def dict_get(d, path):
    for k in path:
        if not isinstance(d, dict) or k not in d:
            return "<missing>"
        d = d[k]
    return d


def kind_of(v):
    if isinstance(v, dict):
        return "empty-dict" if not v else "dict"
    if v is None:
        return "none"
    if isinstance(v, str):
        return "str:" + ("empty" if v == "" else "marker" if v.startswith("__") else "plain")
    if isinstance(v, (list, tuple)):
        return "strlist" if all(isinstance(t, str) for t in v) else "numlist"
    if isinstance(v, np.ndarray):
        return f"array{v.ndim}d"
    return type(v).__name__
