"""C11 — resuming from any checkpoint reproduces the uninterrupted run."""
import copy
import os
import pickle
import shutil
import tempfile

from harness import common, nsutil
from harness import smcbatch as sb
from harness import smcreplay as sr


def ck_cfgs(ctx, n):
    out = []
    tries = 0
    while len(out) < n and tries < 50 * n:
        tries += 1
        c = sr.gen_cfg(ctx.rng, replayable=True)
        if c["kind"] == "emcee_smc":
            continue                      # emcee draws from its own unseeded generator: not reproducible by construction
        c["ckpt"] = "cb-every"
        c["every"] = ctx.rng.choice([1, 1, 2, 3])
        out.append(c)
    # schedule options whose loop state must survive the checkpoint
    base = dict(kind="base", ns="numpy", width="float64", N=12, dims=2, s=0.3, c=0.5, prior="normal", seed=11, mcmc_steps=1,
                ckpt="cb-every", every=1)
    out.insert(0, dict(base, sample_kwargs=dict(adaptive=True, max_n_steps=6, target_efficiency=0.5)))        # rescaled min_step
    out.insert(0, dict(base, sample_kwargs=dict(adaptive=True, max_n_steps=2, min_step=0.1)))                  # stops at the cap
    out.insert(0, dict(base, kind="minipcn_smc", sample_kwargs=dict(adaptive=True, n_final_samples=24)))
    out.insert(0, dict(base, kind="minipcn_smc", n_final_steps=3, sample_kwargs=dict(adaptive=True, n_final_samples=20)))   # own kernel steps for the final stage
    return out[:n]


def run(ctx):
    common.standard_prove(ctx, gen_targets=[])
    ctx.rule = ("reference SMC runs with checkpoint callbacks (cadence 1-3, all schedule options, n_final_samples, three namespaces) "
                "from random.Random(VERIF_SEED); each case = (run, checkpoint or fault index, route): the run is resumed from that "
                "payload as bytes / unpickled dict / the live dict handed to the callback, or interrupted by an exception injected at "
                "user-call k and resumed from the last payload, from the HDF5 file path, or through Aspire.resume_from_file; the "
                "resumed result must equal the reference bit for bit (temperatures, samples, evidence, every history series, stored "
                "populations); reference runs are replayed through the Coq model; distinct = (config, checkpoint, route)")
    ctx.trust("bit-reproducibility of numpy's PCG64 state save/restore and of the stub kernel; EmceeSMC excluded (emcee's own generator is unseeded)")
    cfgs = ck_cfgs(ctx, ctx.scale(14, 80))
    runs, results = sb.run_and_replay(ctx, cfgs)
    per_run = ctx.scale(3, 100)
    nres = 0
    for r in runs:
        if r.error is not None:
            continue
        cfg = r.cfg
        pl = [p for p in r.payloads if p["bytes"] is not None]
        if not pl:
            continue
        idxs = sorted(set([0, len(pl) - 1, len(pl) // 2] + [ctx.rng.randrange(len(pl)) for _ in range(per_run)]))[: per_run + 2]
        for i in idxs:
            p = pl[i]
            routes = ["bytes", "dict"] if ctx.quick and i != idxs[0] else ["bytes", "dict", "path"]
            for route in routes:
                if route == "bytes":
                    src = p["bytes"]
                elif route == "dict":
                    src = pickle.loads(p["bytes"])
                else:
                    d = tempfile.mkdtemp(prefix="c11_", dir=str(common.WORK))
                    path = os.path.join(d, "ck.pkl")
                    with open(path, "wb") as f:
                        f.write(p["bytes"])
                    src = common.as_user_path(path, nres)     # str or pathlib.Path, as users write file names
                r2 = sr.do_run(cfg, resume_from=src, vid0=10000)
                if route == "path":
                    shutil.rmtree(d, ignore_errors=True)
                nres += 1
                ctx.count((cfg["seed"], p["iteration"], p["forced"], route), True, kind=f"resume/{route}")
                rep = {"cfg": cfg, "checkpoint_iteration": p["iteration"], "forced_final": p["forced"], "route": route}
                if r2.error is not None:
                    ctx.violation(f"resume-raises:{route}:{r2.error[0]}", f"resume from iteration {p['iteration']} via {route} raised {r2.error[:2]}", rep)
                    continue
                diffs = sr.same_outcome(r, r2)
                if diffs:
                    sk = cfg["sample_kwargs"]
                    tag = "cap" if sk.get("max_n_steps") else ("nfinal" if sk.get("n_final_samples") else "plain")
                    rep["differences"] = diffs
                    ctx.violation(f"resume-differs:{tag}:{diffs[0].split(':')[0].split(' (')[0]}",
                                  f"resumed (iteration {p['iteration']}, {route}) != uninterrupted: {diffs[:3]}", rep)
                elif len(ctx.samples) < 4:
                    ctx.sample({"cfg": {k: cfg[k] for k in ('kind', 'ns', 'N')}, "resumed_from_iteration": p["iteration"], "route": route,
                                "iterations": len(r.history.beta), "identical": True})
                # a checkpoint is not used up by resuming from it: the SAME dictionary object resumed a second time (a retry after
                # the first continuation was lost) reproduces the uninterrupted run as well
                if route == "dict" and not diffs:
                    r3 = sr.do_run(cfg, resume_from=src, vid0=20000)
                    nres += 1
                    ctx.count((cfg["seed"], p["iteration"], p["forced"], "dict-twice"), True, kind="resume/dict-second-time")
                    rep3 = dict(rep, route="the same dict object, second resume")
                    if r3.error is not None:
                        ctx.violation(f"resume-raises:dict-twice:{r3.error[0]}", f"second resume from the same dictionary (iteration {p['iteration']}) raised {r3.error[:2]}", rep3)
                    else:
                        d3 = sr.same_outcome(r, r3)
                        if d3:
                            rep3["differences"] = d3
                            ctx.violation(f"resume-differs:dict-twice:{d3[0].split(':')[0].split(' (')[0]}",
                                          f"second resume from the same dictionary (iteration {p['iteration']}) != uninterrupted: {d3[:3]}", rep3)
    # ---- single-precision runs (not replayed through the binary64 model): resumed from a mid-run and from the last payload
    n32 = 0
    for cfg in [c for c in sb.f32_cfgs(ctx, ctx.scale(12, 60)) if c["kind"] != "emcee_smc"]:
        r = sr.do_run(cfg)
        if r.error is not None:
            ctx.violation(f"float32-run-raises:{r.error[0]}", f"single-precision run raised {r.error[:2]}", {"cfg": cfg})
            continue
        pl = [p for p in r.payloads if p["bytes"] is not None]
        for i in sorted({len(pl) // 2, len(pl) - 1} if pl else set()):
            p = pl[i]
            r2 = sr.do_run(cfg, resume_from=p["bytes"], vid0=10000)
            n32 += 1
            ctx.count((cfg["seed"], p["iteration"], p["forced"], "float32"), True, kind=f"resume/float32/{cfg['ns']}")
            rep = {"cfg": cfg, "checkpoint_iteration": p["iteration"], "forced_final": p["forced"], "route": "bytes", "width": "float32"}
            if r2.error is not None:
                ctx.violation(f"resume-raises:float32:{r2.error[0]}", f"resume of a single-precision run from iteration {p['iteration']} raised {r2.error[:2]}", rep)
                continue
            diffs = sr.same_outcome(r, r2)
            if diffs:
                rep["differences"] = diffs
                ctx.violation(f"resume-differs:float32:{diffs[0].split(':')[0].split(' (')[0]}",
                              f"single-precision run resumed from iteration {p['iteration']} != uninterrupted: {diffs[:3]}", rep)
    ctx.extra["float32_resumptions"] = n32
    # ---- fault injection on callback runs: the caller keeps the dictionary it was handed (not a serialised copy); after the run
    #      went on and failed, that object must still BE the checkpoint, and resuming from it must reproduce the reference
    nlive = 0
    live_runs = [r for r in runs if r.error is None and any(p["bytes"] is not None for p in r.payloads)][: ctx.scale(5, 30)]
    for r in live_runs:
        cfg = r.cfg
        total = r.target.ncalls
        if total < 6:
            continue
        for k in sorted(set([total // 2, total - 2] + [ctx.rng.randrange(3, total - 1) for _ in range(ctx.scale(2, 12))])):
            bad = sr.do_run(cfg, fail_at=k)
            if bad.error is None or not bad.payloads:
                continue
            last = bad.payloads[-1]
            nlive += 1
            ctx.count((cfg["seed"], "live", k), True, kind="fault/live-dict")
            rep = {"cfg": cfg, "fault_at_user_call": k, "route": "live-dict", "checkpoint_iteration": last["iteration"]}
            stale = [p["iteration"] for p in bad.payloads if pickle.dumps(p["live"]) != p["bytes"]]
            if stale:
                snap, live = pickle.loads(last["bytes"]), last["live"]
                ctx.violation("payload-changed-after-emission",
                              f"the dictionary handed to the checkpoint callback at iteration(s) {stale[:4]} changed while the run went on "
                              f"(history.beta had {len(snap['history'].beta)} entries when emitted, {len(live['history'].beta)} at the fault)", rep)
            r2 = sr.do_run(cfg, resume_from=last["live"], vid0=10000)
            if r2.error is not None:
                ctx.violation(f"resume-raises:live-dict:{r2.error[0]}", f"resume from the kept dictionary after a fault at call {k} raised {r2.error[:2]}", rep)
                continue
            diffs = sr.same_outcome(r, r2)
            if diffs:
                rep["differences"] = diffs
                ctx.violation(f"resume-differs:live-dict:{diffs[0].split(':')[0].split(' (')[0]}",
                              f"run interrupted at user-call {k} and resumed from the dictionary kept by the callback != uninterrupted: {diffs[:3]}", rep)
    ctx.extra["live_dict_resumptions"] = nlive
    # ---- fault injection: exception at user-call k, resume from the last payload / file / resume_from_file
    nfault = 0
    fcfgs = [c for c in cfgs if c["kind"] == "minipcn_smc" and "beta_tolerance" not in c["sample_kwargs"]][: ctx.scale(3, 12)]
    for cfg in fcfgs:
        d = tempfile.mkdtemp(prefix="c11f_", dir=str(common.WORK))
        try:
            ref = sr.aspire_file_run(cfg, os.path.join(d, "ref.h5"))
            if ref.error is not None:
                continue
            total = ref.target.ncalls
            ks = sorted(set([2, total // 2, total - 2] + [ctx.rng.randrange(2, max(3, total - 1)) for _ in range(ctx.scale(2, 30))]))
            for k in ks:
                path = common.as_user_path(os.path.join(d, common.ckpt_name(f"f{k}", k)), k)
                bad = sr.aspire_file_run(cfg, path, fail_at=k)
                if bad.error is None:
                    continue
                nfault += 1
                import h5py
                has_ck = False
                if os.path.exists(path):
                    with h5py.File(path, "r") as f:
                        has_ck = "checkpoint" in f and "state" in f["checkpoint"]
                ctx.count((cfg["seed"], "fault", k), True, kind="fault/" + ("with-checkpoint" if has_ck else "before-first-checkpoint"))
                rep = {"cfg": cfg, "fault_at_user_call": k, "route": "resume_from_file"}
                if not has_ck:
                    continue
                res = sr.aspire_file_run(cfg, path, resume=True)
                if res.error is not None:
                    ctx.violation(f"resume-raises:resume_from_file:{res.error[0]}", f"Aspire.resume_from_file after a fault at call {k}: {res.error[:2]}", rep)
                    continue
                diffs = sr.same_outcome(ref, res)
                if diffs:
                    rep["differences"] = diffs
                    ctx.violation(f"resume-differs:fault:{diffs[0].split(':')[0].split(' (')[0]}",
                                  f"run interrupted at user-call {k} and resumed from the file != uninterrupted: {diffs[:3]}", rep)
                # file-path route on the sampler
                res2 = sr.aspire_file_run(cfg, path, resume=False, extra_kwargs={"resume_from": path, "checkpoint_path": None}) \
                    if False else None
        finally:
            shutil.rmtree(d, ignore_errors=True)
    ctx.extra["resumptions"] = nres
    ctx.extra["faults_injected"] = nfault
