"""C14 — a checkpoint file stays self-consistent under any sequence of operations."""
import itertools
import json
import os
import pickle
import re
import shutil
import tempfile

import numpy as np

from harness import common, nsutil
from harness import smcdrive as sd

KIND = {"Importance": "importance", "SMC": "minipcn_smc", "ESMC": "emcee_smc"}
CLASS2S = {"MiniPCNSMC": "SMC", "EmceeSMC": "ESMC", "ImportanceSampler": "Importance"}
TYPE2S = {"importance": "Importance", "minipcn_smc": "SMC", "smc": "SMC", "emcee_smc": "ESMC"}


def gen_ops(rng, n):
    ops = []
    depth = 0
    for _ in range(n):
        r = rng.random()
        if r < 0.3:
            ops.append(("Fit", rng.randrange(1, 4), rng.random() < 0.7 or depth == 0 and rng.random() < 0.5, rng.random() < 0.4))
        elif r < 0.7:
            ops.append(("Sample", rng.choice(["Importance", "SMC", "SMC", "ESMC"]), rng.random() < 0.7))
        elif r < 0.8:
            ops.append(("EnterAuto", rng.random() < 0.8))
            depth += 1
        elif r < 0.88 and depth > 0:
            ops.append(("ExitAuto", rng.choice(["normal", "normal", "RuntimeError", "KeyboardInterrupt", "SystemExit"])))
            depth -= 1
        else:
            ops.append(("Resume",))
            depth = 1
    return ops


def op_coq(o):
    b = lambda v: "true" if v else "false"
    if o[0] == "Fit":
        return f"Fit {o[1]} {b(o[2])} {b(o[3])}"
    if o[0] == "Sample":
        return f"Sample {o[1]} {b(o[2])}"
    if o[0] == "EnterAuto":
        return f"EnterAuto {b(o[1])}"
    return o[0]


class Runner:
    def __init__(self, path, seed):
        self.path, self.seed = path, seed
        self.tgt = sd.Target(1, s=1.0)
        self.NS = nsutil.namespaces()
        self.flows = {}            # tag -> (mu, sigma)
        self.cms = []
        self.nfit = 0
        flow = sd.FakeFlow(1, seed=seed, tag="0")
        self.flows["0"] = (flow.mu.copy(), flow.sigma.copy())
        from aspire import Aspire
        self.a = Aspire(log_likelihood=self.tgt.log_likelihood, log_prior=self.tgt.log_prior, dims=1, parameters=["x_0"], flow=flow,
                        xp=self.NS["numpy"], flow_backend="fake")
        self.errors = []
        self.nexit = 0
        self.exits = []
        self.last_fit_overwrote = False

    def do(self, o):
        from aspire import Aspire
        from aspire.samples import Samples
        a = self.a
        try:
            if o[0] == "Fit":
                self.nfit += 1
                tag = f"{o[1]}.{self.nfit}"          # every fit produces a new flow, even on the same data set
                data = np.random.default_rng(1000 * o[1] + self.nfit).normal(o[1], 0.5 + 0.1 * self.nfit, size=(30, 1))
                # did this fit have a file to write to (explicit path or active defaults), and was it told to overwrite its flow?
                self.last_fit_overwrote = bool(o[3]) and (bool(o[2]) or getattr(a, "_checkpoint_defaults", None) is not None)
                a.fit(Samples(data, xp=self.NS["numpy"]), checkpoint_path=self.path if o[2] else None, overwrite=o[3], tag=tag)
                self.flows[tag] = (a.flow.mu.copy(), a.flow.sigma.copy())
            elif o[0] == "Sample":
                kind = KIND[o[1]]
                kw = {}
                if kind == "minipcn_smc":
                    kw.update(rng=np.random.default_rng(self.seed), sampler_kwargs={"n_steps": 1})
                elif kind == "emcee_smc":
                    kw.update(sampler_kwargs={"nsteps": 1, "progress": False})
                a.sample_posterior(6, sampler=kind, checkpoint_path=self.path if o[2] else None, **kw)
            elif o[0] == "EnterAuto":
                cm = a.auto_checkpoint(self.path, save_config=o[1])
                cm.__enter__()
                self.cms.append(cm)
            elif o[0] == "ExitAuto":
                if self.cms:
                    # "leaving" is any exit path: normally, or with an exception travelling through the with-statement (an error in the
                    # body, Ctrl-C during a run, sys.exit) — the model's ExitAuto does not depend on which
                    how = {"normal": None, "RuntimeError": RuntimeError, "KeyboardInterrupt": KeyboardInterrupt,
                           "SystemExit": SystemExit}[o[1] if len(o) > 1 else "normal"]
                    if how is None:
                        self.cms.pop().__exit__(None, None, None)
                    else:
                        exc = how("leaving the block")
                        self.exits.append(how.__name__)
                        if self.cms.pop().__exit__(how, exc, None):
                            self.errors.append((o, f"auto_checkpoint swallowed {how.__name__}"))
                elif hasattr(a, "_checkpoint_defaults"):
                    del a._checkpoint_defaults           # leaving the defaults installed by resume_from_file
            elif o[0] == "Resume":
                new = Aspire.resume_from_file(self.path, log_likelihood=self.tgt.log_likelihood, log_prior=self.tgt.log_prior)
                self.a = new
                self.cms = []
                self.last_fit_overwrote = False
        except Exception as e:
            self.errors.append((o, f"{type(e).__name__}: {str(e)[:100]}"))

    def mem_tag(self):
        return getattr(self.a.flow, "tag", None)

    def observe(self):
        import h5py
        if not os.path.exists(self.path):
            return {"flow": None, "cfg": None, "ckpt": None}
        with h5py.File(self.path, "r") as f:
            flow = f["flow"].attrs["tag"] if "flow" in f else None
            cfg = None
            if "aspire_config" in f:
                g = f["aspire_config"]
                st = g["sampler_type"][()] if "sampler_type" in g else None
                if isinstance(st, bytes):
                    st = st.decode()
                cfg = ("some", TYPE2S.get(st, st) if st not in (None, "__none__") else None)
            ck = None
            if "checkpoint" in f and "state" in f["checkpoint"]:
                st = pickle.loads(f["checkpoint"]["state"][...].tobytes())
                s = st["samples"]
                x = np.asarray(nsutil.to_list(s.x), float).reshape(-1, 1)
                lq = np.asarray(nsutil.to_list(s.log_q), float)
                under = None
                for tag, (mu, sg) in self.flows.items():
                    z = (x - mu) / sg
                    lp = -0.5 * np.sum(z * z, axis=1) - np.sum(np.log(sg)) - 0.5 * math_log2pi
                    if np.allclose(lp, lq, rtol=1e-9, atol=1e-9):
                        under = tag
                ck = (CLASS2S.get(st["sampler"], st["sampler"]), under)
        return {"flow": flow, "cfg": cfg, "ckpt": ck}


math_log2pi = float(np.log(2 * np.pi))


def run(ctx):
    common.standard_prove(ctx, gen_targets=[])
    ctx.rule = ("operation scripts over {fit with data 1-3 (explicit path or through the context, with/without overwrite), sample with "
                "importance / minipcn_smc / emcee_smc (explicit or automatic path), enter / leave auto_checkpoint (nested), resume_from_file} "
                "targeting ONE file: exhaustive to length 3 over a reduced alphabet plus random scripts to length 8 from "
                "random.Random(VERIF_SEED), run on a real Aspire with a taggable flow; after EVERY operation the file is read back: stored flow "
                "tag, configuration sampler_type, checkpoint sampler class and the flow under which the checkpoint's particles were weighted "
                "(stored log_q matched against every flow ever fitted); compared with the Coq model (vm_compute) and with the invariant; "
                "distinct = script")
    ctx.trust("the flow a checkpoint was weighted under is identified by matching its stored log_q against the analytic densities of all fitted flows",
              "stub kernels; FakeFlow registered as external flow backend 'fake'")
    alpha = [("Fit", 1, True, False), ("Fit", 2, True, False), ("Fit", 2, True, True), ("Sample", "SMC", True), ("Sample", "Importance", True),
             ("Resume",)]
    scripts = [list(t) for L in range(1, ctx.scale(3, 4) + 1) for t in itertools.product(alpha, repeat=L)]
    if ctx.quick:
        ctx.rng.shuffle(scripts)
        scripts = scripts[:60]
    for _ in range(ctx.scale(40, 400)):
        scripts.append(gen_ops(ctx.rng, ctx.rng.choice([3, 5, 8])))
    # corpus: histories that exposed defects earlier run first
    corpus = [
        # F32: the configuration lost its sampler type (fit rewrote it), resume falls back to the checkpoint's sampler, sampling goes on
        [("Sample", "ESMC", True), ("Resume",), ("Fit", 1, True, True), ("Resume",), ("Sample", "Importance", True)],
        [("Sample", "SMC", True), ("Fit", 2, True, True), ("Resume",), ("Sample", "Importance", True), ("Sample", "SMC", False)],
        # an overwriting fit inside an active context, then SMC again (seeded change C14-a)
        [("EnterAuto", True), ("Sample", "SMC", False), ("Fit", 2, False, True), ("Sample", "SMC", False), ("ExitAuto",)],
        # the block is left by Ctrl-C / sys.exit / an error; the same object then fits and samples WITHOUT a path (seeded change C14-d)
        [("Fit", 1, True, False), ("EnterAuto", True), ("Sample", "SMC", False), ("ExitAuto", "KeyboardInterrupt"), ("Fit", 2, False, False),
         ("Sample", "SMC", False), ("Resume",), ("Sample", "SMC", False)],
        [("EnterAuto", True), ("Fit", 1, False, False), ("Sample", "ESMC", False), ("ExitAuto", "SystemExit"), ("Fit", 3, False, True),
         ("Sample", "SMC", False)],
        [("EnterAuto", False), ("Sample", "SMC", False), ("ExitAuto", "RuntimeError"), ("Fit", 2, False, True), ("Sample", "ESMC", False)],
    ]
    scripts = corpus + scripts
    root = tempfile.mkdtemp(prefix="c14_", dir=str(common.WORK))
    rows = []
    try:
        for si, ops in enumerate(scripts):
            path = common.as_user_path(os.path.join(root, common.ckpt_name(f"s{si}", si)), si)
            r = Runner(path, si)
            tagmap = {"0": 0}             # real tag -> model flow id (fit counter)
            counter = 0
            obs_list = []
            was_bad = [False, False]
            depth = 0                     # contexts open according to the script (Resume installs one level of defaults)
            for o in ops:
                before = r.observe()
                r.do(o)
                depth = depth + 1 if o[0] == "EnterAuto" else max(0, depth - 1) if o[0] == "ExitAuto" else 1 if o[0] == "Resume" else depth
                if o[0] == "Fit":
                    counter += 1
                    tagmap[f"{o[1]}.{r.nfit}"] = counter
                ob = r.observe()
                obs_list.append(ob)
                # the invariant itself, on the real file; a violation is attributed to the operation that INTRODUCES it
                bad_flow = bad_cfg = False
                if ob["ckpt"] is not None:
                    cs, under = ob["ckpt"]
                    bad_flow = under != ob["flow"]
                    bad_cfg = (ob["cfg"][1] if ob["cfg"] else None) != cs
                prefix = [op_coq(q) for q in ops[: len(obs_list)]]
                # an operation given no path, with every block already left, has no file to write to; if it changed the file and the
                # file is now inconsistent, that is its own history (not one of the recorded no-overwrite findings)
                outside = o[0] in ("Fit", "Sample") and not o[2] and depth == 0 and ob != before
                if (bad_flow and not was_bad[0] or bad_cfg and not was_bad[1]) and outside:
                    ctx.violation("file-written-after-every-block-was-left:" + o[0],
                                  f"after {prefix[-1]} (no path given, no block open; blocks were left by {r.exits or ['normal exit']}): the file changed from "
                                  f"{before} to {ob}", {"ops": prefix, "observed": str(ob), "blocks_left_by": r.exits})
                    was_bad[0], was_bad[1] = bad_flow, bad_cfg
                    continue
                if bad_flow and not was_bad[0]:
                    ctx.violation("stale-flow:" + classify(ops[: len(obs_list)], "stale-flow", r.last_fit_overwrote),
                                  f"after {prefix[-1]}: file flow is {ob['flow']} but the stored checkpoint's particles were weighted under flow {ob['ckpt'][1]}",
                                  {"ops": prefix, "observed": str(ob), "blocks_left_by": r.exits})
                if bad_cfg and not was_bad[1]:
                    ctx.violation("config-names-other-sampler:" + classify(ops[: len(obs_list)]),
                                  f"after {prefix[-1]}: configuration sampler_type = {ob['cfg'][1] if ob['cfg'] else None} but the stored checkpoint was written by {ob['ckpt'][0]}",
                                  {"ops": prefix, "observed": str(ob), "blocks_left_by": r.exits})
                was_bad[0], was_bad[1] = bad_flow, bad_cfg
            ctx.count(json.dumps([op_coq(o) for o in ops]), any(o[0] == "Sample" and o[1] != "Importance" for o in ops), kind=f"len{len(ops)}")
            if len(ctx.samples) < 3 and len(ops) >= 3:
                ctx.sample({"ops": [op_coq(o) for o in ops], "final_file": str(obs_list[-1]), "errors": r.errors[:2]})
            # model comparison: expected file state after each op, with model flow ids
            # Fit ids in the model are the fit counter: translate ops accordingly
            mops = []
            c = 0
            for o in ops:
                if o[0] == "Fit":
                    c += 1
                    mops.append(("Fit", c, o[2], o[3]))
                else:
                    mops.append(o)
            exps = []
            for ob in obs_list:
                fl = "None" if ob["flow"] is None else f"(Some {tagmap.get(ob['flow'], 99)})"
                cf = "None" if ob["cfg"] is None else ("(Some None)" if ob["cfg"][1] is None else f"(Some (Some {ob['cfg'][1]}))")
                ck = "None" if ob["ckpt"] is None else f"(Some ({ob['ckpt'][0]}, {tagmap.get(ob['ckpt'][1], 99)}))"
                exps.append(f"({fl}, {cf}, {ck})")
            rows.append(f"chk [{'; '.join(op_coq(o) for o in mops)}] [{'; '.join(exps)}]")
    finally:
        shutil.rmtree(root, ignore_errors=True)
    t = """From Coq Require Import List Bool Arith.
From AV Require Import Model.FileSM.
Import ListNotations.
Definition on_eqb (a b : option nat) : bool := match a, b with Some x, Some y => Nat.eqb x y | None, None => true | _, _ => false end.
Definition os_eqb (a b : option sampler) : bool := match a, b with Some x, Some y => sampler_eqb x y | None, None => true | _, _ => false end.
Definition cfg_eqb (a b : option (option sampler)) : bool := match a, b with Some x, Some y => os_eqb x y | None, None => true | _, _ => false end.
Definition ck_eqb (a b : option (sampler * nat)) : bool :=
  match a, b with Some (s, n), Some (s', n') => sampler_eqb s s' && Nat.eqb n n' | None, None => true | _, _ => false end.
Definition feq (f : file) (e : option nat * option (option sampler) * option (sampler * nat)) : bool :=
  match e with (fl, cf, ck) => on_eqb (f_flow f) fl && cfg_eqb (f_cfg f) cf && ck_eqb (f_ckpt f) ck end.
Definition init0 : world := {| wi := {| mem_flow := Some 0; last_sampler := None; dflt := []; resume_type := None; resume_bytes := None |};
                               wf := {| f_flow := None; f_cfg := None; f_ckpt := None |} |}.
Fixpoint go (w : world) (ops : list op) (es : list (option nat * option (option sampler) * option (sampler * nat))) : bool :=
  match ops, es with
  | o :: r, e :: er => let w' := step w o in feq (wf w') e && go w' r er
  | [], [] => true
  | _, _ => false
  end.
Definition chk ops es := go init0 ops es.
"""
    shards = [rows[i:i + 200] for i in range(0, len(rows), 200)]
    outs = common.coq_eval_many([(f"C14_{i}", t + "Eval vm_compute in ([" + ";\n ".join(sh) + "]).\n") for i, sh in enumerate(shards)])
    bad, okall = [], True
    for (ok, out), sh in zip(outs, shards):
        if not ok:
            okall = False
            bad.append(out[-600:])
            continue
        flags = re.findall(r"true|false", common.parse_eval_lists(out)[0])
        bad += [sh[i] for i, f in enumerate(flags) if f == "false"]
    ctx.oblig("correspondence:scripts-vs-Model/FileSM", okall and not bad, f"{len(bad)} scripts differ; first: {bad[:1]}")
    ctx.traces = len(rows)


def classify(ops, kind="", fit_overwrote=False):
    """Name the operation that introduced the inconsistency (the key used in known_findings.json)."""
    last = ops[-1]
    resumed = any(o[0] == "Resume" for o in ops[:-1])
    # the recorded findings all come from the no-overwrite policy (or from a fit replacing the flow under a stored checkpoint);
    # a checkpoint written by an SMC run whose proposal is NOT the file's flow although the latest fit, with no resume since, was
    # told to overwrite the file's flow is a different history and gets its own key
    if kind == "stale-flow" and last[0] == "Sample" and last[1] != "Importance" and fit_overwrote:
        return "smc-sampling-although-the-latest-fit-overwrote-the-file-flow"
    if last[0] == "Sample" and last[1] == "Importance":
        return "importance-sampling-to-a-file-with-an-smc-checkpoint"
    if last[0] == "Fit":
        return "fit-touches-a-file-that-holds-a-checkpoint" + ("" if not resumed else "-after-resume")
    if last[0] == "Sample":
        return "smc-sampling-after-refit-or-resume"
    return "other:" + last[0]
