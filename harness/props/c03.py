"""C03 — the fitted proposal is a normalised density; sampling and evaluation agree."""
import json
import math
import os
import shutil
import tempfile

import numpy as np

from harness import common, nsutil

GEN = ["zuko_log_prob", "zuko_sample", "flowjax_log_prob", "flowjax_sample"]


def graded(lo, hi, n, bounded):
    """Nodes and weights of a trapezoid rule; for a bounded coordinate the nodes are graded towards the bounds
    (x = lo + w*Phi(t), t uniform) and stop at the documented clip margin (u in [2e-6, 1-2e-6])."""
    from scipy.stats import norm
    if not bounded:
        xs = np.linspace(lo, hi, n)
        wts = np.full(n, xs[1] - xs[0])
        wts[0] *= 0.5
        wts[-1] *= 0.5
        return xs, wts
    t = np.linspace(norm.ppf(2e-6), norm.ppf(1 - 2e-6), n)
    xs = lo + (hi - lo) * norm.cdf(t)
    jac = (hi - lo) * norm.pdf(t)
    wts = np.full(n, t[1] - t[0]) * jac
    wts[0] *= 0.5
    wts[-1] *= 0.5
    return xs, wts


def quad_1d(logp, lo, hi, n=4001, bounded=True):
    xs, wts = graded(lo, hi, n, bounded)
    return float(np.sum(np.exp(logp(xs[:, None])) * wts))


def quad_2d(logp, lo, hi, n=161, bounded=True):
    x0, w0 = graded(lo[0], hi[0], n, bounded)
    x1, w1 = graded(lo[1], hi[1], n, bounded)
    X, Y = np.meshgrid(x0, x1, indexing="ij")
    v = np.exp(logp(np.column_stack([X.ravel(), Y.ravel()]))).reshape(n, n)
    return float(np.sum(v * w0[:, None] * w1[None, :]))


def run(ctx):
    import h5py
    import jax
    from aspire.flows.jax.flows import FlowJax
    from aspire.flows.torch.flows import ZukoFlow
    from aspire.transforms import FlowTransform
    common.standard_prove(ctx, gen_targets=GEN)
    nsutil.namespaces()          # enables 64-bit JAX, without which a float64 flowjax flow silently computes in float32
    ctx.rule = ("flow back-end {zuko, flowjax} x bounded transform {logit, probit, off} x affine {on, off} x dtype {float32, float64} x dims {1, 2} x "
                "state {untrained (affine off), trained, reloaded from HDF5} x training sets from random.Random(VERIF_SEED); each case = one flow: "
                "log-density returned with every drawn sample vs log_prob evaluated at it, draws inside the declared bounds, trapezoid "
                "quadrature of exp(log_prob) over the support (1-D 4001 nodes, 2-D 161x161); distinct = configuration")
    ctx.trust("zuko / flowjax implement a normalised density on the rescaled space and return it consistently (Section variable Base)",
              "quadrature error: 1e-3 (float64) / 2e-2 (float32) tolerance; d>2 normalisation is not checked at all")
    root = tempfile.mkdtemp(prefix="c03_", dir=str(common.WORK))
    try:
        combos = [(b, bt, aff, w, d) for b in ("zuko", "flowjax") for bt in ("logit", "probit", None) for aff in (True, False)
                  for w in ("float64", "float32") for d in (1, 2)]
        ctx.rng.shuffle(combos)
        combos = combos[: ctx.scale(14, 48)]
        for (backend, bt, aff, width, d) in combos:
            seed = ctx.rng.randrange(1000)
            rngn = np.random.default_rng(seed)
            lo, hi = np.asarray([-2.0, -1.0][:d]), np.asarray([3.0, 5.0][:d])      # a different interval per coordinate
            data = np.clip(rngn.normal(0.4, 0.8, size=(300, d)), lo + 0.05, hi - 0.05)
            params = ["w", "b"][:d]                                               # not alphabetical; the dictionary is written in reverse
            bounds = {p: (float(lo[i]), float(hi[i])) for i, p in reversed(list(enumerate(params)))} if bt else None
            case = {"backend": backend, "bounded": bt, "affine": aff, "dtype": width, "dims": d, "seed": seed}

            def make():
                if backend == "zuko":
                    tr = FlowTransform(parameters=params, prior_bounds=bounds, bounded_to_unbounded=bt is not None, bounded_transform=bt or "logit",
                                       affine_transform=aff, xp=ZukoFlow.xp, dtype=width)
                    return ZukoFlow(d, seed=seed, data_transform=tr, dtype=width, hidden_features=[16, 16], transforms=2)
                tr = FlowTransform(parameters=params, prior_bounds=bounds, bounded_to_unbounded=bt is not None, bounded_transform=bt or "logit",
                                   affine_transform=aff, xp=FlowJax.xp, dtype=width)
                return FlowJax(d, key=jax.random.key(seed), data_transform=tr, dtype=width)

            states = []
            try:
                fl = make()
                states.append(("untrained", fl))        # "before and after training": also with the affine map (identity until fitted)
                fl2 = make()
                if backend == "zuko":
                    fl2.fit(data, n_epochs=ctx.scale(3, 15), batch_size=100)
                else:
                    fl2.fit(data, max_epochs=ctx.scale(3, 15), show_progress=False)
                states.append(("trained", fl2))
                if aff and (d == 1 or not ctx.quick):
                    # the same flow object fitted a second time, on data of a different spread (Aspire.fit called again): it is the
                    # density of the LAST fit that must be normalised and agree with the sampler
                    fl3 = make()
                    narrow = lo + (data - lo) * 0.2
                    if backend == "zuko":
                        fl3.fit(narrow, n_epochs=2, batch_size=100)
                        fl3.fit(data, n_epochs=ctx.scale(3, 15), batch_size=100)
                    else:
                        fl3.fit(narrow, max_epochs=2, show_progress=False)
                        fl3.fit(data, max_epochs=ctx.scale(3, 15), show_progress=False)
                    states.append(("refitted", fl3))
                path = os.path.join(root, "f.h5")
                with h5py.File(path, "w") as f:
                    fl2.save(f)
                with h5py.File(path, "r") as f:
                    states.append(("reloaded", type(fl2).load(f)))
            except Exception as e:
                ctx.violation(f"flow-raises:{backend}:{type(e).__name__}", f"building / training / reloading raised {type(e).__name__}: {str(e)[:200]}", case)
            for state, f_ in states:
                c2 = dict(case, state=state)
                ctx.count(json.dumps(c2, sort_keys=True), True, kind=f"{backend}/{bt}/{'affine' if aff else 'noaffine'}/{width}/{state}")
                try:
                    x, lq = f_.sample_and_log_prob(200)
                    xv = np.asarray(nsutil.to_list(x), float).reshape(-1, d)
                    lqv = np.asarray(nsutil.to_list(lq), float).reshape(-1)
                    lpv = np.asarray(nsutil.to_list(f_.log_prob(x)), float).reshape(-1)
                except Exception as e:
                    ctx.violation(f"sample-or-eval-raises:{backend}:{state}:{type(e).__name__}", f"{type(e).__name__}: {str(e)[:200]}", c2)
                    continue
                tol = (5e-3 if width == "float32" else 1e-7) * (1 + np.abs(lpv))
                # samples inside the documented clipping margin next to a bound are excluded (as in C04): there the
                # forward map clips and forward(inverse(z)) != z by construction
                margin = 4e-6 if width == "float64" else 1e-3
                inside = np.ones(len(xv), bool) if not bt else np.all(((xv - lo) / (hi - lo) > margin) & ((xv - lo) / (hi - lo) < 1 - margin), axis=1)
                ctx.extra["samples_in_clip_margin"] = ctx.extra.get("samples_in_clip_margin", 0) + int((~inside).sum())
                bad = (np.abs(lqv - lpv) > tol) & inside
                if np.any(bad) or np.any(~np.isfinite(lqv[inside])):
                    i = int(np.argmax(np.where(inside, np.abs(lqv - lpv), 0)))
                    ctx.violation(f"sample-eval-disagree:{backend}:{bt}:{'affine' if aff else 'noaffine'}",
                                  f"log-density returned with sample {lqv[i]} vs log_prob(sample) {lpv[i]} ({int(bad.sum())} of {len(bad)} samples; {state})", dict(c2, x=xv[i].tolist()))
                if bt and (np.any(xv < lo) or np.any(xv > hi)):
                    ctx.violation(f"draw-outside-bounds:{backend}:{bt}", f"draws outside [{lo[0]}, {hi[0]}]: {xv[(xv < lo) | (xv > hi)][:3]}", c2)
                # the flow as a MAP (what flow preconditioning uses): forward(x) = (z, log|dz/dx|) with EVERY Jacobian in it, so that
                # log_prob(x) = log N(z; 0, I) + log|dz/dx| (both back-ends use a standard-normal base), and inverse undoes it
                try:
                    if backend != "zuko":
                        raise StopIteration      # FlowJax.forward / inverse call methods flowjax's distribution does not have (DESIGN section 8, observation O1)
                    xin_ = x[:40]
                    zf, ljf = f_.forward(xin_)
                    zf_ = np.asarray(nsutil.to_list(zf), float).reshape(-1, d)
                    ljf_ = np.asarray(nsutil.to_list(ljf), float).reshape(-1)
                    base = -0.5 * np.sum(zf_ * zf_, axis=1) - 0.5 * d * math.log(2 * math.pi)
                    ins = inside[:40]
                    tol2 = (2e-2 if width == "float32" else 1e-6) * (1 + np.abs(lpv[:40]))
                    if np.any((np.abs(base + ljf_ - lpv[:40]) > tol2) & ins):
                        i = int(np.argmax(np.where(ins, np.abs(base + ljf_ - lpv[:40]), 0)))
                        ctx.violation(f"forward-map-jacobian:{backend}:{bt}:{'affine' if aff else 'noaffine'}",
                                      f"log N(forward(x)) + reported log|dz/dx| = {base[i] + ljf_[i]} but log_prob(x) = {lpv[i]} ({state})", dict(c2, x=xv[i].tolist()))
                    xb_, ljb_ = f_.inverse(zf)
                    xb_ = np.asarray(nsutil.to_list(xb_), float).reshape(-1, d)
                    ljb_ = np.asarray(nsutil.to_list(ljb_), float).reshape(-1)
                    tolx = (5e-3 if width == "float32" else 1e-6) * (1 + np.abs(xv[:40]))
                    if np.any((np.abs(xb_ - xv[:40]) > tolx) & ins[:, None]) or np.any((np.abs(ljb_ + ljf_) > tol2) & ins):
                        ctx.violation(f"inverse-map:{backend}:{bt}:{'affine' if aff else 'noaffine'}",
                                      f"inverse(forward(x)) != x or inverse log-Jacobian != - forward log-Jacobian ({state})", c2)
                except StopIteration:
                    pass
                except Exception as e:
                    ctx.violation(f"flow-map-raises:{backend}:{state}:{type(e).__name__}", f"forward / inverse of the flow raised {type(e).__name__}: {str(e)[:200]}", c2)
                if len(ctx.samples) < 3:
                    ctx.sample(dict(c2, max_abs_diff=float(np.max(np.abs(lqv - lpv)))))
                # quadrature over the support
                if state not in ("trained", "refitted") and ctx.quick:
                    continue
                logp = lambda pts: np.asarray(nsutil.to_list(f_.log_prob(pts.astype(width))), float).reshape(-1)
                if bt:
                    a_, b_ = lo, hi
                else:
                    # window from exact draws: untrained flows can have scale ~10 (a fixed window lost 11% of the mass: false alarm, seed 2)
                    xw = np.asarray(nsutil.to_list(f_.sample_and_log_prob(4000)[0]), float).reshape(-1, d)
                    sdw = xw.std(axis=0) + 1e-3
                    a_, b_ = xw.min(axis=0) - 4 * sdw, xw.max(axis=0) + 4 * sdw
                if d == 2:
                    # a grid can only integrate what it resolves: an (untrained) flow may concentrate on a ridge far thinner than the
                    # grid step in some direction (false alarm, thorough seed 3: integral 6.5e-7). Not checked then, and counted.
                    xr_ = np.asarray(nsutil.to_list(f_.sample_and_log_prob(2000)[0]), float).reshape(-1, 2)
                    thin = float(np.sqrt(max(np.linalg.eigvalsh(np.cov(xr_.T)).min(), 0.0)))
                    step = float(np.max((np.asarray(b_, float) - np.asarray(a_, float)) / ((201 if bt else 401) - 1)))
                    if thin < 6 * step:
                        ctx.extra["quadrature_skipped_unresolvable"] = ctx.extra.get("quadrature_skipped_unresolvable", 0) + 1
                        continue
                try:
                    I = quad_1d(logp, a_[0], b_[0], 4001 if bt else 24001, bounded=bool(bt)) if d == 1 else \
                        quad_2d(logp, a_, b_, 201 if bt else 401, bounded=bool(bt))
                    # mass the flow puts inside the clip margin (estimated from exact draws): there the clipped density is
                    # not the push-forward, so the interior integral is 1 - (that mass)
                    p_margin = 0.0
                    sd = 0.0
                    if bt:
                        xm = np.asarray(nsutil.to_list(f_.sample_and_log_prob(4000)[0]), float).reshape(-1, d)
                        um = (xm - lo) / (hi - lo)
                        p_margin = float(np.mean(np.any((um < 2e-6) | (um > 1 - 2e-6), axis=1)))
                        sd = (p_margin * (1 - p_margin) / 4000) ** 0.5
                except Exception as e:
                    ctx.violation(f"quadrature-raises:{backend}:{type(e).__name__}", f"log_prob on a grid raised {e!r}", c2)
                    continue
                qtol = (3e-2 if width == "float32" else 4e-3) * (1 if d == 1 else 3) + 6 * sd + (1e-3 if p_margin > 0 else 0)
                if not abs(I + p_margin - 1.0) <= qtol:
                    ctx.violation(f"not-normalised:{backend}:{bt}:{'affine' if aff else 'noaffine'}",
                                  f"integral of exp(log_prob) over the support (outside the clip margin) = {I}, mass drawn inside the margin = {p_margin} ({state}, dims {d})", c2)
                ctx.extra.setdefault("integrals", []).append(round(I, 5))
    finally:
        shutil.rmtree(root, ignore_errors=True)
