"""C19 — temporary overrides are fully restored on every exit path."""
import os
import re
import shutil
import tempfile

import numpy as np

from harness import common, nsutil
from harness import smcdrive as sd


class Boom(Exception):
    pass


class BoomBase(BaseException):
    """A user-defined exception outside the Exception hierarchy (like KeyboardInterrupt, SystemExit, CancelledError)."""


# "every exit path": what leaves the body rotates over the program index
EXIT_KINDS = [Boom, KeyboardInterrupt, BoomBase, SystemExit, Boom, GeneratorExit]


class FakePool:
    def __init__(self, k, log):
        self.k, self.log = k, log
        self.closed = False

    def map(self, f, it):
        return list(map(f, it))

    def close(self):
        self.log.append(("close", self.k))
        self.closed = True

    def join(self):
        self.log.append(("join", self.k))


def gen_prog(rng, depth):
    """Random program over the two contexts with Raise / SampleInside leaves."""
    r = rng.random()
    if depth == 0 or r < 0.15:
        return rng.choice([("skip",), ("raise",), ("sample",), ("skip",)])
    if r < 0.35:
        return ("seq", gen_prog(rng, depth - 1), gen_prog(rng, depth - 1))
    if r < 0.7:
        return ("pool", rng.choice([None, rng.randrange(1, 9), rng.randrange(1, 9)]), rng.random() < 0.6, rng.random() < 0.4, gen_prog(rng, depth - 1))
    return ("auto", rng.randrange(1, 4), rng.choice([1, 2, 5]), rng.random() < 0.7, rng.random() < 0.7, gen_prog(rng, depth - 1))


def enum_progs(depth):
    """Exhaustive small programs: every nesting of the two contexts up to `depth` with each leaf."""
    leaves = [("skip",), ("raise",), ("sample",), ("seq", ("sample",), ("raise",)), ("seq", ("raise",), ("sample",))]
    if depth == 0:
        return leaves
    inner = enum_progs(depth - 1)
    out = list(leaves)
    for b in inner:
        out.append(("pool", 1, True, False, b))
        out.append(("pool", 2, False, True, b))
        out.append(("auto", 1, 1, True, True, b))
    return out


def to_coq(p):
    k = p[0]
    if k == "skip":
        return "Skip"
    if k == "raise":
        return "Raise"
    if k == "sample":
        return "SampleInside"
    if k == "seq":
        return f"(Seq {to_coq(p[1])} {to_coq(p[2])})"
    if k == "pool":
        pool = "None" if p[1] is None else f"(Some {p[1]})"
        return f"(WithPool {pool} {'true' if p[2] else 'false'} {'true' if p[3] else 'false'} {to_coq(p[4])})"
    return f"(WithAuto {p[1]} {p[2]} {'true' if p[3] else 'false'} {'true' if p[4] else 'false'} {to_coq(p[5])})"


def run(ctx):
    from aspire import Aspire
    common.standard_prove(ctx, gen_targets=[])
    ctx.rule = ("programs over {enable_pool(pool|None, close_pool, parallelize_prior), auto_checkpoint(path, every, save_config, "
                "save_flow), the body left by an exception (rotating over Exception, KeyboardInterrupt, SystemExit, GeneratorExit and a user BaseException subclass), sample_posterior inside the body}: exhaustive nestings to depth 2 (quick) / 3 "
                "(thorough) with every leaf, plus random programs to depth 5 from random.Random(VERIF_SEED); each program is executed on a "
                "real Aspire instance with fake pools; afterwards log_likelihood / log_prior must be the original objects, "
                "_checkpoint_defaults the original object with its original contents (or absent), pools closed exactly when asked; the "
                "outcome, the close log and the instance state are also compared with the Coq model (vm_compute); distinct = program")
    ctx.trust("functools.partial wrappers are compared by object identity; FakePool stands in for multiprocessing.Pool")
    NS = nsutil.namespaces()
    progs = enum_progs(ctx.scale(2, 3))
    for _ in range(ctx.scale(120, 1500)):
        progs.append(gen_prog(ctx.rng, ctx.rng.choice([2, 3, 4, 5])))
    rows = []
    root = tempfile.mkdtemp(prefix="c19_", dir=str(common.WORK))
    nrun = 0
    try:
        for pi, prog in enumerate(progs):
            tgt = sd.Target(1)

            def ll(samples, map_fn=map):
                return tgt.log_likelihood(samples)

            def lp(samples, map_fn=map):
                return tgt.log_prior(samples)
            a = Aspire(log_likelihood=ll, log_prior=lp, dims=1, parameters=["x_0"], flow=sd.FakeFlow(1), xp=NS["numpy"], flow_backend="fake")
            preset = (pi % 5 == 0)
            if preset:   # an outer default installed beforehand (e.g. by resume_from_file)
                a._checkpoint_defaults = {"path": os.path.join(root, f"pre{pi}.h5"), "every": 7, "save_config": False, "save_flow": False,
                                          "saved_config": False, "saved_flow": False}
            before_defaults_obj = getattr(a, "_checkpoint_defaults", None)
            before_defaults = dict(before_defaults_obj) if before_defaults_obj is not None else None
            log = []
            paths = {}

            def path_of(k):
                paths.setdefault(k, os.path.join(root, f"p{pi}_{k}.h5"))
                return paths[k]

            # "on entry" means when the context is ENTERED, not when its object was made: in a third of the programs every context
            # object is built up front (ExitStack style) and entered later, possibly inside other contexts
            prebuilt_mode = (pi % 3 == 1)
            exc_kind = EXIT_KINDS[(pi // 2) % len(EXIT_KINDS)]
            level_bad = []

            def make_cm(p):
                if p[0] == "pool":
                    pool = None if p[1] is None else FakePool(p[1], log)
                    return a.enable_pool(pool, close_pool=p[2], parallelize_prior=p[3])
                return a.auto_checkpoint(path_of(p[1]), every=p[2], save_config=p[3], save_flow=p[4])

            prebuilt = {}

            def prebuild(p):
                if p[0] == "seq":
                    prebuild(p[1])
                    prebuild(p[2])
                elif p[0] in ("pool", "auto"):
                    prebuilt[id(p)] = make_cm(p)
                    prebuild(p[-1])
            if prebuilt_mode:
                prebuild(prog)

            def execp(p):
                k = p[0]
                if k == "skip":
                    return
                if k == "raise":
                    raise exc_kind()
                if k == "sample":
                    out_ = a.sample_posterior(3, sampler="importance")
                    # inside any nesting of contexts (pool-mapped callables included) the values stored with the returned points are
                    # still the user's likelihood and prior AT those points
                    xs_ = np.asarray(nsutil.to_list(out_.x), float).reshape(-1, 1)
                    gl = np.asarray(nsutil.to_list(out_.log_likelihood), float).reshape(-1)
                    gp = np.asarray(nsutil.to_list(out_.log_prior), float).reshape(-1)
                    if not (np.allclose(gl, tgt.L(xs_), rtol=1e-9, atol=1e-9) and np.allclose(gp, tgt.Pi(xs_), rtol=1e-9, atol=1e-9)):
                        level_bad.append(("sample_posterior inside " + to_coq(prog)[:60], ["stored log_likelihood / log_prior are not the user's functions at the stored points",
                                                                                      gl[:2].tolist(), tgt.L(xs_)[:2].tolist()]))
                    return
                if k == "seq":
                    execp(p[1])
                    execp(p[2])
                    return
                cm = prebuilt[id(p)] if prebuilt_mode else make_cm(p)
                ent = (a.log_likelihood, a.log_prior, getattr(a, "_checkpoint_defaults", None))
                try:
                    with cm:
                        execp(p[-1])
                finally:
                    # leaving THIS context (normally or not) puts back what was there when it was entered
                    now = (a.log_likelihood, a.log_prior, getattr(a, "_checkpoint_defaults", None))
                    if now[0] is not ent[0] or now[1] is not ent[1] or now[2] is not ent[2]:
                        level_bad.append((to_coq(p)[:80], [n is e for n, e in zip(now, ent)]))
            outcome = "Normal"
            err = None
            try:
                execp(prog)
            except BaseException as e:
                if type(e) is exc_kind:
                    outcome = "Exn"
                else:
                    outcome = "Other"
                    err = repr(e)
            nrun += 1
            ctx.count(repr(prog), prog[0] in ("pool", "auto"), kind=prog[0])
            case = {"program": to_coq(prog), "preset_defaults": preset, "context_objects_built_up_front": prebuilt_mode, "raised_in_body": exc_kind.__name__}
            if level_bad:
                ctx.violation("level-not-restored" + (":prebuilt" if prebuilt_mode else "") + ("" if issubclass(exc_kind, Exception) else ":base-exception"),
                              f"leaving {level_bad[0][0]}: (log_likelihood, log_prior, defaults) identical to their values on entry: {level_bad[0][1]}", case)
            if len(ctx.samples) < 3 and prog[0] in ("pool", "auto") and "Raise" in to_coq(prog):
                ctx.sample(dict(case, outcome=outcome))
            if outcome == "Other":
                ctx.violation(f"unexpected-exception:{err.split('(')[0]}", f"program raised {err}", case)
                continue
            if a.log_likelihood is not ll or a.log_prior is not lp:
                ctx.violation("callable-not-restored", f"after the program log_likelihood is original: {a.log_likelihood is ll}, log_prior: {a.log_prior is lp}", case)
            after_obj = getattr(a, "_checkpoint_defaults", None)
            if preset:
                # contents may legitimately change only through a SampleInside executed OUTSIDE any auto context
                if after_obj is not before_defaults_obj:
                    ctx.violation("defaults-object-not-restored", "the _checkpoint_defaults object is not the one installed before", case)
            elif after_obj is not None:
                ctx.violation("defaults-not-removed", f"_checkpoint_defaults left behind: {after_obj}", case)
            closes = [k for (w, k) in log if w == "close"]
            # a pool that is closed is also joined, right after (PoolHandler.__exit__)
            for j, (w_, k_) in enumerate(log):
                if w_ == "close" and not (j + 1 < len(log) and log[j + 1] == ("join", k_)):
                    ctx.violation("pool-closed-not-joined", f"pool {k_} was closed but not joined", case)
                    break
            # model row
            ds = "None"
            if preset:
                ds = "(Some {| d_path := 99; d_every := 7; d_save_config := false; d_save_flow := false; d_saved_config := false; d_saved_flow := false |})"
            exp_def = "None"
            if after_obj is not None:
                exp_def = (f"(Some (99, {after_obj['every']}, {str(bool(after_obj['save_config'])).lower()}, {str(bool(after_obj['save_flow'])).lower()}, "
                           f"{str(bool(after_obj['saved_config'])).lower()}, {str(bool(after_obj['saved_flow'])).lower()}))")
            rows.append(f"chk {to_coq(prog)} {ds} {outcome} [{'; '.join(str(k) for k in closes)}] {exp_def}")
        # the SAME handler object entered again while it is active (pool kept open), then left twice — normally and by an exception:
        # what is put back at the end is what was there before the first entry
        for how in ("normal", "exception"):
            tgt = sd.Target(1)

            def ll2(samples, map_fn=map):
                return tgt.log_likelihood(samples)

            def lp2(samples, map_fn=map):
                return tgt.log_prior(samples)
            a = Aspire(log_likelihood=ll2, log_prior=lp2, dims=1, parameters=["x_0"], flow=sd.FakeFlow(1), xp=NS["numpy"], flow_backend="fake")
            h = a.enable_pool(FakePool(1, []), close_pool=False, parallelize_prior=True)
            ctx.count(("re-entered-handler", how), True, kind="pool/same-handler-entered-twice")
            try:
                with h:
                    with h:
                        if how == "exception":
                            raise Boom()
            except Boom:
                pass
            if a.log_likelihood is not ll2 or a.log_prior is not lp2:
                ctx.violation("callable-not-restored:same-handler-entered-twice", f"enable_pool handler entered twice (nested) and left ({how}): log_likelihood is the "
                              f"original: {a.log_likelihood is ll2}, log_prior: {a.log_prior is lp2}", {"program": "with h: with h: ...", "left_by": how})
    finally:
        shutil.rmtree(root, ignore_errors=True)
    t = """From Coq Require Import List Bool Arith.
From AV Require Import Model.Contexts.
Import ListNotations.
Fixpoint nl (a b : list nat) : bool := match a, b with [], [] => true | x :: a', y :: b' => Nat.eqb x y && nl a' b' | _, _ => false end.
Definition oeq (o1 o2 : outcome) : bool := match o1, o2 with Normal, Normal | Exn, Exn => true | _, _ => false end.
Definition deq (d : option defaults) (e : option (nat * nat * bool * bool * bool * bool)) : bool :=
  match d, e with
  | None, None => true
  | Some d, Some (p, ev, sc, sf, c1, c2) => Nat.eqb (d_every d) ev && Bool.eqb (d_save_config d) sc && Bool.eqb (d_save_flow d) sf
                                           && Bool.eqb (d_saved_config d) c1 && Bool.eqb (d_saved_flow d) c2
  | _, _ => false end.
Definition chk (p : prog) (d0 : option defaults) (o : outcome) (closed : list nat) (dexp : option (nat * nat * bool * bool * bool * bool)) : bool :=
  let w0 := {| w_inst := {| i_ll := []; i_lp := []; i_defaults := d0 |}; w_closed := []; w_flow_in_file := [] |} in
  let '(w, o') := exec p w0 in
  oeq o o' && nl (w_closed w) closed && nl (i_ll (w_inst w)) [] && nl (i_lp (w_inst w)) [] && deq (i_defaults (w_inst w)) dexp.
"""
    shards = [rows[i:i + 400] for i in range(0, len(rows), 400)]
    texts = [(f"C19_{i}", t + "Eval vm_compute in ([" + ";\n ".join(sh) + "]).\n") for i, sh in enumerate(shards)]
    outs = common.coq_eval_many(texts)
    bad = []
    okall = True
    base = 0
    for (ok, out), sh in zip(outs, shards):
        if not ok:
            okall = False
            bad.append(out[-800:])
            continue
        flags = re.findall(r"true|false", common.parse_eval_lists(out)[0])
        for i, f in enumerate(flags):
            if f == "false":
                bad.append(sh[i])
        base += len(sh)
    ctx.oblig("correspondence:programs-vs-Model/Contexts", okall and not bad, f"{len(bad)} programs differ; first: {bad[:2]}")
    ctx.traces = len(rows)
    ctx.extra["programs_run"] = nrun
