"""C04 — parameter transforms are bijections with exact log-Jacobians."""
import json
import math
import re

import numpy as np

from harness import common, nsutil

GEN = ["periodic_", "logit_t_", "probit_t_", "affine_", "logit", "sigmoid", "composite_order"]


def fd_logdet(f, x, h):
    d = len(x)
    J = np.zeros((d, d))
    for j in range(d):
        e = np.zeros(d)
        e[j] = h[j]
        J[:, j] = (f(x + e) - f(x - e)) / (2 * h[j])
    s, ld = np.linalg.slogdet(J)
    return ld


def run(ctx):
    import mpmath as mp
    mp.mp.dps = 40
    from aspire.transforms import (AffineTransform, CompositeTransform, LogitTransform, PeriodicTransform, ProbitTransform)
    common.standard_prove(ctx, gen_targets=GEN)
    irf = common.COQ / "Gen" / "transforms_ir.json"
    irall = json.loads(irf.read_text())["ir"] if irf.exists() else {}
    kf = common.COQ / "Gen" / "kernels_ir.json"
    if kf.exists():
        irall.update(json.loads(kf.read_text())["ir"])
    import translate
    _ev = translate.make_evaluator(irall)

    class IRUnavailable(Exception):
        """the translator produced no definition of that name (a broken obligation of its own): not a behaviour of the implementation"""

    def ev(name, *a, **k):
        if name not in irall:
            raise IRUnavailable(name)
        return _ev(name, *a, **k)
    NS = nsutil.namespaces()
    ctx.rule = ("transform class in {Periodic, Logit, Probit, Affine, Composite with every on/off combination} x bounds lower<upper with widths "
                "1e-8..1e8 and offsets to 1e8 x interior points down to the clipping margin (and any real for wrapping, including adversarial "
                "offsets of a few ulp) x batch shapes x {numpy,torch,jax} x {float32,float64}, from random.Random(VERIF_SEED); each case = one "
                "transform instance on a batch: round trips, reported log-Jacobian vs central finite differences (float64) and vs the mpmath "
                "evaluation of the translated definitions, inverse log-Jacobian = - forward, fit = forward, wrap range; "
                "distinct = (class, config, ns, dtype, bounds, batch)")
    ctx.trust("scipy.special.erf / erfinv are mutual inverses with erf' = 2/sqrt(pi) exp(-x^2) (Section hypotheses of the probit theorems)",
              "ln|det| of a coordinatewise map is the sum of ln|f_i'| (all shipped transforms are coordinatewise)",
              "binary32/64 rounding is outside the exact-real theorems; the differential uses tolerances scaled by the condition of the map")
    tie = {}

    def tie_set(name, ok, detail=""):
        tie.setdefault(name, [True, ""])
        if not ok and tie[name][0]:
            tie[name] = [False, detail]

    def close(a, b, rel, ab=0.0):
        a, b = np.asarray(a, float), np.asarray(b, float)
        return bool(np.all(np.abs(a - b) <= ab + rel * np.maximum(np.abs(a), np.abs(b))))

    nrep = ctx.scale(24, 200)
    for rep in range(nrep):
        kind = ctx.rng.choice(["periodic", "logit", "probit", "affine"])
        nsname = ctx.rng.choice(["numpy", "torch", "jax"])
        width = ctx.rng.choice(["float64", "float64", "float32"])
        if rep in (1, 3):           # always present: the bounded maps in single precision (with a point close to the upper bound, below)
            kind, width = ("logit" if rep == 1 else "probit"), "float32"
        xp, dt = NS[nsname], nsutil.native_dtype(nsname, width)
        eps_m = nsutil.eps_of(width)
        d = ctx.rng.choice([1, 2, 4])
        n = ctx.rng.choice([1, 3, 16])
        wscale = 10.0 ** ctx.rng.choice([-8, -3, 0, 0, 2, 8] if width == "float64" else [-3, 0, 0, 2, 4])
        off = ctx.rng.choice([0.0, 0.0, 1.0, -1e3, 1e8 if width == "float64" else 1e3]) * (1 if wscale >= 1e-3 else 0)
        if rep in (1, 3):
            off = 0.0
        if eps_m * abs(off) / wscale > 1e-4:
            off = 0.0        # an interval of width w at offset c holds about w / (eps |c|) numbers of that width: below ~1e4 nothing can be checked
        lower = np.asarray([off + wscale * ctx.rng.uniform(-1, 0) for _ in range(d)])
        upper = lower + wscale * np.asarray([ctx.rng.uniform(0.5, 2.0) for _ in range(d)])
        w = upper - lower
        clip = 1e-6
        rngn = np.random.default_rng(ctx.rng.randrange(1 << 30))
        margin = 2e-6 if width == "float64" else 1e-3
        u = rngn.uniform(margin, 1 - margin, size=(n, d))
        if rep % 3 == 0:
            u[0] = margin                       # right at the documented clipping margin
        if width == "float32" and off == 0.0 and kind in ("logit", "probit") and rep % 2 == 1:
            # single precision close to the UPPER bound (well outside the clipping margin of 1e-6, where 1 - u still has three digits):
            # the inverse map's log-Jacobian must come from y, not from the rounded sigmoid(y)
            u[-1] = 1 - 2e-5
        x = lower + u * w
        case = {"class": kind, "ns": nsname, "dtype": width, "dims": d, "batch": n, "lower": lower.tolist(), "upper": upper.tolist()}
        ctx.count(json.dumps(case, sort_keys=True), True, kind=f"{kind}/{nsname}/{width}")
        if len(ctx.samples) < 4:
            ctx.sample(dict(case, x0=x[0].tolist()))
        tol = 64 * eps_m * (1 + abs(off) / wscale)      # conditioning of (x - lower)/width
        try:
            if kind == "periodic":
                T = PeriodicTransform(lower, upper, xp=xp, dtype=dt)
                xx = lower + rngn.uniform(-3, 4, size=(n, d)) * w            # any real number
                xin = xp.asarray(xx, dtype=dt)
                y, lj = T.forward(xin)
                yv = np.asarray(nsutil.to_list(y), float).reshape(n, d)
                lo, up = np.asarray(nsutil.to_list(T.lower), float), np.asarray(nsutil.to_list(T.upper), float)
                if not (np.all(yv >= lo) and np.all(yv < up)):
                    ctx.violation(f"periodic-range:{width}", f"wrapped values leave [lower, upper): {yv[(yv < lo) | (yv >= up)][:3]}", dict(case, x=xx.tolist()))
                k = (np.asarray(nsutil.to_list(xin), float).reshape(n, d) - yv) / (up - lo)
                if not np.all(np.abs(k - np.round(k)) <= 1e-3 if width == "float32" else np.abs(k - np.round(k)) <= 1e-6 * (1 + np.abs(k)) + 64 * eps_m * (abs(off) + np.abs(xx).max()) / wscale):
                    ctx.violation("periodic-not-modulo", "wrapped value differs from x by a non-integer number of periods", dict(case, x=xx.tolist()))
                ljp = np.asarray(nsutil.to_list(lj), float).reshape(-1)
                if np.any(ljp != 0) or len(ljp) != n:
                    ctx.violation("periodic-logj", f"periodic log-Jacobian is not a vector of {n} zeros (one per row): {ljp[:5]} (length {len(ljp)})", case)
                y2, _ = T.inverse(y)
                if not np.array_equal(np.asarray(nsutil.to_list(y2), float).reshape(n, d), yv):
                    ctx.violation("periodic-inverse", "inverse(forward(x)) != forward(x)", case)
                if not np.array_equal(np.asarray(nsutil.to_list(T.fit(xin)), float).reshape(n, d), yv):
                    ctx.violation("fit-not-forward:periodic", "fit(x) != forward(x)", case)
                # adversarial: a few ulp below lower / above upper (binary rounding of the modulo)
                for j in range(4):
                    tiny = np.nextafter(lo, -np.inf) if j == 0 else lo - np.abs(lo) * eps_m * (j + 1) - 10.0 ** (-17 - j)
                    ya, _ = T.forward(xp.asarray(tiny[None, :], dtype=dt))
                    ya = np.asarray(nsutil.to_list(ya), float).reshape(-1)
                    if np.any(ya >= up) or np.any(ya < lo):
                        ctx.violation("periodic-range-f64:tiny-negative-offset", f"forward(lower - tiny) = {ya.tolist()} is not in [lower, upper) = [{lo.tolist()}, {up.tolist()})",
                                      dict(case, x=tiny.tolist()))
                        break
                if width == "float64" and irall:
                    row = xx[0]
                    g = ev("periodic_forward_y", x=[mp.mpf(v) for v in row], lower=[mp.mpf(v) for v in lo], upper=[mp.mpf(v) for v in up])
                    gv = np.asarray([float(t) for t in g])
                    # the exact-real wrap and the binary one may differ by one period at a rounding boundary
                    dk = (gv - yv[0]) / (up - lo)
                    tie_set("periodic_forward_y", bool(np.all(np.minimum(np.abs(dk), np.abs(np.abs(dk) - 1)) <= 1e-6 + 64 * eps_m * (abs(off) + np.abs(row).max()) / wscale)), json.dumps(case))
                continue
            if kind == "affine":
                T = AffineTransform(xp=xp, dtype=dt)
                data = xp.asarray(x if n > 1 else np.vstack([x, x + 0.5 * w]), dtype=dt)
                if width == "float64" and ctx.rng.random() < 0.5:
                    # a parameter in tiny physical units (a strain amplitude, a mass ratio known to nine digits): one coordinate's
                    # spread is 1e-9 ... 1e-11 of the others'
                    tiny = 10.0 ** -ctx.rng.choice([9, 10, 11])
                    dnp = np.asarray(nsutil.to_list(data), float)
                    dnp[:, 0] = dnp[:, 0] * tiny
                    data = xp.asarray(dnp, dtype=dt)
                    case = dict(case, first_coordinate_scaled_by=tiny)
                    ctx.extra["affine_fits_with_a_tiny_scale_coordinate"] = ctx.extra.get("affine_fits_with_a_tiny_scale_coordinate", 0) + 1
                if rep % 2 == 1:
                    # the same object was fitted before on data of another spread: what follows is about the LAST fit
                    prev = np.asarray(nsutil.to_list(data), float) * 7.5 + 3.0
                    T.fit(xp.asarray(prev, dtype=dt))
                    T.forward(xp.asarray(prev, dtype=dt))
                    case = dict(case, fitted_before_on_data_scaled_by=7.5)
                yfit = T.fit(data)
                y, lj = T.forward(data)
                if not np.array_equal(np.asarray(nsutil.to_list(yfit), float), np.asarray(nsutil.to_list(y), float)):
                    ctx.violation("fit-not-forward:affine", "fit(x) != forward(x)", case)
                xb, ljb = T.inverse(y)
                mean = np.asarray(nsutil.to_list(T._mean), float)
                std = np.asarray(nsutil.to_list(T._std), float)
                dv = np.asarray(nsutil.to_list(data), float)
                if not close(nsutil.to_list(xb), dv, 256 * eps_m * (1 + np.abs(mean).max() / max(std.min(), 1e-300)), 0):
                    ctx.violation(f"roundtrip:affine:{width}", "inverse(forward(x)) != x", case)
                want = -np.sum(np.log(np.abs(std)))
                ljv = np.asarray(nsutil.to_list(lj), float)
                if not close(ljv, np.full_like(ljv, want), 1e-5 if width == "float32" else 1e-10, 1e-5 if width == "float32" else 1e-10):
                    ctx.violation("logj:affine", f"forward log-Jacobian {ljv[0]} != -sum ln|std| = {want}", case)
                if not close(nsutil.to_list(ljb), -ljv, 1e-6, 1e-6):
                    ctx.violation("inverse-logj:affine", "inverse log-Jacobian != - forward", case)
                # the derivative itself, not the object's own account of it: the map is affine per coordinate, so two rows with distinct
                # coordinates give its slope exactly
                yv_ = np.asarray(nsutil.to_list(y), float)
                if width == "float64" and dv.shape[0] >= 2:
                    i1 = int(np.argmax(np.min(np.abs(dv - dv[0]), axis=1)))
                    dx_ = dv[i1] - dv[0]
                    if np.all(np.abs(dx_) > 1e-3 * np.abs(std)):
                        slope_logdet = float(np.sum(np.log(np.abs((yv_[i1] - yv_[0]) / dx_))))
                        if not close(ljv[0], slope_logdet, 1e-6, 1e-6):
                            ctx.violation("logj-vs-slope:affine", f"forward log-Jacobian {ljv[0]} but the map's own slope gives log|det| = {slope_logdet}", case)
                if width == "float64" and irall:
                    A = dict(x=[mp.mpf(v) for v in dv[0]], mean=[mp.mpf(v) for v in mean], std=[mp.mpf(v) for v in std])
                    tie_set("affine_forward_y", close([float(t) for t in ev("affine_forward_y", **A)], np.asarray(nsutil.to_list(y), float)[0], 1e-9, 1e-9 * (1 + np.abs(mean).max() / std.min())), json.dumps(case))
                    tie_set("affine_forward_logj", close(float(ev("affine_forward_logj", **A)), ljv[0], 1e-9, 1e-9), json.dumps(case))
                    B = dict(y=[mp.mpf(v) for v in np.asarray(nsutil.to_list(y), float)[0]], mean=A["mean"], std=A["std"])
                    tie_set("affine_inverse_logj", close(float(ev("affine_inverse_logj", **B)), np.asarray(nsutil.to_list(ljb), float)[0], 1e-9, 1e-9), json.dumps(case))
                continue
            cls_ = LogitTransform if kind == "logit" else ProbitTransform
            T = cls_(lower, upper, xp=xp, eps=clip, dtype=dt)
            xin = xp.asarray(x, dtype=dt)
            y, lj = T.forward(xin)
            xb, ljb = T.inverse(y)
            xv = np.asarray(nsutil.to_list(xin), float).reshape(n, d)
            yv = np.asarray(nsutil.to_list(y), float).reshape(n, d)
            ljv = np.asarray(nsutil.to_list(lj), float).reshape(-1)
            xbv = np.asarray(nsutil.to_list(xb), float).reshape(n, d)
            lo = np.asarray(nsutil.to_list(T.lower), float)
            up = np.asarray(nsutil.to_list(T.upper), float)
            uu = (xv - lo) / (up - lo)
            interior = (uu > clip * 1.5) & (uu < 1 - clip * 1.5)
            # round trip in units of the width, scaled by the conditioning of the inverse map near the bounds
            cond = 1.0 / np.minimum(uu, 1 - uu).clip(1e-300)
            err = np.abs(xbv - xv) / (up - lo)
            lim = (256 * eps_m * (1 + abs(off) / wscale) + 64 * eps_m * np.abs(yv).clip(1)) * np.ones_like(err)
            if np.any((err > lim) & interior):
                i = np.argwhere((err > lim) & interior)[0]
                ctx.violation(f"roundtrip:{kind}:{width}", f"inverse(forward(x)) differs from x by {err[tuple(i)]} widths (u={uu[tuple(i)]})", dict(case, x=x.tolist()))
            if not close(nsutil.to_list(ljb), -ljv, 1e-4 if width == "float32" else 1e-9, 1e-3 if width == "float32" else 1e-8):
                ctx.violation(f"inverse-logj:{kind}", "inverse log-Jacobian at forward(x) != - forward log-Jacobian", case)
            if not np.array_equal(np.asarray(nsutil.to_list(T.fit(xin)), float).reshape(n, d), yv):
                ctx.violation(f"fit-not-forward:{kind}", "fit(x) != forward(x)", case)
            if np.any(xbv < lo) or np.any(xbv > up):
                ctx.violation(f"inverse-outside-bounds:{kind}", "inverse image leaves the declared bounds", case)
            if width == "float64":
                # finite differences on the implementation (numpy float64 copy of the transform)
                Tn = cls_(lo, up, xp=NS["numpy"], eps=clip)
                f = lambda r: np.asarray(Tn.forward(np.asarray([r]))[0][0], float)
                for i in range(min(n, 3)):
                    if not np.all(interior[i]) or np.any(np.minimum(uu[i], 1 - uu[i]) < 1e-4):
                        continue
                    h = (up - lo) * np.minimum(uu[i], 1 - uu[i]) * 1e-5
                    fd = fd_logdet(f, xv[i], h)
                    if abs(fd - ljv[i]) > 1e-5 * (1 + abs(fd)) + 1e-6 * abs(off) / wscale:
                        ctx.violation(f"logj-vs-derivative:{kind}", f"reported log|det J| {ljv[i]} vs finite differences {fd}", dict(case, x=xv[i].tolist()))
                if irall:
                    pre = "logit_t" if kind == "logit" else "probit_t"
                    for i in range(min(n, 2)):
                        if not np.all(interior[i]):
                            continue
                        A = dict(x=[mp.mpf(v) for v in xv[i]], lower=[mp.mpf(v) for v in lo], upper=[mp.mpf(v) for v in up], eps=mp.mpf(clip))
                        gy = np.asarray([float(t) for t in ev(pre + "_forward_y", **A)])
                        gj = float(ev(pre + "_forward_logj", **A))
                        c = 64 * eps_m * (1 + abs(off) / wscale) * cond[i].max()
                        tie_set(pre + "_forward_y", close(gy, yv[i], 1e-9 + c, 1e-9 + c), json.dumps(case))
                        tie_set(pre + "_forward_logj", close(gj, ljv[i], 1e-9 + c, 1e-9 + c * d), json.dumps(case))
                        B = dict(y=[mp.mpf(v) for v in yv[i]], lower=A["lower"], upper=A["upper"], eps=A["eps"])
                        gx = np.asarray([float(t) for t in ev(pre + "_inverse_y", **B)])
                        tie_set(pre + "_inverse_y", bool(np.all(np.abs(gx - xbv[i]) / (up - lo) <= 1e-9 + c)), json.dumps(case))
                        tie_set(pre + "_inverse_logj", close(float(ev(pre + "_inverse_logj", **B)), np.asarray(nsutil.to_list(ljb), float).reshape(-1)[i], 1e-9, 1e-8), json.dumps(case))
        except IRUnavailable as e:
            tie_set(str(e), False, f"no translated definition {e} to compare with (see the translate:* obligations)")
        except Exception as e:
            ctx.violation(f"raises:{kind}:{nsname}:{width}:{type(e).__name__}", f"{kind} transform raised {e!r}", case)
    # ---------------- affine fit when one parameter lives on a tiny scale (strain amplitudes, a ratio known to nine digits): the reported
    # log-Jacobian is the log|det| of the map that forward() really applies, measured from the map's own slope between two rows
    for nsname in NS:
        xp_ = NS[nsname]
        dt_ = nsutil.native_dtype(nsname, "float64")
        for tiny in (1e-6, 1e-9, 1e-10, 1e-12):
            d_ = ctx.rng.choice([1, 2, 3])
            dnp = np.array([[ctx.rng.gauss(0.3, 1.7) for _ in range(d_)] for _ in range(12)], float)
            dnp[:, 0] = 4e-7 + dnp[:, 0] * tiny
            case = {"class": "affine", "ns": nsname, "dims": d_, "spread_of_first_coordinate": tiny, "dtype": "float64"}
            ctx.count(("affine-tiny", nsname, tiny, d_), True, kind="affine/tiny-scale-coordinate")
            try:
                T = AffineTransform(xp=xp_, dtype=dt_)
                T.fit(xp_.asarray(dnp, dtype=dt_))
                y_, lj_ = T.forward(xp_.asarray(dnp, dtype=dt_))
                xb_, ljb_ = T.inverse(y_)
                yv_ = np.asarray(nsutil.to_list(y_), float)
                ljv_ = np.asarray(nsutil.to_list(lj_), float).reshape(-1)
                i1 = int(np.argmax(np.min(np.abs(dnp - dnp[0]), axis=1)))
                slope = (yv_[i1] - yv_[0]) / (dnp[i1] - dnp[0])
                want_ = float(np.sum(np.log(np.abs(slope))))
                if not close(ljv_[0], want_, 1e-6, 1e-6):
                    ctx.violation("logj-vs-slope:affine:tiny-scale", f"forward log-Jacobian {ljv_[0]} but the slope of forward() gives log|det| = {want_}", case)
                if not close(np.asarray(nsutil.to_list(ljb_), float).reshape(-1), -ljv_, 1e-9, 1e-9):
                    ctx.violation("inverse-logj:affine:tiny-scale", "inverse log-Jacobian != - forward", case)
                if not close(np.asarray(nsutil.to_list(xb_), float), dnp, 1e-9, 1e-9 * tiny):
                    ctx.violation("roundtrip:affine:tiny-scale", "inverse(forward(x)) != x", case)
            except Exception as e:
                ctx.violation(f"raises:affine:tiny-scale:{type(e).__name__}", f"AffineTransform on a coordinate of spread {tiny} raised {e!r}", case)
    # ---------------- composite: every on/off combination
    import itertools
    for per, bnd, bt, aff in itertools.product([False, True], [False, True], ["logit", "probit"], [False, True]):
        for nsname in ("numpy", "torch", "jax"):
            if ctx.quick and ctx.rng.random() < 0.5:
                continue
            xp = NS[nsname]
            dt = nsutil.native_dtype(nsname, "float64")
            d = 3
            params = [f"p{i}" for i in range(d)]
            bounds = {"p0": (0.0, 2 * math.pi), "p1": (-1.0, 3.0), "p2": (-np.inf, np.inf)}
            # the dictionary is written in an arbitrary order: bounds belong to parameters by NAME
            order = list(bounds)
            ctx.rng.shuffle(order)
            bounds = {k: bounds[k] for k in order}
            try:
                T = CompositeTransform(parameters=params, periodic_parameters=["p0"] if per else None, prior_bounds=bounds,
                                       bounded_to_unbounded=bnd, bounded_transform=bt, affine_transform=aff, xp=xp, dtype=dt)
                rngn = np.random.default_rng(ctx.rng.randrange(1 << 30))
                X = np.column_stack([rngn.uniform(0.1, 6.0, 20), rngn.uniform(-0.9, 2.9, 20), rngn.normal(0, 2, 20)])
                xin = xp.asarray(X, dtype=dt)
                yfit = T.fit(xin)
                y, lj = T.forward(xin)
                xb, ljb = T.inverse(y)
                case = {"class": "composite", "periodic": per, "bounded": bnd, "bounded_transform": bt, "affine": aff, "ns": nsname,
                        "prior_bounds_written_in_order": order}
                ctx.count(json.dumps(case, sort_keys=True), True, kind=f"composite/{nsname}")
                # each coordinate is mapped with ITS OWN bounds (independent closed form, no affine stage)
                if not aff:
                    yv_ = np.asarray(nsutil.to_list(y), float)
                    want1 = X[:, 1]
                    if bnd:
                        u1 = (X[:, 1] + 1.0) / 4.0
                        if bt == "logit":
                            want1 = np.log(u1) - np.log1p(-u1)
                        else:
                            from scipy.special import erfinv
                            want1 = np.sqrt(2.0) * erfinv(2 * u1 - 1)
                    want0 = X[:, 0] if not per else np.mod(X[:, 0], 2 * math.pi)
                    if bnd and not per:
                        u0 = X[:, 0] / (2 * math.pi)
                        want0 = (np.log(u0) - np.log1p(-u0)) if bt == "logit" else np.sqrt(2.0) * __import__("scipy.special", fromlist=["erfinv"]).erfinv(2 * u0 - 1)
                    if not (close(yv_[:, 1], want1, 1e-7, 1e-7) and close(yv_[:, 2], X[:, 2], 1e-9, 1e-9) and close(yv_[:, 0], want0, 1e-7, 1e-7)):
                        ctx.violation("composite-coordinate-map", "a coordinate is not mapped by the transform of its own bounds "
                                      f"(p1 -> {yv_[0, 1]} expected {want1[0]}; p0 -> {yv_[0, 0]} expected {want0[0]}; p2 -> {yv_[0, 2]} expected {X[0, 2]})", dict(case, x=X[0].tolist()))
                if not close(nsutil.to_list(xb), X, 1e-8, 1e-8):
                    ctx.violation("roundtrip:composite", "inverse(forward(x)) != x", case)
                if not close(nsutil.to_list(ljb), -np.asarray(nsutil.to_list(lj), float), 1e-9, 1e-8):
                    ctx.violation("inverse-logj:composite", "inverse log-Jacobian != - forward log-Jacobian", case)
                if not close(nsutil.to_list(yfit), nsutil.to_list(y), 0, 0):
                    ctx.violation("fit-not-forward:composite", "fit(x) != forward(x)", case)
                # finite differences through the SAME fitted transform (torch's std is the unbiased one, numpy's is not)
                f = lambda r: np.asarray(nsutil.to_list(T.forward(xp.asarray(np.asarray([r]), dtype=dt))[0]), float)[0]
                ljv = np.asarray(nsutil.to_list(lj), float)
                for i in range(3):
                    fd = fd_logdet(f, X[i], np.full(d, 1e-6))
                    if abs(fd - ljv[i]) > 1e-4 * (1 + abs(fd)):
                        ctx.violation("logj-vs-derivative:composite", f"reported {ljv[i]} vs finite differences {fd}", dict(case, x=X[i].tolist()))
            except Exception as e:
                ctx.violation(f"raises:composite:{nsname}:{type(e).__name__}", f"CompositeTransform(periodic={per}, bounded={bnd}/{bt}, affine={aff}) raised {e!r}",
                              {"periodic": per, "bounded": bnd, "bt": bt, "affine": aff, "ns": nsname})
    for k, (ok, dd) in sorted(tie.items()):
        ctx.oblig(f"correspondence:IR-vs-impl:{k}", ok, dd)
    if not tie:
        ctx.oblig("correspondence:IR-vs-impl", False, "no IR evaluated")
    periodic_binary64_tie(ctx)


def periodic_binary64_tie(ctx):
    """Model/PeriodicF.v (binary64 wrap on |x - lower| < width) against PeriodicTransform.forward, bit for bit, in the three
    namespaces; the refutation theorem C04_periodic_range_binary64_refuted is about that model."""
    from aspire.transforms import PeriodicTransform
    NS = nsutil.namespaces()
    rngn = np.random.default_rng(ctx.rng.randrange(1 << 30))
    rows = []          # (x, lo, up, expected, ns)
    ncase = ctx.scale(120, 1500)
    for i in range(ncase):
        wscale = 10.0 ** ctx.rng.choice([-6, -2, 0, 0, 1, 5])
        lo = ctx.rng.choice([0.0, 0.0, -np.pi, 1.0, -1e3, 0.1]) * (1 if wscale >= 1e-2 else 0)
        up = lo + (2 * np.pi if ctx.rng.random() < 0.4 else wscale * ctx.rng.uniform(0.5, 2.0))
        w = up - lo
        style = ctx.rng.choice(["inside", "below", "tiny-below", "tiny-above-upper", "edge"])
        if style == "inside":
            x = lo + ctx.rng.uniform(0, 1) * w
        elif style == "below":
            x = lo - ctx.rng.uniform(0, 0.999) * w
        elif style == "tiny-below":
            x = lo - abs(w) * 10.0 ** ctx.rng.uniform(-20, -14)
        elif style == "tiny-above-upper":
            x = float(np.nextafter(lo + w * (1 - 1e-16), np.inf))
        else:
            x = ctx.rng.choice([lo, float(np.nextafter(lo, -np.inf)), float(np.nextafter(lo, np.inf)), -0.0 + lo])
        if not (abs(x - lo) < w and w > 0):
            continue
        nsname = ctx.rng.choice(["numpy", "numpy", "torch", "jax"])
        if nsname == "jax" and 0 < abs(x - lo) < 2.3e-308:
            nsname = "numpy"      # XLA's CPU backend flushes subnormal numbers to zero; the model is plain IEEE binary64 (numpy, torch)
        xp, dt = NS[nsname], nsutil.native_dtype(nsname, "float64")
        T = PeriodicTransform(np.asarray([lo]), np.asarray([up]), xp=xp, dtype=dt)
        y, _ = T.forward(xp.asarray(np.asarray([[x]]), dtype=dt))
        yv = float(np.asarray(nsutil.to_list(y), float).reshape(-1)[0])
        lo_, up_ = float(np.asarray(nsutil.to_list(T.lower), float).reshape(-1)[0]), float(np.asarray(nsutil.to_list(T.upper), float).reshape(-1)[0])
        rows.append((x, lo_, up_, yv, nsname, style))
        ctx.count(("periodic-f64", x, lo_, up_, nsname), True, kind=f"periodic-binary64/{nsname}/{style}")
    lit = "; ".join(f"({common.fhex(x)}, {common.fhex(lo)}, {common.fhex(up)}, {common.fhex(e)})" for x, lo, up, e, _, _ in rows)
    text = ("From Coq Require Import Floats.PrimFloat List Bool.\nImport ListNotations.\nFrom AV Require Import Model.PeriodicF.\n"
            f"Definition cases : list (float * float * float * float) := [{lit}].\n"
            "Definition agree (c : float * float * float * float) : bool := let '(x, lo, up, e) := c in fwrap_dom x lo up && (PrimFloat.eqb (fwrap x lo up) e).\n"
            "Eval vm_compute in (map agree cases).\n")
    ok, out = common.coq_eval("C04_periodic_f64", text)
    bad = None
    if ok:
        res = common.parse_eval_lists(out)
        flags = re.findall(r"true|false", res[0]) if res else []
        if len(flags) != len(rows):
            ok = False
            out = f"expected {len(rows)} results, got {len(flags)}"
        else:
            for fl, r in zip(flags, rows):
                if fl != "true":
                    bad = r
                    break
    ctx.oblig("correspondence:binary64-model-vs-impl:periodic_forward", ok and bad is None,
              f"first differing case (x, lower, upper, implementation, namespace, style): {bad!r}" if bad else (out[-400:] if not ok else ""))
    ctx.extra["periodic_binary64_cases"] = len(rows)
    # ---------------- the caller's array: a transform of one namespace handed an array of another (emcee hands NumPy coordinates to a
    # torch transform) computes on a COPY: the input is unchanged afterwards, and a second call on it gives the same answer
    from aspire import transforms as T_
    for nsname in ("torch", "jax", "numpy"):
        xp = NS[nsname]
        dt = nsutil.native_dtype(nsname, "float64")
        names = ["w", "b", "m"]
        bounds = {"b": (-2.0, 3.0), "m": (0.5, 9.0), "w": (1.0, 11.0)}
        for kind in ("Composite", "Periodic", "Logit"):
            try:
                if kind == "Composite":
                    t = T_.CompositeTransform(parameters=names, periodic_parameters=["w"], prior_bounds=bounds, bounded_to_unbounded=True,
                                              bounded_transform="logit", affine_transform=True, xp=xp, dtype=dt)
                    x_in = np.array([[12.5, 0.5, 3.0], [0.25, -1.0, 8.0], [5.0, 2.5, 1.0], [-7.0, 1.0, 4.0]])
                elif kind == "Periodic":
                    t = T_.PeriodicTransform(lower=1.0, upper=11.0, xp=xp, dtype=dt)
                    x_in = np.array([[12.5], [0.25], [5.0], [-7.0]])
                else:
                    t = T_.LogitTransform(lower=-2.0, upper=3.0, xp=xp, dtype=dt)
                    x_in = np.array([[0.5], [-1.0], [2.5], [1.0]])
                keep = x_in.copy()
                case = {"transform": kind, "namespace": nsname, "input": "numpy.ndarray", "x": keep.tolist()}
                ctx.count(("foreign-input", kind, nsname), True, kind="callers-array/" + nsname)
                if kind == "Composite":
                    t.fit(x_in)
                    if not np.array_equal(x_in, keep):
                        ctx.violation(f"callers-array-overwritten:fit:{nsname}", f"{kind}.fit under {nsname} changed the NumPy array it was given: {x_in.tolist()}", case)
                        x_in = keep.copy()
                y1 = np.asarray(nsutil.to_list(t.forward(x_in)[0]), float)
                changed = not np.array_equal(x_in, keep)
                y2 = np.asarray(nsutil.to_list(t.forward(x_in)[0]), float)
                if changed or not np.array_equal(y1, y2):
                    ctx.violation(f"callers-array-overwritten:forward:{nsname}", f"{kind}.forward under {nsname} changed the NumPy array it was given (now {x_in.tolist()}); "
                                  f"a second forward on it gives a different image: {not np.array_equal(y1, y2)}", case)
                z_in = np.array(y1, dtype=float)
                zkeep = z_in.copy()
                t.inverse(z_in)
                if not np.array_equal(z_in, zkeep):
                    ctx.violation(f"callers-array-overwritten:inverse:{nsname}", f"{kind}.inverse under {nsname} changed the NumPy array it was given", case)
            except Exception as e:
                ctx.extra.setdefault("foreign_input_errors", []).append({"transform": kind, "ns": nsname, "error": repr(e)[:200]})
