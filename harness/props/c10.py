"""C10 — cached per-particle log-densities always belong to the particle's coordinates."""
import json
import pickle

import numpy as np

from harness import common, nsutil
from harness import smcdrive as sd

GEN = ["minipcn_mutate", "emcee_mutate", "importance_sample", "resample_rows", "base_getitem"]
KINDS = ["importance", "minipcn_smc", "emcee_smc", "minipcn", "emcee"]


def check_pop(ctx, p, tgt, flow, what, case, need_q=True, rel=1e-9):
    x = np.asarray(nsutil.to_list(p.x), float).reshape(-1, tgt.dims)
    f32 = "float32" in str(p.dtype)
    tol = 1e-4 if f32 else rel
    pairs = [("log_likelihood", tgt.L(x)), ("log_prior", tgt.Pi(x))]
    if need_q:
        pairs.append(("log_q", flow._lp(x)))
    for name, want in pairs:
        got = getattr(p, name, None)
        if got is None:
            if name == "log_q":
                continue
            ctx.violation(f"missing:{name}:{what}", f"{what}: {name} is None", case)
            continue
        got = np.asarray(nsutil.to_list(got), float).reshape(-1)
        if len(got) != len(x):
            ctx.violation(f"length:{name}:{what}", f"{what}: {len(got)} {name} values for {len(x)} rows", case)
            continue
        with np.errstate(all="ignore"):
            ok = (got == want) | (np.abs(got - want) <= tol * (1 + np.abs(want))) | (np.isnan(got) & np.isnan(want))
        if not np.all(ok):
            i = int(np.argmin(ok))
            # is it the value of ANOTHER row? (misalignment)
            other = [k for k in range(len(x)) if abs(want[k] - got[i]) <= tol * (1 + abs(want[k]))]
            ctx.violation(f"stale-or-misaligned:{name}:{what}", f"{what}: row {i} stores {name}={got[i]} but the user function at its coordinates gives {want[i]}"
                          f" (matches rows {other[:4]})", dict(case, row=i))
            return False
    return True


class ScriptedFlow(sd.FakeFlow):
    """Proposal returning predetermined batches of integer points, each with an integer tag as log-density."""

    def __init__(self, batches):
        super().__init__(1)
        self.batches = list(batches)
        self.k = 0

    def sample_and_log_prob(self, n):
        b = self.batches[self.k % len(self.batches)]
        self.k += 1
        assert len(b) == n
        return np.asarray([[float(x)] for x, q in b]), np.asarray([float(q) for x, q in b])


def run(ctx):
    common.standard_prove(ctx, gen_targets=GEN)
    ctx.rule = ("whole runs of every sampler x preconditioning x namespace x prior (normal / box with many out-of-prior draws) x "
                "n_final_samples x resume, from random.Random(VERIF_SEED); each case = one population the library hands back or records "
                "(returned samples, every history.sample_history[t], every checkpoint payload): the user likelihood, prior and the proposal "
                "density are recomputed at the stored coordinates of every row and compared with the stored values; the initial-draw "
                "loop is additionally compared row by row with Model/InitDraw.v (vm_compute) on scripted integer batches; "
                "distinct = population identity (run, place); non-trivial = population with >= 2 distinct rows")
    ctx.trust("user functions are deterministic functions of the coordinates (Target, FakeFlow)",
              "the mutation kernel's own moves are outside the model: the theorems speak about what aspire recomputes after the move")
    npop = 0
    for kind in KINDS:
        for (pre, pkw, opt) in sd.PRECOND_OPTS:
            if kind == "importance" and pre not in (None, "none"):
                continue
            if ctx.quick and ctx.rng.random() < 0.35:
                continue
            nsname = "numpy" if kind in ("emcee_smc", "emcee") and ctx.rng.random() < 0.6 else ctx.rng.choice(["numpy", "torch", "jax"])
            dims = ctx.rng.choice([1, 2])
            N = ctx.rng.choice([8, 20])
            seed = ctx.rng.randrange(1 << 30)
            prior = "box" if opt.get("bounds") else ctx.rng.choice(["normal", "box"])
            width = "float32" if ctx.rng.random() < 0.3 else "float64"
            skw = {}
            if kind.endswith("_smc") and ctx.rng.random() < 0.5:
                skw["n_final_samples"] = ctx.rng.choice([2 * N, N // 2])
            payloads = []
            cb = (lambda st: payloads.append(pickle.dumps(st))) if kind in ("minipcn_smc", "emcee_smc") else None
            case = {"sampler": kind, "preconditioning": pre, "kwargs": pkw, "options": opt, "ns": nsname, "dims": dims, "N": N, "seed": seed,
                    "prior": prior, "sample_kwargs": skw, "dtype": width}
            try:
                a, out, tgt, flow = sd.aspire_sample(kind, nsname, dims, N, seed, pre=pre, pkw=pkw, opt=opt, prior=prior, width=width,
                                                     flow_sigma=4.0 if prior == "box" else 2.5, sample_kwargs=skw, callback=cb)
            except Exception as e:
                ctx.extra.setdefault("run_errors", []).append({"case": case, "error": repr(e)[:300]})
                continue
            key = json.dumps(case, sort_keys=True)
            need_q = kind in ("importance", "minipcn_smc", "emcee_smc")
            ctx.count(key + ":final", len(out.x) >= 2, kind=f"{kind}/final")
            check_pop(ctx, out, tgt, flow, f"{kind}:returned", case, need_q=False)
            npop += 1
            if kind == "importance":
                check_pop(ctx, out, tgt, flow, "importance:returned+q", case, need_q=True)
            if kind.endswith("_smc"):
                h = a.sampler.history
                if len(h.sample_history[0].x) != N:
                    ctx.violation("initial-size", f"initial population has {len(h.sample_history[0].x)} rows, requested {N}", case)
                lp0 = np.asarray(nsutil.to_list(h.sample_history[0].log_prior), float)
                if not np.all(np.isfinite(lp0)):
                    ctx.violation("initial-nonfinite-prior", "initial population contains zero-prior particles", case)
                for t, p in enumerate(h.sample_history):
                    ctx.count(key + f":hist{t}", True, kind=f"{kind}/history")
                    npop += 1
                    if not check_pop(ctx, p, tgt, flow, f"{kind}:history[{'0' if t == 0 else 't'}]", dict(case, t=t)):
                        break
                for k, b in enumerate(payloads):
                    st = pickle.loads(b)
                    ctx.count(key + f":ckpt{k}", True, kind=f"{kind}/checkpoint")
                    npop += 1
                    check_pop(ctx, st["samples"], tgt, flow, f"{kind}:checkpoint", dict(case, checkpoint=k))
                # resumed
                if kind == "minipcn_smc" and len(payloads) >= 2:
                    try:
                        a2, out2, tgt2, flow2 = sd.aspire_sample(kind, nsname, dims, N, seed, pre=pre, pkw=pkw, opt=opt, prior=prior, width=width,
                                                                 flow_sigma=4.0 if prior == "box" else 2.5,
                                                                 sample_kwargs=dict(skw, resume_from=payloads[0]))
                        check_pop(ctx, out2, tgt2, flow2, f"{kind}:resumed-returned", dict(case, resumed=True), need_q=False)
                        for t, p in enumerate(a2.sampler.history.sample_history):
                            npop += 1
                            check_pop(ctx, p, tgt2, flow2, f"{kind}:resumed-history", dict(case, resumed=True, t=t))
                    except Exception as e:
                        ctx.extra.setdefault("run_errors", []).append({"case": dict(case, resumed=True), "error": repr(e)[:300]})
            if len(ctx.samples) < 4:
                ctx.sample(dict(case, populations_checked=npop))
    # ---------------- initial draw vs Model/InitDraw.v on scripted integer batches
    from aspire.samplers.mcmc import MCMCSampler
    NS = nsutil.namespaces()
    rows_txt = []
    ncases = 0
    for rep in range(ctx.scale(20, 200)):
        n = ctx.rng.choice([1, 2, 3, 5, 8])
        nb = ctx.rng.choice([1, 2, 4, 6])
        batches = [[(ctx.rng.randrange(-9, 10), 100 * bi + j) for j in range(n)] for bi in range(nb)]
        flat_valid = [x for b in batches for x, q in b if abs(x) <= 5]
        if len(flat_valid) < n:
            batches.append([(ctx.rng.randrange(-5, 6), 900 + j) for j in range(n)])
        calls = []

        def lprior(s):
            x = np.asarray(nsutil.to_list(s.x), float).reshape(-1)
            calls.append(("P", [int(v) for v in x]))
            return np.where(np.abs(x) <= 5, 0.0, -np.inf)

        def llik(s):
            x = np.asarray(nsutil.to_list(s.x), float).reshape(-1)
            lp = None if s.log_prior is None else [(-999 if not np.isfinite(v) else int(v)) for v in nsutil.to_list(s.log_prior)]
            calls.append(("L", [int(v) for v in x], lp))
            return 7.0 * x + 1.0
        nsname = ctx.rng.choice(["numpy", "torch", "jax"])
        smp = MCMCSampler(llik, lprior, 1, prior_flow=ScriptedFlow(batches), xp=NS[nsname], dtype=nsutil.native_dtype(nsname, "float64"))
        try:
            out = smp.draw_initial_samples(n)
        except Exception as e:
            ctx.violation(f"initial-draw-raises:{type(e).__name__}", f"draw_initial_samples({n}) raised {e!r}", {"n": n, "batches": batches})
            continue
        got = [(int(a), int(b), (-999 if not np.isfinite(c) else int(c)), int(d)) for a, b, c, d in
               zip(np.asarray(nsutil.to_list(out.x)).reshape(-1), nsutil.to_list(out.log_q), nsutil.to_list(out.log_prior),
                   nsutil.to_list(out.log_likelihood))]
        ncases += 1
        ctx.count(("initdraw", rep), True, kind="initial-draw")
        zl = lambda v: f"({v})%Z"
        bt = "[" + "; ".join("[" + "; ".join(f"({zl(x)}, {zl(q)})" for x, q in b) + "]" for b in batches) + "]"
        gt = "[" + "; ".join(f"({zl(a)}, {zl(b)}, {zl(c)}, {zl(d)})" for a, b, c, d in got) + "]"
        lik = [c for c in calls if c[0] == "L"]
        pri = [c for c in calls if c[0] == "P"]
        ct = ("[" + "; ".join("IPrior Z Z [" + "; ".join(zl(v) for v in c[1]) + "]" for c in pri) + "]",
              "[" + "; ".join("ILik Z Z [" + "; ".join(zl(v) for v in c[1]) + "] [" + "; ".join(zl(v) for v in (c[2] or [])) + "]" for c in lik) + "]")
        rows_txt.append(f"(check {bt} {n}%nat {gt} ({ct[0]} ++ {ct[1]}))")
    t = """From Coq Require Import List Bool Arith ZArith.
From AV Require Import Model.InitDraw.
Import ListNotations.
Open Scope Z_scope.
Definition PiZ (x : Z) : Z := if (Z.abs x <=? 5) then 0 else -999.
Definition LZ (x : Z) : Z := 7 * x + 1.
Definition finZ (v : Z) : bool := negb (v =? -999).
Definition row_eqb (a b : Z * Z * Z * Z) : bool :=
  match a, b with (a1, a2, a3, a4), (b1, b2, b3, b4) => (a1 =? b1) && (a2 =? b2) && (a3 =? b3) && (a4 =? b4) end.
Fixpoint rows_eqb (a b : list (Z * Z * Z * Z)) : bool :=
  match a, b with [], [] => true | x :: a', y :: b' => row_eqb x y && rows_eqb a' b' | _, _ => false end.
Fixpoint zl_eqb (a b : list Z) : bool :=
  match a, b with [], [] => true | x :: a', y :: b' => (x =? y) && zl_eqb a' b' | _, _ => false end.
Definition call_eqb (a b : icall Z Z) : bool :=
  match a, b with
  | IPrior _ _ p, IPrior _ _ q => zl_eqb p q
  | ILik _ _ p v, ILik _ _ q w => zl_eqb p q && zl_eqb v w
  | _, _ => false end.
Fixpoint calls_eqb (a b : list (icall Z Z)) : bool :=
  match a, b with [], [] => true | x :: a', y :: b' => call_eqb x y && calls_eqb a' b' | _, _ => false end.
Definition check (batches : list (list (Z * Z))) (n : nat) (got : list (Z * Z * Z * Z)) (calls : list (icall Z Z)) : bool :=
  match draw_initial Z Z LZ PiZ finZ batches n with
  | Some rows => rows_eqb rows got && calls_eqb (draw_initial_calls Z Z LZ PiZ finZ batches n) calls
  | None => false
  end.
"""
    t += "Eval vm_compute in (map (fun b => b) [" + ";\n ".join(rows_txt or ["true"]) + "]).\n"
    ok, out = common.coq_eval("C10_initdraw", t)
    import re
    flags = re.findall(r"true|false", common.parse_eval_lists(out)[0]) if ok and common.parse_eval_lists(out) else []
    ctx.oblig("correspondence:draw_initial_samples-vs-Model/InitDraw", ok and flags and all(f == "true" for f in flags),
              (out[-1500:] if not ok else f"{flags.count('false')} of {len(flags)} scripted cases differ; first at index {flags.index('false') if 'false' in flags else None}"))
    ctx.traces = ncases
    ctx.extra["populations_checked"] = npop
    ctx.oblig("search:every-sampler-ran", not ctx.extra.get("run_errors"), f"runs that raised: {ctx.extra.get('run_errors')}")
