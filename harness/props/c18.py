"""C18 — the diagnostic history is a faithful record of the run (also after resume)."""
import math

from harness import common, nsutil
from harness import smcbatch as sb
from harness import smcreplay as sr


def check_history(ctx, r, tag, resumed_from=None):
    cfg, h = r.cfg, r.history
    key = f"{tag}:{cfg['seed']}"
    T = len(h.beta)
    series = {"eff_target": h.eff_target, "ess": h.ess, "ess_target": h.ess_target, "log_norm_ratio": h.log_norm_ratio,
              "log_norm_ratio_var": h.log_norm_ratio_var}
    for name, s in series.items():
        if len(s) != T:
            ctx.violation(f"series-length:{name}:{tag}", f"{name} has {len(s)} entries for {T} iterations", {"cfg": cfg, "resumed_from": resumed_from})
    if len(h.mcmc_acceptance) != T:
        nf = cfg["sample_kwargs"].get("n_final_samples")
        kind = "enlargement" if (nf is not None and nf != cfg["N"] and len(h.mcmc_acceptance) == T + 1) else "other"
        ctx.violation(f"series-length:mcmc_acceptance:{kind}", f"mcmc_acceptance has {len(h.mcmc_acceptance)} entries for {T} iterations "
                      f"(n_final_samples={nf})", {"cfg": cfg, "resumed_from": resumed_from})
    if not cfg["sample_kwargs"].get("store_sample_history", True):
        # storing switched off: no population is kept — a partial chain (an initial population with every later entry missing) is
        # exactly "an entry missing"
        if len(h.sample_history) not in (0, T + 1):
            ctx.violation(f"population-chain-partial:{tag}", f"store_sample_history=False: {len(h.sample_history)} stored populations for {T} iterations "
                          f"(none, or the whole chain of {T + 1}, would be a faithful record)", {"cfg": cfg, "resumed_from": resumed_from})
        return
    pops = h.sample_history
    if len(pops) != T + 1:
        ctx.violation(f"population-chain-length:{tag}", f"{len(pops)} stored populations for {T} iterations (expected {T + 1})",
                      {"cfg": cfg, "resumed_from": resumed_from})
        return
    ids = [getattr(p, "_vid", None) for p in pops]
    if len(set(ids)) != len(ids):
        ctx.violation(f"population-repeated:{tag}", f"stored population ids {ids} contain a repeat", {"cfg": cfg, "resumed_from": resumed_from})
    f32 = "float32" in str(pops[0].dtype)
    rel = 1e-4 if f32 else 1e-9
    for t in range(T):
        b = float(h.beta[t])
        if float(pops[t + 1].beta) != b:
            ctx.violation(f"population-temperature:{key}", f"stored population {t+1} has beta {float(pops[t+1].beta)} but history.beta[{t}]={b}", {"cfg": cfg})
        ess, ratio, rvar = sb.mp_step_quantities(pops[t], b)
        e1 = sb.mp_step_quantities(pops[t], 1.0)[0]
        got = nsutil.to_float(h.ess[t])
        if abs(got - ess) > 100 * rel * (1 + abs(ess)):
            ctx.violation(f"ess-definition:{tag}", f"history.ess[{t}]={got} but ESS of stored population {t} at beta {b} is {ess}", {"cfg": cfg, "t": t})
        if abs(nsutil.to_float(h.ess_target[t]) - e1) > 100 * rel * (1 + abs(e1)):
            ctx.violation(f"ess-target-definition:{tag}", f"history.ess_target[{t}] != ESS at beta=1 of stored population {t}", {"cfg": cfg, "t": t})
        if abs(nsutil.to_float(h.log_norm_ratio[t]) - ratio) > rel * (1 + abs(ratio)):
            ctx.violation(f"ratio-definition:{tag}", f"history.log_norm_ratio[{t}] != log mean incremental weight of stored population {t}", {"cfg": cfg, "t": t})
        try:
            want = float(r.sampler.current_target_efficiency(b))
            if abs(float(h.eff_target[t]) - want) > 1e-12:
                ctx.violation(f"eff-target-definition:{tag}", f"history.eff_target[{t}]={float(h.eff_target[t])} != target efficiency at beta {want}", {"cfg": cfg})
        except Exception:
            pass


def run(ctx):
    common.standard_prove(ctx, gen_targets=[])
    ctx.rule = ("SMC runs (all schedule / cadence / n_final options, three namespaces) from random.Random(VERIF_SEED); each run = one "
                "history whose series lengths, population chain and every recorded beta / ESS / ratio / target are recomputed "
                "(mpmath) from the neighbouring stored populations; for runs with checkpoints, the run is also resumed from a "
                "mid-run payload and the resumed history checked the same way; every run replayed through the Coq model")
    cfgs = sb.gen_batch(ctx, ctx.scale(32, 220), extreme_frac=0.05)
    runs, results = sb.run_and_replay(ctx, cfgs)
    nres = 0
    for r in runs:
        if r.error is not None:
            continue
        check_history(ctx, r, "fresh")
        ctx.sample({"cfg": {k: r.cfg[k] for k in ("kind", "ns", "N")}, "iterations": len(r.history.beta),
                    "stored_populations": len(r.history.sample_history), "mcmc_acceptance": len(r.history.mcmc_acceptance)})
        # resumed
        mids = [p for p in r.payloads if not p["forced"] and p["bytes"] is not None]
        if mids and r.cfg["kind"] != "emcee_smc" and nres < ctx.scale(10, 60):
            p = mids[len(mids) // 2]
            r2 = sr.do_run(r.cfg, resume_from=p["bytes"], vid0=10000)
            nres += 1
            ctx.count(("resumed", r.cfg["seed"], p["iteration"]), True, kind="resumed")
            if r2.error is None:
                check_history(ctx, r2, "resumed", resumed_from=p["iteration"])
                if len(r2.history.beta) != len(r.history.beta):
                    ctx.violation("resumed-iterations", f"resumed history has {len(r2.history.beta)} iterations, uninterrupted {len(r.history.beta)}",
                                  {"cfg": r.cfg, "resumed_from": p["iteration"]})
            else:
                ctx.violation(f"resume-raises:{r2.error[0]}", f"resuming from iteration {p['iteration']} raised {r2.error[:2]}", {"cfg": r.cfg})
    # resuming a FINISHED run from its final checkpoint (re-running a completed job): the history must still hold the population
    # after every iteration, not the enlarged final one in their place
    finished = [r for r in runs if r.error is None and r.cfg["kind"] != "emcee_smc" and any(p["forced"] and p["bytes"] is not None for p in r.payloads)]
    finished.sort(key=lambda r: 0 if r.cfg["sample_kwargs"].get("n_final_samples") else 1)      # runs with a final enlargement first
    for r in finished[: ctx.scale(6, 30)]:
        fin = [p for p in r.payloads if p["forced"] and p["bytes"] is not None][-1]
        r2 = sr.do_run(r.cfg, resume_from=fin["bytes"], vid0=10000)
        ctx.count(("resumed-final", r.cfg["seed"]), True, kind="resumed/from-the-final-checkpoint")
        if r2.error is not None:
            ctx.violation(f"resume-raises:final:{r2.error[0]}", f"resuming from the final checkpoint raised {r2.error[:2]}", {"cfg": r.cfg})
            continue
        check_history(ctx, r2, "resumed-final", resumed_from="final")
        s1 = [len(nsutil.to_list(p.log_likelihood)) for p in r.history.sample_history]
        s2 = [len(nsutil.to_list(p.log_likelihood)) for p in r2.history.sample_history]
        if s1 != s2:
            ctx.violation("stored-populations:resumed-final", f"stored population sizes after resuming the finished run {s2} != those of the run itself {s1}",
                          {"cfg": r.cfg, "n_final_samples": r.cfg["sample_kwargs"].get("n_final_samples")})
    # a run that was really interrupted (exception in a user call) and resumed from the dictionary its callback kept: the history of
    # the resumed run must be as faithful a record as any other (one entry per iteration, no temperature repeated)
    nlive = 0
    for r in [r for r in runs if r.error is None and r.cfg["kind"] != "emcee_smc" and any(p["bytes"] is not None for p in r.payloads)][: ctx.scale(4, 25)]:
        total = r.target.ncalls
        if total < 8:
            continue
        for kf in sorted({total // 2, ctx.rng.randrange(4, total - 1)}):
            bad = sr.do_run(r.cfg, fail_at=kf)
            if bad.error is None or not bad.payloads:
                continue
            r2 = sr.do_run(r.cfg, resume_from=bad.payloads[-1]["live"], vid0=10000)
            nlive += 1
            ctx.count(("resumed-live", r.cfg["seed"], kf), True, kind="resumed/kept-dictionary-after-fault")
            if r2.error is None:
                check_history(ctx, r2, "resumed-after-fault", resumed_from=bad.payloads[-1]["iteration"])
                if len(r2.history.beta) != len(r.history.beta):
                    ctx.violation("resumed-iterations:after-fault", f"history resumed after a fault at user call {kf} has {len(r2.history.beta)} iterations, uninterrupted {len(r.history.beta)}",
                                  {"cfg": r.cfg, "fault_at_user_call": kf, "resumed_from": bad.payloads[-1]["iteration"]})
            else:
                ctx.violation(f"resume-raises:after-fault:{r2.error[0]}", f"resuming after a fault at user call {kf} raised {r2.error[:2]}", {"cfg": r.cfg})
            # the in-process retry: the SAME sampler object (it already holds the interrupted run's history) continues from the
            # pickled payload its callback kept; what it then records is the resumed run, not a mixture with the aborted iteration
            if bad.payloads[-1]["bytes"] is not None:
                r3 = sr.do_run(r.cfg, resume_from=bad.payloads[-1]["bytes"], vid0=20000, retry_on=bad)
                ctx.count(("retried", r.cfg["seed"], kf), True, kind="resumed/same-sampler-object-after-fault")
                rep3 = {"cfg": r.cfg, "fault_at_user_call": kf, "resumed_from": bad.payloads[-1]["iteration"], "same_sampler_object": True}
                if r3.error is None:
                    check_history(ctx, r3, "retried-on-the-same-sampler", resumed_from=bad.payloads[-1]["iteration"])
                    if len(r3.history.beta) != len(r.history.beta):
                        ctx.violation("resumed-iterations:same-sampler", f"history of the retry on the same sampler has {len(r3.history.beta)} iterations, uninterrupted {len(r.history.beta)}", rep3)
                else:
                    ctx.violation(f"resume-raises:same-sampler:{r3.error[0]}", f"retrying on the same sampler after a fault at user call {kf} raised {r3.error[:2]}", rep3)
    # single-precision runs, fresh and resumed from a mid-run payload (numerical check only)
    n32 = 0
    for cfg in sb.f32_cfgs(ctx, ctx.scale(10, 50)):
        r = sr.do_run(cfg)
        n32 += 1
        ctx.count(sb.cfg_key(cfg), r.error is None, kind=f"float32/{cfg['kind']}/{cfg['ns']}")
        if r.error is not None:
            ctx.violation(f"float32-run-raises:{r.error[0]}", f"single-precision run raised {r.error[:2]}", {"cfg": cfg})
            continue
        check_history(ctx, r, "float32")
        mids = [p for p in r.payloads if p["bytes"] is not None and not p["forced"]]
        if mids and cfg["kind"] != "emcee_smc":
            p = mids[len(mids) // 2]
            r2 = sr.do_run(cfg, resume_from=p["bytes"], vid0=10000)
            if r2.error is None:
                check_history(ctx, r2, "float32-resumed", resumed_from=p["iteration"])
            else:
                ctx.violation(f"resume-raises:float32:{r2.error[0]}", f"resuming a single-precision run from iteration {p['iteration']} raised {r2.error[:2]}", {"cfg": cfg})
    ctx.extra["float32_histories_checked"] = n32
    ctx.extra["resumed_histories_checked"] = nres
    ctx.extra["resumed_after_fault_checked"] = nlive
    # a second FRESH run on the same sampler object (one sampler driven repeatedly in a seed / schedule study): its history is the
    # record of THAT run — one entry per iteration of that run, its own initial population first
    import copy
    nreuse = 0
    for r in [r for r in runs if r.error is None and r.cfg["kind"] != "emcee_smc"][: ctx.scale(4, 20)]:
        c2 = copy.deepcopy(r.cfg)
        c2["ckpt"], c2["every"] = ("cb-every" if r.cfg["ckpt"] == "none" else "none"), 2
        r2 = sr.do_run(c2, retry_on=r, vid0=20000)
        nreuse += 1
        ctx.count(("reused-sampler", r.cfg["seed"]), True, kind="fresh-run-on-a-used-sampler")
        if r2.error is not None:
            ctx.violation(f"reused-sampler-raises:{r2.error[0]}", f"second fresh run on a sampler that has already run: {r2.error[:2]}", {"cfg": c2})
            continue
        check_history(ctx, r2, "reused-sampler")
    ctx.extra["fresh_runs_on_a_used_sampler"] = nreuse
