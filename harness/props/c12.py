"""C12 — an interrupted run always leaves a loadable, current checkpoint file."""
import io
import os
import pickle
import shutil
import tempfile

import numpy as np

from harness import common, nsutil
from harness import smcbatch as sb
from harness import smcreplay as sr


def expected_cadence(T, has_cb, every):
    """From the property text: iterations dictated by the cadence, plus once at the end."""
    if not has_cb:
        return []
    its = [(i, False) for i in range(1, T + 1) if every is not None and every > 0 and i % every == 0]
    return its + [(T, True)]


def byte_lit(bs):
    return "[" + "; ".join("x%02x" % b for b in bs) + "]"


def run(ctx):
    import h5py
    from aspire.samplers.base import Sampler
    from aspire.utils import AspireFile, dump_pickle_to_hdf, dump_state
    common.standard_prove(ctx, gen_targets=[])
    ctx.rule = ("(a) SMC runs over cadences {None,1,2,3,0,-1} x callback / default in-memory callback x run lengths: callback "
                "invocations compared with the cadence computed from the property text and with the Coq model; (b) Aspire runs with a "
                "checkpoint file interrupted by an exception injected at user-call k: the file must hold the configuration, the flow and "
                "byte-for-byte the last payload emitted, and resume through Aspire.resume_from_file; (c) growing/shrinking blob size "
                "sequences through dump_pickle_to_hdf read back and compared with the model write_blob (vm_compute); "
                "distinct = (config, fault index) / size sequence")
    ctx.trust("h5py/HDF5 dataset semantics (create/resize/overwrite) as modelled in Model/Blob.v; the interruption modelled is a Python "
              "exception raised by user code (a process kill mid-write is outside the model)")
    cfgs = sb.gen_batch(ctx, ctx.scale(30, 200), extreme_frac=0.0)
    runs, results = sb.run_and_replay(ctx, cfgs)
    for r in runs:
        if r.error is not None:
            continue
        cfg = r.cfg
        T = len(r.history.beta)
        has_cb = cfg["ckpt"] != "none"
        every = cfg.get("every", 1) if cfg["ckpt"] in ("cb-every", "every-only") else 1
        got = [(p["iteration"], p["forced"]) for p in r.payloads]
        want = expected_cadence(T, has_cb, every)
        if got != want:
            ctx.violation(f"cadence:every={every}:{cfg['ckpt']}", f"callback invoked at {got}, cadence dictates {want} (T={T}, every={every})",
                          {"cfg": cfg, "got": got, "want": want})
        for p in r.payloads:
            if p["n_beta"] != p["iteration"]:
                ctx.violation("payload-stale", f"payload at iteration {p['iteration']} carries a history of {p['n_beta']} iterations", {"cfg": cfg})
            # "the most recent checkpoint payload": the population it holds is the one AT the temperature it records
            if p.get("pop_beta") is not None and p["pop_beta"] != p["beta"]:
                ctx.violation("payload-population-at-other-temperature" + (":forced-final" if p["forced"] else ""),
                              f"the payload of iteration {p['iteration']} records temperature {p['beta']} but holds a population at temperature {p['pop_beta']}",
                              {"cfg": cfg, "iteration": p["iteration"], "forced_final": p["forced"]})
        if cfg["ckpt"] == "every-only" and r.payloads:
            # no callback given: the sampler keeps the latest payload itself (last_checkpoint_state / last_checkpoint_bytes)
            last = r.payloads[-1]
            kept, kept_b = r.sampler.last_checkpoint_state, r.sampler.last_checkpoint_bytes
            ok_state = kept is last["live"]
            try:
                ok_bytes = kept_b is not None and pickle.loads(kept_b)["iteration"] == last["iteration"] \
                    and len(pickle.loads(kept_b)["history"].beta) == last["n_beta"]
            except Exception:
                ok_bytes = False
            if not (ok_state and ok_bytes):
                ctx.violation("kept-payload-not-current", f"after the run last_checkpoint_state is the last emitted payload: {ok_state}; last_checkpoint_bytes holds it: {ok_bytes}",
                              {"cfg": cfg, "last_emitted_iteration": last["iteration"]})
        if len(ctx.samples) < 3 and has_cb:
            ctx.sample({"every": every, "iterations": T, "callback_invocations": got})
    # ---------------- (a') a run interrupted under one cadence and resumed under ANOTHER: the cadence is a rule about the run's iteration
    # numbers (every k-th iteration of the run), not about the iterations of the call that happens to execute them
    import copy
    nrc = 0
    for r in [r for r in runs if r.error is None and r.cfg["kind"] != "emcee_smc" and len(r.history.beta) >= 4][: ctx.scale(5, 30)]:
        total = r.target.ncalls
        if total < 8:
            continue
        for e1, e2 in ((3, 2), (1, 3), (2, 3)):
            c1 = copy.deepcopy(r.cfg)
            c1["ckpt"], c1["every"] = "cb-every", e1
            k = ctx.rng.randrange(total // 2, total - 1)
            bad = sr.do_run(c1, fail_at=k)
            if bad.error is None or not bad.payloads:
                continue
            last = bad.payloads[-1]
            i0 = last["iteration"]
            c2 = copy.deepcopy(c1)
            c2["every"] = e2
            r2 = sr.do_run(c2, resume_from=last["bytes"], vid0=10000)
            nrc += 1
            ctx.count(("resumed-other-cadence", r.cfg["seed"], e1, e2, i0), i0 % e2 != 0, kind="cadence/resumed-under-another-cadence")
            rep = {"cfg": c1, "first_cadence": e1, "fault_at_user_call": k, "resumed_from_iteration": i0, "second_cadence": e2}
            if r2.error is not None:
                ctx.violation(f"resumed-other-cadence-raises:{r2.error[0]}", f"resume under cadence {e2}: {r2.error[:2]}", rep)
                continue
            T2 = len(r2.history.beta)
            got = [(p["iteration"], p["forced"]) for p in r2.payloads]
            want = [(i, f) for (i, f) in expected_cadence(T2, True, e2) if f or i > i0]
            if got != want:
                ctx.violation(f"cadence-after-resume:every={e2}", f"resumed at iteration {i0} with checkpoint_every={e2}: callback invoked at {got}, "
                              f"the cadence dictates {want} (T={T2})", dict(rep, got=got, want=want))
    ctx.extra["resumed_under_another_cadence"] = nrc
    # ---------------- (b) file + fault injection
    spy = {"log": []}
    orig_cb = Sampler.default_checkpoint_callback

    def spy_cb(self, state):
        orig_cb(self, state)
        spy["log"].append((state["iteration"], self._last_checkpoint_bytes))
    Sampler.default_checkpoint_callback = spy_cb
    nfault = 0
    try:
        fcfgs = [c for c in cfgs if c["kind"] == "minipcn_smc"][: ctx.scale(4, 16)]
        for cfg in fcfgs:
            d = tempfile.mkdtemp(prefix="c12_", dir=str(common.WORK))
            try:
                every = [2, 1, 3, 2][fcfgs.index(cfg) % 4]
                spy["log"] = []
                fi = fcfgs.index(cfg)
                refpath = common.as_user_path(os.path.join(d, common.ckpt_name("ref", fi + 1)), fi)
                ref = sr.aspire_file_run(cfg, refpath, every=every)
                if ref.error is not None:
                    continue
                # the payloads go to the file the user named (and nowhere else)
                stray = sorted(set(os.listdir(d)) - {os.path.basename(refpath)})
                blob0 = None
                if os.path.exists(refpath):
                    with h5py.File(refpath, "r") as f:
                        blob0 = f["checkpoint"]["state"][...].tobytes() if "checkpoint" in f and "state" in f["checkpoint"] else None
                if spy["log"] and (blob0 != spy["log"][-1][1] or stray):
                    ctx.violation("completed-run-file-not-last-payload", f"after a completed run {os.path.basename(refpath)} holds "
                                  f"{'no checkpoint' if blob0 is None else 'a checkpoint that is not the last payload' if blob0 != spy['log'][-1][1] else 'the payload'}; "
                                  f"other files in the directory: {stray}", {"cfg": cfg, "every": every, "file": os.path.basename(refpath)})
                total = ref.target.ncalls
                T = len(ref.history.beta)
                want = expected_cadence(T, True, every)
                got = [i for i, _ in spy["log"]]
                if got != [i for i, _ in want]:
                    ctx.violation(f"file-cadence:every={every}", f"file callback invoked at {got}, cadence dictates {want}", {"cfg": cfg, "every": every})
                # a checkpoint FILE and a user callback together ("If using checkpoint_callback, this can be used to specify a file path to
                # save checkpoints to"): the callback receives the payloads AND the file holds the latest one
                if fi == 0:
                    got_states = []
                    upath = os.path.join(d, common.ckpt_name("usercb", 0))
                    ru = sr.aspire_file_run(cfg, upath, every=every, extra_kwargs={"checkpoint_callback": got_states.append})
                    ctx.count((cfg["seed"], every, "file+callback"), True, kind="file-cadence/file-and-user-callback")
                    blobu = None
                    if os.path.exists(upath):
                        with h5py.File(upath, "r") as f:
                            blobu = f["checkpoint"]["state"][...].tobytes() if "checkpoint" in f and "state" in f["checkpoint"] else None
                    if ru.error is None and got_states:
                        it_file = None
                        try:
                            it_file = pickle.loads(blobu)["iteration"] if blobu is not None else None
                        except Exception:
                            pass
                        if it_file != got_states[-1]["iteration"]:
                            ctx.violation("file-and-user-callback:no-checkpoint-in-file", f"sample_posterior(checkpoint_path=file, checkpoint_callback=cb): the callback received "
                                          f"{len(got_states)} payloads (last: iteration {got_states[-1]['iteration']}) but the file holds "
                                          f"{'no checkpoint' if blobu is None else 'the checkpoint of iteration ' + str(it_file)}", {"cfg": cfg, "every": every})
                    spy["log"] = []
                # the cadence asked for in the sampling call, the file taken from an enclosing auto_checkpoint(path) context
                if every != 1:
                    spy["log"] = []
                    cpath = os.path.join(d, common.ckpt_name("ctx", fi))
                    rc = sr.aspire_file_run(cfg, cpath, every=every, via_context=True)
                    ctx.count((cfg["seed"], every, "context-route"), True, kind="file-cadence/path-from-context")
                    if rc.error is None:
                        gotc = [i for i, _ in spy["log"]]
                        wantc = [i for i, _ in expected_cadence(len(rc.history.beta), True, every)]
                        if gotc != wantc:
                            ctx.violation(f"file-cadence:context-route:every={every}", f"with auto_checkpoint(path): sample_posterior(checkpoint_every={every}) wrote checkpoints at "
                                          f"iterations {gotc}, the requested cadence dictates {wantc}", {"cfg": cfg, "every": every, "route": "auto_checkpoint context"})
                    spy["log"] = []
                ks = sorted(set([0, 1, 2, total // 2, total - 1] + [ctx.rng.randrange(0, total) for _ in range(ctx.scale(3, 40))]))
                for k in ks:
                    path = common.as_user_path(os.path.join(d, common.ckpt_name(f"f{k}", k)), k)
                    spy["log"] = []
                    bad = sr.aspire_file_run(cfg, path, fail_at=k, every=every)
                    if bad.error is None:
                        continue
                    nfault += 1
                    ctx.count((cfg["seed"], every, k), True, kind="file-fault/" + ("with-checkpoint" if spy["log"] else "before-first-checkpoint"))
                    rep = {"cfg": cfg, "every": every, "fault_at_user_call": k, "file": os.path.basename(path)}
                    if not os.path.exists(path):
                        ctx.violation("file-missing-after-fault", f"no checkpoint file after a fault at user-call {k}", rep)
                        continue
                    with h5py.File(path, "r") as f:
                        keys = set(f.keys())
                        blob = f["checkpoint"]["state"][...].tobytes() if "checkpoint" in f and "state" in f["checkpoint"] else None
                    if "aspire_config" not in keys or "flow" not in keys:
                        ctx.violation("config-or-flow-missing", f"after a fault at user-call {k} the file holds {sorted(keys)}", rep)
                    if spy["log"]:
                        last_it, last_bytes = spy["log"][-1]
                        if blob != last_bytes:
                            ctx.violation("blob-not-last-payload", f"file blob ({None if blob is None else len(blob)} bytes) is not the payload emitted at iteration {last_it} "
                                          f"({len(last_bytes)} bytes)", rep)
                        else:
                            try:
                                st = pickle.loads(blob)
                                assert st["iteration"] == last_it
                            except Exception as e:
                                ctx.violation("blob-not-loadable", f"stored payload does not unpickle: {e!r}", rep)
                                st = None
                            # what an interrupted run leaves behind is a checkpoint the cadence dictates, and it describes COMPLETED
                            # iterations only: as many temperatures as iterations, one stored population more (the initial one)
                            if st is not None:
                                its = [i for i, _ in spy["log"]]
                                h_ = st["history"]
                                off_cadence = [i for i in its if i % every != 0]
                                if off_cadence or its != sorted(set(its)):
                                    ctx.violation(f"fault-cadence:every={every}", f"before the fault at user-call {k} checkpoints were written at iterations {its}; the cadence is every {every}", rep)
                                elif len(h_.beta) != st["iteration"] or (len(h_.sample_history) not in (0, st["iteration"] + 1)):
                                    ctx.violation("fault-payload-not-a-completed-iteration",
                                                  f"the checkpoint left by the fault claims iteration {st['iteration']} with {len(h_.beta)} temperatures and "
                                                  f"{len(h_.sample_history)} stored populations", rep)
                    elif blob is not None:
                        ctx.violation("blob-without-callback", "file holds a checkpoint but no payload was emitted", rep)
            finally:
                shutil.rmtree(d, ignore_errors=True)
    finally:
        Sampler.default_checkpoint_callback = orig_cb
    # ---------------- (c) blob size sequences vs Model/Blob.v
    d = tempfile.mkdtemp(prefix="c12b_", dir=str(common.WORK))
    coq_cases = []
    seq_cases = []
    try:
        for s in range(ctx.scale(12, 80)):
            path = os.path.join(d, f"b{s}.h5")
            sizes = [ctx.rng.choice([0, 1, 2, 7, 33, 64, 500, 5000, 65536]) for _ in range(ctx.rng.choice([2, 3, 5]))]
            small = all(z <= 64 for z in sizes)
            prev = None
            seq = []
            for z in sizes:
                new = bytes(ctx.rng.randrange(256) for _ in range(z))
                with h5py.File(path, "a") as f:
                    dump_pickle_to_hdf(io.BytesIO(new), f, path="checkpoint", dsetname="state")
                with h5py.File(path, "r") as f:
                    back = f["checkpoint"]["state"][...].tobytes()
                ctx.count(("blob", s, z, len(prev) if prev is not None else -1), True, kind="blob/" + ("grow" if prev is None or z > len(prev) else "shrink-or-same"))
                if back != new:
                    ctx.violation("blob-exact", f"wrote {z} bytes over {None if prev is None else len(prev)}; read back {len(back)} bytes, equal={back == new}",
                                  {"sizes": sizes})
                if small:
                    coq_cases.append((prev, new, back))
                    seq.append(new)
                    # an interruption after this write: the file holds the sequence so far (Model/Blob.v file_after)
                    seq_cases.append((list(seq), back))
                prev = new
            # dump_state round trip with real pickles of varying size
            obj = {"a": list(range(ctx.rng.choice([1, 10, 1000]))), "b": "x" * ctx.rng.choice([0, 5, 300])}
            with h5py.File(path, "a") as f:
                dump_state(obj, f, path="checkpoint", dsetname="state")
            with h5py.File(path, "r") as f:
                if pickle.loads(f["checkpoint"]["state"][...].tobytes()) != obj:
                    ctx.violation("blob-pickle-roundtrip", "pickled state read back differs", {"sizes": sizes})
    finally:
        shutil.rmtree(d, ignore_errors=True)
    t = "From Coq Require Import List Bool Init.Byte Strings.Byte.\nFrom AV Require Import Model.Blob.\nImport ListNotations.\n"
    t += "Fixpoint beq (a b : list byte) : bool := match a, b with [] , [] => true | x :: a', y :: b' => Byte.eqb x y && beq a' b' | _, _ => false end.\n"
    rows = []
    for prev, new, back in coq_cases[:200]:
        o = "None" if prev is None else f"(Some {byte_lit(prev)})"
        rows.append(f"beq (write_blob {o} {byte_lit(new)}) {byte_lit(back)}")
    for blobs, back in seq_cases[:120]:
        rows.append("match file_after None [" + "; ".join(byte_lit(b) for b in blobs) + f"] with Some f => beq f {byte_lit(back)} | None => false end")
    t += "Eval vm_compute in (forallb (fun b => b) [" + "; ".join(rows or ["true"]) + "]).\n"
    ok, out = common.coq_eval("C12_blob", t)
    ctx.oblig("correspondence:write_blob-vs-dump_pickle_to_hdf", ok and "= true" in out, out[-1500:])
    ctx.extra["file_faults"] = nfault
    ctx.extra["blob_cases_in_coq"] = len(rows)
    ctx.extra["blob_sequences_in_coq"] = min(len(seq_cases), 120)
