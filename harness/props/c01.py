"""C01 — posterior samples and evidence are statistically correct on known targets."""
import json
import math

import numpy as np

from harness import common, nsutil
from harness import smcdrive as sd

GEN = ["compute_weights", "log_p_t", "unnormalized_log_weights", "log_evidence_ratio", "smc_log_prob", "importance_sample"]


class BoxGauss(sd.Target):
    """Uniform prior on [-5,5]^d, Gaussian likelihood exp(-|x-c|^2 / 2 s^2): closed-form evidence and moments."""

    def __init__(self, dims, s, c):
        super().__init__(dims, s=s, c=c, prior="box", box=5.0)

    def box_bounds(self):          # the closed forms below are for the symmetric cube
        return np.full(self.dims, -5.0), np.full(self.dims, 5.0)

    def truth(self):
        from scipy.stats import truncnorm
        a, b = (-5.0 - self.c) / self.s, (5.0 - self.c) / self.s
        z1 = self.s * math.sqrt(2 * math.pi) * (0.5 * (math.erf(b / math.sqrt(2)) - math.erf(a / math.sqrt(2)))) / 10.0
        tn = truncnorm(a, b, loc=self.c, scale=self.s)
        return self.dims * math.log(z1), tn.mean(), tn.var()


class Circle(sd.Target):
    """Uniform prior on [0, 2pi), likelihood exp(kappa cos(x - mu)): Z = I0(kappa), E cos(x - mu) = I1/I0."""

    def __init__(self, kappa, mu):
        super().__init__(1, prior="box")
        self.kappa, self.mu = kappa, mu

    def L(self, x):
        return self.kappa * np.cos(x[:, 0] - self.mu)

    def Pi(self, x):
        inside = (x[:, 0] >= 0) & (x[:, 0] < 2 * math.pi)
        return np.where(inside, -math.log(2 * math.pi), -np.inf)

    def truth(self):
        from scipy.special import i0, i1
        return math.log(i0(self.kappa)), i1(self.kappa) / i0(self.kappa), None


def run(ctx):
    common.standard_prove(ctx, gen_targets=GEN)
    NS = nsutil.namespaces()
    R = ctx.scale(6, 40)
    ctx.rule = (f"analytic targets (Gaussian in a box, truncated Gaussian hugging a bound, von-Mises target on a circle; 1-3 dims) x sampler "
                f"{{importance, minipcn_smc, emcee_smc}} x preconditioning {{none, default, bounded logit/probit, affine, periodic}} x namespace; "
                f"{R} replicate runs per configuration with seeds from random.Random(VERIF_SEED); the replicate mean of Z_hat/Z and of the "
                "posterior mean / variance must lie within 6 standard errors (from the replicate spread) plus a stated allowance of the "
                "closed-form values; distinct = configuration; this is statistical SUPPORT for the estimator identities proved in Coq")
    ctx.trust("stub random-walk kernels (the real minipcn / emcee kernels are not installable): the check exercises aspire's targets, weights, "
              "resampling and evidence accumulation, not the external kernels' mixing",
              "6-sigma replicate bounds plus allowances 0.05 (log Z) / 0.08 sigma (mean) / 25% (variance): a false-alarm rate far below 1e-6 per configuration")
    configs = []
    for tname, mk in (("box-gauss", lambda d: BoxGauss(d, 0.8, 0.5)), ("bound-hugging", lambda d: BoxGauss(d, 1.0, 4.3))):
        for d in (1, 2, 3) if not ctx.quick else (1, 2):
            configs.append((tname, mk, d, "importance", None, None, {}))
            for pre, pkw, opt in ((None, None, {}), ("default", {"bounded_to_unbounded": True, "bounded_transform": "logit"}, {"bounds": True}),
                                  ("default", {"bounded_to_unbounded": True, "bounded_transform": "probit", "affine_transform": True}, {"bounds": True}),
                                  ("default", {"affine_transform": True}, {}), ("none", None, {})):
                configs.append((tname, mk, d, "minipcn_smc", pre, pkw, opt))
            configs.append((tname, mk, d, "emcee_smc", "default", {"bounded_to_unbounded": True, "bounded_transform": "logit"}, {"bounds": True}))
    for pre, pkw, opt in ((None, None, {}), ("default", {}, {"bounds": True, "periodic": True})):
        configs.append(("circle", lambda d: Circle(2.0, 1.0), 1, "minipcn_smc", pre, pkw, opt))
    configs.append(("circle", lambda d: Circle(2.0, 1.0), 1, "importance", None, None, {}))
    # always present: importance sampling with a proposal that leaks a third of its mass outside the prior support onto a
    # posterior hugging that bound (the mean weight must be taken over ALL draws, zero-weight ones included)
    leaky = [("bound-hugging-leaky", lambda d: BoxGauss(d, 1.0, 4.3), d, "importance", None, None, {}) for d in (1, 2)]
    # ... and the same leaky proposal under SMC with the bounded-to-unbounded map off (found by the hunting round, finding F55)
    leaky.append(("bound-hugging-leaky", lambda d: BoxGauss(d, 1.0, 4.3), 1, "minipcn_smc", "none", None, {}))
    if ctx.quick:
        ctx.rng.shuffle(configs)
        configs = configs[:12]
    configs = leaky + configs
    for (tname, mk, d, kind, pre, pkw, opt) in configs:
        nsname = ctx.rng.choice(["numpy", "numpy", "torch", "jax"]) if kind != "emcee_smc" else "numpy"
        case = {"target": tname, "dims": d, "sampler": kind, "preconditioning": pre, "kwargs": pkw, "options": opt, "ns": nsname, "replicates": R}
        ctx.count(json.dumps(case, sort_keys=True), True, kind=f"{tname}/{kind}/{pre}")
        logz, means, vars_, err = [], [], [], None
        tgt0 = mk(d)
        true_logz, true_m, true_v = tgt0.truth()
        N = 400 if kind == "importance" else 120
        for r in range(R):
            seed = ctx.rng.randrange(1 << 30)
            tgt = mk(d)
            try:
                import emcee
                emcee.reset_counter(seed % 997)
                xp = NS[nsname]
                flow = sd.FakeFlow(d, mu=math.pi if tname == "circle" else (4.0 if tname == "bound-hugging-leaky" else 0.8),
                                   sigma=3.0 if tname == "bound-hugging" else 2.0, seed=seed % 1000)
                akw = {}
                if opt.get("bounds"):
                    akw["prior_bounds"] = {sd.pname(i): ((0.0, 2 * math.pi) if tname == "circle" else (-5.0, 5.0)) for i in range(d)}
                if opt.get("periodic"):
                    akw["periodic_parameters"] = [sd.pname(0)]
                a = sd.make_aspire(tgt, flow, xp, nsutil.native_dtype(nsname, "float64"), d, **akw)
                kw = {}
                if kind == "minipcn_smc":
                    kw = dict(rng=np.random.default_rng(seed), sampler_kwargs={"n_steps": 4})
                elif kind == "emcee_smc":
                    kw = dict(sampler_kwargs={"nsteps": 4, "progress": False})
                out = a.sample_posterior(N, sampler=kind, preconditioning=pre, preconditioning_kwargs=dict(pkw) if pkw is not None else None, **kw)
            except Exception as e:
                err = f"{type(e).__name__}: {str(e)[:200]}"
                break
            x = np.asarray(nsutil.to_list(out.x), float).reshape(-1, d)
            logz.append(nsutil.to_float(out.log_evidence))
            if kind == "importance":
                w = np.asarray(nsutil.to_list(out.weights), float)
                w = w / w.sum()
            else:
                w = np.full(len(x), 1.0 / len(x))
            if tname == "circle":
                means.append(float(np.sum(w * np.cos(x[:, 0] - tgt.mu))))
            else:
                m = float(np.sum(w * x[:, 0]))
                means.append(m)
                vars_.append(float(np.sum(w * (x[:, 0] - m) ** 2)))
        if err is not None:
            ctx.violation(f"run-raises:{kind}:{pre}:{err.split(':')[0]}", f"{kind} on {tname} (preconditioning {pre} {pkw}, {nsname}) raised {err}", case)
            continue
        zr = np.exp(np.asarray(logz) - true_logz)
        se = zr.std(ddof=1) / math.sqrt(R) if R > 1 else 1.0
        rec = dict(case, mean_Zhat_over_Z=float(zr.mean()), se=float(se), post_stat=float(np.mean(means)), truth=true_m)
        if len(ctx.samples) < 5:
            ctx.sample(rec)
        ctx.extra.setdefault("results", []).append({k: rec[k] for k in ("target", "dims", "sampler", "preconditioning", "mean_Zhat_over_Z", "se", "post_stat", "truth")})
        if abs(zr.mean() - 1.0) > 6 * se + 0.05:
            ctx.violation(f"evidence-biased:{tname}:{kind}:{pre}", f"replicate mean of Z_hat/Z = {zr.mean():.4f} +/- {se:.4f} (true log Z {true_logz:.4f})", rec)
        sm = np.std(means, ddof=1) / math.sqrt(R) if R > 1 else 1.0
        scale = math.sqrt(true_v) if true_v else 1.0
        if abs(np.mean(means) - true_m) > 6 * sm + 0.08 * scale:
            ctx.violation(f"posterior-mean-off:{tname}:{kind}:{pre}", f"replicate mean of the posterior mean statistic = {np.mean(means):.4f} +/- {sm:.4f}, truth {true_m:.4f}", rec)
        if vars_ and true_v:
            sv = np.std(vars_, ddof=1) / math.sqrt(R) if R > 1 else 1.0
            if abs(np.mean(vars_) - true_v) > 6 * sv + 0.25 * true_v:
                ctx.violation(f"posterior-variance-off:{tname}:{kind}:{pre}", f"replicate mean of the posterior variance = {np.mean(vars_):.4f} +/- {sv:.4f}, truth {true_v:.4f}", rec)
