"""C05 — kernels are handed the correct (tempered) target in the preconditioned space."""
import json
import math

import numpy as np

from harness import common, nsutil
from harness import smcdrive as sd

GEN = ["smc_log_prob", "mcmc_log_prob", "blackjax_log_prob", "log_p_t"]

PRECOND = [
    ("none", None, {}),
    ("default", {}, {}),
    ("default", {"bounded_to_unbounded": True, "bounded_transform": "logit"}, {"bounds": True}),
    ("default", {"bounded_to_unbounded": True, "bounded_transform": "probit"}, {"bounds": True}),
    ("default", {"affine_transform": True}, {}),
    ("default", {"affine_transform": True, "bounded_to_unbounded": True, "bounded_transform": "logit"}, {"bounds": True}),
    ("default", {}, {"bounds": True, "periodic": True}),
    ("default", {"affine_transform": True, "bounded_to_unbounded": True, "bounded_transform": "probit"}, {"bounds": True, "periodic": True}),
]


def fd_logdet(inv, z, h=1e-6):
    """log|det d inverse(z)/dz| by central differences (float64 numpy)."""
    d = len(z)
    J = np.zeros((d, d))
    for j in range(d):
        e = np.zeros(d)
        e[j] = h
        xp_ = np.asarray(nsutil.to_list(inv(np.asarray([z + e]))[0]), float)[0]
        xm_ = np.asarray(nsutil.to_list(inv(np.asarray([z - e]))[0]), float)[0]
        J[:, j] = (xp_ - xm_) / (2 * h)
    s, ld = np.linalg.slogdet(J)
    return ld


def run(ctx):
    import mpmath as mp
    mp.mp.dps = 30
    common.standard_prove(ctx, gen_targets=GEN)
    irfile = common.COQ / "Gen" / "calls_ir.json"
    irall = json.loads(irfile.read_text())["ir"] if irfile.exists() else {}
    import translate
    ctx.rule = ("(sampler class in {MiniPCNSMC, EmceeSMC, BlackJAXSMC, MiniPCN, Emcee}) x preconditioning {none, identity composite, bounded "
                "logit/probit, affine, periodic, combinations; learned flow in the thorough tier} x namespace x dims x beta in (0,1] x "
                "points z from random.Random(VERIF_SEED), including points whose pre-image has zero prior and points where the user "
                "likelihood returns NaN; each case = one log_prob call compared with (1-b) log q + b (log L + log pi) + log|det dx/dz| "
                "recomputed from the user callables and the transform's inverse (its log-Jacobian cross-checked by finite differences) "
                "and with the mpmath evaluation of the translated call site; distinct = (class, preconditioning, ns, dims, beta, seed)")
    ctx.trust("the preconditioning transform's inverse map is taken from the implementation (its bijectivity and log-Jacobian are C04); "
              "the log-Jacobian it reports is cross-checked by central finite differences of the point map",
              "tools/translate.py call-site translation (object model of samples, abstract user callables) validated by this differential")
    NS = nsutil.namespaces()
    tie = {}

    def tie_set(name, ok, detail=""):
        tie.setdefault(name, [True, ""])
        if not ok and tie[name][0]:
            tie[name] = [False, detail]

    kinds = ["minipcn_smc", "emcee_smc", "blackjax_smc", "minipcn", "emcee"]
    pre_list = list(PRECOND)
    if not ctx.quick:
        pre_list.append(("flow", {"fit_kwargs": {"n_epochs": 3}}, {"bounds": True}))
    FLOW_QUICK = ("flow", {"fit_kwargs": {"n_epochs": 1}}, {"bounds": True})      # one flow-preconditioned sampler in the quick tier too
    reps = ctx.scale(1, 4)
    for kind in kinds:
        for (pre, pkw, opt) in (pre_list + ([FLOW_QUICK] if ctx.quick and kind == "emcee_smc" else [])):
            for rep in range(reps):
                # namespaces in rotation (every sampler class meets every namespace it supports in every run)
                rot = ctx.extra["ns_rotation"] = ctx.extra.get("ns_rotation", 0) + 1
                nsname = "numpy" if kind == "emcee" else ["numpy", "torch", "jax"][rot % 3]
                if kind == "blackjax_smc":
                    nsname = ["numpy", "jax"][rot % 2]
                if pre == "flow":
                    nsname = "numpy" if kind in ("emcee_smc", "emcee") else "torch"
                xp = NS[nsname]
                dims = ctx.rng.choice([1, 2, 3])
                # every fourth case in single precision (numerical comparison with float32 tolerances; no finite differences, no IR tie)
                f32 = (rot % 4 == 3) and pre != "flow" and kind != "blackjax_smc"
                dt = nsutil.native_dtype(nsname, "float32" if f32 else "float64")
                prior = "box" if opt.get("bounds") else ctx.rng.choice(["normal", "box"])
                nan_above = 3.0 if ctx.rng.random() < 0.3 else None
                tgt = sd.Target(dims, s=ctx.rng.choice([0.5, 1.0, 2.0]), c=0.3, prior=prior, nan_above=nan_above)
                # the user's model answers in ANOTHER namespace than the samples (a torch model under NumPy / JAX samples, a NumPy model
                # under torch samples): what the kernel evaluates is still the tempered density
                if rot % 5 == 2 and pre != "flow" and kind != "blackjax_smc":
                    if nsname == "torch":
                        tgt.answers_in = "float64"
                    else:
                        tgt.answers_ns = "torch"
                if opt.get("periodic"):
                    tgt.shift0 = 6.0            # periodic interval [1, 11): the wrap must act on the parameter, not on its standardised value
                # a proposal without support far out (log q = -inf there): at beta = 1 the proposal term is 0 * (-inf)
                qbox = 6.0 if ctx.rng.random() < 0.4 else None
                flow = sd.FakeFlow(dims, seed=ctx.rng.randrange(1000), support=qbox)
                akw = {}
                if opt.get("bounds"):
                    akw["prior_bounds"] = tgt.bounds_dict()
                if opt.get("periodic"):
                    akw["periodic_parameters"] = [sd.pname(0)]
                if pre == "flow":
                    akw["flow_backend"] = "zuko"
                    akw["bounded_to_unbounded"] = True
                try:
                    s = sd.make_sampler(kind, tgt, flow, xp, dt, dims, preconditioning=pre,
                                        preconditioning_kwargs=dict(pkw) if pkw is not None else None, aspire_kw=akw)
                except Exception as e:
                    ctx.violation(f"construct:{kind}:{pre}:{type(e).__name__}", f"cannot build {kind} with preconditioning {pre} {pkw}: {e!r}",
                                  {"kind": kind, "pre": pre, "pkw": pkw, "ns": nsname})
                    continue
                T = s.preconditioning_transform
                rngn = np.random.default_rng(ctx.rng.randrange(1 << 30))
                blo, bhi = tgt.box_bounds()
                x0 = blo + rngn.uniform(0.05, 0.95, size=(40, dims)) * (bhi - blo)
                try:
                    z0 = np.asarray(nsutil.to_list(s.fit_preconditioning_transform(x0)), float).reshape(-1, dims)
                except Exception as e:
                    ctx.violation(f"fit:{kind}:{pre}:{type(e).__name__}", f"fit_preconditioning_transform failed: {e!r}", {"kind": kind, "pre": pre, "pkw": pkw})
                    continue
                # "x the pre-image of z": the inverse the kernels use really inverts the forward map (z0 = forward(x0) on interior
                # points) - checked against x0 itself, not against anything the transform says about itself
                try:
                    z0in = (np.asarray(z0, dtype=np.float32) if f32 else z0) if T.xp.__name__.endswith("numpy") or kind in ("emcee_smc", "emcee") else T.xp.asarray(z0, dtype=T.dtype)
                    xr = np.asarray(nsutil.to_list(T.inverse(z0in)[0]), float).reshape(-1, dims)
                    interior = np.all((x0 > blo + 0.05 * (bhi - blo)) & (x0 < bhi - 0.05 * (bhi - blo)), axis=1)
                    tolx = 1e-3 if pre == "flow" else (2e-3 if f32 else 1e-6)
                    if np.any(np.abs(xr - x0)[interior] > tolx * (1 + np.abs(x0)[interior])):
                        i_bad = int(np.argmax(np.max(np.abs(xr - x0), axis=1) * interior))
                        ctx.violation(f"not-the-pre-image:{pre}:{json.dumps(pkw, sort_keys=True)}",
                                      f"inverse(forward(x)) = {xr[i_bad].tolist()} for x = {x0[i_bad].tolist()}: the point the densities are evaluated at is not the pre-image of z",
                                      {"kind": kind, "preconditioning": pre, "kwargs": pkw, "options": opt, "ns": nsname, "x": x0[i_bad].tolist()})
                except Exception as e:
                    ctx.violation(f"inverse-raises:{kind}:{pre}:{type(e).__name__}", f"inverse of the fitted preconditioning transform raised {e!r}", {"kind": kind, "pre": pre, "pkw": pkw})
                    continue
                n = 12
                z = z0[:n] + rngn.normal(0, 0.3, size=(n, dims))
                if not opt.get("bounds") or opt.get("periodic"):
                    z[0] = z[0] * 0 + 50.0           # far outside a box prior when the map is unbounded
                beta = ctx.rng.choice([1.0, 0.5, 0.25, 1e-3, 0.999]) if qbox is None else ctx.rng.choice([1.0, 1.0, 0.5])
                if f32:
                    z = np.asarray(z, dtype=np.float32).astype(float)      # the points themselves are float32 numbers
                zin = (np.asarray(z, dtype=np.float32) if f32 else z) if T.xp.__name__.endswith("numpy") or kind in ("emcee_smc", "emcee") else T.xp.asarray(z, dtype=T.dtype)
                # an undefined (NaN) likelihood at a point INSIDE the prior support, in every namespace: row 1 (its pre-image is known
                # before the kernel's log-density is evaluated)
                try:
                    x_pre = np.asarray(nsutil.to_list(T.inverse(zin)[0]), float).reshape(-1, dims)
                    if (ctx.rng.random() < 0.6 or nsname == "jax") and np.all(np.isfinite(x_pre[1])) and np.all((x_pre[1] > blo) & (x_pre[1] < bhi)):
                        tgt.nan_above = float(x_pre[1, 0]) - (1e-4 * (1 + abs(float(x_pre[1, 0]))) if f32 else 1e-9)
                except Exception:
                    pass
                tgt.calls.clear()
                try:
                    if kind in ("minipcn", "emcee"):
                        got = np.asarray(nsutil.to_list(s.log_prob(zin)), float).reshape(-1)
                        b = 1.0
                    else:
                        got = np.asarray(nsutil.to_list(s.log_prob(zin, beta)), float).reshape(-1)
                        b = beta
                except Exception as e:
                    ctx.violation(f"log_prob-raises:{kind}:{pre}:{type(e).__name__}", f"{kind}.log_prob raised {e!r} (ns={nsname}, pre={pre} {pkw})",
                                  {"kind": kind, "pre": pre, "pkw": pkw, "ns": nsname})
                    continue
                xi, lji = T.inverse(zin)
                xi = np.asarray(nsutil.to_list(xi), float).reshape(-1, dims)
                lji = np.asarray(nsutil.to_list(lji), float).reshape(-1)
                Lx, Px, Qx = tgt.L(xi), tgt.Pi(xi), flow._lp(xi)
                key = (kind, pre, json.dumps(pkw, sort_keys=True), json.dumps(opt, sort_keys=True), nsname, dims, beta)
                nontriv = bool(np.any(np.isfinite(got)))
                ctx.count(key, nontriv, kind=f"{kind}/{pre}/{'+'.join(sorted((pkw or {}).keys())) or '-'}/{nsname}" + ("/float32" if f32 else ""))
                rep_base = {"kind": kind, "preconditioning": pre, "kwargs": pkw, "options": opt, "ns": nsname, "dims": dims, "beta": beta, "dtype": "float32" if f32 else "float64",
                            "model_answers_in": tgt.answers_ns or tgt.answers_in}
                with np.errstate(all="ignore"):
                    if kind in ("minipcn", "emcee"):
                        want = Lx + Px + lji
                    else:
                        want = (1 - b) * Qx + b * (Lx + Px) + lji
                        want = np.where(np.isnan(want), -np.inf, want)
                for i in range(n):
                    w, g = float(want[i]), float(got[i])
                    case = dict(rep_base, z=z[i].tolist(), x=xi[i].tolist(), got=g, want=w, logL=float(Lx[i]), logpi=float(Px[i]), logq=float(Qx[i]), logJ=float(lji[i]))
                    if len(ctx.samples) < 4 and i == 1:
                        ctx.sample(case)
                    same = (math.isnan(w) and math.isnan(g)) or w == g or abs(w - g) <= (1e-3 if f32 else 1e-6) * (1 + abs(w) + (abs(float(lji[i])) if f32 and math.isfinite(float(lji[i])) else 0))
                    if not same:
                        ctx.violation(f"target-value:{kind}:{pre}", f"log_prob(z) = {g} but (1-b)log q + b(log L+log pi) + log|J| = {w}", case)
                    if Px[i] == -np.inf and not (g == -np.inf or (kind in ("minipcn", "emcee") and math.isnan(g) and math.isnan(Lx[i]))):
                        ctx.violation(f"zero-prior-finite:{kind}:{pre}", f"zero-prior point got log-density {g}", case)
                    if kind not in ("minipcn", "emcee") and math.isnan(g):
                        ctx.violation(f"nan-propagated:{kind}:{pre}", "NaN handed to the SMC kernel", case)
                # finite-difference cross-check of the reported log-Jacobian (numpy transforms, interior points)
                if pre != "flow" and T.xp.__name__.endswith("numpy") and not f32:
                    for i in range(1, min(n, 4)):
                        if np.all((xi[i] > blo + 0.1) & (xi[i] < bhi - 0.1)) and np.isfinite(lji[i]):
                            fd = fd_logdet(T.inverse, z[i])
                            if abs(fd - lji[i]) > 1e-3 * (1 + abs(fd)):
                                ctx.violation(f"log-jacobian:{pre}:{json.dumps(pkw, sort_keys=True)}", f"reported log|det dx/dz| {lji[i]} vs finite differences {fd}",
                                              dict(rep_base, z=z[i].tolist()))
                # ---- tie: translated call site vs implementation (the IR the theorems are about)
                if irall and not f32:
                    name = {"minipcn_smc": "smc_log_prob_value", "emcee_smc": "smc_log_prob_value", "blackjax_smc": "blackjax_log_prob_value",
                            "minipcn": "mcmc_log_prob_value", "emcee": "mcmc_log_prob_value"}[kind]

                    def mpv(v):
                        v = float(v)
                        return mp.mpf(v) if math.isfinite(v) else (mp.nan if math.isnan(v) else (mp.inf if v > 0 else -mp.inf))
                    absf = {"L": lambda i: mpv(Lx[i]), "Pi": lambda i: mpv(Px[i]), "Q": lambda i: mpv(Qx[i]),
                            "Tinv_pt": lambda i: i, "Tinv_lj": lambda i: mpv(lji[i])}
                    try:
                        inputs = dict(z=list(range(n)), nle0=mp.mpf(0))
                        if "beta" in [p for p, _ in irall[name]["inputs"]]:
                            inputs["beta"] = mp.mpf(b)
                        g_ir = translate.evaluate(irall[name], inputs, absf)
                        ok = True
                        for i in range(n):
                            a, c = float(g_ir[i]), float(got[i])
                            if not ((math.isnan(a) and math.isnan(c)) or a == c or abs(a - c) <= 1e-6 * (1 + abs(c))):
                                ok = False
                        tie_set(name, ok, json.dumps(rep_base))
                        cnt = translate.evaluate(irall[name.replace("_value", "_count")], inputs, absf)
                        nl = sum(c[1] for c in tgt.calls if c[0] == "lik")
                        tie_set(name.replace("_value", "_count"), float(cnt) == nl, f"IR count {float(cnt)} vs {nl} points handed to the likelihood")
                    except Exception as e:
                        tie_set(name, False, repr(e))
    for k, (ok, d) in sorted(tie.items()):
        ctx.oblig(f"correspondence:IR-vs-impl:{k}", ok, d)
    if not tie:
        ctx.oblig("correspondence:IR-vs-impl", False, "no IR")
