"""C15 — array-namespace and dtype conversions preserve values and precision."""
import itertools
import json
import re

import numpy as np

from harness import common, nsutil
from harness import smcdrive as sd

NSN = {"numpy": "NP", "torch": "TO", "jax": "JX"}
WN = {"float32": "F32", "float64": "F64"}
CLS = {"BaseSamples": "CBase", "Samples": "CWeighted", "SMCSamples": "CSMC"}
FIELDS = [(1, 1, 1), (1, 1, 0), (0, 0, 0), (0, 1, 1)]


def kind_of(dt):
    return "KTo" if str(dt).startswith("torch.") else "KNp"


def spell_coq(sp, ns, w):
    if sp == "none":
        return "DNone"
    if sp == "str":
        return f"(DStr {WN[w]})"
    return f"(DObj {'KTo' if ns == 'torch' else 'KNp'} {WN[w]})"


def run(ctx):
    import torch
    from aspire.samples import BaseSamples, Samples, SMCSamples
    from aspire.utils import asarray, convert_dtype, resolve_dtype, _dtype_to_name
    from array_api_extra import default_dtype
    common.standard_prove(ctx, gen_targets=[])
    NS = nsutil.namespaces()
    classes = {"BaseSamples": BaseSamples, "Samples": Samples, "SMCSamples": SMCSamples}
    ctx.rule = ("EXHAUSTIVE grid: sample class x source namespace x width x dtype spelling (none/string/native) x optional-field subset x "
                "target namespace x target dtype spelling, for to_namespace / from_samples / to_numpy / to_standard_samples, on the "
                "implementation (values compared exactly, dtype by name, fields by presence) and on the Coq model (vm_compute) with the "
                "library-acceptance oracle probed from the installed numpy/torch/jax; plus every dtype spelling accepted by resolve_dtype / "
                "convert_dtype; plus the populations of float32/float64 SMC runs; distinct = grid point")
    ctx.trust("the behaviour of numpy / torch / jax asarray on foreign dtype objects and their default float width are probed at run time "
              "and compared with the oracle record std_oracle the theorem is stated for")
    # ---------------- probe the oracle
    probe = {}
    objs = {"KNp": np.dtype("float32"), "KTo": torch.float32}
    for nsname, xp in NS.items():
        for k, obj in objs.items():
            try:
                xp.asarray([1.0, 2.0], dtype=obj)
                probe[(nsname, k)] = True
            except Exception:
                probe[(nsname, k)] = False
    defaults = {n: nsutil.dtype_name(default_dtype(xp)) for n, xp in NS.items()}
    want_probe = {(n, k): (k == ("KTo" if n == "torch" else "KNp")) for n in NS for k in objs}
    want_def = {"numpy": "float64", "torch": "float32", "jax": "float64"}
    ctx.oblig("correspondence:oracle-table-matches-installed-libraries", probe == want_probe and defaults == want_def,
              f"probed accepts={probe} defaults={defaults}")
    ctx.extra["probed_oracle"] = {"accepts": {f"{a}/{b}": v for (a, b), v in probe.items()}, "defaults": defaults}

    # ---------------- exhaustive grid on the implementation, and the same points through the model
    def mk(cname, ns, w, sp, fields):
        # values that are NOT exactly representable in binary32 (thirds, tenths): a detour through single precision shows
        x = NS[ns].asarray(np.arange(6.0).reshape(3, 2) / 3.0 + 0.1, dtype=nsutil.native_dtype(ns, w))
        kw = {}
        if fields[0]:
            kw["log_likelihood"] = [0.1, 1.0 / 3.0, 2.7]          # plain Python lists of Python floats
        if fields[1]:
            kw["log_prior"] = [0.0, 0.7, 1.1]
        if fields[2]:
            kw["log_q"] = [1.3, 1.0, 2.0 / 7.0]
        if cname == "SMCSamples":
            kw.update(beta=0.5)
            if fields[2]:       # half of the SMC populations carry an evidence, the other half none (None must stay None)
                kw.update(log_evidence=-1234.5678901234567, log_evidence_error=0.1)
        if cname == "Samples" and not all(fields):
            kw.update(log_evidence=-1234.5678901234567, log_evidence_error=0.1)      # a weightless set carrying an evidence: every SMC result
        d = None if sp == "none" else (w if sp == "str" else nsutil.native_dtype(ns, w))
        return classes[cname](x, xp=NS[ns], dtype=d, **kw)

    def summary(t):
        return (nsutil.dtype_name(t.x.dtype), kind_of(t.dtype), nsutil.dtype_name(t.dtype),
                (t.log_likelihood is not None, t.log_prior is not None, t.log_q is not None), type(t).__name__)

    coq_rows = []
    expect = []
    npts = 0
    tgt_spells = [("none", None), ("str", "float32"), ("str", "float64"), ("native", "float32"), ("native", "float64")]
    for cname, (a, b), w, sp, fields in itertools.product(classes, itertools.product(NS, NS), WN, ("none", "str", "native"), FIELDS):
        try:
            s = mk(cname, a, w, sp, fields)
        except Exception as e:
            ctx.violation(f"construct:{cname}:{a}:{sp}:{type(e).__name__}", f"{cname}(x, xp={a}, dtype={sp}:{w}) raised {e!r}", {"cls": cname, "ns": a, "w": w, "spelling": sp})
            continue
        sx = np.asarray(nsutil.to_list(s.x), float)
        w0 = nsutil.dtype_name(s.x.dtype)
        if w0 == "float64":
            for fname_, want_ in (("log_likelihood", [0.1, 1.0 / 3.0, 2.7]), ("log_prior", [0.0, 0.7, 1.1]), ("log_q", [1.3, 1.0, 2.0 / 7.0])):
                got_ = getattr(s, fname_)
                if got_ is not None and not np.array_equal(np.asarray(nsutil.to_list(got_), float), np.asarray(want_)):
                    ctx.violation(f"construct:precision:{cname}:{a}", f"{cname}(xp={a}, float64) built from Python floats holds {fname_} = {nsutil.to_list(got_)} (given {want_})",
                                  {"cls": cname, "ns": a, "spelling": sp, "field": fname_})
                    break
            given_le = -1234.5678901234567 if ((cname == "SMCSamples" and fields[2]) or (cname == "Samples" and not all(fields))) else None
            if given_le is not None and (s.log_evidence is None or nsutil.to_float(s.log_evidence) != given_le):
                ctx.violation(f"construct:precision:log_evidence:{cname}:{a}", f"{cname}(xp={a}, float64, log_evidence={given_le!r}) holds {s.log_evidence!r}",
                              {"cls": cname, "ns": a, "spelling": sp})
        for (tsp, tw) in tgt_spells:
            npts += 1
            d2 = None if tsp == "none" else (tw if tsp == "str" else nsutil.native_dtype(b, tw))
            wantw = w0 if tsp == "none" else tw
            case = {"cls": cname, "src": a, "tgt": b, "width": w, "spelling": sp, "fields": fields, "target_dtype": f"{tsp}:{tw}"}
            ctx.count(json.dumps(case, sort_keys=True), True, kind=f"{cname}/{a}->{b}")
            ops = {"to_namespace": lambda: s.to_namespace(NS[b], dtype=d2),
                   "from_samples": lambda: classes[cname].from_samples(s, xp=NS[b], dtype=d2)}
            if b == "numpy":
                if cname == "BaseSamples":
                    ops["to_numpy"] = lambda: s.to_numpy(dtype=d2)
                elif tsp == "none":
                    ops["to_numpy"] = lambda: s.to_numpy()
            if cname == "SMCSamples" and tsp == "none" and a == b:
                ops["to_standard_samples"] = lambda: s.to_standard_samples()
            for op, f in ops.items():
                try:
                    t = f()
                except Exception as e:
                    ctx.violation(f"{op}:raises:{cname}:{a}->{b}", f"{cname}.{op} {a}->{b} ({w}, dtype {sp}, target dtype {tsp}:{tw}) raised {type(e).__name__}: {str(e)[:120]}", case)
                    continue
                wt, kt, dn, ft, tn = summary(t)
                wf = fields if op != "to_standard_samples" else (fields[0], fields[1], 0)
                if wt != wantw or dn != wantw:
                    ctx.violation(f"{op}:width:{cname}:{a}->{b}", f"{cname}.{op} {a}->{b}: arrays {wt}, dtype field {dn}, expected {wantw}", case)
                if tuple(int(v) for v in ft) != tuple(wf):
                    ctx.violation(f"{op}:fields:{cname}", f"{cname}.{op}: optional fields {ft} from {fields}", case)
                if not np.array_equal(np.asarray(nsutil.to_list(t.x), float).astype(wantw), sx.astype(wantw)):
                    ctx.violation(f"{op}:values:{cname}:{a}->{b}", f"{cname}.{op} {a}->{b} changed values", case)
                # the scalars a set carries (evidence and its error) are fields too: a conversion keeps them
                # (from_samples is the class-changing constructor: class-specific scalars are passed to it explicitly, by design)
                for sf in (() if op == "from_samples" else ("log_evidence", "log_evidence_error") if op == "to_standard_samples" else ("log_evidence", "log_evidence_error", "beta")):
                    v0, v1 = getattr(s, sf, None), getattr(t, sf, None)
                    if v0 is None:
                        if v1 is not None:
                            ctx.violation(f"{op}:scalar-appears:{sf}:{cname}", f"{cname}.{op} {a}->{b}: {sf} was None, is {v1!r}", case)
                            break
                        continue
                    try:
                        a1 = None if v1 is None else np.asarray(nsutil.to_list(v1), float)
                        bad_scalar = a1 is None or a1.ndim != 0 or abs(float(a1) - nsutil.to_float(v0)) > 1e-5 * (1 + abs(nsutil.to_float(v0)))
                    except Exception:
                        bad_scalar = True
                    if bad_scalar:
                        ctx.violation(f"{op}:scalar:{sf}:{cname}", f"{cname}.{op} {a}->{b}: {sf} was {v0!r}, is {v1!r}", case)
                        break
                if not nsutil.NS_OF(t) == (b if op not in ("to_standard_samples",) else a):
                    ctx.violation(f"{op}:namespace:{cname}", f"{cname}.{op}: result lives in {nsutil.NS_OF(t)}, requested {b}", case)
            if len(ctx.samples) < 3 and a != b and tsp == "none":
                ctx.sample(case)
        # model row for this source (all target spellings at once)
    # the model is evaluated on the whole space inside Coq; its per-point verdicts must all be `true` exactly where the
    # implementation grid above raised no violation — compare the aggregate and a sample of individual points
    t = ("From Coq Require Import List Bool.\nFrom AV Require Import Model.Convert Proofs.C15.\nImport ListNotations.\n"
         "Definition probed : oracle := {| accepts := fun xp k => match xp, k with "
         + " | ".join(f"{NSN[n]}, {k} => {'true' if v else 'false'}" for (n, k), v in probe.items()) + " end;\n"
         " default_w := fun xp => match xp with " + " | ".join(f"{NSN[n]} => {WN[d]}" for n, d in defaults.items()) + " end |}.\n"
         "Eval vm_compute in (all_ok probed, length space).\n")
    ok, out = common.coq_eval("C15_model", t)
    res = common.parse_eval_lists(out)
    model_ok = ok and res and res[0].startswith("(true")
    nviol_grid = len([v for v in ctx.violations])
    ctx.oblig("correspondence:model-verdict-on-probed-oracle", bool(model_ok) == (nviol_grid == 0),
              f"model all_ok={res[:1]} while the implementation grid produced {nviol_grid} violations; coq: {out[-400:]}")
    ctx.extra["grid_points"] = npts
    ctx.extra["exhaustive"] = True
    # ---------------- every dtype spelling accepted by the helpers
    spell = []
    for n, xp in NS.items():
        for w in WN:
            for v in (w, w.upper(), nsutil.native_dtype(n, w), getattr(np, w), np.dtype(w), getattr(torch, w)):
                for tn, txp in NS.items():
                    try:
                        r = convert_dtype(v, txp)
                        okc = nsutil.dtype_name(r) == w and kind_of(r) == ("KTo" if tn == "torch" else "KNp")
                    except Exception as e:
                        okc = False
                        r = repr(e)
                    ctx.count(("convert_dtype", repr(v), tn), True, kind="convert_dtype")
                    if not okc:
                        ctx.violation(f"convert_dtype:{type(v).__name__}:{tn}", f"convert_dtype({v!r}, {tn}) -> {r!r}, expected {w} native to {tn}", {"value": repr(v), "target": tn})
            for v in (w, nsutil.native_dtype(n, w)):
                r = resolve_dtype(v, xp)
                if nsutil.dtype_name(r) != w:
                    ctx.violation(f"resolve_dtype:{n}", f"resolve_dtype({v!r}, {n}) -> {r!r}", {"value": repr(v)})
    # ---------------- sampler populations keep the requested precision
    for nsname in NS:
        for w in WN:
            for kind, answers in (("minipcn_smc", None), ("importance", None), ("minipcn_smc", "other"), ("importance", "other"),
                                  ("minipcn", None), ("emcee", None)):
                if kind == "emcee" and nsname != "numpy":
                    continue
                try:
                    tgt0 = sd.Target(2, s=1.0, c=0.3, prior="normal")
                    if answers == "other":        # the user's model answers in the OTHER width than the one requested
                        tgt0.answers_in = "float64" if w == "float32" else "float32"
                    a, out_s, tgt, flow = sd.aspire_sample(kind, nsname, 2, 10, 5, width=w, target=tgt0,
                                                           sample_kwargs={"n_final_samples": 20} if kind == "minipcn_smc" else {})
                except Exception as e:
                    ctx.violation(f"sampler-run:{kind}:{nsname}:{w}:{type(e).__name__}", f"{kind} run in {nsname}/{w} raised {e!r}", {"kind": kind, "ns": nsname, "w": w})
                    continue
                ctx.count(("sampler", kind, nsname, w, answers), True, kind="sampler-dtype" + ("/model-answers-in-other-width" if answers else ""))
                pops = [("returned", out_s)]
                if kind == "minipcn_smc":
                    pops += [(f"history[{i}]", p) for i, p in enumerate(a.sampler.history.sample_history)]
                for where, p in pops:
                    for fname in ("x", "log_likelihood", "log_prior", "log_q"):
                        arr = getattr(p, fname, None)
                        if arr is not None and nsutil.dtype_name(arr.dtype) != w:
                            ctx.violation(f"sampler-precision:{kind}:{where.split('[')[0]}:{fname}", f"{kind} run requested {w} in {nsname}: {where}.{fname} is {arr.dtype}",
                                          {"kind": kind, "ns": nsname, "w": w, "where": where, "model_answers_in": tgt0.answers_in})
                            break
    # ---------------- Aspire.sample_flow: draws straight from the proposal are a population like any other
    for nsname in NS:
        for w in WN:
            try:
                tgtf = sd.Target(2, s=1.0, c=0.3, prior="normal")
                af = sd.make_aspire(tgtf, sd.FakeFlow(2), NS[nsname], nsutil.native_dtype(nsname, w), 2, flow_backend="fake")
                sf = af.sample_flow(7)
                ctx.count(("sample_flow", nsname, w), True, kind="sampler-dtype/sample_flow")
                for fname in ("x", "log_q"):
                    arr = getattr(sf, fname, None)
                    if arr is not None and nsutil.dtype_name(arr.dtype) != w:        # the namespace is the flow's own unless xp= is given
                        ctx.violation(f"sampler-precision:sample_flow:{fname}", f"Aspire(xp={nsname}, dtype={w}).sample_flow(): {fname} is {arr.dtype} in {nsutil.NS_OF(sf)}",
                                      {"kind": "sample_flow", "ns": nsname, "w": w})
                        break
            except Exception as e:
                ctx.violation(f"sampler-run:sample_flow:{nsname}:{w}:{type(e).__name__}", f"sample_flow in {nsname}/{w} raised {e!r:.200}", {"ns": nsname, "w": w})
    # ---------------- "proposal outputs can be consumed in any supported sample namespace": the library's OWN trained flow (zuko)
    # as the proposal of an SMC kernel and as the preconditioning map, in every namespace — the kernel's target evaluation, the
    # conversion of log q into the population's namespace, and the flow seen as a map
    try:
        from aspire import Aspire
        from aspire.samples import Samples, SMCSamples
        rng0 = np.random.default_rng(3)
        for nsname, xp in NS.items():
            tgt = sd.Target(2, s=1.0, c=0.3, prior="normal")
            case = {"flow_backend": "zuko", "ns": nsname}
            ctx.count(("own-flow", nsname), True, kind="library-flow-as-proposal")
            try:
                a = Aspire(log_likelihood=tgt.log_likelihood, log_prior=tgt.log_prior, dims=2, parameters=["mass", "spin"], flow_backend="zuko", xp=xp)
                a.fit(Samples(rng0.normal(size=(60, 2)), xp=xp, parameters=["mass", "spin"]), n_epochs=1)
            except Exception as e:
                ctx.violation(f"own-flow:fit:{nsname}:{type(e).__name__}", f"fitting the zuko flow from {nsname} samples raised {e!r:.200}", case)
                continue
            pts = rng0.normal(size=(5, 2))
            for what in ("log_q into the population's namespace", "kernel target (SMCSampler.log_prob)", "flow as preconditioning map"):
                try:
                    if what.startswith("log_q"):
                        pop = SMCSamples(pts, xp=xp, beta=0.0)
                        got = pop.array_to_namespace(a.flow.log_prob(pop.x))
                        ok = nsutil.NS_OF(pop) == nsname and len(nsutil.to_list(got)) == 5
                    elif what.startswith("kernel"):
                        smp = a.init_sampler("minipcn_smc", preconditioning="none")
                        got = smp.log_prob(pts if nsname == "numpy" else xp.asarray(pts, dtype=smp.dtype), 0.5)
                        ok = bool(np.all(np.isfinite(np.asarray(nsutil.to_list(got), float))))
                    else:
                        smp = a.init_sampler("minipcn_smc", preconditioning="flow", preconditioning_kwargs={"fit_kwargs": {"n_epochs": 1}})
                        z = smp.fit_preconditioning_transform(pts if nsname == "numpy" else xp.asarray(pts, dtype=smp.dtype))
                        ok = len(nsutil.to_list(z)) == 5
                    if not ok:
                        ctx.violation(f"own-flow:{what.split(' ')[0]}:{nsname}", f"{what}: unusable result in {nsname}", dict(case, what=what))
                except Exception as e:
                    ctx.violation(f"own-flow:{what.split(' ')[0]}:{nsname}:{type(e).__name__}", f"{what} with the library's zuko flow in the {nsname} namespace raised {e!r:.200}",
                                  dict(case, what=what))
    except ImportError as e:
        ctx.oblig("search:library-flow-available", False, repr(e))
