"""C07 — adaptive temperature steps meet the ESS target and are maximal."""
import json
import math

import numpy as np

from harness import common, nsutil
from harness import smcbatch as sb
from harness import smcdrive as sd
from harness import smcreplay as sr_

GEN = ["logsumexp", "effective_sample_size", "unnormalized_log_weights", "log_weights", "compute_weights",
       "current_target_efficiency"]


def run(ctx):
    import mpmath as mp
    mp.mp.dps = 40
    common.standard_prove(ctx, gen_targets=GEN)
    ctx.rule = ("adaptive SMC runs (scalar and ramped targets, tolerances 1e-9..5e-2, min-step floors, peaked likelihoods; plus float32 populations with "
                "very peaked likelihoods and tolerances 1e-8..1e-10, checked numerically only) from "
                "random.Random(VERIF_SEED); each iteration = one case: the stored population before the step, the temperature taken, "
                "the target in force; ESS recomputed in mpmath at beta and beta+tol; every determine_beta call is also replayed "
                "bit-exactly (queries and result) through the Coq model; non-trivial = the step is interior (beta < 1)")
    cfgs = [c for c in sb.gen_batch(ctx, ctx.scale(60, 400), extreme_frac=0.15) if c["sample_kwargs"].get("adaptive", True)
            and c["sample_kwargs"].get("store_sample_history", True)][: ctx.scale(30, 220)]
    runs, results = sb.run_and_replay(ctx, cfgs)
    irfile = common.COQ / "Gen" / "kernels_ir.json"
    irall = json.loads(irfile.read_text())["ir"] if irfile.exists() else {}
    import translate
    ev = translate.make_evaluator(irall)
    tie = {"effective_sample_size(log_weights)": [True, ""], "current_target_efficiency": [True, ""]}
    nsteps = 0
    nmono = 0
    # populations in single precision with a stated tolerance far below float32's epsilon: the temperature is a Python float, so the
    # stated tolerance (not the resolution of the weights) bounds how much of an admissible step may be given away
    f32 = []
    for j in range(ctx.scale(6, 30)):
        f32.append(dict(kind="base", ns=["torch", "numpy", "jax"][j % 3], width="float32", N=[16, 32, 12][j % 3], dims=1 + j % 2,
                        s=[1e-3, 3e-4, 3e-3][(j // 3) % 3], c=[0.0, 1.0][j % 2], prior="normal", seed=ctx.rng.randrange(1 << 30),
                        mcmc_steps=1, ckpt="none",
                        sample_kwargs=dict(adaptive=True, beta_tolerance=[1e-9, 1e-10, 1e-8][j % 3],
                                           target_efficiency=[0.5, (0.3, 0.7)][(j // 2) % 2])))
    runs32 = [sr_.do_run(c) for c in f32]
    for r in runs32:
        if r.error is not None:
            ctx.violation(f"single-precision-run-fails:{str(r.error).split('(')[0][:60]}", f"adaptive run on a float32 population raised {r.error}", {"cfg": r.cfg})
    for r in list(runs) + runs32:
        single = r.cfg.get("width") == "float32"
        slack = 3e-5 if single else 1e-9     # ESS/N as the implementation evaluates it (float32 rounding) vs the exact value
        if r.error is not None or r.history is None:
            continue
        cfg, sk = r.cfg, r.cfg["sample_kwargs"]
        pre, its = sd.split_iterations(r.events)
        hist = r.history
        tol = float(sk.get("beta_tolerance", 1e-6))
        for t, it in enumerate(its):
            if "beta" not in it or t >= len(hist.sample_history) - 1:
                continue
            pop = hist.sample_history[t]
            N = len(pop.x)
            beta_prev, beta_t, ms = it["beta_prev"], it["beta"], it["ms_out"]
            target = it["cte"][0][1] if it["cte"] else None
            if target is None:
                continue
            nsteps += 1
            interior = beta_t < 1.0
            ctx.count((cfg["seed"], t), interior, kind=("float32/" if single else "") + ("interior" if interior else "full-step"))
            if single:
                # float32: the log-weights (beta - beta_prev) * a_i are themselves rounded at eps32 * |log w| (inherent to the width), so
                # "the ESS of the incremental weights" is taken of the weights the population reports at that temperature — evaluated
                # exactly (mpmath) from that array; what is checked is the ESS functional and the search, not float32's resolution
                def eff(b, pop=pop):
                    lw_ = [mp.mpf(float(v)) for v in nsutil.to_list(pop.log_weights(b))]
                    m_ = max(lw_)
                    e_ = [mp.exp(v - m_) for v in lw_]
                    s1_, s2_ = mp.fsum(e_), mp.fsum([v * v for v in e_])
                    return float(s1_ * s1_ / s2_) / N
            else:
                eff = lambda b: sb.mp_step_quantities(pop, b)[0] / N
            e_t = eff(beta_t)
            floor_forced = beta_t <= beta_prev + ms + 1e-15 and ms > 0
            progress_forced = (beta_t - beta_prev) <= tol * (1 + 1e-9)
            case = {"cfg": cfg, "iteration": t + 1, "beta_prev": beta_prev, "beta": beta_t, "target": target, "min_step": ms,
                    "eff(beta)": e_t}
            if len(ctx.samples) < 3 and interior:
                ctx.sample({k: case[k] for k in ("iteration", "beta_prev", "beta", "target", "eff(beta)")})
            if not floor_forced and not progress_forced and e_t < target - slack:
                ctx.violation(f"target-missed:{cfg['seed']}:{t}", f"ESS/N at the chosen temperature {e_t} < target {target} (no floor in force)", case)
            if interior:
                e_up = eff(min(1.0, beta_t + tol))
                if e_up >= target + slack:
                    case["eff(beta+tol)"] = e_up
                    ctx.violation(f"not-maximal:{cfg['seed']}:{t}", f"ESS/N at beta+tol = {e_up} still >= target {target}: a larger step was admissible", case)
            elif not floor_forced and beta_prev + ms < 1.0:
                if eff(1.0) < target - slack and (1.0 - beta_prev) > tol:
                    ctx.violation(f"full-step-misses-target:{cfg['seed']}:{t}", f"jumped to 1 with ESS/N {eff(1.0)} < target {target}", case)
            # --- the curve the search queries is non-increasing in the temperature (C07_code_curve_nonincreasing), on the implementation
            if t < 3 and not single:
                try:
                    from aspire.utils import effective_sample_size as _ess
                    grid = [beta_prev + (1.0 - beta_prev) * f for f in (0.0, 1e-6, 1e-3, 0.03, 0.25, 0.6, 1.0)]
                    vals = [nsutil.to_float(_ess(pop.log_weights(b))) / N for b in grid]
                    nmono += 1
                    for (b1, v1), (b2, v2) in zip(zip(grid, vals), zip(grid[1:], vals[1:])):
                        if v2 > v1 * (1 + 1e-7) + 1e-12:
                            ctx.violation(f"curve-not-monotone:{cfg['seed']}:{t}", f"ESS/N rises from {v1} at beta={b1} to {v2} at beta={b2}", dict(case, grid=grid, eff=vals))
                            break
                except Exception as e:
                    ctx.violation(f"curve-raises:{cfg['seed']}:{t}", f"efficiency curve raised {e!r}", case)
            # --- tie: translated kernels vs implementation on this population
            if irall and t < 3 and not single:
                try:
                    from aspire.utils import effective_sample_size
                    ll, lp, lq, b0 = sb.pop_arrays(pop)
                    A = dict(x=list(range(N)), ll=[mp.mpf(float(v)) for v in ll], lp=[mp.mpf(float(v)) for v in lp],
                             lq=[mp.mpf(float(v)) for v in lq], beta0=mp.mpf(b0), beta=mp.mpf(beta_t))
                    g = ev("effective_sample_size", log_w=ev("log_weights", **A))
                    i = nsutil.to_float(effective_sample_size(pop.log_weights(beta_t)))
                    if abs(float(g) - i) > 1e-6 * (1 + abs(i)) and tie["effective_sample_size(log_weights)"][0]:
                        tie["effective_sample_size(log_weights)"] = [False, f"IR {float(g)} vs impl {i} at {case}"]
                    te = sk.get("target_efficiency", 0.5)
                    if isinstance(te, tuple):
                        gt = ev("current_target_efficiency_adaptive", e0=mp.mpf(te[0]), e1=mp.mpf(te[1]),
                                rate=mp.mpf(sk.get("target_efficiency_rate", 1.0)), beta=mp.mpf(beta_prev))
                    else:
                        gt = ev("current_target_efficiency_scalar", e=mp.mpf(float(te)), beta=mp.mpf(beta_prev))
                    if abs(float(gt) - target) > 1e-12 and tie["current_target_efficiency"][0]:
                        tie["current_target_efficiency"] = [False, f"IR {float(gt)} vs impl {target}"]
                except Exception as e:
                    tie["effective_sample_size(log_weights)"] = [False, repr(e)]
    for k, (ok, d) in tie.items():
        ctx.oblig(f"correspondence:IR-vs-impl:{k}", ok and bool(irall), d)
    ctx.extra["steps_checked"] = nsteps
    ctx.extra["populations_probed_for_monotone_curve"] = nmono
