"""C09 — resampling selects by incremental weight and copies particles intact."""
import json
import math

import numpy as np

from harness import common, nsutil

GEN = ["resample_probs", "resample_rows", "log_weights", "unnormalized_log_weights", "logsumexp", "resample_call"]


class SpyRng:
    """Records the probability vector handed to choice() and returns a scripted index vector."""

    def __init__(self, idx):
        self.idx = np.asarray(idx)
        self.calls = []

    def choice(self, a, size=None, replace=True, p=None):
        self.calls.append({"a": a, "size": size, "replace": replace, "p": None if p is None else np.asarray(p, float).copy(),
                           "p_dtype": (p.dtype if isinstance(p, np.ndarray) else None)})
        assert size == len(self.idx), (size, len(self.idx))
        return self.idx


def run(ctx):
    import mpmath as mp
    mp.mp.dps = 40
    from aspire.samples import SMCSamples
    common.standard_prove(ctx, gen_targets=GEN)
    irall = {}
    for f in ("kernels_ir.json", "rows_ir.json"):
        p = common.COQ / "Gen" / f
        if p.exists():
            irall.update(json.loads(p.read_text())["ir"])
    import translate
    ev = translate.make_evaluator(irall)
    ctx.rule = ("populations (integer-tagged coordinates, random log-densities incl. ties and large spreads) x temperature pairs x requested "
                "sizes x scripted index vectors (repeats, all-same, permutations) x {numpy,torch,jax} x {float32,float64} from "
                "random.Random(VERIF_SEED); each case = one resample() call with a spy generator: the probability vector it receives is "
                "compared with exp((b'-b)(logL+logpi-logq)) normalised (mpmath) and with the translated kernel; every output row is compared "
                "EXACTLY with the source row named by the index vector; distinct = (ns, dtype, N, size, betas, first values)")
    ctx.trust("numpy.random.Generator.choice draws index i with probability p[i] (numpy is trusted; the check verifies the vector it is given)",
              "numpy/torch/jax integer-array indexing x[idx] returns rows idx[j] (Lib/Soa.v select is the model of that)")
    NS = nsutil.namespaces()
    tie = {"resample_probs": [True, ""], "resample_rows": [True, ""]}
    for rep in range(ctx.scale(40, 400)):
        nsname = ctx.rng.choice(["numpy", "torch", "jax"])
        width = ctx.rng.choice(["float64", "float64", "float32"])
        xp, dt = NS[nsname], nsutil.native_dtype(nsname, width)
        n = ctx.rng.choice([2, 3, 5, 17, 64])
        d = ctx.rng.choice([1, 2, 4])
        spread = ctx.rng.choice([1.0, 5.0, 50.0, 1e3])
        x = np.arange(n * d, dtype=float).reshape(n, d) + 1000.0          # row i is identifiable from any coordinate
        ll = [ctx.rng.gauss(0, spread) for _ in range(n)]
        lp = [ctx.rng.choice([0.0, -1.0, ctx.rng.gauss(0, 1)]) for _ in range(n)]
        lq = [ctx.rng.gauss(0, 2) for _ in range(n)]
        if ctx.rng.random() < 0.2:
            ll = [ll[0]] * n
        if rep % 5 == 3:
            # a population as it looks after an earlier resampling step under a very peaked likelihood: a few distinct particles, each
            # present several times, log-likelihoods of magnitude 1e5..1e6 (the sum over the tied best ones is what must come out as 1)
            base_ = [-(10 ** ctx.rng.choice([5, 5.5, 6])) * (1 + 0.7 * ctx.rng.random()) for _ in range(max(1, n // 4))]
            base_[0] = max(base_)
            ll = [base_[0] if ctx.rng.random() < 0.7 else ctx.rng.choice(base_) for _ in range(n)]
        b0 = ctx.rng.choice([0.0, 0.1, 0.5])
        b1 = ctx.rng.choice([b0 + 0.05, b0 + 0.3, 1.0])
        if rep % 5 == 3:
            b1 = 1.0
        size = ctx.rng.choice([None, None, n, 2 * n, max(1, n // 2), 1])
        if rep % 6 == 5:
            # no temperature move, only a change of size (what the final enlargement does at beta = 1): every particle has the same
            # incremental weight, so the draw is uniform over ALL particles
            b1, size = b0, ctx.rng.choice([2 * n, max(1, n // 2), n + 3])
        m = n if size is None else size
        style = ctx.rng.choice(["random", "same", "perm", "reverse"])
        if style == "same":
            idx = [ctx.rng.randrange(n)] * m
        elif style == "perm" and m == n:
            idx = list(range(n))
            ctx.rng.shuffle(idx)
        elif style == "reverse" and m == n:
            idx = list(range(n - 1, -1, -1))
        else:
            idx = [ctx.rng.randrange(n) for _ in range(m)]
        s = SMCSamples(x, log_likelihood=ll, log_prior=lp, log_q=lq, beta=b0, xp=xp, dtype=dt,
                       parameters=[f"p{i}" for i in range(d)])
        rng = SpyRng(idx)
        # "the current population": a population whose weights were already looked at (as the loop does before every step) and whose
        # likelihood values were then re-assigned is still resampled according to the fields it has NOW
        hist = ctx.rng.random() < 0.3
        if hist:
            try:
                s.log_weights(b1)
                s.log_evidence_ratio(b1)
                s.log_p_t(b1)
                s.log_likelihood = xp.flip(s.log_likelihood, axis=0)
            except Exception as e:
                ctx.violation(f"reassign-raises:{type(e).__name__}:{nsname}", f"weights then field assignment raised {e!r}", {"ns": nsname, "dtype": width, "N": n})
                continue
        case = {"ns": nsname, "dtype": width, "N": n, "dims": d, "beta": b0, "beta_new": b1, "n_samples": size, "idx": idx[:12],
                "ll": ll[:6], "lp": lp[:6], "lq": lq[:6], "weights_inspected_then_log_likelihood_reversed": hist}
        ctx.count((nsname, width, n, size, b0, b1, round(ll[0], 6), style), n >= 2 and len(set(idx)) >= 1, kind=f"{nsname}/{width}/{style}" + ("/reassigned" if hist else ""))
        if rep < 3:
            ctx.sample(case)
        try:
            out = s.resample(b1, n_samples=size, rng=rng)
        except Exception as e:
            ctx.violation(f"resample-raises:{type(e).__name__}:{nsname}", f"resample raised {e!r}", case)
            continue
        # ---- the probability vector the generator received
        if len(rng.calls) != 1:
            ctx.violation("generator-calls", f"generator consulted {len(rng.calls)} times", case)
            continue
        c = rng.calls[0]
        p = c["p"]
        llv = nsutil.to_list(s.log_likelihood)
        lpv = nsutil.to_list(s.log_prior)
        lqv = nsutil.to_list(s.log_q)
        a = [mp.mpf(llv[i]) + mp.mpf(lpv[i]) - mp.mpf(lqv[i]) for i in range(n)]
        dlt = mp.mpf(b1) - mp.mpf(b0)
        w = [dlt * t for t in a]
        mx = max(w)
        e = [mp.exp(t - mx) for t in w]
        tot = mp.fsum(e)
        want = [float(t / tot) for t in e]
        eps = nsutil.eps_of(width)
        tolp = 64 * eps * (1 + float(abs(dlt)) * max(abs(float(t)) for t in a))
        if c["a"] != n or c["replace"] is not True or p is None or len(p) != n:
            ctx.violation("choice-arguments", f"choice(a={c['a']}, replace={c['replace']}, len(p)={None if p is None else len(p)})", case)
            continue
        if any(abs(float(p[i]) - want[i]) > tolp * (want[i] + 1e-300) + 1e-300 and abs(float(p[i]) - want[i]) > tolp for i in range(n)):
            ctx.violation(f"probabilities:{nsname}:{width}", f"p={p[:5]} but normalised incremental weights are {want[:5]}", case)
        # numpy.random.Generator.choice refuses a vector whose (compensated, binary64) sum is further from 1 than sqrt(eps) of the
        # vector's own dtype (and of binary64 at least): the step would raise instead of drawing
        p_arr = np.asarray(p)
        atol = float(np.sqrt(np.finfo(np.float64).eps))
        if c["p_dtype"] is not None and np.issubdtype(c["p_dtype"], np.floating):
            atol = max(atol, float(np.sqrt(np.finfo(c["p_dtype"]).eps)))
        psum = math.fsum(float(v) for v in p_arr.reshape(-1))
        if abs(psum - 1.0) > atol or np.any(p_arr < 0):
            ctx.violation(f"not-a-distribution:{width}", f"sum p = {psum!r} (dtype {c['p_dtype']}): numpy's choice() accepts |sum-1| <= {atol:.3g}", case)
        # ---- rows: exact copies of the source rows named by idx
        ox = np.asarray(nsutil.to_list(out.x), float).reshape(-1, d)
        oll, olp, olq = nsutil.to_list(out.log_likelihood), nsutil.to_list(out.log_prior), nsutil.to_list(out.log_q)
        sx = np.asarray(nsutil.to_list(s.x), float).reshape(-1, d)
        if len(ox) != m or len(oll) != m or len(olp) != m or len(olq) != m:
            ctx.violation("size", f"requested {m} rows, got x:{len(ox)} ll:{len(oll)} lp:{len(olp)} lq:{len(olq)}", case)
            continue
        for j in range(m):
            i = idx[j]
            if not (np.array_equal(ox[j], sx[i]) and oll[j] == llv[i] and olp[j] == lpv[i] and olq[j] == lqv[i]):
                src = [k for k in range(n) if np.array_equal(ox[j], sx[k])]
                ctx.violation(f"row-not-intact:{nsname}", f"output row {j} should copy source row {i}: x from {src}, ll match={oll[j] == llv[i]}, "
                              f"lp match={olp[j] == lpv[i]}, lq match={olq[j] == lqv[i]}", case)
                break
        if float(out.beta) != float(b1):
            ctx.violation("beta-not-set", f"resampled population has beta {out.beta}, requested {b1}", case)
        if nsutil.dtype_name(out.dtype) != nsutil.dtype_name(s.dtype) or type(out) is not type(s):
            ctx.violation("type-or-dtype", f"resampled population {type(out).__name__}/{out.dtype} from {type(s).__name__}/{s.dtype}", case)
        # ---- tie: translated kernels
        if irall and width == "float64":
            try:
                A = dict(x=list(range(n)), ll=[mp.mpf(v) for v in llv], lp=[mp.mpf(v) for v in lpv], lq=[mp.mpf(v) for v in lqv],
                         beta0=mp.mpf(b0), beta=mp.mpf(b1))
                g = ev("resample_probs", **A)
                if any(abs(float(g[i]) - float(p[i])) > 1e-9 * (1 + float(p[i])) + tolp for i in range(n)):
                    tie["resample_probs"] = [False, json.dumps(case)]
                B = dict(A, idx=idx, dX=None)
                gx = translate.evaluate_select(irall, "resample_rows_log_likelihood", B) if hasattr(translate, "evaluate_select") else None
            except Exception as e:
                tie["resample_probs"] = [False, repr(e)]
    # single precision, log-likelihoods of magnitude 3e6 that are EXACTLY representable (steps of 0.25), log q = log pi = 0, beta 0 -> 1:
    # the incremental log-weights are exact in float32, so the probability vector can and must be accurate — whatever is added to or
    # subtracted from them on the way must not cost resolution
    for nsname in ("numpy", "torch", "jax"):
        xp = NS[nsname]
        n8 = 8
        ll8 = [-3.0e6 + 0.25 * k for k in range(n8)]
        s8 = SMCSamples(np.arange(n8, dtype=float).reshape(n8, 1), log_likelihood=ll8, log_prior=[0.0] * n8, log_q=[0.0] * n8, beta=0.0, xp=xp,
                        dtype=nsutil.native_dtype(nsname, "float32"))
        spy8 = SpyRng(list(range(n8)))
        ctx.count(("exact-float32", nsname), True, kind=f"{nsname}/float32/exactly-representable-large")
        case8 = {"ns": nsname, "dtype": "float32", "N": n8, "ll": ll8, "beta": 0.0, "beta_new": 1.0}
        try:
            s8.resample(1.0, rng=spy8)
            p8 = np.asarray(spy8.calls[0]["p"], float)
            e8 = np.exp(np.asarray(ll8) - max(ll8))
            want8 = e8 / e8.sum()
            if np.max(np.abs(p8 - want8) / want8) > 1e-4:
                ctx.violation(f"probabilities:exact-float32:{nsname}", f"p = {np.round(p8, 4).tolist()} but the normalised incremental weights are {np.round(want8, 4).tolist()} "
                              "(every log-weight is exactly representable in float32)", case8)
        except Exception as e:
            ctx.violation(f"resample-raises:exact-float32:{type(e).__name__}", f"resample raised {e!r:.200}", case8)
    # same temperature and no size: the population itself
    s = SMCSamples(np.zeros((3, 1)), log_likelihood=[0, 1, 2], log_prior=[0, 0, 0], log_q=[0, 0, 0], beta=0.5, xp=NS["numpy"])
    if s.resample(0.5) is not s:
        ctx.violation("same-beta-identity", "resample(beta == self.beta) without a size did not return the population itself", {})
    for k, (ok, dd) in tie.items():
        if k == "resample_rows":
            continue
        ctx.oblig(f"correspondence:IR-vs-impl:{k}", ok and bool(irall), dd)
    # rows: the IR 'select' semantics is checked in Coq by evaluating the generated definition on a concrete case
    t = ("From Coq Require Import Reals List.\nFrom AV Require Import Lib.Soa Gen.Rows.\nImport ListNotations.\n"
         "Goal resample_rows_x [10;11;12]%nat [1;2;3]%R [4;5;6]%R [7;8;9]%R 0%R 1%R [2;0;2;1]%nat 0%nat = [12;10;12;11]%nat"
         " /\\ resample_rows_log_q [10;11;12]%nat [1;2;3]%R [4;5;6]%R [7;8;9]%R 0%R 1%R [2;0;2;1]%nat 0%nat = [9;7;9;8]%R.\n"
         "Proof. split; reflexivity. Qed.\n")
    ok, out = common.coq_eval("C09_rows", t)
    ctx.oblig("correspondence:generated-rows-evaluate", ok, out[-800:])
