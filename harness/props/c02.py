"""C02 — weights, evidence and ESS are exact functionals of the per-sample log-densities."""
import json
import math

import numpy as np

from harness import common, nsutil

GEN = ["logsumexp", "effective_sample_size", "compute_weights", "scaled_weights", "rejection_accept", "xlogsumexp", "xeffective_sample_size", "xcompute_weights"]


def gen_population(rng, kind, n):
    g = rng.gauss
    if kind == "moderate":
        s = rng.choice([0.5, 3.0, 30.0])
        ll = [g(0, s) for _ in range(n)]
        lp = [g(0, 1) for _ in range(n)]
        lq = [g(0, 2) for _ in range(n)]
    elif kind == "large":
        s = rng.choice([1e3, 1e4, 1e5])
        off = rng.choice([-1, 0, 1]) * s
        ll = [off + g(0, s) for _ in range(n)]
        lp = [g(0, 10) for _ in range(n)]
        lq = [g(0, 10) for _ in range(n)]
    elif kind == "offset":
        # a large COMMON offset with an ordinary spread: many samples share the weight, and any computation that does not remove
        # the offset before exponentiating / subtracting loses the ESS in the rounding of numbers of size |offset|
        off = rng.choice([-1, 1]) * rng.choice([3e3, 3e4, 1e5])
        s = rng.choice([0.0, 0.5, 1.5])
        ll = [off + g(0, s) for _ in range(n)]
        lp = [g(0, 0.3) for _ in range(n)]
        lq = [g(0, 0.3) for _ in range(n)]
    elif kind == "near-ties":
        # a proposal that matches the target almost exactly: weights equal to within 1e-4 .. 1e-9 (the spread of the scaled weights
        # is then far below 1, which a one-pass variance E[s^2] - E[s]^2 cannot resolve)
        d_ = rng.choice([1e-3, 1e-4, 1e-6, 1e-8])
        ll = [rng.uniform(-d_, d_) for _ in range(n)]
        lp = [0.0] * n
        lq = [0.0] * n
    elif kind == "ties":
        vals = [g(0, 5) for _ in range(rng.choice([1, 2, 3]))]
        ll = [rng.choice(vals) for _ in range(n)]
        lp = [0.0] * n
        lq = [rng.choice([0.0, 1.0]) for _ in range(n)]
    elif kind == "neginf":
        # a subset of the rows has zero weight; the finite ones are ordinary, or all sit far outside the range of exp() (common offset
        # up to 1e5 either way): the stabilising shift has to come from the FINITE rows
        off = rng.choice([0.0, 0.0, -4e4, 3e3, -1e5, 3e4])
        ll = [off + g(0, 5) for _ in range(n)]
        lp = [(-math.inf if rng.random() < 0.4 else g(0, 1)) for _ in range(n)]
        if all(v == -math.inf for v in lp):
            lp[0] = 0.0
        lq = [g(0, 2) for _ in range(n)]
    else:
        raise ValueError(kind)
    return ll, lp, lq


def mp_defs(lw):
    """Definitions from the property text, in mpmath, on finite-or-(-inf) log-weights."""
    import mpmath as mp
    fin = [t for t in lw if t != -mp.inf]
    m = max(fin)
    e = [mp.exp(t - m) for t in fin]           # scaled weights of the finite rows; -inf rows weigh 0
    n = len(lw)
    s1, s2 = mp.fsum(e), mp.fsum([t * t for t in e])
    logz = m + mp.log(s1 / n)
    ess = s1 * s1 / s2
    z = s1 / n
    all_e = e + [mp.mpf(0)] * (n - len(fin))
    rel = mp.sqrt(mp.fsum([(t - z) ** 2 for t in all_e]) / (n * (n - 1))) / z if n > 1 else mp.nan
    return logz, ess, rel, m


def close(a, b, rel, abs_=0.0):
    a, b = float(a), float(b)
    if math.isnan(a) or math.isnan(b):
        return False
    if math.isinf(a) or math.isinf(b):
        return a == b
    return abs(a - b) <= abs_ + rel * max(abs(a), abs(b))


class ScriptedRng:
    def __init__(self, u):
        self.u = np.asarray(u, dtype=float)

    def uniform(self, size=None):
        assert size == len(self.u)
        return self.u


def run(ctx):
    import mpmath as mp
    mp.mp.dps = 50
    from aspire.samples import Samples
    from aspire import utils as au

    common.standard_prove(ctx, gen_targets=GEN)
    irfile = common.COQ / "Gen" / "kernels_ir.json"
    irall = json.loads(irfile.read_text())["ir"] if irfile.exists() else {}
    import translate
    ev = translate.make_evaluator(irall)
    irxfile = common.COQ / "Gen" / "kernelsx_ir.json"
    irx = json.loads(irxfile.read_text())["ir"] if irxfile.exists() else {}
    evx = translate.make_evaluator(irx)

    ctx.rule = ("populations (ll,lp,lq) from one random.Random(VERIF_SEED): kinds moderate/large(|log w| up to 1e5)/offset(common offset up to 1e5, spread <= 1.5)/ties/neginf "
                "x N x {numpy,torch,jax} x {float32,float64}; each case = one Samples object on which (a) the mpmath evaluation "
                "of the translator's IR (the text the Coq theorems are about) and (b) the definitions in the property text are "
                "compared with the implementation; distinct = distinct (kind,N,ns,width,first values); non-trivial = N>=2 and weights not all equal")
    ctx.trust("tools/translate.py (Python-ast -> IR -> Gallina printer) and its mpmath IR evaluator; validated on every run by the numeric differential below",
              "theorems are over exact reals: binary32/64 rounding inside exp/log/sum is outside the model (the differential uses tolerances ~1e3 eps)",
              "rows with log-weight -inf: theorems over XR (reals + NaN/-inf/+inf with the IEEE rules, Lib/XR.v) about the same functions translated a second time (Gen/KernelsX.v), tied by the same mpmath differential on the neginf populations")
    NS = nsutil.namespaces()
    sizes = [2, 3, 7, 40] + ([400] if ctx.quick else [400, 2000, 5000])
    reps = 2 if ctx.quick else 6
    kinds = ["moderate", "large", "offset", "near-ties", "ties", "neginf"]
    tie_ok = {}
    tie_cases = 0

    def tie(name, ok, detail):
        tie_ok.setdefault(name, [True, ""])
        if not ok and tie_ok[name][0]:
            tie_ok[name] = [False, detail]

    for kind in kinds:
        for n in sizes:
            for r in range(reps):
                ll0, lp0, lq0 = gen_population(ctx.rng, kind, n)
                perm = list(range(n))
                ctx.rng.shuffle(perm)
                u = [ctx.rng.random() * 0.98 + 0.01 for _ in range(n)]
                for nsname, xp in NS.items():
                    for width in ("float32", "float64"):
                        dt = nsutil.native_dtype(nsname, width)
                        eps = nsutil.eps_of(width)
                        x = np.arange(n, dtype=float).reshape(n, 1)
                        s = Samples(x, log_likelihood=ll0, log_prior=lp0, log_q=lq0, xp=xp, dtype=dt)
                        ll = nsutil.to_list(s.log_likelihood)
                        lp = nsutil.to_list(s.log_prior)
                        lq = nsutil.to_list(s.log_q)
                        lw_impl = nsutil.to_list(s.log_w)
                        M = max(1.0, max(abs(v) for v in ll + lp + lq if math.isfinite(v)))
                        key = (kind, n, nsname, width, round(ll0[0], 6))
                        nontriv = n >= 2 and len(set(lw_impl)) > 1
                        ctx.count(key, nontriv, kind=f"{kind}/{nsname}/{width}")
                        case = {"kind": kind, "N": n, "ns": nsname, "dtype": width, "seed": ctx.seed,
                                "ll": ll0[:8], "lp": lp0[:8], "lq": lq0[:8]}
                        full = {"kind": kind, "N": n, "ns": nsname, "dtype": width, "ll": ll0, "lp": lp0, "lq": lq0}
                        if r == 0 and n == 3 and width == "float64":
                            ctx.sample(case)
                        rel = (5e-3 if width == "float32" else 1e-9) + 8 * n * eps
                        # the ESS is a ratio of sums of max-shifted weights: its error does not grow with the size of the log-weights
                        # ("accurate far outside the range of exp()"), so it gets a tolerance that does not either
                        rel_ess = (2e-4 if width == "float32" else 1e-9) + 8 * n * eps
                        # ---------------- P1 log_w is ll+lp-lq of the same row
                        for i in range(n):
                            want = ll[i] + lp[i] - lq[i]
                            if not close(lw_impl[i], want, 0, 4 * eps * M):
                                ctx.violation(f"log_w:{kind}:{nsname}:{width}", f"log_w[{i}]={lw_impl[i]} != ll+lp-lq={want}", full)
                        lw_mp = nsutil.mpf_list(lw_impl)
                        logz, ess, relerr, m = mp_defs(lw_mp)
                        le_impl = nsutil.to_float(s.log_evidence)
                        ess_impl = nsutil.to_float(s.effective_sample_size)
                        rel_impl = nsutil.to_float(s.log_evidence_error)
                        # ---------------- P2..P4 definitions, bounds, finiteness
                        if not close(le_impl, logz, rel, 16 * eps * M):
                            ctx.violation(f"log_evidence:{kind}:{nsname}:{width}", f"log_evidence {le_impl} != log mean w {float(logz)}", full)
                        if not close(ess_impl, ess, rel_ess):
                            ctx.violation(f"ess:{kind}:{nsname}:{width}", f"ESS {ess_impl} != (sum w)^2/sum w^2 = {float(ess)}", full)
                        if not (1 - rel_ess <= ess_impl <= n * (1 + rel_ess)):
                            ctx.violation(f"ess-bounds:{kind}:{nsname}:{width}", f"ESS {ess_impl} outside [1,{n}]", full)
                        # relative evidence error: the standard error of the mean of the max-shifted weights over their mean; the
                        # deviations (s - mean) are exact to ~eps, so an absolute allowance of a few eps plus a relative one
                        if n > 1 and not close(rel_impl, relerr, (2e-2 if width == "float32" else 1e-6), 64 * eps):
                            ctx.violation(f"rel-error:{kind}:{nsname}:{width}", f"relative evidence error {rel_impl} != {float(relerr)}", full)
                        # the absolute error (observed at .evidence_error) is the relative one times the evidence, where exp() can hold it
                        if n > 1 and abs(le_impl) < (80 if width == "float32" else 600) and math.isfinite(rel_impl):
                            ee = nsutil.to_float(s.evidence_error)
                            want_ee = rel_impl * math.exp(le_impl)
                            if not close(ee, want_ee, 1e-3 if width == "float32" else 1e-9, 0.0):
                                ctx.violation(f"evidence_error:{kind}:{nsname}:{width}", f"evidence_error {ee} != relative error x evidence = {want_ee}", full)
                        for nm, v in (("log_evidence", le_impl), ("ess", ess_impl), ("log_evidence_error", rel_impl)):
                            if not math.isfinite(v):
                                ctx.violation(f"finite:{nm}:{kind}", f"{nm} = {v} for finite log-densities (magnitude {M:g})", full)
                        # ---------------- the free helper the SMC schedule uses (utils.effective_sample_size): its callers hand it log-weights
                        # as they are (NOT max-shifted: SMCSamples.log_weights adds the log evidence ratio), so it must itself be accurate
                        # far outside the range of exp(): compared with the exact ESS of exactly the array it is given
                        if kind != "neginf":
                            h_impl = nsutil.to_float(au.effective_sample_size(s.log_w))
                            if not close(h_impl, ess, rel_ess):
                                ctx.violation(f"helper-ess:{kind}:{nsname}:{width}", f"utils.effective_sample_size(log_w) = {h_impl} but (sum w)^2/sum w^2 of that array is {float(ess)} "
                                              f"(log-weights of magnitude {M:g})", full)
                        eff = nsutil.to_float(s.efficiency)
                        if not close(eff, ess_impl / n, 1e-6):
                            ctx.violation("efficiency", f"efficiency {eff} != ESS/N", full)
                        sw = nsutil.to_list(s.scaled_weights)
                        for i in range(n):
                            want = float(mp.exp(lw_mp[i] - m)) if lw_mp[i] != -mp.inf else 0.0
                            if not close(sw[i], want, rel, 1e-30):
                                ctx.violation(f"scaled_weights:{kind}:{nsname}", f"scaled_weights[{i}]={sw[i]} != w/max={want}", full)
                                break
                        # ---------------- P5 permutation invariance (metamorphic, on the implementation)
                        sp = Samples(x, log_likelihood=[ll0[j] for j in perm], log_prior=[lp0[j] for j in perm],
                                     log_q=[lq0[j] for j in perm], xp=xp, dtype=dt)
                        if nsutil.to_list(sp.log_w) != [lw_impl[j] for j in perm]:
                            ctx.violation(f"perm-log_w:{nsname}", "log_w of permuted rows is not the permuted log_w", full)
                        if not close(nsutil.to_float(sp.log_evidence), le_impl, rel, 16 * eps * M) or \
                                not close(nsutil.to_float(sp.effective_sample_size), ess_impl, rel):
                            ctx.violation(f"perm-invariance:{kind}:{nsname}:{width}", "log_evidence/ESS change under row permutation", full)
                        # ---------------- P6 shift by a constant
                        c = ctx.rng.choice([8.0, -64.0, 1024.0])
                        ss = Samples(x, log_likelihood=[v + c for v in ll], log_prior=lp, log_q=lq, xp=xp, dtype=dt)
                        if not close(nsutil.to_float(ss.log_evidence), le_impl + c, rel, 32 * eps * (M + abs(c))):
                            ctx.violation(f"shift-evidence:{kind}:{nsname}:{width}", f"log_evidence does not shift by c={c}", full)
                        shift_rel = rel + (64 * eps * (M + abs(c)) if kind == "large" else 64 * eps * (M + abs(c)))
                        if not close(nsutil.to_float(ss.effective_sample_size), ess_impl, shift_rel * 4 + 1e-12):
                            ctx.violation(f"shift-ess:{kind}:{nsname}:{width}", f"ESS changes under constant shift c={c}", full)
                        # ---------------- P8 rejection rule (scripted uniform draws)
                        kept = s.rejection_sample(rng=ScriptedRng(u))
                        kept_idx = [int(v[0]) for v in nsutil.to_list(kept.x)] if len(kept.x) else []
                        for i in range(n):
                            ratio = float(mp.exp(lw_mp[i] - m)) if lw_mp[i] != -mp.inf else 0.0
                            if abs(u[i] - ratio) < 1e-3 * max(ratio, 1e-30) + 50 * eps:
                                continue        # too close to the boundary to decide in floating point
                            if (i in kept_idx) != (u[i] < ratio):
                                ctx.violation(f"rejection:{kind}:{nsname}", f"row {i}: u={u[i]} w/max={ratio} kept={i in kept_idx}", full)
                                break
                        # ---------------- TIE over the extended reals (rows equal to -inf): Gen/KernelsX.v vs the implementation
                        if kind == "neginf" and irx:
                            xs = list(range(n))
                            ninf = lambda vs: [mp.mpf("-inf") if v == -math.inf else mp.mpf(float(v)) for v in vs]
                            A = dict(x=xs, ll=ninf(ll), lp=ninf(lp), lq=ninf(lq))
                            try:
                                g_lw = evx("xcompute_weights_log_w", **A)
                                tie("xcompute_weights_log_w", all((a == b) if (mp.isinf(a) or math.isinf(b)) else close(a, b, 0, 4 * eps * M) for a, b in zip(g_lw, lw_impl)), str(case))
                                B = dict(x=xs, ll=lw_mp, lp=[mp.mpf(0)] * n, lq=[mp.mpf(0)] * n)
                                tie("xcompute_weights_log_evidence", close(evx("xcompute_weights_log_evidence", **B), le_impl, rel, 16 * eps * M), str(case))
                                tie("xcompute_weights_ess", close(evx("xcompute_weights_ess", **B), ess_impl, rel), str(case))
                            except Exception as e:
                                tie("xcompute_weights_log_w", False, f"IR evaluation raised {e!r} on {case}")
                        if kind in ("moderate", "large", "offset", "near-ties", "ties") and irall:
                            tie_cases += 1
                            xs = list(range(n))
                            A = dict(x=xs, ll=nsutil.mpf_list(ll), lp=nsutil.mpf_list(lp), lq=nsutil.mpf_list(lq))
                            try:
                                g_lw = ev("compute_weights_log_w", **A)
                                tie("compute_weights_log_w", all(close(a, b, 0, 4 * eps * M) for a, b in zip(g_lw, lw_impl)), str(case))
                                # downstream quantities: feed the implementation's own log_w so only the kernel differs
                                B = dict(x=xs, ll=lw_mp, lp=[mp.mpf(0)] * n, lq=[mp.mpf(0)] * n)
                                tie("compute_weights_log_evidence", close(ev("compute_weights_log_evidence", **B), le_impl, rel, 16 * eps * M), str(case))
                                tie("compute_weights_ess", close(ev("compute_weights_ess", **B), ess_impl, rel), str(case))
                                tie("compute_weights_log_evidence_error", close(ev("compute_weights_log_evidence_error", **B), rel_impl, 20 * rel, 20 * rel), str(case))
                                tie("logsumexp", close(ev("logsumexp", x=lw_mp), nsutil.to_float(au.logsumexp(s.log_w)), rel, 16 * eps * M), str(case))
                                # tie of the translated helper on max-shifted input (its accuracy on the raw array is checked above: helper-ess)
                                lw_sh = s.log_w - s.xp.max(s.log_w)
                                tie("effective_sample_size", close(ev("effective_sample_size", log_w=nsutil.mpf_list(nsutil.to_list(lw_sh))),
                                                                   nsutil.to_float(au.effective_sample_size(lw_sh)), rel), str(case))
                                g_sw = ev("scaled_weights", log_w=lw_mp)
                                tie("scaled_weights", all(close(a, b, rel, 1e-30) for a, b in zip(g_sw, sw)), str(case))
                                if max(abs(v) for v in lw_impl) < (60 if width == "float32" else 600):
                                    tie("compute_weights_weights", all(close(a, b, rel) for a, b in zip(ev("compute_weights_weights", **B), nsutil.to_list(s.weights))), str(case))
                                    tie("compute_weights_evidence", close(ev("compute_weights_evidence", **B), nsutil.to_float(s.evidence), rel), str(case))
                                    tie("compute_weights_evidence_error", close(ev("compute_weights_evidence_error", **B), nsutil.to_float(s.evidence_error), 20 * rel, 64 * eps * abs(nsutil.to_float(s.evidence)) + 1e-300), str(case))
                                acc = ev("rejection_accept", log_w=lw_mp, u=[mp.mpf(t) for t in u])
                                okacc = True
                                for i in range(n):
                                    ratio = float(mp.exp(lw_mp[i] - m))
                                    if abs(u[i] - ratio) < 1e-3 * max(ratio, 1e-30) + 50 * eps:
                                        continue
                                    okacc &= (bool(acc[i]) == (i in kept_idx))
                                tie("rejection_accept", okacc, str(case))
                            except Exception as e:   # IR missing (translator failed) or evaluator error
                                tie("ir-evaluation", False, repr(e))
    big_n_default_jax(ctx)
    for name, (ok, detail) in sorted(tie_ok.items()):
        ctx.oblig(f"correspondence:IR-vs-impl:{name}", ok, detail)
    if not tie_ok:
        ctx.oblig("correspondence:IR-vs-impl", False, "no IR available (translator failed)")
    ctx.traces = tie_cases
    ctx.extra["tie_cases"] = tie_cases


def big_n_default_jax(ctx):
    """N = 50000 under JAX in its DEFAULT configuration (64-bit off; the rest of this harness enables it): run in a fresh interpreter."""
    import subprocess
    import sys
    import textwrap
    code = textwrap.dedent('''
        import json, sys
        import numpy as np
        out = {}
        try:
            import jax, jax.numpy as jnp
            from aspire.samples import Samples
            rng = np.random.default_rng(5)
            n = 50000
            ll, lp, lq = rng.normal(0, 3, n), rng.normal(0, 1, n), rng.normal(0, 2, n)
            ref = Samples(np.arange(n, dtype=float).reshape(n, 1), log_likelihood=ll, log_prior=lp, log_q=lq)
            out["x64"] = bool(jax.config.jax_enable_x64)
            s = Samples(jnp.arange(n, dtype=jnp.float32).reshape(n, 1), log_likelihood=jnp.asarray(ll, dtype=jnp.float32), log_prior=jnp.asarray(lp, dtype=jnp.float32),
                        log_q=jnp.asarray(lq, dtype=jnp.float32), xp=jnp)
            out["jax"] = [float(s.log_evidence), float(s.effective_sample_size), float(s.log_evidence_error)]
            out["numpy"] = [float(ref.log_evidence), float(ref.effective_sample_size), float(ref.log_evidence_error)]
        except Exception as e:
            out["error"] = repr(e)[:300]
        print("RESULT " + json.dumps(out))
    ''')
    import os
    env = dict(os.environ)
    env.pop("JAX_ENABLE_X64", None)
    env["JAX_PLATFORMS"] = "cpu"
    p = subprocess.run([sys.executable, "-c", code], capture_output=True, text=True, timeout=300, env=env)
    line = [l for l in p.stdout.split("\n") if l.startswith("RESULT ")]
    case = {"N": 50000, "ns": "jax", "dtype": "float32", "jax_enable_x64": False}
    ctx.count(("big-n-default-jax",), True, kind="large-N/jax-default-config")
    if not line:
        ctx.extra["big_n_default_jax"] = {"error": (p.stderr or p.stdout)[-300:]}
        return
    res = json.loads(line[0][7:])
    ctx.extra["big_n_default_jax"] = res
    if "error" in res:
        ctx.violation("large-N:jax-default:raises", f"a weighted sample set of N=50000 under JAX (default configuration, 64-bit off) cannot be built: {res['error']}", case)
        return
    for name, a, b, tol in zip(("log_evidence", "ess", "relative error"), res["jax"], res["numpy"], (1e-3, 1e-2, 5e-2)):
        if not (abs(a - b) <= tol * (1 + abs(b))):
            ctx.violation(f"large-N:jax-default:{name}", f"{name} of N=50000 under JAX/float32 is {a}, NumPy/float64 gives {b}", case)
