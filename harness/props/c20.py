"""C20 — runs are reproducible given the same explicit random sources."""
import re

import numpy as np

from harness import common, nsutil
from harness import smcdrive as sd
from harness import smcreplay as sr

CLASSES = {"CImportanceSampler": "importance", "CMiniPCN": "minipcn", "CEmcee": "emcee", "CMiniPCNSMC": "minipcn_smc",
           "CEmceeSMC": "emcee_smc", "CBlackJAXSMC": "blackjax_smc"}


class Sentinel(np.random.Generator):
    """A numpy Generator that counts how often it is drawn from."""

    def __init__(self, seed=0):
        super().__init__(np.random.PCG64(seed))
        self.draws = 0

    def normal(self, *a, **k):
        self.draws += 1
        return super().normal(*a, **k)

    def uniform(self, *a, **k):
        self.draws += 1
        return super().uniform(*a, **k)

    def choice(self, *a, **k):
        self.draws += 1
        return super().choice(*a, **k)


def observe(cname, kind, way):
    """Returns one of UserGenerator / AcceptedButUnused / Rejected / NotApplicable as observed on the implementation."""
    NS = nsutil.namespaces()
    tgt = sd.Target(1, s=1.0)
    flow = sd.FakeFlow(1, seed=3)
    g = Sentinel(5)
    a = sd.make_aspire(tgt, flow, NS["numpy"], None, 1)
    skw = {}
    if kind.endswith("_smc"):
        skw["sampler_kwargs"] = {"n_steps": 1} if kind != "emcee_smc" else {"nsteps": 1, "progress": False}
    if kind == "minipcn":
        skw["n_steps"] = 2
    if kind == "emcee":
        skw.update(nsteps=2, progress=False)
    try:
        if way == "ViaTopLevel":
            try:
                a.sample_posterior(6, sampler=kind, rng=g, **skw)
            except ModuleNotFoundError:
                pass          # blackjax itself is not installed: routing is observed on the constructed sampler
            s = a.sampler
        else:
            ikw = {"rng": g} if way == "ViaConstructor" else {}
            s = a.init_sampler(kind, **ikw)
            try:
                if way == "ViaSample":
                    s.sample(6, rng=g, **skw)
                else:
                    s.sample(6, **skw)
            except ModuleNotFoundError:
                pass
    except TypeError as e:
        if "rng" in str(e) or "unexpected keyword" in str(e):
            return "Rejected", str(e)[:120]
        raise
    if kind == "blackjax_smc":
        return ("UserGenerator" if getattr(s, "rng", None) is g else "FreshGenerator"), "constructor attribute (blackjax not installed, sample() not run)"
    return ("UserGenerator" if g.draws > 0 else "AcceptedButUnused"), f"{g.draws} draws"


def run(ctx):
    import torch
    common.standard_prove(ctx, gen_targets=["routing_signatures"])
    ctx.rule = ("(a) EXHAUSTIVE: sampler class x way of supplying a generator (constructor / sample() / top-level call): a sentinel generator that "
                "counts draws is supplied and the observed outcome (used / accepted but unused / rejected) is compared with the Coq routing "
                "model over the regenerated signatures; (b) reproducibility: every sampler and both flow back-ends run twice with the same "
                "seeds / keys / generators while the global numpy and torch RNGs are seeded differently; outputs must be bit-identical; "
                "distinct = (class, way) / (component, seed)")
    ctx.trust("bit-reproducibility of torch / jax / numpy themselves for equal seeds on this machine", "stub kernels draw only from the generator they are handed",
              "BlackJAXSMC.sample cannot run here (blackjax absent): its routing is observed on the constructed sampler only")
    # ---------------- (a) routing
    rows = []
    for cname, kind in CLASSES.items():
        for way in ("ViaConstructor", "ViaSample", "ViaTopLevel"):
            try:
                obs, detail = observe(cname, kind, way)
            except Exception as e:
                ctx.violation(f"routing-probe-raises:{cname}:{way}:{type(e).__name__}", f"{kind} with a generator {way}: {e!r}", {"class": kind, "way": way})
                continue
            ctx.count(("route", cname, way), True, kind="routing")
            rows.append((cname, way, obs))
            case = {"class": kind, "way": way, "observed": obs, "detail": detail}
            if len(ctx.samples) < 4 and obs != "Rejected":
                ctx.sample(case)
            if obs in ("AcceptedButUnused", "FreshGenerator"):
                ctx.violation(f"routing:{cname[1:]}:{way}", f"{kind}: a generator supplied {way} is accepted but the sampler does not draw from it ({detail})", case)
        # can a generator be supplied at all?
        if cname != "CImportanceSampler" and all(o == "Rejected" for c, w, o in rows if c == cname):
            ctx.violation(f"routing:{cname[1:]}:no-way", f"{kind}: there is no way to supply a random generator (constructor, sample() and top-level call all reject it)",
                          {"class": kind})
    # the kernel of EmceeSMC: emcee's EnsembleSampler draws from its OWN RandomState, which the real package seeds from the operating
    # system unless the caller hands it a state; "the generator supplied by the user is the one actually used" includes the kernel
    try:
        import emcee as _emcee
        _emcee.reset_counter(11)
        a_, out_, tgt_, fl_ = sd.aspire_sample("emcee_smc", "numpy", 1, 8, 11, sample_kwargs={"rng": np.random.default_rng(11)})
        unseeded = [e for e in _emcee.CREATED if not e.seeded_by_caller]
        ctx.count(("route", "EmceeSMC", "kernel"), True, kind="routing")
        if unseeded:
            ctx.violation("routing:EmceeSMC:kernel", f"emcee_smc with a user generator: {len(unseeded)} of {len(_emcee.CREATED)} emcee.EnsembleSampler objects built by the "
                          "mutation step were never given a random state derived from it (emcee then seeds itself from the operating system)",
                          {"class": "emcee_smc", "way": "kernel"})
    except Exception as e:
        ctx.extra["emcee_kernel_probe_error"] = repr(e)[:200]
    t = ("From Coq Require Import List String Bool.\nFrom AV Require Import Gen.Routing Model.Routing.\nImport ListNotations.\n"
         "Eval vm_compute in ([" + "; ".join(f"source_eqb (route {c} {w}) {o}" for c, w, o in rows) + "]).\n")
    ok, out = common.coq_eval("C20_routing", t)
    flags = re.findall(r"true|false", common.parse_eval_lists(out)[0]) if ok and common.parse_eval_lists(out) else []
    bad = [rows[i] for i, f in enumerate(flags) if f == "false"]
    ctx.oblig("correspondence:routing-model-vs-observed", ok and len(flags) == len(rows) and not bad, f"differing (class, way, observed): {bad}; {out[-300:] if not ok else ''}")
    ctx.extra["exhaustive"] = True
    ctx.extra["routing_table"] = [list(r) for r in rows]
    # ---------------- (b) reproducibility
    NS = nsutil.namespaces()

    def twice(name, f, key):
        outs = []
        for i in range(2):
            np.random.seed(100 + i)
            torch.manual_seed(200 + i)
            try:
                outs.append(f())
            except Exception as e:
                ctx.violation(f"repro-raises:{name}:{type(e).__name__}", f"{name} raised {e!r}", {"component": name, "seed": key})
                return
        ctx.count(("repro", name, key), True, kind="reproducibility/" + name.split(":")[0])
        a, b = outs
        same = len(a) == len(b) and all(np.array_equal(np.asarray(x), np.asarray(y), equal_nan=True) for x, y in zip(a, b))
        if not same:
            ctx.violation(f"not-reproducible:{name}", f"{name}: two runs with the same seeds/generators differ", {"component": name, "seed": key})

    seeds = [0] + [ctx.rng.randrange(1 << 20) for _ in range(ctx.scale(2, 8))]      # 0 is a seed like any other
    for rep, seed in enumerate(seeds):
        for nsname in ("numpy", "torch", "jax"):
            for kind in ("importance", "minipcn", "minipcn_smc"):
                def f(kind=kind, nsname=nsname, seed=seed):
                    a, out, tgt, fl = sd.aspire_sample(kind, nsname, 2, 10, seed)
                    res = [nsutil.to_list(out.x), nsutil.to_list(out.log_likelihood)]
                    if kind == "importance":
                        res += [nsutil.to_list(out.log_w), [nsutil.to_float(out.log_evidence)]]
                    if kind == "minipcn_smc":
                        res += [[nsutil.to_float(out.log_evidence)], [float(b) for b in a.sampler.history.beta],
                                [nsutil.to_float(v) for v in a.sampler.history.ess]]
                    return res
                twice(f"{kind}:{nsname}", f, seed)
        # "on the same inputs": the very same option objects handed to both runs (a dictionary of kernel options kept by the caller,
        # with its own number of steps for the final enlargement)
        if rep == 0:
            for kind, shared in (("minipcn_smc", {"n_steps": 2, "n_final_steps": 5}), ("emcee_smc", {"nsteps": 2, "progress": False, "n_final_steps": 5})):
                before = dict(shared)

                def g(kind=kind, shared=shared, seed=seed):
                    a, out, tgt, fl = sd.aspire_sample(kind, "numpy", 2, 10, seed, sample_kwargs={"sampler_kwargs": shared, "n_final_samples": 20,
                                                                                                  "rng": np.random.default_rng(seed)})
                    return [nsutil.to_list(out.x), nsutil.to_list(out.log_likelihood), [nsutil.to_float(out.log_evidence)], [tgt.ncalls]]
                twice(f"{kind}:shared-sampler_kwargs", g, seed)
                if shared != before:
                    ctx.violation(f"callers-options-changed:{kind}", f"the sampler_kwargs dictionary handed to sample_posterior was {before} and is {shared} afterwards",
                                  {"component": kind, "seed": seed, "sampler_kwargs": before})
        # flows: construction + training + sampling
        data = np.random.default_rng(seed).normal(size=(60, 2))

        def zuko(seed=seed):
            from aspire.flows.torch.flows import ZukoFlow
            fl = ZukoFlow(2, seed=seed % 1000, hidden_features=[8, 8])
            h = fl.fit(data, n_epochs=2, batch_size=30)
            x, lq = fl.sample_and_log_prob(5)
            return [nsutil.to_list(x), nsutil.to_list(lq), h.training_loss, nsutil.to_list(fl.log_prob(data[:4]))]
        twice("flow:zuko", zuko, seed)

        def fjax(seed=seed):
            import jax
            from aspire.flows.jax.flows import FlowJax
            fl = FlowJax(2, key=jax.random.key(seed % 1000))
            fl.fit(data, max_epochs=2, show_progress=False)
            x, lq = fl.sample_and_log_prob(5)
            return [nsutil.to_list(x), nsutil.to_list(lq), nsutil.to_list(fl.log_prob(data[:4]))]
        twice("flow:flowjax", fjax, seed)
