import argparse
import importlib
import json
import os
import sys
from pathlib import Path

sys.path.insert(0, str(Path(__file__).resolve().parent.parent))
from harness import common  # noqa: E402


def main():
    ap = argparse.ArgumentParser()
    ap.add_argument("prop")
    ap.add_argument("--tier", default=os.environ.get("VERIF_TIER") or "quick")
    ap.add_argument("--replay", default=None)
    a = ap.parse_args()
    tier = os.environ.get("VERIF_TIER") or a.tier
    if tier not in ("quick", "thorough"):
        tier = "quick"
    seed = int(os.environ.get("VERIF_SEED", "0") or 0)
    if a.prop == "setup":
        sys.exit(setup())
    mod = importlib.import_module(f"harness.props.{a.prop.lower()}")
    if a.replay:
        data = json.loads(Path(a.replay).read_text())
        sys.exit(mod.replay(data) if hasattr(mod, "replay") else generic_replay(a.prop, data, mod, tier))
    sys.exit(common.run_property(a.prop, tier, seed, mod))


def generic_replay(prop, data, mod, tier):
    """Re-run the check with the seed/tier recorded in the replay file."""
    print(json.dumps({k: data[k] for k in data if k != "replay"}, indent=1)[:4000])
    return common.run_property(prop, data.get("tier", tier), int(data.get("seed", 0)), mod)


def setup():
    """MANIFEST.setup_cmd: regenerate Gen/ from /repo and build the whole Coq development."""
    sys.path.insert(0, str(common.VERIF / "tools"))
    import translate
    st = translate.generate(common.REPO / "src" / "aspire", common.COQ / "Gen")
    bad = {k: v for k, v in st.items() if not v[0]}
    if bad:
        print("translator failures:", bad)
    ok, out = common.coq_make([])
    print(out[-3000:])
    return 0 if ok else 1


if __name__ == "__main__":
    main()
