"""Shared by the SMC-loop properties (C06 C07 C08 C11 C12 C18): run a batch of real SMC runs,
replay each through the Coq model (binary64 instance, vm_compute) and report per-aspect agreement."""
from __future__ import annotations

import math

import numpy as np

from harness import common, nsutil
from harness import smcreplay as sr

SHARD = 25


def extreme_cfg(rng):
    """Extremely peaked likelihoods (log-L spreads up to ~1e7): the regime where the bisection cannot move."""
    return dict(kind="base", ns="numpy", width="float64", N=rng.choice([4, 8, 16]), dims=rng.choice([1, 2]),
                s=rng.choice([1e-2, 3e-3, 1e-3]), c=rng.choice([0.0, 2.0]), prior="normal", seed=rng.randrange(1 << 30),
                mcmc_steps=1, ckpt="none",
                sample_kwargs=dict(adaptive=True, beta_tolerance=rng.choice([5e-2, 2e-2]),
                                   target_efficiency=rng.choice([0.5, 0.9])))


def corpus_cfgs():
    """Minimised configurations that exposed defects earlier; they run first."""
    base = dict(kind="base", ns="numpy", width="float64", N=8, dims=1, s=0.5, c=0.5, prior="normal", seed=7, mcmc_steps=1,
                ckpt="cb-every", every=1)
    out = []
    for n in (6, 7, 10, 13):      # F1: fixed schedule of n steps took n+1 iterations
        out.append(dict(base, sample_kwargs=dict(adaptive=False, n_steps=n)))
    # a fixed schedule does not depend on the bisection tolerance (tiny: the last step must still be snapped to 1; coarse: no early jump)
    out.append(dict(base, sample_kwargs=dict(adaptive=False, n_steps=7, beta_tolerance=0.15)))
    out.append(dict(base, sample_kwargs=dict(adaptive=False, n_steps=10, beta_tolerance=1e-20)))
    out.append(dict(base, sample_kwargs=dict(adaptive=True, max_n_steps=3, target_efficiency=0.2)))   # F2: ZeroDivisionError
    out.append(dict(base, s=1e-3, N=4, sample_kwargs=dict(adaptive=True, beta_tolerance=5e-2)))      # F3: no progress
    out.append(dict(base, sample_kwargs=dict(adaptive=True, min_step=0.3, max_n_steps=2)))           # cap with beta < 1
    out.append(dict(base, kind="minipcn_smc", sample_kwargs=dict(adaptive=True, n_final_samples=16)))
    # the minimum step decides the LAST step: beta_prev + min_step would overshoot 1 (peaked likelihood, floor 0.3 / 0.4 / 1/12)
    out.append(dict(base, s=0.05, sample_kwargs=dict(adaptive=True, min_step=0.3)))
    out.append(dict(base, s=0.05, sample_kwargs=dict(adaptive=True, min_step=0.4, target_efficiency=0.9)))
    out.append(dict(base, s=0.05, sample_kwargs=dict(adaptive=True, max_n_steps=12)))
    # a scalar target efficiency given as a NumPy scalar of either width (what indexing an array of settings gives)
    out.append(dict(base, sample_kwargs=dict(adaptive=True, target_efficiency=np.float32(0.5))))
    out.append(dict(base, sample_kwargs=dict(adaptive=True, target_efficiency=np.float64(0.25))))
    # runs that STOP AT THE CAP with beta < 1 (their last payload is a finished run at a temperature below 1; resuming it adds nothing)
    out.append(dict(base, sample_kwargs=dict(adaptive=False, n_steps=10, max_n_steps=4)))
    out.append(dict(base, s=0.05, sample_kwargs=dict(adaptive=True, min_step=0.01, max_n_steps=3)))
    # a run that stops at its cap below temperature 1 AND enlarges its final population (finding F65)
    out.append(dict(base, kind="minipcn_smc", s=0.05, sample_kwargs=dict(adaptive=True, min_step=0.01, max_n_steps=3, n_final_samples=16)))
    # the final enlargement with its own number of kernel steps (must survive an interruption and a resume)
    out.append(dict(base, kind="minipcn_smc", n_final_steps=3, sample_kwargs=dict(adaptive=True, n_final_samples=12)))
    return out


def gen_batch(ctx, n, with_corpus=True, extreme_frac=0.1, allow_base=True):
    cfgs = corpus_cfgs() if with_corpus else []
    while len(cfgs) < n:
        if ctx.rng.random() < extreme_frac:
            cfgs.append(extreme_cfg(ctx.rng))
        else:
            cfgs.append(sr.gen_cfg(ctx.rng, replayable=True, allow_base=allow_base))
    return cfgs[:n]


def f32_cfgs(ctx, n):
    """Single-precision runs (the Coq replay instance is binary64, so these are checked numerically only): all kernels, all
    namespaces, ordinary and very peaked likelihoods (after the first resampling step the population then holds tied particles
    with log-weights of magnitude 1e5..1e6), with checkpoints so that they can be resumed."""
    out = []
    for j in range(n):
        kind = ["base", "minipcn_smc", "emcee_smc", "base"][j % 4]
        sk = dict(adaptive=True, target_efficiency=[0.5, (0.3, 0.7), 0.8][j % 3])
        if j % 5 == 1:
            sk = dict(adaptive=False, n_steps=[3, 7][j % 2])
        if j % 4 == 2:
            sk["n_final_samples"] = 24
        out.append(dict(kind=kind, ns=["torch", "numpy", "jax"][j % 3], width="float32", N=[16, 12, 32][(j // 2) % 3], dims=1 + j % 2,
                        s=[0.5, 1e-3, 0.05, 3e-4][(j // 3) % 4] if kind == "base" else [0.5, 0.05][(j // 3) % 2], c=[0.0, 1.0][j % 2],
                        prior="normal", seed=ctx.rng.randrange(1 << 30), mcmc_steps=1, ckpt="cb-every", every=[1, 2][j % 2], sample_kwargs=sk))
    return out


def cfg_key(cfg):
    return repr(sorted((k, repr(v)) for k, v in cfg.items()))


def run_and_replay(ctx, cfgs, label="run"):
    """Returns list of (cfg, run, replay_result|None). Adds correspondence obligations to ctx."""
    runs = []
    for cfg in cfgs:
        r = sr.do_run(cfg)
        runs.append(r)
        sk = cfg["sample_kwargs"]
        mode = "fixed" if not sk.get("adaptive", True) else ("cap" if sk.get("max_n_steps") else ("minstep" if sk.get("min_step") else "adaptive"))
        ctx.count(cfg_key(cfg), nontrivial=(r.error is None and r.history is not None and len(r.history.beta) >= 2),
                  kind=f"{cfg['kind']}/{cfg['ns']}/{mode}/{cfg['ckpt']}")
    ok_runs = [r for r in runs if r.error is None]
    flags_ok = {f: True for f in sr.FLAGS}
    first_bad = {}
    db_total, db_bad = 0, None
    ev_bad = None
    results = {}
    shards = [ok_runs[i:i + SHARD] for i in range(0, len(ok_runs), SHARD)]
    texts = []
    for si, shard in enumerate(shards):
        t = sr.CASE_HEADER
        for k, r in enumerate(shard):
            ct, n = sr.case_text(r, k)
            t += ct
            db_total += n
        texts.append((f"{ctx.prop}_{label}_{si}", t))
    outs = common.coq_eval_many(texts) if texts else []
    coq_fail = None
    for shard, (ok, out) in zip(shards, outs):
        if not ok:
            coq_fail = out[-2000:]
            continue
        parsed = sr.parse_case_output(out, len(shard))
        for r, p in zip(shard, parsed):
            if p is None:
                coq_fail = "missing output for a case: " + out[-800:]
                continue
            flags, ev, dbs = p
            results[id(r)] = p
            for name, v in zip(sr.FLAGS, flags + [False] * (len(sr.FLAGS) - len(flags))):
                if not v and flags_ok[name]:
                    flags_ok[name] = False
                    first_bad[name] = r.cfg
            if not all(dbs) and db_bad is None:
                db_bad = (r.cfg, dbs.index(False))
            le = nsutil.to_float(r.result.log_evidence)
            lee = nsutil.to_float(r.result.log_evidence_error)
            tol = 1e-6 * (1 + abs(le))
            if not (abs(ev[0] - le) <= tol and (abs(ev[1] - lee) <= 1e-6 * (1 + abs(lee)) or (math.isnan(ev[1]) and math.isnan(lee)))):
                if ev_bad is None:
                    ev_bad = (r.cfg, ev, (le, lee))
    ctx.oblig("correspondence:coq-evaluation", coq_fail is None, coq_fail or "")
    for name in sr.FLAGS:
        ctx.oblig(f"correspondence:oracle-replay:{name}", flags_ok[name] and coq_fail is None,
                  "first differing run: %r" % (first_bad.get(name),))
    ctx.oblig("correspondence:oracle-replay:determine_beta-queries", db_bad is None and coq_fail is None,
              "first differing determine_beta call: %r" % (db_bad,))
    ctx.oblig("correspondence:oracle-replay:evidence-value", ev_bad is None and coq_fail is None, repr(ev_bad))
    ctx.traces += len(results)
    ctx.extra["replayed_runs"] = ctx.extra.get("replayed_runs", 0) + len(results)
    ctx.extra["determine_beta_calls_replayed"] = ctx.extra.get("determine_beta_calls_replayed", 0) + db_total
    ctx.trust("stub kernel packages /verif/stubs/{minipcn,orng,emcee} (the real ones are not installable here) and the analytic FakeFlow",
              "the binary64 instance of the model is the same Gallina text as the real-number instance the theorems use; the gap is rounding (Lib/Num.v)",
              "oracle replay: efficiency / ratio / variance / target values are recorded from the run, not recomputed in Coq")
    return runs, results


# ------------------------------------------------------------------ numeric recomputation helpers (mpmath)

def pop_arrays(p):
    return (np.asarray(nsutil.to_list(p.log_likelihood), float), np.asarray(nsutil.to_list(p.log_prior), float),
            np.asarray(nsutil.to_list(p.log_q), float), float(p.beta))


def mp_step_quantities(p, beta):
    """ESS, log ratio, ratio variance of population p moved to temperature beta (definitions, mpmath)."""
    import mpmath as mp
    ll, lp, lq, b0 = pop_arrays(p)
    a = [mp.mpf(float(x)) for x in (ll + lp - lq)]
    d = mp.mpf(beta) - mp.mpf(b0)
    lw = [d * t for t in a]
    m = max(lw)
    e = [mp.exp(t - m) for t in lw]
    n = len(e)
    s1, s2 = mp.fsum(e), mp.fsum([t * t for t in e])
    ess = s1 * s1 / s2
    ratio = m + mp.log(s1 / n)
    mean = s1 / n
    var = mp.fsum([(t - mean) ** 2 for t in e]) / n
    rvar = var / (n * mean * mean)
    return float(ess), float(ratio), float(rvar)
