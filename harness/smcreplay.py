"""Run the real SMC loop under the recorder and turn the recording into a Coq oracle-replay case."""
from __future__ import annotations

import math
import pickle
import re
import signal
import traceback

import numpy as np

from harness import common, nsutil
from harness import smcdrive as sd
from harness.common import fhex


class Watchdog(Exception):
    pass


def _alarm(signum, frame):
    raise Watchdog("watchdog: run exceeded its time budget (possible non-termination)")


def gen_cfg(rng, replayable=True, allow_base=True):
    """One structured random configuration (mostly valid options)."""
    kind = rng.choice(["minipcn_smc", "minipcn_smc", "emcee_smc"] + (["base", "base"] if allow_base else []))
    ns = rng.choice(["numpy", "numpy", "torch", "jax"])
    if kind == "emcee_smc":
        pass
    width = "float64" if replayable or rng.random() < 0.5 else "float32"
    cfg = dict(kind=kind, ns=ns, width=width, N=rng.choice([6, 12, 30, 60]), dims=rng.choice([1, 2, 3]),
               s=rng.choice([3.0, 0.7, 0.2, 0.05]), c=rng.choice([0.0, 0.5, 1.5]),
               prior=rng.choice(["normal", "normal", "box"]), seed=rng.randrange(1 << 30),
               mcmc_steps=rng.choice([1, 2, 3]))
    mode = rng.choice(["adaptive", "adaptive", "adaptive", "fixed", "minstep", "cap"])
    sk = {}
    if mode == "fixed":
        sk.update(adaptive=False, n_steps=rng.choice([1, 2, 3, 5, 6, 7, 10, 13]))
    elif mode == "minstep":
        sk.update(adaptive=True, min_step=rng.choice([0.05, 0.1, 0.3, 0.5]))
    elif mode == "cap":
        sk.update(adaptive=True, max_n_steps=rng.choice([2, 3, 5, 8]))
        if rng.random() < 0.3:
            sk.update(min_step=rng.choice([0.01, 0.05]))
    else:
        sk.update(adaptive=True)
    if sk.get("adaptive", True):
        if rng.random() < 0.3:
            lo = rng.choice([0.1, 0.2, 0.3])
            sk["target_efficiency"] = (lo, rng.choice([0.5, 0.7, 0.9]))
            sk["target_efficiency_rate"] = rng.choice([1.0, 2.0, 0.5])
        else:
            sk["target_efficiency"] = rng.choice([0.5, 0.5, 0.3, 0.8, 0.95])
    if rng.random() < 0.4:
        sk["n_final_samples"] = rng.choice([cfg["N"], cfg["N"] * 2, max(2, cfg["N"] // 2)])
    ck = rng.choice(["none", "cb", "cb-every", "every-only"])
    cfg["ckpt"] = ck
    if ck in ("cb-every", "every-only"):
        cfg["every"] = rng.choice([1, 1, 2, 3, 0, -1])
    if kind == "base":
        if rng.random() < 0.5:
            sk["beta_tolerance"] = rng.choice([1e-6, 1e-3, 1e-2, 1e-9])
        if rng.random() < 0.3:
            sk["store_sample_history"] = False
    if kind == "emcee_smc":
        sk.pop("min_step", None)
        sk.pop("max_n_steps", None)
    cfg["sample_kwargs"] = sk
    return cfg


class Run:
    pass


def do_run(cfg, resume_from=None, fail_at=None, budget_s=60, vid0=0, keep_payloads=True, retry_on=None):
    """Execute one real run; never raises.  `retry_on`: an earlier (interrupted) Run whose sampler object, target and generator are
    used again for this call (the in-process retry: same sampler, resume_from = what its callback kept)."""
    import emcee
    NS = nsutil.namespaces()
    xp = NS[cfg["ns"]]
    dt = nsutil.native_dtype(cfg["ns"], cfg["width"])
    dims, N = cfg["dims"], cfg["N"]
    target = sd.Target(dims, s=cfg["s"], c=cfg["c"], prior=cfg["prior"])
    target.fail_at = fail_at
    flow = sd.FakeFlow(dims, seed=cfg["seed"] % 1000)
    rng = np.random.default_rng(cfg["seed"])
    emcee.reset_counter(cfg["seed"] % 997)
    kind = cfg["kind"]
    if retry_on is not None:
        target, sampler = retry_on.target, retry_on.sampler
        rng = getattr(sampler, "rng", rng)
        target.fail_at = fail_at
    else:
        sampler = sd.make_sampler("minipcn_smc" if kind == "base" else kind, target, flow, xp, dt, dims, rng=rng)
    rec = sd.Recorder()
    rec.vid = vid0
    rec.install(sampler)
    r = Run()
    r.cfg, r.target, r.sampler, r.rec = cfg, target, sampler, rec
    r.payloads = []
    r.error = None
    r.result = None

    def cb(state):
        s = state["samples"]
        r.payloads.append({
            "iteration": state["iteration"], "beta": float(state["meta"]["beta"]),
            "forced": s.log_evidence is not None, "pid": getattr(s, "_vid", -1),
            "pop_beta": (None if getattr(s, "beta", None) is None else float(s.beta)),
            "n_hist": len(state["history"].sample_history), "n_beta": len(state["history"].beta),
            "bytes": pickle.dumps(state) if keep_payloads else None,
            "live": state,                    # the very object handed over: what a caller who keeps it will resume from
            "n_user_calls": target.ncalls,
        })

    sk = dict(cfg["sample_kwargs"])
    if cfg["ckpt"] in ("cb", "cb-every"):
        sk["checkpoint_callback"] = cb
    if cfg["ckpt"] in ("cb-every", "every-only"):
        sk["checkpoint_every"] = cfg["every"]
    if cfg["ckpt"] == "every-only":
        # default in-memory callback: observe through the sampler's own hook
        orig = sampler.default_checkpoint_callback

        def spy(state):
            cb(state)
            return orig(state)
        sampler.default_checkpoint_callback = spy
    if resume_from is not None:
        sk["resume_from"] = resume_from
    old = signal.signal(signal.SIGPROF, _alarm)
    signal.setitimer(signal.ITIMER_PROF, budget_s, 0.5)   # CPU time of this process (a loaded machine must not look like non-termination); re-fires: a handler exception can be swallowed (e.g. inside logging)
    try:
        if kind == "base":
            r.result = sd.base_sample(sampler, N, rng=rng, sampler_kwargs={"n_steps": cfg["mcmc_steps"]}, **sk)
        elif kind == "emcee_smc":
            r.result = sampler.sample(N, sampler_kwargs={"nsteps": cfg["mcmc_steps"], "progress": False}, **sk)
        else:
            skw = {"n_steps": cfg["mcmc_steps"]}
            if cfg.get("n_final_steps"):          # kernel steps of the final enlargement stage (popped from sampler_kwargs by sample())
                skw["n_final_steps"] = cfg["n_final_steps"]
            r.result = sampler.sample(N, rng=rng, sampler_kwargs=skw, **sk)
    except Watchdog as e:
        r.error = ("watchdog", str(e))
    except Exception as e:
        r.error = (type(e).__name__, str(e), traceback.format_exc()[-1500:])
    finally:
        signal.setitimer(signal.ITIMER_PROF, 0)
        signal.signal(signal.SIGPROF, old)
        rec.uninstall()
    r.events = rec.events
    r.history = sampler.history
    return r


# ----------------------------------------------------------------------------- Coq text

def opts_of(cfg):
    sk = cfg["sample_kwargs"]
    adaptive = sk.get("adaptive", True)
    n_steps = sk.get("n_steps")
    beta_step = (1 / n_steps) if n_steps is not None else math.nan
    ms, mx = sk.get("min_step"), sk.get("max_n_steps")
    if ms is None:
        if mx is None:
            min_step0, ams = 0.0, False
        else:
            min_step0, ams = 1 / mx, True
    else:
        min_step0, ams = float(ms), False
    has_cb = cfg["ckpt"] != "none"
    every = cfg.get("every", 1) if cfg["ckpt"] in ("cb-every", "every-only") else 1
    return dict(adaptive=adaptive, beta_step=beta_step, min_step0=min_step0, adaptive_min_step=ams, max_n_steps=mx,
                tol=float(sk.get("beta_tolerance", 1e-6)), n_final=sk.get("n_final_samples"),
                store_history=sk.get("store_sample_history", True), has_callback=has_cb, ckpt_every=every)


def coq_opts(o, fuel=400):
    def b(x):
        return "true" if x else "false"

    def on(x):
        return "None" if x is None else f"(Some {int(x)}%nat)"
    return ("(Build_opts NumF %s %s %s %s %s %s %s %s %s %s %d%%nat)"
            % (b(o["adaptive"]), fhex(o["beta_step"]), fhex(o["min_step0"]), b(o["adaptive_min_step"]), on(o["max_n_steps"]),
               fhex(o["tol"]), on(o["n_final"]), b(o["store_history"]), b(o["has_callback"]), common.zlit(int(o["ckpt_every"])), fuel))


def flist(xs):
    return "[" + "; ".join(fhex(float(x)) for x in xs) + "]"


def nlist(xs):
    return "[" + "; ".join(f"{int(x)}%nat" for x in xs) + "]"


def tables_of(run):
    ess, ratio, var, cte, betas, sizes = {}, {}, {}, {}, {}, {}
    for e in run.events:
        if e[0] == "ess":
            ess.setdefault((e[1], e[2]), e[3])
        elif e[0] == "ratio":
            ratio.setdefault((e[1], e[2]), e[3])
        elif e[0] == "var":
            var.setdefault((e[1], e[2]), e[3])
        elif e[0] == "cte":
            cte.setdefault(e[1], e[2])
        elif e[0] == "init":
            betas[e[1]] = e[3] if e[3] is not None else 0.0
            sizes[e[1]] = e[2]
        elif e[0] == "resample":
            betas[e[4]] = e[2]
            sizes[e[4]] = e[5]
        elif e[0] == "mutate":
            betas[e[4]] = e[2]
            sizes[e[4]] = e[5]
    return ess, ratio, var, cte, betas, sizes


def coq_tabs(run):
    ess, ratio, var, cte, betas, sizes = tables_of(run)

    def t2(d):
        return "[" + "; ".join(f"({p}%nat, {fhex(b)}, {fhex(v)})" for (p, b), v in d.items()) + "]"
    return ("{| t_ess := %s;\n t_ratio := %s;\n t_var := %s;\n t_cte := %s;\n t_beta := %s;\n t_size := %s |}"
            % (t2(ess), t2(ratio), t2(var),
               "[" + "; ".join(f"({fhex(b)}, {fhex(v)})" for b, v in cte.items()) + "]",
               "[" + "; ".join(f"({p}%nat, {fhex(b)})" for p, b in betas.items()) + "]",
               "[" + "; ".join(f"({p}%nat, ({n}%nat, {fhex(float(n))}))" for p, n in sizes.items()) + "]"))


def expected_of(run):
    h = run.history
    tf = nsutil.to_float
    next_id = run.rec.vid
    return dict(betas=[float(b) for b in h.beta], iter=len(h.beta), pops=[getattr(p, "_vid", -1) for p in h.sample_history],
                final_pop=None, nmut=len(h.mcmc_acceptance),
                ckpts=[(p["iteration"], p["forced"], p["pid"], p["n_hist"]) for p in run.payloads],
                lens=[len(h.eff_target), len(h.ess), len(h.ess_target), len(h.log_norm_ratio), len(h.log_norm_ratio_var)],
                ess=[tf(v) for v in h.ess], ratio=[tf(v) for v in h.log_norm_ratio], var=[tf(v) for v in h.log_norm_ratio_var],
                eff_target=[float(v) for v in h.eff_target], next_id=next_id)


def final_pop_id(run):
    last = None
    for e in run.events:
        if e[0] in ("mutate",):
            last = e[4]
        elif e[0] == "init" and last is None:
            last = e[1]
    return last


def coq_expected(e):
    ck = "[" + "; ".join(f"({i}%nat, {'true' if f else 'false'}, {p}%nat, {l}%nat)" for i, f, p, l in e["ckpts"]) + "]"
    return ("{| e_betas := %s; e_iter := %d%%nat; e_pops := %s; e_final_pop := %d%%nat; e_nmut := %d%%nat; e_ckpts := %s; "
            "e_lens := %s; e_ess := %s; e_ratio := %s; e_var := %s; e_eff_target := %s; e_next_id := %d%%nat |}"
            % (flist(e["betas"]), e["iter"], nlist(e["pops"]), e["final_pop"], e["nmut"], ck, nlist(e["lens"]),
               flist(e["ess"]), flist(e["ratio"]), flist(e["var"]), flist(e["eff_target"]), e["next_id"]))


CASE_HEADER = """From Coq Require Import List Bool Arith ZArith PrimFloat.
From AV Require Import Lib.Num Model.SMC Model.Replay.
Import ListNotations.
Open Scope float_scope.
"""


def case_text(run, k, fuel=100000):
    """Coq text replaying one fresh (non-resumed) run. Returns (text, n_db_checks)."""
    o = opts_of(run.cfg)
    pre, its = sd.split_iterations(run.events)
    e = expected_of(run)
    e["final_pop"] = final_pop_id(run)
    init = [x for x in pre if x[0] == "init"]
    p0 = init[0][1] if init else 0
    t = f"Definition T{k} : tabs := {coq_tabs(run)}.\n"
    t += f"Definition O{k} : opts NumF := {coq_opts(o)}.\n"
    t += f"Definition E{k} : expected := {coq_expected(e)}.\n"
    t += f"Definition R{k} := r_sample T{k} {fuel}%nat O{k} {p0}%nat {p0 + 1}%nat.\n"
    dbs = []
    for it in its:
        if "beta" not in it:
            continue
        dbs.append(f"check_db T{k} O{k} {it['pid']}%nat {fhex(it['beta_prev'])} {fhex(it['ms_in'])} {fhex(it['beta'])} "
                   f"{fhex(it['ms_out'])} {flist([q[0] for q in it['queries']])}")
    t += f"Eval vm_compute in (check_out R{k} E{k}).\n"
    t += f"Eval vm_compute in (out_evidence R{k}).\n"
    t += f"Eval vm_compute in ([{'; '.join(dbs) if dbs else 'true'}]).\n"
    return t, len(dbs)


FLAGS = ["ok", "betas", "iterations", "stored-populations", "final-population", "mutate-count", "checkpoint-events",
         "series-lengths", "ess-series", "ratio-series", "var-series", "eff-target-series", "generator-advance"]


def parse_case_output(out, ncases):
    """Returns per case: (flags list[bool], (le, lee) floats, db flags list[bool])."""
    raw = common.parse_eval_lists(out)
    res = []
    for i in range(ncases):
        if 3 * i + 2 >= len(raw):
            res.append(None)
            continue
        fl = re.findall(r"true|false", raw[3 * i])
        ev = re.findall(r"[-+]?(?:nan|infinity|neg_infinity|\d[\d.e+-]*)", raw[3 * i + 1])
        db = re.findall(r"true|false", raw[3 * i + 2])

        def f(s):
            if s == "neg_infinity":
                return -math.inf
            if s == "infinity":
                return math.inf
            return float(s)
        res.append(([x == "true" for x in fl], tuple(f(x) for x in ev[:2]), [x == "true" for x in db]))
    return res


# ----------------------------------------------------------------------------- Aspire-level runs with a checkpoint file

def aspire_file_run(cfg, path, fail_at=None, resume=False, budget_s=60, every=1, extra_kwargs=None, via_context=False):
    """Aspire.sample_posterior(..., checkpoint_path=path) with the 'fake' flow backend; or, with resume=True,
    Aspire.resume_from_file(path) followed by sample_posterior with the same sampling arguments.
    Returns a Run-like object (result, history, error, target, aspire)."""
    from aspire import Aspire
    NS = nsutil.namespaces()
    xp = NS[cfg["ns"]]
    dt = nsutil.native_dtype(cfg["ns"], cfg["width"])
    dims, N = cfg["dims"], cfg["N"]
    target = sd.Target(dims, s=cfg["s"], c=cfg["c"], prior=cfg["prior"])
    target.fail_at = fail_at
    rng = np.random.default_rng(cfg["seed"])
    r = Run()
    r.cfg, r.target, r.error, r.result, r.history = cfg, target, None, None, None
    sk = dict(cfg["sample_kwargs"])
    sk.pop("beta_tolerance", None)
    sk.pop("store_sample_history", None)
    old = signal.signal(signal.SIGPROF, _alarm)
    signal.setitimer(signal.ITIMER_PROF, budget_s, 0.5)
    try:
        if resume:
            a = Aspire.resume_from_file(path, log_likelihood=target.log_likelihood, log_prior=target.log_prior)
        else:
            flow = sd.FakeFlow(dims, seed=cfg["seed"] % 1000)
            a = Aspire(log_likelihood=target.log_likelihood, log_prior=target.log_prior, dims=dims,
                       parameters=[sd.pname(i) for i in range(dims)], flow=flow, xp=xp, dtype=dt, flow_backend="fake")
        r.aspire = a
        kw = dict(sampler="minipcn_smc", rng=rng, sampler_kwargs={"n_steps": cfg["mcmc_steps"]}, **sk)
        kw.update(extra_kwargs or {})
        if via_context:
            # the file comes from the auto_checkpoint context, the cadence from the sampling call itself
            with a.auto_checkpoint(path):
                r.result = a.sample_posterior(N, checkpoint_every=every, **kw)
        else:
            if not resume:
                kw.update(checkpoint_path=path, checkpoint_every=every)
            r.result = a.sample_posterior(N, **kw)
        r.history = a.sampler.history
    except Watchdog as e:
        r.error = ("watchdog", str(e))
    except Exception as e:
        r.error = (type(e).__name__, str(e), traceback.format_exc()[-1500:])
    finally:
        signal.setitimer(signal.ITIMER_PROF, 0)
        signal.signal(signal.SIGPROF, old)
    r.sampler = getattr(getattr(r, "aspire", None), "sampler", None)
    if r.history is None and r.sampler is not None:
        r.history = r.sampler.history
    return r


def same_outcome(ref, res):
    """Bit-for-bit comparison of two finished runs. Returns list of differences."""
    d = []
    hb, hb2 = [float(b) for b in ref.history.beta], [float(b) for b in res.history.beta]
    if hb != hb2:
        d.append(f"temperatures differ: {hb} vs {hb2}")
    if nsutil.to_list(ref.result.x) != nsutil.to_list(res.result.x):
        d.append("final samples differ")
    for nm in ("log_evidence", "log_evidence_error"):
        a, b = nsutil.to_float(getattr(ref.result, nm)), nsutil.to_float(getattr(res.result, nm))
        if a != b and not (math.isnan(a) and math.isnan(b)):
            d.append(f"{nm} differs: {a} vs {b}")
    for nm in ("ess", "ess_target", "eff_target", "log_norm_ratio", "log_norm_ratio_var", "mcmc_acceptance"):
        a = [nsutil.to_float(v) for v in getattr(ref.history, nm)]
        b = [nsutil.to_float(v) for v in getattr(res.history, nm)]
        if a != b:
            d.append(f"history.{nm} differs (lengths {len(a)} vs {len(b)})")
    a, b = ref.history.sample_history, res.history.sample_history
    if len(a) != len(b):
        d.append(f"stored populations: {len(a)} vs {len(b)}")
    else:
        for i, (p, q) in enumerate(zip(a, b)):
            if nsutil.to_list(p.x) != nsutil.to_list(q.x) or nsutil.to_list(p.log_likelihood) != nsutil.to_list(q.log_likelihood):
                d.append(f"stored population {i} differs")
                break
    return d
