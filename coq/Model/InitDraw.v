(* MCMCSampler.draw_initial_samples (samplers/mcmc.py): draw batches from the proposal, evaluate the
   prior, keep finite-prior rows, concatenate until at least n, trim to n, THEN evaluate the
   likelihood.  Generic in the point type X and the value type V (reals with specials for proofs,
   integers for execution). No proofs here. *)
From Coq Require Import List Bool Arith.
Import ListNotations.

Section InitDraw.
  Variables (X V : Type).
  Variables (L Pi : X -> V).
  Variable isfinite : V -> bool.

  (* a row while drawing: point, proposal log-density returned WITH that point, its log-prior *)
  Definition prow : Type := X * V * V.
  Definition row : Type := X * V * V * V.      (* + log-likelihood *)

  Definition eval_prior (batch : list (X * V)) : list prow :=
    map (fun xq => (fst xq, snd xq, Pi (fst xq))) batch.
  Definition keep_valid (rows : list prow) : list prow :=
    filter (fun r => isfinite (snd r)) rows.

  (* while n_samples_drawn < n_samples: ... ; one batch per iteration *)
  Fixpoint draw_loop (batches : list (list (X * V))) (acc : list prow) (n : nat) : option (list prow) :=
    if Nat.leb n (length acc) then Some acc
    else match batches with
         | [] => None            (* proposal stream exhausted: the real loop would keep drawing *)
         | b :: bs => draw_loop bs (acc ++ keep_valid (eval_prior b)) n
         end.

  Definition draw_initial (batches : list (list (X * V))) (n : nat) : option (list row) :=
    match draw_loop batches [] n with
    | Some acc => Some (map (fun r => (fst (fst r), snd (fst r), snd r, L (fst (fst r)))) (firstn n acc))
    | None => None
    end.

  (* user-callable invocations: prior once per batch drawn, likelihood once on the final points *)
  Inductive icall := IPrior (pts : list X) | ILik (pts : list X) (attached : list V).

  Fixpoint draw_calls (batches : list (list (X * V))) (acc : list prow) (n : nat) : list icall :=
    if Nat.leb n (length acc) then []
    else match batches with
         | [] => []
         | b :: bs => IPrior (map fst b) :: draw_calls bs (acc ++ keep_valid (eval_prior b)) n
         end.

  Definition draw_initial_calls (batches : list (list (X * V))) (n : nat) : list icall :=
    draw_calls batches [] n ++
    match draw_initial batches n with
    | Some rows => [ILik (map (fun r => fst (fst (fst r))) rows) (map (fun r => snd (fst r)) rows)]
    | None => []
    end.
End InitDraw.
