(* The two context managers of aspire:
     utils.PoolHandler (Aspire.enable_pool)  — temporarily wraps log_likelihood / log_prior, closes the pool on exit if asked
     Aspire.auto_checkpoint                  — temporarily installs checkpoint defaults
   as a small imperative language with exceptions.  Attributes are modelled by identity: the likelihood
   (prior) is a stack of wrappers over the original callable; [] is the original object itself. *)
From Coq Require Import List Bool Arith.
Import ListNotations.

Record defaults := {
  d_path : nat; d_every : nat; d_save_config : bool; d_save_flow : bool;
  d_saved_config : bool; d_saved_flow : bool;
}.

Record inst := {
  i_ll : list nat;                  (* wrappers around the user's likelihood, innermost last; pool ids *)
  i_lp : list nat;
  i_defaults : option defaults;     (* _checkpoint_defaults attribute (None = attribute absent) *)
}.

Record world := {
  w_inst : inst;
  w_closed : list nat;              (* pools closed so far, in order *)
  w_flow_in_file : list nat;        (* checkpoint paths whose file already holds a flow *)
}.

Inductive prog :=
| Skip
| Raise                                             (* the body raises here *)
| Seq (p q : prog)
| WithPool (pool : option nat) (close_pool par_prior : bool) (body : prog)
| WithAuto (path every : nat) (save_config save_flow : bool) (body : prog)
| SampleInside.                                     (* sample_posterior(...) with no explicit checkpoint path *)

Inductive outcome := Normal | Exn.

Definition set_inst (w : world) (i : inst) : world :=
  {| w_inst := i; w_closed := w_closed w; w_flow_in_file := w_flow_in_file w |}.

(* what sample_posterior does to the ACTIVE defaults (and to the file) *)
Definition sample_effect (w : world) : world :=
  match i_defaults (w_inst w) with
  | None => w
  | Some d =>
    let has_flow := existsb (Nat.eqb (d_path d)) (w_flow_in_file w) in
    let write_flow := negb (d_saved_flow d) && negb has_flow in
    let d' := {| d_path := d_path d; d_every := d_every d; d_save_config := d_save_config d; d_save_flow := d_save_flow d;
                 d_saved_config := d_saved_config d || d_save_config d;
                 d_saved_flow := d_saved_flow d || write_flow |} in
    {| w_inst := {| i_ll := i_ll (w_inst w); i_lp := i_lp (w_inst w); i_defaults := Some d' |};
       w_closed := w_closed w;
       w_flow_in_file := if write_flow then d_path d :: w_flow_in_file w else w_flow_in_file w |}
  end.

Fixpoint exec (p : prog) (w : world) : world * outcome :=
  match p with
  | Skip => (w, Normal)
  | Raise => (w, Exn)
  | Seq a b => match exec a w with
               | (w1, Normal) => exec b w1
               | (w1, Exn) => (w1, Exn)
               end
  | SampleInside => (sample_effect w, Normal)
  | WithPool pool close par body =>
    (* __enter__ *)
    let i := w_inst w in
    let ll0 := i_ll i in let lp0 := i_lp i in
    let i1 := match pool with
              | Some k => {| i_ll := ll0 ++ [k]; i_lp := if par then lp0 ++ [k] else lp0; i_defaults := i_defaults i |}
              | None => i
              end in
    let '(w2, o) := exec body (set_inst w i1) in
    (* __exit__: restore, then close if asked *)
    let i3 := {| i_ll := ll0; i_lp := lp0; i_defaults := i_defaults (w_inst w2) |} in
    let w3 := set_inst w2 i3 in
    match close, pool with
    | true, Some k => ({| w_inst := w_inst w3; w_closed := w_closed w3 ++ [k]; w_flow_in_file := w_flow_in_file w3 |}, o)
    | _, _ => (w3, o)
    end
  | WithAuto path every sc sf body =>
    let prev := i_defaults (w_inst w) in
    let d := {| d_path := path; d_every := every; d_save_config := sc; d_save_flow := sf;
                d_saved_config := false; d_saved_flow := false |} in
    let i1 := {| i_ll := i_ll (w_inst w); i_lp := i_lp (w_inst w); i_defaults := Some d |} in
    let '(w2, o) := exec body (set_inst w i1) in
    (* finally: restore the previous attribute (or delete it) *)
    let i3 := {| i_ll := i_ll (w_inst w2); i_lp := i_lp (w_inst w2); i_defaults := prev |} in
    (set_inst w2 i3, o)
  end.
