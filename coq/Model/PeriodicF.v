(* Binary64 model of PeriodicTransform.forward on ONE coordinate, restricted to |x - lower| < width
   (there C's fmod(a, b) returns a itself, so numpy's floored remainder is: r if r >= 0, r + width if r < 0).
   Tied to the implementation bit for bit by the C04 check (cases + vm_compute).  Used only for the refutation of the
   half-open range claim in binary arithmetic (known finding periodic-range-f64:tiny-negative-offset). *)
From Coq Require Import Floats.PrimFloat.
Local Open Scope float_scope.

Definition fwrap (x lo up : float) : float :=
  let w := up - lo in
  let r := x - lo in
  let m := if r <? 0 then r + w else r in
  lo + m.

(* the guard under which the model is the implementation *)
Definition fwrap_dom (x lo up : float) : bool :=
  let w := up - lo in (abs (x - lo) <? w) && (0 <? w).
