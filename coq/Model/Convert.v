(* Namespace / dtype conversion logic of aspire (utils.resolve_dtype, utils.convert_dtype,
   utils.asarray, BaseSamples.__post_init__ / to_namespace / to_numpy / from_samples and the
   overrides in Samples / SMCSamples) over the FINITE space of namespaces, float widths and dtype
   spellings.  The array libraries' behaviour (which dtype objects an `asarray` accepts, default
   float width per namespace) is an oracle record probed from the installed libraries at run time.
   No proofs here. *)
From Coq Require Import List Bool.
Import ListNotations.

Inductive ns := NP | TO | JX.
Inductive width := F32 | F64.
(* dtype OBJECTS come in two kinds: numpy dtypes (shared by numpy and jax) and torch dtypes *)
Inductive kind := KNp | KTo.
Inductive dspec := DNone | DStr (w : width) | DObj (k : kind) (w : width).   (* what a caller may pass *)
Inductive cls := CBase | CWeighted | CSMC.

Definition ns_eqb (a b : ns) : bool := match a, b with NP, NP | TO, TO | JX, JX => true | _, _ => false end.
Definition width_eqb (a b : width) : bool := match a, b with F32, F32 | F64, F64 => true | _, _ => false end.
Definition kind_eqb (a b : kind) : bool := match a, b with KNp, KNp | KTo, KTo => true | _, _ => false end.
Definition native (n : ns) : kind := match n with TO => KTo | _ => KNp end.

Record oracle := {
  accepts : ns -> kind -> bool;     (* xp.asarray(..., dtype=<object of that kind>) works *)
  default_w : ns -> width;          (* default float width of the namespace *)
}.

Inductive res (A : Type) := Ok (a : A) | Err.
Arguments Ok {A} a. Arguments Err {A}.

(* utils.resolve_dtype(dtype, xp) *)
Definition resolve (d : dspec) (xp : ns) : dspec :=
  match d with
  | DNone => DNone
  | DStr w => DObj (native xp) w
  | DObj k w =>
    match xp with
    | TO => DObj k w                                       (* torch: passed through *)
    | _ => match k with KNp => DObj KNp w | KTo => DObj KTo w end   (* xp.dtype(obj); TypeError -> unchanged *)
    end
  end.

(* utils.convert_dtype(dtype, target_xp): always lands on the target's own kind (by object identity or by name) *)
Definition convert (d : dspec) (target : ns) : dspec :=
  match d with
  | DNone => DNone
  | DStr w => DObj (native target) w
  | DObj k w => DObj (native target) w
  end.

(* a sample set as far as conversions are concerned *)
Record sset := {
  s_cls : cls; s_ns : ns; s_dtype : dspec;       (* the dtype field after __post_init__ *)
  s_width : width;                               (* actual float width of the arrays *)
  s_fields : list bool;                          (* log_likelihood, log_prior, log_q present? *)
}.

(* utils.asarray(x, xp, dtype=d): resolve, then xp.asarray *)
Definition asarray (o : oracle) (xp : ns) (d : dspec) (wx : width) : res width :=
  match resolve d xp with
  | DNone => Ok wx
  | DStr w => Ok w
  | DObj k w => if accepts o xp k then Ok w else Err
  end.

(* BaseSamples.__post_init__ (also run by the subclasses' constructors) *)
Definition construct (o : oracle) (c : cls) (xp : ns) (d : dspec) (wx : width) (fields : list bool) : res sset :=
  let dt := match d with DNone => DObj (native xp) (default_w o xp) | _ => resolve d xp end in
  match asarray o xp dt wx with
  | Ok w => Ok {| s_cls := c; s_ns := xp; s_dtype := dt; s_width := w; s_fields := fields |}
  | Err => Err
  end.

(* BaseSamples.to_namespace(xp, dtype) — used by BaseSamples and SMCSamples *)
Definition base_to_namespace (o : oracle) (s : sset) (xp : ns) (d : dspec) : res sset :=
  let dt := match d with DNone => convert (s_dtype s) xp | _ => resolve d xp end in
  construct o (s_cls s) xp dt (s_width s) (s_fields s).

(* Samples.to_namespace(xp, dtype): converts every array with asarray first, then constructs *)
Definition weighted_to_namespace (o : oracle) (s : sset) (xp : ns) (d : dspec) : res sset :=
  let dt := match d with DNone => convert (s_dtype s) xp | _ => resolve d xp end in
  match asarray o xp dt (s_width s) with
  | Ok w => construct o (s_cls s) xp dt w (s_fields s)
  | Err => Err
  end.

Definition to_namespace (o : oracle) (s : sset) (xp : ns) (d : dspec) : res sset :=
  match s_cls s with
  | CWeighted => weighted_to_namespace o s xp d
  | _ => base_to_namespace o s xp d
  end.

(* to_numpy: BaseSamples takes a dtype, the overrides in Samples / SMCSamples do not *)
Definition to_numpy (o : oracle) (s : sset) (d : dspec) : res sset :=
  match s_cls s with
  | CBase => let dt := match d with DNone => convert (s_dtype s) NP | _ => resolve d NP end in
             construct o CBase NP dt (s_width s) (s_fields s)
  | c => construct o c NP (convert (s_dtype s) NP) (s_width s) (s_fields s)
  end.

(* cls.from_samples(samples, xp=..., dtype=...) *)
Definition from_samples (o : oracle) (c : cls) (s : sset) (xp : ns) (d : dspec) : res sset :=
  let d0 := match d with DNone => s_dtype s | _ => d end in
  construct o c xp (convert d0 xp) (s_width s) (s_fields s).

(* SMCSamples.to_standard_samples() *)
Definition to_standard (o : oracle) (s : sset) : res sset :=
  construct o CWeighted (s_ns s) (s_dtype s) (s_width s) [nth 0 (s_fields s) false; nth 1 (s_fields s) false; false].

(* ---------- what "precision preserved" means ---------- *)
Definition requested_width (d : dspec) (w0 : width) : width :=
  match d with DNone => w0 | DStr w => w | DObj _ w => w end.

Definition good (r : res sset) (xp : ns) (w : width) (fields : list bool) : bool :=
  match r with
  | Ok t => ns_eqb (s_ns t) xp && width_eqb (s_width t) w
            && (match s_dtype t with DObj k w' => kind_eqb k (native xp) && width_eqb w' w | _ => false end)
            && (if list_eq_dec Bool.bool_dec (s_fields t) fields then true else false)
  | Err => false
  end.

(* the enumeration of the whole space *)
Definition all_ns := [NP; TO; JX].
Definition all_w := [F32; F64].
Definition all_cls := [CBase; CWeighted; CSMC].
Definition all_fields := [[true; true; true]; [true; true; false]; [false; false; false]; [false; true; true]].
(* dtype spellings a user can give for a sample set living in namespace n *)
Definition spellings (n : ns) (w : width) : list dspec := [DNone; DStr w; DObj (native n) w].
