(* The HDF5 dictionary codec of aspire (utils.py): encode_for_hdf5, recursively_save_to_h5_file
   (flattening nested dicts to dotted dataset names), load_from_h5_file (re-nesting), decode_from_hdf5.
   What h5py hands back (numpy scalars for scalar datasets, arrays for numeric lists/tuples, str for
   string datasets) is made explicit by `canon`.  Dataset names are modelled as PATHS (lists of keys);
   that joining with "." and splitting again is the identity on dot-free, non-empty keys is a separate
   lemma about strings (join_split).  No proofs here. *)
From Coq Require Import List Bool ZArith String Ascii.
Import ListNotations.
Open Scope string_scope.

Inductive value :=
| VNone
| VBool (b : bool)
| VInt (z : Z)
| VFloat (bits : Z)                       (* a float, identified by its bit pattern *)
| VStr (s : string)
| VStrList (l : list string)              (* list / tuple of str *)
| VNumList (l : list Z)                   (* list / tuple of numbers *)
| VArr (shape : list nat) (data : list Z) (* numpy array (also jax / torch arrays after to_numpy) *)
| VDict (kvs : list (string * value)).

(* what is stored in one HDF5 dataset *)
Inductive stored :=
| SStr (s : string) | SBool (b : bool) | SInt (z : Z) | SFloat (bits : Z)
| SStrArr (l : list string) | SArr (shape : list nat) (data : list Z).

Definition none_marker := "__none__".
Definition empty_dict_marker := "__empty_dict__".

(* encode_for_hdf5 followed by create_dataset; None = a non-empty dict, which the flattener recurses into *)
Definition encode (v : value) : option stored :=
  match v with
  | VNone => Some (SStr none_marker)
  | VBool b => Some (SBool b)
  | VInt z => Some (SInt z)
  | VFloat f => Some (SFloat f)
  | VStr s => Some (SStr s)
  | VStrList l => Some (SStrArr l)
  | VNumList l => Some (SArr [List.length l] l)
  | VArr sh d => Some (SArr sh d)
  | VDict [] => Some (SStr empty_dict_marker)
  | VDict (_ :: _) => None
  end.

(* _save_flattened: one dataset per leaf, named by the path of keys *)
Fixpoint flatten (prefix : list string) (v : value) : list (list string * stored) :=
  match v with
  | VDict ((k, v0) :: r) =>
      (fix go (kvs : list (string * value)) : list (list string * stored) :=
         match kvs with
         | [] => []
         | (k', v') :: r' => (flatten (prefix ++ [k'])%list v' ++ go r')%list
         end) ((k, v0) :: r)
  | _ => match encode v with Some s => [(prefix, s)] | None => [] end
  end.

(* recursively_save_to_h5_file(h5, path, dictionary): the top-level dictionary itself is always flattened *)
Definition save (kvs : list (string * value)) : list (list string * stored) :=
  (fix go (l : list (string * value)) : list (list string * stored) :=
     match l with [] => [] | (k, v) :: r => (flatten [k] v ++ go r)%list end) kvs.

(* decode_from_hdf5(dataset[()]) *)
Definition decode (s : stored) : value :=
  match s with
  | SStr t => if String.eqb t none_marker then VNone
              else if String.eqb t empty_dict_marker then VDict [] else VStr t
  | SBool b => VBool b
  | SInt z => VInt z
  | SFloat f => VFloat f
  | SStrArr l => VStrList l
  | SArr [] [z] => VInt z          (* 0-d array collapses to a scalar (.item()) *)
  | SArr sh d => VArr sh d
  end.

(* load_from_h5_file: d = result; for part in parts[:-1]: d = d.setdefault(part, {}); d[parts[-1]] = value *)
Fixpoint insert (path : list string) (v : value) (d : list (string * value)) : list (string * value) :=
  match path with
  | [] => d
  | [k] =>
      (fix set (l : list (string * value)) : list (string * value) :=
         match l with
         | [] => [(k, v)]
         | (k', v') :: r => if String.eqb k k' then (k, v) :: r else (k', v') :: set r
         end) d
  | k :: rest =>
      (fix go (l : list (string * value)) : list (string * value) :=
         match l with
         | [] => [(k, VDict (insert rest v []))]
         | (k', v') :: r =>
             if String.eqb k k'
             then (k', match v' with VDict sub => VDict (insert rest v sub) | other => other end) :: r
             else (k', v') :: go r
         end) d
  end.

Definition load (datasets : list (list string * stored)) : list (string * value) :=
  fold_left (fun d ps => insert (fst ps) (decode (snd ps)) d) datasets [].

(* what an equal-by-value comparison sees after a save/load cycle *)
Fixpoint canon (v : value) : value :=
  match v with
  | VNumList l => VArr [List.length l] l
  | VArr [] [z] => VInt z
  | VDict kvs => VDict ((fix go (l : list (string * value)) : list (string * value) :=
                           match l with [] => [] | (k, v') :: r => (k, canon v') :: go r end) kvs)
  | other => other
  end.

(* lookup along a path of keys (first binding of each key) *)
Fixpoint lookup_key (k : string) (d : list (string * value)) : option value :=
  match d with
  | [] => None
  | (k', v) :: r => if String.eqb k k' then Some v else lookup_key k r
  end.
Fixpoint lookup (path : list string) (v : value) : option value :=
  match path with
  | [] => Some v
  | k :: rest => match v with VDict d => match lookup_key k d with Some v' => lookup rest v' | None => None end | _ => None end
  end.

(* well-formed configuration values: distinct non-empty dot-free keys, strings different from the two markers *)
Fixpoint dotfree (s : string) : bool :=
  match s with EmptyString => true | String c r => negb (Ascii.eqb c ".") && dotfree r end.
Definition key_ok (k : string) : bool := negb (String.eqb k "") && dotfree k.
Fixpoint nodup_keys (l : list string) : bool :=
  match l with [] => true | k :: r => negb (existsb (String.eqb k) r) && nodup_keys r end.
Fixpoint wf (v : value) : bool :=
  match v with
  | VStr s => negb (String.eqb s none_marker) && negb (String.eqb s empty_dict_marker)
  | VDict kvs =>
      nodup_keys (map fst kvs)
      && (fix go (l : list (string * value)) : bool :=
            match l with [] => true | (k, v') :: r => key_ok k && wf v' && go r end) kvs
  | _ => true
  end.

(* dataset names: keys joined with "." and split again *)
Fixpoint join (p : list string) : string :=
  match p with [] => "" | [k] => k | k :: r => k ++ "." ++ join r end.
Fixpoint split_aux (s : string) (cur : string) : list string :=
  match s with
  | EmptyString => [cur]
  | String c r => if Ascii.eqb c "." then cur :: split_aux r "" else split_aux r (cur ++ String c EmptyString)
  end.
Definition split (s : string) : list string := split_aux s "".

(* the file as it is: one dataset per leaf NAMED by the joined path; loading splits the names again *)
Definition save_named (kvs : list (string * value)) : list (string * stored) :=
  map (fun ps => (join (fst ps), snd ps)) (save kvs).
Definition load_named (datasets : list (string * stored)) : list (string * value) :=
  load (map (fun ns => (split (fst ns), snd ns)) datasets).
