(* dump_pickle_to_hdf (utils.py): the dataset holding the pickled checkpoint.
     if dsetname not in target: create_dataset(shape=new.shape)       -> zeros of the new size
     elif new.size != old.shape[0]: resize((new.size,))               -> truncate or zero-extend
     target[dsetname][:] = new                                         -> overwrite element-wise *)
From Coq Require Import List Arith Init.Byte.
Import ListNotations.

Definition zero_byte : byte := x00.

(* h5py resize of a 1-D dataset: keep the common prefix, pad with the fill value *)
Fixpoint resize (old : list byte) (n : nat) : list byte :=
  match n with
  | O => []
  | S n' => match old with
            | [] => zero_byte :: resize [] n'
            | b :: old' => b :: resize old' n'
            end
  end.

(* dset[:] = data with data.shape == dset.shape *)
Fixpoint overwrite (dst src : list byte) : list byte :=
  match dst, src with
  | _ :: dst', s :: src' => s :: overwrite dst' src'
  | _, _ => []
  end.

Definition write_blob (old : option (list byte)) (new : list byte) : list byte :=
  match old with
  | None => overwrite (resize [] (length new)) new
  | Some o => if Nat.eqb (length new) (length o) then overwrite o new
              else overwrite (resize o (length new)) new
  end.

(* the dataset after a sequence of checkpoint writes (each payload already pickled to bytes),
   starting from a file that may or may not hold an older blob *)
Definition file_after (old : option (list byte)) (blobs : list (list byte)) : option (list byte) :=
  fold_left (fun f b => Some (write_blob f b)) blobs old.
