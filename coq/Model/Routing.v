(* Where a user-supplied random generator ends up (C20).
   Aspire.sample_posterior splits its keyword arguments by the sampler constructor's signature
   (Gen/Routing.v, regenerated from the class definitions); what each class then does with the
   generator is the hand-modelled prologue of its sample() method. *)
From Coq Require Import List String Bool.
From AV Require Import Gen.Routing.
Import ListNotations.
Open Scope string_scope.

Inductive way := ViaConstructor | ViaSample | ViaTopLevel.
(* effective source of the sampler's own random draws (resampling and, where aspire drives it, the kernel) *)
Inductive source := UserGenerator | FreshGenerator | AcceptedButUnused | Rejected (* TypeError: unexpected keyword *) | NotApplicable.

Fixpoint mem (s : string) (l : list string) : bool :=
  match l with [] => false | x :: r => if String.eqb s x then true else mem s r end.

(* what the class does with a generator received by its constructor *)
Definition from_constructor (c : sclass) : source :=
  match c with
  | CMiniPCNSMC => UserGenerator      (* kept as _user_rng; sample(): rng or _user_rng or ArrayRNG(...) *)
  | CBlackJAXSMC => UserGenerator     (* self.rng = rng or default_rng(); sample() leaves it alone *)
  | CEmceeSMC => UserGenerator        (* forwarded to SMCSampler: self.rng, used for resampling *)
  | _ => NotApplicable
  end.

(* what the class does with a generator received by sample() *)
Definition from_sample (c : sclass) : source :=
  match c with
  | CMiniPCN => UserGenerator         (* handed to the kernel *)
  | CMiniPCNSMC => UserGenerator      (* self.rng = rng ...; used for resampling and handed to the kernel *)
  | CEmcee => AcceptedButUnused       (* rng = rng or default_rng(); never used: emcee draws from its own RandomState *)
  | _ => NotApplicable
  end.

Definition route (c : sclass) (w : way) : source :=
  match w with
  | ViaConstructor => if mem "rng" (sig_init c) then from_constructor c else Rejected
  | ViaSample => if mem "rng" (sig_sample c) then from_sample c
                 else if sample_has_var_kwargs c then AcceptedButUnused else Rejected
  | ViaTopLevel =>
    (* sample_posterior: kwargs whose name is a constructor parameter go to the constructor, the rest to sample() *)
    if mem "rng" (sig_init c) then from_constructor c
    else if mem "rng" (sig_sample c) then from_sample c
    else if sample_has_var_kwargs c then AcceptedButUnused else Rejected
  end.

Definition all_classes := [CImportanceSampler; CMiniPCN; CEmcee; CMiniPCNSMC; CEmceeSMC; CBlackJAXSMC].
Definition all_ways := [ViaConstructor; ViaSample; ViaTopLevel].

Definition source_eqb (a b : source) : bool :=
  match a, b with
  | UserGenerator, UserGenerator | FreshGenerator, FreshGenerator | AcceptedButUnused, AcceptedButUnused
  | Rejected, Rejected | NotApplicable, NotApplicable => true
  | _, _ => false
  end.

(* classes that consume a numpy Generator at all (the importance sampler draws only through the flow) *)
Definition uses_generator (c : sclass) : bool :=
  match c with CImportanceSampler => false | _ => true end.
