(* Sample-set algebra (samples.py: __getitem__, concatenate, __getstate__/__setstate__,
   to_dict/from_dict) on a struct-of-arrays record, polymorphic in the coordinate type X and the
   value type V (reals for the bridge to the generated code, integers for execution).
   Selection by any index kind goes through an explicit index list (Lib/Soa.v).
   Pickling and dict round trips are the identity on the field tuple in this model: their tie to
   the code is the differential check (real pickles / dicts), not a theorem about bytes. *)
From Coq Require Import List Bool Arith.
From AV Require Import Lib.Soa.
Import ListNotations.

Section Alg.
  Variables (X V : Type) (dX : X) (dV : V).

  Record sset := {
    a_x : list X;
    a_ll : option (list V); a_lp : option (list V); a_lq : option (list V);
    a_lw : option (list V); a_w : option (list V);       (* per-sample weights (weighted class) *)
    a_beta : option V; a_le : option V; a_lee : option V; (* carried scalars *)
  }.

  Inductive index := IList (idx : list nat) | IMask (m : list bool) | ISlice (start stop step : nat).

  Definition idx_of (n : nat) (i : index) : list nat :=
    match i with
    | IList idx => idx
    | IMask m => idx_of_mask m 0
    | ISlice a b st => idx_of_slice n a b st
    end.

  (* __getitem__ of all three classes: the same rows of every per-sample field; scalars carried *)
  Definition getitem (i : index) (s : sset) : sset :=
    let idx := idx_of (length (a_x s)) i in
    {| a_x := select idx (a_x s) dX;
       a_ll := oselect idx (a_ll s) dV; a_lp := oselect idx (a_lp s) dV; a_lq := oselect idx (a_lq s) dV;
       a_lw := oselect idx (a_lw s) dV; a_w := oselect idx (a_w s) dV;
       a_beta := a_beta s; a_le := a_le s; a_lee := a_lee s |}.

  Definition oapp (a b : option (list V)) : option (list V) :=
    match a, b with Some u, Some v => Some (u ++ v) | _, _ => None end.

  (* cls.concatenate([a; b]): per-sample fields appended when present in both; scalars are not carried *)
  Definition concat2 (a b : sset) : sset :=
    {| a_x := a_x a ++ a_x b;
       a_ll := oapp (a_ll a) (a_ll b); a_lp := oapp (a_lp a) (a_lp b); a_lq := oapp (a_lq a) (a_lq b);
       a_lw := oapp (a_lw a) (a_lw b); a_w := oapp (a_w a) (a_w b);
       a_beta := None; a_le := None; a_lee := None |}.

  (* ... and what every piece carries as a whole (temperature, attached evidence) is carried by the union when the pieces agree
     (repair F64); veqb decides equality of the carried values *)
  Definition ocarry (veqb : V -> V -> bool) (a b : option V) : option V :=
    match a, b with Some u, Some v => if veqb u v then Some u else None | _, _ => None end.
  Definition concat2c (veqb : V -> V -> bool) (a b : sset) : sset :=
    let r := concat2 a b in
    {| a_x := a_x r; a_ll := a_ll r; a_lp := a_lp r; a_lq := a_lq r; a_lw := a_lw r; a_w := a_w r;
       a_beta := ocarry veqb (a_beta a) (a_beta b); a_le := ocarry veqb (a_le a) (a_le b); a_lee := ocarry veqb (a_lee a) (a_lee b) |}.

  Fixpoint concat (l : list sset) (first : sset) : sset :=
    match l with [] => first | s :: r => concat r (concat2 first s) end.

  Definition pickle_roundtrip (s : sset) : sset := s.
  Definition dict_roundtrip (s : sset) : sset := s.

  (* ---------- the plain reference: a list of rows ---------- *)
  Definition orow (l : option (list V)) (i : nat) : option V := option_map (fun v => nth i v dV) l.
  Definition row : Type := X * option V * option V * option V * option V * option V.
  Definition row_at (s : sset) (i : nat) : row :=
    (nth i (a_x s) dX, orow (a_ll s) i, orow (a_lp s) i, orow (a_lq s) i, orow (a_lw s) i, orow (a_w s) i).
  Definition rows_of (s : sset) : list row := map (row_at s) (seq 0 (length (a_x s))).

  Definition olen (l : option (list V)) (n : nat) : Prop := match l with Some v => length v = n | None => True end.
  Definition wf (s : sset) : Prop :=
    let n := length (a_x s) in
    olen (a_ll s) n /\ olen (a_lp s) n /\ olen (a_lq s) n /\ olen (a_lw s) n /\ olen (a_w s) n.

  Inductive op := OGet (i : index) | OPickle | ODict.
  Definition apply_op (o : op) (s : sset) : sset :=
    match o with OGet i => getitem i s | OPickle => pickle_roundtrip s | ODict => dict_roundtrip s end.
End Alg.
