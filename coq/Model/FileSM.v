(* One checkpoint file under sequences of Aspire operations (aspire.py: fit, sample_posterior,
   auto_checkpoint, resume_from_file).  Flows are identified by the fit that produced them; the
   checkpoint records the sampler class that wrote it and the flow its particles were weighted under. *)
From Coq Require Import List Bool Arith.
Import ListNotations.

Inductive sampler := Importance | SMC | ESMC.     (* importance; minipcn_smc ("smc"); emcee_smc *)
Definition sampler_eqb (a b : sampler) : bool :=
  match a, b with Importance, Importance | SMC, SMC | ESMC, ESMC => true | _, _ => false end.
Definition checkpoints (s : sampler) : bool := match s with Importance => false | _ => true end.

Record defaults := { d_save_config : bool; d_saved_config : bool; d_saved_flow : bool }.

Record inst := {
  mem_flow : option nat;                 (* in-memory flow (id of the fit) *)
  last_sampler : option sampler;         (* _last_sampler_type *)
  dflt : list defaults;                  (* stack of _checkpoint_defaults (innermost first); [] = attribute absent *)
  resume_type : option sampler;          (* _resume_sampler_type (primed by resume_from_file) *)
  resume_bytes : option nat;             (* _resume_from_default: the loaded checkpoint, identified by the flow it was weighted under *)
}.

Record file := {
  f_flow : option nat;
  f_cfg : option (option sampler);       (* None: no aspire_config; Some st: config present with sampler_type st *)
  f_ckpt : option (sampler * nat);       (* (sampler that wrote it, flow the particles were weighted under) *)
}.

Record world := { wi : inst; wf : file }.

Inductive op :=
| Fit (d : nat) (explicit_path : bool) (overwrite : bool)      (* fit(samples_d, checkpoint_path=p|None, overwrite=...) *)
| Sample (s : sampler) (explicit_path : bool)                  (* sample_posterior(sampler=s, checkpoint_path=p|None) *)
| EnterAuto (save_config : bool)
| ExitAuto
| Resume.                                                      (* instance := Aspire.resume_from_file(p) *)

Definition set_top (l : list defaults) (d : defaults) : list defaults :=
  match l with [] => [] | _ :: r => d :: r end.

Definition do_fit (w : world) (d : nat) (explicit overwrite : bool) : world :=
  let i := wi w in let f := wf w in
  let i1 := {| mem_flow := Some d; last_sampler := last_sampler i; dflt := dflt i; resume_type := resume_type i;
               resume_bytes := resume_bytes i |} in
  let use_file := explicit || match dflt i with [] => false | _ => true end in
  if negb use_file then {| wi := i1; wf := f |} else
  let save_config := if explicit then true else match dflt i with d0 :: _ => d_save_config d0 | [] => true end in
  let saved_config := match dflt i with d0 :: _ => d_saved_config d0 | [] => false end in
  let write_cfg := save_config && negb saved_config in
  let cfg' := if write_cfg then Some (last_sampler i) else f_cfg f in
  let dflt' := if write_cfg then match dflt i with
                                 | d0 :: _ => set_top (dflt i) {| d_save_config := d_save_config d0; d_saved_config := true;
                                                                  d_saved_flow := d_saved_flow d0 |}
                                 | [] => [] end
               else dflt i in
  let flow' := match f_flow f with
               | Some old => if overwrite then Some d else Some old
               | None => Some d
               end in
  {| wi := {| mem_flow := Some d; last_sampler := last_sampler i; dflt := dflt'; resume_type := resume_type i;
              resume_bytes := resume_bytes i |};
     wf := {| f_flow := flow'; f_cfg := cfg'; f_ckpt := f_ckpt f |} |}.

Definition do_sample (w : world) (s0 : sampler) (explicit : bool) : world :=
  let i := wi w in let f := wf w in
  match mem_flow i with
  | None => w                                       (* no flow: sampling is not possible *)
  | Some fl =>
    let s := match s0, resume_type i with Importance, Some r => r | _, _ => s0 end in
    let i1 := {| mem_flow := mem_flow i; last_sampler := Some s; dflt := dflt i; resume_type := resume_type i;
                 resume_bytes := resume_bytes i |} in
    let use_file := explicit || match dflt i with [] => false | _ => true end in
    if negb use_file then {| wi := i1; wf := f |} else
    let save_config := if explicit then true else match dflt i with d0 :: _ => d_save_config d0 | [] => true end in
    let saved_flow := match dflt i with d0 :: _ => d_saved_flow d0 | [] => false end in
    let cfg' := if save_config then Some (Some s) else f_cfg f in
    let write_flow := negb saved_flow && match f_flow f with None => true | Some _ => false end in
    let flow' := if write_flow then Some fl else f_flow f in
    let dflt' := match dflt i with
                 | d0 :: _ => set_top (dflt i) {| d_save_config := d_save_config d0;
                                                  d_saved_config := d_saved_config d0 || save_config;
                                                  d_saved_flow := d_saved_flow d0 || write_flow |}
                 | [] => [] end in
    (* a resumed run continues from the loaded (completed) checkpoint: its particles keep the log_q they were stored with *)
    let ckpt' := if checkpoints s then Some (s, match resume_bytes i with Some old => old | None => fl end) else f_ckpt f in
    {| wi := {| mem_flow := mem_flow i; last_sampler := Some s; dflt := dflt'; resume_type := resume_type i;
                resume_bytes := resume_bytes i |};
       wf := {| f_flow := flow'; f_cfg := cfg'; f_ckpt := ckpt' |} |}
  end.

Definition do_resume (w : world) : world :=
  let f := wf w in
  match f_cfg f, f_flow f with
  | Some st, Some fl =>
    {| wi := {| mem_flow := Some fl; last_sampler := None;
                dflt := [{| d_save_config := false; d_saved_config := false; d_saved_flow := false |}];
                resume_type := match f_ckpt f with
                               | Some (cs, _) => match st with Some s => Some s | None => Some cs end
                               | None => None end;
                resume_bytes := match f_ckpt f with Some (_, old) => Some old | None => None end |};
       wf := f |}
  | _, _ => w                                       (* ValueError: config or flow missing *)
  end.

Definition step (w : world) (o : op) : world :=
  match o with
  | Fit d e ov => do_fit w d e ov
  | Sample s e => do_sample w s e
  | EnterAuto sc => {| wi := {| mem_flow := mem_flow (wi w); last_sampler := last_sampler (wi w);
                                dflt := {| d_save_config := sc; d_saved_config := false; d_saved_flow := false |} :: dflt (wi w);
                                resume_type := resume_type (wi w); resume_bytes := resume_bytes (wi w) |}; wf := wf w |}
  | ExitAuto => {| wi := {| mem_flow := mem_flow (wi w); last_sampler := last_sampler (wi w); dflt := tl (dflt (wi w));
                            resume_type := resume_type (wi w); resume_bytes := resume_bytes (wi w) |}; wf := wf w |}
  | Resume => do_resume w
  end.

Definition init : world :=
  {| wi := {| mem_flow := None; last_sampler := None; dflt := []; resume_type := None; resume_bytes := None |};
     wf := {| f_flow := None; f_cfg := None; f_ckpt := None |} |}.

Definition run (ops : list op) : world := fold_left step ops init.

(* the property: the stored flow is the one the stored checkpoint's particles were weighted under,
   and the stored configuration names the sampler that wrote the checkpoint *)
Definition consistent (f : file) : bool :=
  match f_ckpt f with
  | None => true
  | Some (s, fl) =>
    match f_flow f with Some g => Nat.eqb g fl | None => false end
    && match f_cfg f with Some (Some s') => sampler_eqb s s' | _ => false end
  end.
