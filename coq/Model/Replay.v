(* Oracle replay: the SAME model (Model/SMC.v) instantiated at binary64 with the numeric oracles
   given as tables recorded from a run of the implementation.  Evaluated by vm_compute in the
   correspondence check; populations are creation-order ids, the generator state is the next id. *)
From Coq Require Import List Bool Arith ZArith PrimFloat.
From AV Require Import Lib.Num Model.SMC.
Import ListNotations.

Definition feq (a b : float) : bool :=
  PrimFloat.eqb a b || (PrimFloat.is_nan a && PrimFloat.is_nan b).

Fixpoint lookup2 (t : list (nat * float * float)) (p : nat) (b : float) : float :=
  match t with
  | [] => nan
  | (q, c, v) :: r => if Nat.eqb p q && feq b c then v else lookup2 r p b
  end.
Fixpoint lookup1 (t : list (float * float)) (b : float) : float :=
  match t with
  | [] => nan
  | (c, v) :: r => if feq b c then v else lookup1 r b
  end.
Fixpoint lookupn {A} (t : list (nat * A)) (p : nat) (d : A) : A :=
  match t with
  | [] => d
  | (q, v) :: r => if Nat.eqb p q then v else lookupn r p d
  end.

Record tabs := {
  t_ess : list (nat * float * float);      (* (population, beta) -> effective_sample_size(log_weights(beta)) *)
  t_ratio : list (nat * float * float);
  t_var : list (nat * float * float);
  t_cte : list (float * float);            (* beta -> current_target_efficiency(beta) *)
  t_beta : list (nat * float);             (* population -> its temperature *)
  t_size : list (nat * (nat * float));     (* population -> (len, float(len)) *)
}.

Definition r_essq (t : tabs) (p : nat) (b : float) : float := lookup2 (t_ess t) p b.
Definition r_effq (t : tabs) (p : nat) (b : float) : float :=
  PrimFloat.div (r_essq t p b) (snd (lookupn (t_size t) p (0, nan))).
Definition r_ratio (t : tabs) (p : nat) (b : float) : float := lookup2 (t_ratio t) p b.
Definition r_var (t : tabs) (p : nat) (b : float) : float := lookup2 (t_var t) p b.
Definition r_cte (t : tabs) (b : float) : float := lookup1 (t_cte t) b.
Definition r_pbeta (t : tabs) (p : nat) : float := lookupn (t_beta t) p nan.
Definition r_psize (t : tabs) (p : nat) : nat := fst (lookupn (t_size t) p (0, nan)).
Definition r_resample (g : nat) (p : nat) (b : float) (n : option nat) : nat * nat := (g, S g).
Definition r_mutate (g : nat) (p : nat) (b : float) (final : bool) : nat * nat := (g, S g).

Definition r_determine_beta (t : tabs) :=
  determine_beta NumF nat (r_effq t) (r_cte t).
Definition r_sample (t : tabs) :=
  sample NumF nat nat (r_effq t) (r_essq t) (r_ratio t) (r_var t) (r_cte t) (r_pbeta t) (r_psize t)
         r_resample r_mutate.
Definition r_sample_resumed (t : tabs) :=
  sample_resumed NumF nat nat (r_effq t) (r_essq t) (r_ratio t) (r_var t) (r_cte t) (r_pbeta t) (r_psize t)
         r_resample r_mutate.

(* ---- comparison helpers (results are compared inside Coq; only booleans are printed) ---- *)
Fixpoint feq_list (a b : list float) : bool :=
  match a, b with
  | [], [] => true
  | x :: a', y :: b' => feq x y && feq_list a' b'
  | _, _ => false
  end.
Fixpoint neq_list (a b : list nat) : bool :=
  match a, b with
  | [], [] => true
  | x :: a', y :: b' => Nat.eqb x y && neq_list a' b'
  | _, _ => false
  end.

(* one determine_beta call: expected (beta, min_step, queries) *)
Definition check_db (t : tabs) (o : opts NumF) (p : nat) (beta ms : float)
           (ebeta ems : float) (equeries : list float) : bool :=
  match r_determine_beta t o p beta ms with
  | Ok (b, m, tr) => feq b ebeta && feq m ems && feq_list tr equeries
  | _ => false
  end.

Definition ckpt_sig (c : ckpt NumF nat nat) : nat * bool * nat * nat :=
  (c_iter _ _ _ c, match c_evidence _ _ _ c with Some _ => true | None => false end, c_pop _ _ _ c,
   length (h_pops _ _ (c_hist _ _ _ c))).

Fixpoint sig_list_eq (a b : list (nat * bool * nat * nat)) : bool :=
  match a, b with
  | [], [] => true
  | (i, f, p, l) :: a', (i', f', p', l') :: b' =>
    Nat.eqb i i' && Bool.eqb f f' && Nat.eqb p p' && Nat.eqb l l' && sig_list_eq a' b'
  | _, _ => false
  end.

Record expected := {
  e_betas : list float; e_iter : nat; e_pops : list nat; e_final_pop : nat; e_nmut : nat;
  e_ckpts : list (nat * bool * nat * nat);
  e_lens : list nat;               (* lengths of eff_target, ess, ess_target, ratio, ratio_var *)
  e_ess : list float; e_ratio : list float; e_var : list float; e_eff_target : list float;
  e_next_id : nat;
}.

(* flags: [ok; betas; iter; pops; final pop; nmut; ckpts; lens; ess; ratio; var; eff_target; next id] *)
Definition check_out (r : res (output NumF nat nat * list (ckpt NumF nat nat))) (e : expected) : list bool :=
  match r with
  | Ok (out, cks) =>
    let h := o_hist _ _ _ out in
    [ true;
      feq_list (h_beta _ _ h) (e_betas e);
      Nat.eqb (o_iter _ _ _ out) (e_iter e);
      neq_list (h_pops _ _ h) (e_pops e);
      Nat.eqb (o_pop _ _ _ out) (e_final_pop e);
      Nat.eqb (h_nmut _ _ h) (e_nmut e);
      sig_list_eq (map ckpt_sig cks) (e_ckpts e);
      neq_list [length (h_eff_target _ _ h); length (h_ess _ _ h); length (h_ess_target _ _ h);
                length (h_ratio _ _ h); length (h_ratio_var _ _ h)] (e_lens e);
      feq_list (h_ess _ _ h) (e_ess e);
      feq_list (h_ratio _ _ h) (e_ratio e);
      feq_list (h_ratio_var _ _ h) (e_var e);
      feq_list (h_eff_target _ _ h) (e_eff_target e);
      Nat.eqb (o_g _ _ _ out) (e_next_id e) ]
  | Err _ => [false; false]
  | OutOfFuel => [false; false; false]
  end.

Definition out_evidence (r : res (output NumF nat nat * list (ckpt NumF nat nat))) : float * float :=
  match r with
  | Ok (out, _) => (o_log_evidence _ _ _ out, o_log_evidence_error _ _ _ out)
  | _ => (nan, nan)
  end.
