(* Executable model of aspire's adaptive-tempering SMC control code
     src/aspire/samplers/smc/base.py : SMCSampler.determine_beta, SMCSampler.sample,
                                       build_checkpoint_state / restore_from_checkpoint
   written ONCE over the numeric interface Lib/Num.v: proved at NumR (Proofs/SMC*.v), executed at
   NumF (binary64) against recorded runs of the implementation (oracle replay).
   No proofs in this file.

   Abstract (Section variables): the population type P, the generator state G, and the numeric
   oracles — efficiency / ESS / evidence ratio / ratio variance of a population at a candidate
   temperature, the target-efficiency function, resampling and mutation.  The theorems therefore
   hold for every population, every kernel and every random stream. *)
From Coq Require Import List Bool Arith ZArith.
From AV Require Import Lib.Num.
Import ListNotations.

Inductive err := DivZero | ValueErr.
Inductive res (A : Type) : Type := Ok (a : A) | Err (e : err) | OutOfFuel.
Arguments Ok {A} a. Arguments Err {A} e. Arguments OutOfFuel {A}.

Section Model.
  Variable N : Num.
  Variables (P G : Type).

  (* ---------------- oracles ---------------- *)
  Variable effq : P -> N -> N.        (* effective_sample_size(p.log_weights(b)) / len(p) *)
  Variable essq : P -> N -> N.        (* effective_sample_size(p.log_weights(b)) *)
  Variable ratio : P -> N -> N.       (* p.log_evidence_ratio(b) *)
  Variable ratio_var : P -> N -> N.   (* p.log_evidence_ratio_variance(b) *)
  Variable cte : N -> N.              (* current_target_efficiency *)
  Variable pbeta : P -> N.            (* p.beta *)
  Variable psize : P -> nat.          (* len(p.x) *)
  Variable resample_o : G -> P -> N -> option nat -> P * G.   (* rng.choice + row copy, new beta *)
  Variable mutate_o : G -> P -> N -> bool -> P * G.           (* kernel; bool = final enlargement *)

  (* ---------------- options of sample() ---------------- *)
  Record opts := {
    adaptive : bool;
    beta_step : N;                 (* 1/n_steps (unused when adaptive) *)
    min_step0 : N;                 (* min_step, 1/max_n_steps, or 0 *)
    adaptive_min_step : bool;      (* min_step is None and max_n_steps is not None *)
    max_n_steps : option nat;
    tol : N;                       (* beta_tolerance *)
    n_final : option nat;          (* n_final_samples *)
    store_history : bool;          (* store_sample_history *)
    has_callback : bool;           (* checkpoint_callback is not None (after defaulting) *)
    ckpt_every : Z;                (* checkpoint_every (after defaulting None -> 1) *)
    bisect_fuel : nat;             (* fuel for the bisection `while` *)
  }.

  (* ---------------- determine_beta ---------------- *)
  (* while beta_max - beta_min > tol: beta_try = 0.5*(beta_max+beta_min); ... *)
  Fixpoint bisect (fuel : nat) (p : P) (target bmin bmax tl : N) (trace : list N)
    : option (N * N * list N) :=
    match fuel with
    | O => None
    | S f =>
      if gtb N (sub N bmax bmin) tl then
        let try := mul N (half N) (add N bmax bmin) in
        (* `if not (beta_min < beta_try < beta_max): break` — adjacent floats: the bracket cannot be resolved further (repair F58) *)
        if ltb N bmin try && ltb N try bmax then
          if geb N (effq p try) target
          then bisect f p target try bmax tl (trace ++ [try])
          else bisect f p target bmin try tl (trace ++ [try])
        else Some (bmin, bmax, trace)
      else Some (bmin, bmax, trace)
    end.

  (* returns (new beta, new min_step, efficiency queries in program order) *)
  Definition determine_beta (o : opts) (p : P) (beta min_step : N) : res (N * N * list N) :=
    if negb (adaptive o) then
      let b := add N beta (beta_step o) in
      let b := if geb N b (sub N (one N) (mul N (half N) (beta_step o))) then one N else b in
      Ok (b, min_step, [])
    else
      let beta_prev := beta in
      let eff_max := effq p (one N) in
      let bmin0 := if geb N eff_max (cte beta_prev) then one N else beta_prev in
      let target := cte beta_prev in
      match bisect (bisect_fuel o) p target bmin0 (one N) (tol o) [one N] with
      | None => OutOfFuel
      | Some (bmin, bmax, tr) =>
        let beta_star := if leb N bmin beta_prev then bmax else bmin in
        let ms :=
          if adaptive_min_step o && ltb N beta_star (one N) then
            let d := sub N (one N) beta_star in
            if eqb N d (zero N) then Err DivZero
            else Ok (div N (mul N min_step (sub N (one N) beta_prev)) d)
          else Ok min_step in
        match ms with
        | Ok ms =>
          let b := pymax N beta_star (add N beta_prev ms) in
          let b := pymin N b (one N) in
          Ok (b, ms, tr)
        | Err e => Err e
        | OutOfFuel => OutOfFuel
        end
      end.

  (* ---------------- history, checkpoints, state ---------------- *)
  Record hist := {
    h_beta : list N; h_eff_target : list N; h_ess : list N; h_ess_target : list N;
    h_ratio : list N; h_ratio_var : list N;
    h_pops : list P;              (* sample_history *)
    h_nmut : nat;                 (* entries of mcmc_acceptance: one per mutate() call *)
  }.
  Definition hist0 : hist := {| h_beta := []; h_eff_target := []; h_ess := []; h_ess_target := [];
                                h_ratio := []; h_ratio_var := []; h_pops := []; h_nmut := 0 |}.

  (* exactly the loop-relevant fields build_checkpoint_state saves *)
  Record ckpt := {
    c_pop : P; c_iter : nat; c_beta : N; c_min_step : N; c_hist : hist; c_g : G;
    c_evidence : option (N * N);     (* samples.log_evidence(_error) as stored on the population *)
  }.

  Record state := {
    s_pop : P; s_beta : N; s_iter : nat; s_min_step : N; s_hist : hist; s_g : G;
  }.

  Definition snoc {A} (l : list A) (x : A) := l ++ [x].

  Definition resample (g : G) (p : P) (b : N) (n : option nat) : P * G :=
    match n with
    | None => if eqb N b (pbeta p) then (p, g) else resample_o g p b None
    | Some _ => resample_o g p b n
    end.

  Definition should_checkpoint (o : opts) (force : bool) (iter : nat) : bool :=
    has_callback o &&
    (force || (Z.ltb 0 (ckpt_every o) && Z.eqb (Z.modulo (Z.of_nat iter) (ckpt_every o)) 0)).

  Definition mk_ckpt (st : state) (ev : option (N * N)) : ckpt :=
    {| c_pop := s_pop st; c_iter := s_iter st; c_beta := s_beta st; c_min_step := s_min_step st;
       c_hist := s_hist st; c_g := s_g st; c_evidence := ev |}.

  (* the callback invocations made by maybe_checkpoint(force) in this state: zero or one payload *)
  Definition maybe_checkpoint (o : opts) (force : bool) (ev : option (N * N)) (st : state) : list ckpt :=
    if should_checkpoint o force (s_iter st) then [mk_ckpt st ev] else [].

  Definition cap_reached (o : opts) (iter : nat) : bool :=
    match max_n_steps o with Some m => Nat.leb m iter | None => false end.

  (* one pass through the body of `while True:`; the bool says `break`; the list is the checkpoint
     payloads handed to the callback during this pass *)
  Definition step (o : opts) (st : state) : res (state * bool * list ckpt) :=
    let it := S (s_iter st) in
    let p := s_pop st in
    match determine_beta o p (s_beta st) (s_min_step st) with
    | Err e => Err e
    | OutOfFuel => OutOfFuel
    | Ok (b, ms, _) =>
      let h := s_hist st in
      let '(p1, g1) := resample (s_g st) p b None in
      let '(p2, g2) := mutate_o g1 p1 b false in
      let h' := {| h_beta := snoc (h_beta h) b;
                   h_eff_target := snoc (h_eff_target h) (cte b);
                   h_ess := snoc (h_ess h) (essq p b);
                   h_ess_target := snoc (h_ess_target h) (essq p (one N));
                   h_ratio := snoc (h_ratio h) (ratio p b);
                   h_ratio_var := snoc (h_ratio_var h) (ratio_var p b);
                   h_pops := if store_history o then snoc (h_pops h) p2 else h_pops h;
                   h_nmut := S (h_nmut h) |} in
      let st' := {| s_pop := p2; s_beta := b; s_iter := it; s_min_step := ms; s_hist := h';
                    s_g := g2 |} in
      Ok (st', eqb N b (one N) || cap_reached o it, maybe_checkpoint o false None st')
    end.

  Fixpoint loop (fuel : nat) (o : opts) (st : state) : res (state * list ckpt) :=
    match fuel with
    | O => OutOfFuel
    | S f =>
      match step o st with
      | Err e => Err e
      | OutOfFuel => OutOfFuel
      | Ok (st', true, evs) => Ok (st', evs)
      | Ok (st', false, evs) =>
        match loop f o st' with
        | Ok (st'', evs') => Ok (st'', evs ++ evs')
        | Err e => Err e
        | OutOfFuel => OutOfFuel
        end
      end
    end.

  Definition fsum (l : list N) : N := fold_left (add N) l (zero N).

  Record output := {
    o_pop : P; o_log_evidence : N; o_log_evidence_error : N; o_hist : hist; o_g : G; o_iter : nat;
  }.

  (* everything after the loop: final enlargement, evidence, forced checkpoint *)
  Definition set_nmut (h : hist) (nm : nat) : hist :=
    {| h_beta := h_beta h; h_eff_target := h_eff_target h; h_ess := h_ess h;
       h_ess_target := h_ess_target h; h_ratio := h_ratio h; h_ratio_var := h_ratio_var h;
       h_pops := h_pops h; h_nmut := nm |}.

  Definition enlarge (o : opts) (st : state) : P * G * nat :=
    match n_final o with
    | Some n =>
      if Nat.eqb (psize (s_pop st)) n then (s_pop st, s_g st, h_nmut (s_hist st))
      else let '(p1, g1) := resample (s_g st) (s_pop st) (s_beta st) (Some n) in      (* at the temperature the loop ended at (repair F65) *)
           let '(p2, g2) := mutate_o g1 p1 (s_beta st) true in (p2, g2, S (h_nmut (s_hist st)))
    | None => (s_pop st, s_g st, h_nmut (s_hist st))
    end.

  Definition finish_state (o : opts) (st : state) : state :=
    let '(p, g, nm) := enlarge o st in
    {| s_pop := p; s_beta := s_beta st; s_iter := s_iter st; s_min_step := s_min_step st;
       s_hist := set_nmut (s_hist st) nm; s_g := g |}.

  Definition finish (o : opts) (st : state) : output * list ckpt :=
    let st' := finish_state o st in
    let le := fsum (h_ratio (s_hist st')) in
    let lee := nsqrt N (fsum (h_ratio_var (s_hist st'))) in
    ({| o_pop := s_pop st'; o_log_evidence := le; o_log_evidence_error := lee; o_hist := s_hist st';
        o_g := s_g st'; o_iter := s_iter st' |},
     maybe_checkpoint o true (Some (le, lee)) st').

  (* fresh run: population p0 drawn (draw_initial_samples) with generator state g0 afterwards *)
  Definition init_state (o : opts) (p0 : P) (g0 : G) : state :=
    {| s_pop := p0; s_beta := zero N; s_iter := 0; s_min_step := min_step0 o;
       s_hist := {| h_beta := []; h_eff_target := []; h_ess := []; h_ess_target := [];
                    h_ratio := []; h_ratio_var := [];
                    h_pops := if store_history o then [p0] else []; h_nmut := 0 |};
       s_g := g0 |}.

  (* restore_from_checkpoint + the prologue of sample(resume_from=...) *)
  Definition restore (o : opts) (c : ckpt) : state :=
    {| s_pop := c_pop c; s_beta := c_beta c; s_iter := c_iter c;
       s_min_step := if adaptive_min_step o then c_min_step c else min_step0 o;
       s_hist := c_hist c; s_g := c_g c |}.

  Definition resumed_skips_loop (o : opts) (st : state) : bool :=
    geb N (last (h_beta (s_hist st)) (s_beta st)) (one N) || cap_reached o (s_iter st).

  Definition run_from (fuel : nat) (o : opts) (st : state) (skip_loop : bool)
    : res (output * list ckpt) :=
    if skip_loop then Ok (finish o st)
    else match loop fuel o st with
         | Ok (st', evs) => let '(out, evs') := finish o st' in Ok (out, evs ++ evs')
         | Err e => Err e
         | OutOfFuel => OutOfFuel
         end.

  Definition sample (fuel : nat) (o : opts) (p0 : P) (g0 : G) : res (output * list ckpt) :=
    run_from fuel o (init_state o p0 g0) false.

  Definition sample_resumed (fuel : nat) (o : opts) (c : ckpt) : res (output * list ckpt) :=
    let st := restore o c in run_from fuel o st (resumed_skips_loop o st).
End Model.
