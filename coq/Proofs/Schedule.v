(* Properties of determine_beta (Model/SMC.v) at the exact-real instance NumR, for EVERY efficiency
   oracle (= every population), every target function and every valid option record. *)
From Coq Require Import Reals List Bool Lra Lia.
From AV Require Import Lib.Num Model.SMC.
Import ListNotations.
Open Scope R_scope.

Ltac unR := cbn [NumR T zero one half add sub mul div nsqrt leb ltb eqb gtb geb pymax pymin] in *.

Ltac breakb :=
  repeat match goal with
  | |- context [Rleb' ?a ?b] => let H := fresh "Hc" in destruct (Rleb' a b) eqn:H;
        [apply Rleb'_spec in H | apply Rleb'_false in H]
  | |- context [Rltb' ?a ?b] => let H := fresh "Hc" in destruct (Rltb' a b) eqn:H;
        [apply Rltb'_spec in H | apply Rltb'_false in H]
  | |- context [Reqb' ?a ?b] => let H := fresh "Hc" in destruct (Reqb' a b) eqn:H;
        [apply Reqb'_spec in H | apply Reqb'_false in H]
  end.

Lemma step_bound bs y beta d :
  beta < bs <= 1 -> (bs = 1 \/ beta + d <= bs) ->
  beta < pymin NumR (pymax NumR bs y) 1 <= 1
  /\ (pymin NumR (pymax NumR bs y) 1 = 1 \/ beta + d <= pymin NumR (pymax NumR bs y) 1).
Proof.
  intros Hr Hp. unfold pymin, pymax. unR.
  destruct (Rltb' bs y) eqn:H1; [apply Rltb'_spec in H1| apply Rltb'_false in H1].
  - destruct (Rltb' 1 y) eqn:H2; [apply Rltb'_spec in H2| apply Rltb'_false in H2].
    + split; [lra| left; auto].
    + split; [lra|]. destruct Hp; [left; lra| right; lra].
  - destruct (Rltb' 1 bs) eqn:H2; [apply Rltb'_spec in H2| apply Rltb'_false in H2].
    + split; [lra| left; auto].
    + split; [lra|]. destruct Hp; [left; lra| right; lra].
Qed.

Section Sched.
  Variables (P G : Type).
  Variable effq : P -> R -> R.
  Variable cte : R -> R.

  Notation bisectR := (bisect NumR P effq).
  Notation dbeta := (determine_beta NumR P effq cte).

  (* ---------- the bisection ---------- *)
  Lemma bisect_spec fuel : forall p target bmin bmax tl tr a b tr',
    0 < tl -> bmin < bmax ->
    bisectR fuel p target bmin bmax tl tr = Some (a, b, tr') ->
    bmin <= a /\ a < b /\ b <= bmax /\ b - a <= tl
    /\ (a = bmin \/ (bmin + tl / 2 < a /\ target <= effq p a))
    /\ (b = bmax \/ effq p b < target)
    /\ (tl / 2 < b - a \/ (a = bmin /\ b = bmax)).
  Proof.
    induction fuel as [|f IH]; intros p target bmin bmax tl tr a b tr' Htl Hlt H; [discriminate|].
    cbn [bisect] in H. unR.
    destruct (Rltb' tl (bmax - bmin)) eqn:Hw.
    - apply Rltb'_spec in Hw.
      set (try := 1 / 2 * (bmax + bmin)) in *.
      assert (Ht1 : bmin + tl / 2 < try) by (unfold try; lra).
      assert (Ht2 : try < bmax - tl / 2) by (unfold try; lra).
      (* over the reals the midpoint is strictly inside the bracket: the adjacent-floats exit never fires *)
      assert (S1 : Rltb' bmin try = true) by (apply Rltb'_spec; lra).
      assert (S2 : Rltb' try bmax = true) by (apply Rltb'_spec; lra).
      rewrite S1, S2 in H. cbn [andb] in H.
      destruct (Rleb' target (effq p try)) eqn:He.
      + apply Rleb'_spec in He.
        apply IH in H; [|lra|lra].
        destruct H as (H1 & H2 & H3 & H4 & H5 & H6 & H7).
        split; [lra|]. split; [lra|]. split; [lra|]. split; [lra|]. split; [|split].
        * right. destruct H5 as [->|[H5 H5']]; [split; lra| split; lra].
        * destruct H6 as [->|H6]; [left; auto| right; auto].
        * destruct H7 as [H7|[-> ->]]; [left; lra| left; unfold try; lra].
      + apply Rleb'_false in He.
        apply IH in H; [|lra|lra].
        destruct H as (H1 & H2 & H3 & H4 & H5 & H6 & H7).
        split; [lra|]. split; [lra|]. split; [lra|]. split; [lra|]. split; [|split].
        * destruct H5 as [->|[H5 H5']]; [left; auto| right; split; lra].
        * destruct H6 as [->|H6]; [right; auto| right; auto].
        * destruct H7 as [H7|[-> ->]]; [left; lra| left; unfold try; lra].
    - apply Rltb'_false in Hw. inversion H; subst.
      split; [lra|]. split; [lra|]. split; [lra|]. split; [lra|]. split; [left; auto|]. split; [left; auto| right; auto].
  Qed.

  (* the bisection needs at most log2(width/tol) halvings *)
  Lemma bisect_terminates f : forall p target bmin bmax tl tr,
    0 < tl -> bmax - bmin <= tl * 2 ^ f ->
    bisectR (S f) p target bmin bmax tl tr <> None.
  Proof.
    induction f as [|f IH]; intros p target bmin bmax tl tr Htl Hw.
    - cbn [bisect]. unR. simpl in Hw.
      destruct (Rltb' tl (bmax - bmin)) eqn:Hc; [apply Rltb'_spec in Hc; lra| discriminate].
    - cbn [bisect]. unR.
      destruct (Rltb' tl (bmax - bmin)) eqn:Hc; [|discriminate].
      apply Rltb'_spec in Hc.
      assert (Hw' : bmax - bmin <= tl * 2 ^ f * 2) by (simpl in Hw; lra).
      destruct (Rltb' bmin (1 / 2 * (bmax + bmin)) && Rltb' (1 / 2 * (bmax + bmin)) bmax); [|discriminate].
      destruct (Rleb' target (effq p (1 / 2 * (bmax + bmin)))); apply IH; auto; lra.
  Qed.

  Lemma bisect_equal_bounds f p target b tl tr : 0 < tl ->
    bisectR (S f) p target b b tl tr = Some (b, b, tr).
  Proof.
    intros Htl. cbn [bisect]. unR.
    destruct (Rltb' tl (b - b)) eqn:Hc; [apply Rltb'_spec in Hc; lra| reflexivity].
  Qed.

  (* ---------- determine_beta: one step of the schedule ---------- *)
  Definition valid (o : opts NumR) : Prop :=
    0 < tol NumR o /\ (1 <= bisect_fuel NumR o)%nat
    /\ (adaptive NumR o = false -> 0 < beta_step NumR o).

  (* progress quantum: each step either lands exactly on 1 or advances by at least delta *)
  Definition delta (o : opts NumR) : R :=
    if adaptive NumR o then tol NumR o / 2 else beta_step NumR o / 2.

  Lemma delta_pos o : valid o -> 0 < delta o.
  Proof. intros (Ht & _ & Hs). unfold delta. destruct (adaptive NumR o); [lra| specialize (Hs eq_refl); lra]. Qed.

  Lemma determine_beta_step o p beta ms b ms' tr :
    valid o -> 0 <= beta < 1 ->
    dbeta o p beta ms = Ok (b, ms', tr) ->
    beta < b <= 1 /\ (b = 1 \/ beta + delta o <= b).
  Proof.
    intros (Ht & Hf & Hs) Hb H. unfold determine_beta, delta in *.
    destruct (adaptive NumR o) eqn:Ha; cbn [negb] in H.
    - (* adaptive *)
      unR.
      match type of H with context [match ?t with Some _ => _ | None => _ end] =>
        destruct t as [[[a bb] tr0]|] eqn:Hbis end; [|discriminate].
      match type of H with context [pymax NumR ?e _] => remember e as bs eqn:Hbs in * end.
      assert (Hstar : beta < bs <= 1 /\ (bs = 1 \/ beta + tol NumR o / 2 <= bs)).
      { rewrite Hbs. clear Hbs H. revert Hbis. destruct (Rleb' (cte beta) (effq p 1)) eqn:Hm; intros Hbis.
        - destruct (bisect_fuel NumR o) as [|f]; [lia|].
          rewrite bisect_equal_bounds in Hbis by auto. inversion Hbis; subst.
          destruct (Rleb' 1 beta) eqn:Hc; (split; [lra| left; auto]).
        - apply bisect_spec in Hbis; [|lra|lra].
          destruct Hbis as (H1 & H2 & H3 & H4 & H5 & H6 & H7).
          destruct (Rleb' a beta) eqn:Hc.
          + apply Rleb'_spec in Hc. split; [lra|].
            destruct H7 as [H7|[_ ->]]; [right; lra| left; auto].
          + apply Rleb'_false in Hc. split; [lra|].
            destruct H5 as [->|[H5 _]]; [lra| right; lra]. }
      destruct Hstar as (Hr & Hp).
      clear Hbs. destruct (adaptive_min_step NumR o && Rltb' bs 1) eqn:Hams.
      + destruct (Reqb' (1 - bs) 0) eqn:Hz; [discriminate|].
        injection H as Hb' _ _. rewrite <- Hb'. apply step_bound; auto.
      + injection H as Hb' _ _. rewrite <- Hb'. apply step_bound; auto.
    - (* fixed step *)
      specialize (Hs eq_refl). unR. injection H as Hb' _ _. subst b.
      destruct (Rleb' (1 - 1 / 2 * beta_step NumR o) (beta + beta_step NumR o)) eqn:Hc;
        [apply Rleb'_spec in Hc| apply Rleb'_false in Hc].
      + split; [lra| left; auto].
      + split; [lra| right; lra].
  Qed.

  Lemma determine_beta_no_error o p beta ms :
    valid o -> 0 <= beta < 1 -> (2 ^ (bisect_fuel NumR o - 1) * tol NumR o >= 1) ->
    exists b ms' tr, dbeta o p beta ms = Ok (b, ms', tr).
  Proof.
    intros (Ht & Hf & Hs) Hb Hfuel. unfold determine_beta.
    destruct (adaptive NumR o) eqn:Ha; cbn [negb].
    - unR.
      destruct (bisect_fuel NumR o) as [|f] eqn:Hbf; [lia|].
      replace (S f - 1)%nat with f in Hfuel by lia.
      match goal with |- context [match ?t with Some _ => _ | None => _ end] =>
        destruct t as [[[a bb] tr0]|] eqn:Hbis end.
      + match goal with |- context [Rltb' ?e 1] => remember e as bs eqn:Hbs end. clear Hbs.
        destruct (adaptive_min_step NumR o && Rltb' bs 1) eqn:Hams.
        * apply andb_prop in Hams as [_ Hlt]. apply Rltb'_spec in Hlt.
          destruct (Reqb' (1 - bs) 0) eqn:Hz; [apply Reqb'_spec in Hz; lra| eauto].
        * eauto.
      + exfalso. revert Hbis. apply bisect_terminates; auto.
        destruct (Rleb' (cte beta) (effq p 1)); nra.
    - eauto.
  Qed.

  (* ---------- C07: what the adaptive step guarantees ---------- *)
  (* a = largest temperature found admissible, bb = upper bracket *)
  Lemma determine_beta_bracket o p beta ms b ms' tr :
    valid o -> adaptive NumR o = true -> 0 <= beta < 1 ->
    cte beta <= effq p beta ->                       (* the current temperature is admissible: ESS = N *)
    dbeta o p beta ms = Ok (b, ms', tr) ->
    exists a bb bs,
      beta <= a <= bb /\ bb <= 1 /\ bb - a <= tol NumR o
      /\ cte beta <= effq p a                         (* a meets the target in force *)
      /\ (a = 1 \/ effq p bb < cte beta)              (* nothing admissible was found at the upper bracket *)
      /\ bs = (if Rleb' a beta then bb else a)        (* the step the bisection proposes *)
      /\ ms' = (if adaptive_min_step NumR o && Rltb' bs 1 then ms * (1 - beta) / (1 - bs) else ms)
      /\ b = pymin NumR (pymax NumR bs (beta + ms')) 1.
  Proof.
    intros (Ht & Hf & Hs) Ha Hb Hadm H. unfold determine_beta in H. rewrite Ha in H. cbn [negb] in H. unR.
    match type of H with context [match ?t with Some _ => _ | None => _ end] =>
      destruct t as [[[a bb] tr0]|] eqn:Hbis end; [|discriminate].
    match type of H with context [Rltb' ?e 1] => remember e as bs eqn:Hbs in * end.
    exists a, bb, bs.
    assert (Hab : beta <= a <= bb /\ bb <= 1 /\ bb - a <= tol NumR o /\ cte beta <= effq p a
                  /\ (a = 1 \/ effq p bb < cte beta)).
    { clear H Hbs. revert Hbis. destruct (Rleb' (cte beta) (effq p 1)) eqn:Hm; intros Hbis.
      - destruct (bisect_fuel NumR o) as [|f]; [lia|].
        rewrite bisect_equal_bounds in Hbis by auto. inversion Hbis; subst.
        apply Rleb'_spec in Hm.
        split; [lra|]. split; [lra|]. split; [lra|]. split; [lra| left; auto].
      - apply Rleb'_false in Hm. apply bisect_spec in Hbis; [|lra|lra].
        destruct Hbis as (H1 & H2 & H3 & H4 & H5 & H6 & H7).
        split; [lra|]. split; [lra|]. split; [lra|]. split.
        + destruct H5 as [->|[_ H5]]; auto.
        + right. destruct H6 as [->|H6]; auto. }
    destruct Hab as (H1 & H2 & H3 & H4 & H5).
    split; [exact H1|]. split; [exact H2|]. split; [exact H3|]. split; [exact H4|]. split; [exact H5|].
    split; [rewrite Hbs; reflexivity|]. clear Hbs.
    destruct (adaptive_min_step NumR o && Rltb' bs 1) eqn:Hams.
    - destruct (Reqb' (1 - bs) 0); [discriminate|]. injection H as E1 E2 _. subst. split; reflexivity.
    - injection H as E1 E2 _. subst. split; reflexivity.
  Qed.

  (* if the efficiency curve is non-increasing, nothing at or beyond the upper bracket is admissible *)
  Lemma bracket_maximal p beta a bb :
    (forall x y, beta <= x <= y -> y <= 1 -> effq p y <= effq p x) ->
    beta <= a <= bb -> bb <= 1 -> effq p bb < cte beta ->
    forall y, bb <= y <= 1 -> effq p y < cte beta.
  Proof. intros Hmono Ha Hb Hlt y Hy. specialize (Hmono bb y). lra. Qed.

  (* fixed schedule: after k steps of 1/n the temperature is k/n, the n-th lands exactly on 1 *)
  Lemma fixed_step_value o p (n k : nat) ms :
    adaptive NumR o = false -> (0 < n)%nat -> beta_step NumR o = 1 / INR n -> (k < n)%nat ->
    dbeta o p (INR k / INR n) ms =
      Ok ((if Nat.eqb (S k) n then 1 else INR (S k) / INR n), ms, []).
  Proof.
    intros Ha Hn Hs Hk. unfold determine_beta. rewrite Ha. cbn [negb]. unR. rewrite Hs.
    assert (Hn0 : 0 < INR n) by (apply lt_0_INR; lia).
    assert (Hsum : INR k / INR n + 1 / INR n = INR (S k) / INR n) by (rewrite S_INR; field; lra).
    rewrite Hsum.
    destruct (Nat.eqb (S k) n) eqn:He.
    - apply Nat.eqb_eq in He. rewrite He.
      replace (INR n / INR n) with 1 by (field; lra).
      assert (H12 : 0 < 1 / 2 * (1 / INR n)).
      { apply Rmult_lt_0_compat; [lra|]. unfold Rdiv; rewrite Rmult_1_l. apply Rinv_0_lt_compat; auto. }
      destruct (Rleb' (1 - 1 / 2 * (1 / INR n)) 1) eqn:Hc; auto.
    - apply Nat.eqb_neq in He. assert (Hlt : (S k < n)%nat) by lia.
      assert (Hle : INR (S k) + 1 <= INR n) by (rewrite <- S_INR; apply le_INR; lia).
      destruct (Rleb' (1 - 1 / 2 * (1 / INR n)) (INR (S k) / INR n)) eqn:Hc; auto.
      apply Rleb'_spec in Hc. exfalso.
      assert (Hmul : (1 - 1 / 2 * (1 / INR n)) * INR n <= INR (S k) / INR n * INR n)
        by (apply Rmult_le_compat_r; lra).
      replace (INR (S k) / INR n * INR n) with (INR (S k)) in Hmul by (field; lra).
      replace ((1 - 1 / 2 * (1 / INR n)) * INR n) with (INR n - 1 / 2) in Hmul by (field; lra).
      lra.
  Qed.
End Sched.
