From Coq Require Import List Arith Init.Byte Lia.
From AV Require Import Lib.Num Model.SMC Model.Blob Proofs.SMCGeneric.
Import ListNotations.

Lemma resize_length old n : length (resize old n) = n.
Proof. revert old; induction n; intros [|b old]; simpl; auto. Qed.

Lemma overwrite_same_length dst src : length dst = length src -> overwrite dst src = src.
Proof.
  revert src; induction dst as [|d dst IH]; intros [|s src] H; simpl in *; try discriminate; auto.
  f_equal. apply IH. lia.
Qed.

Lemma write_blob_exact old new : write_blob old new = new.
Proof.
  unfold write_blob. destruct old as [o|].
  - destruct (Nat.eqb (length new) (length o)) eqn:E.
    + apply Nat.eqb_eq in E. apply overwrite_same_length. auto.
    + apply overwrite_same_length. apply resize_length.
  - apply overwrite_same_length. apply resize_length.
Qed.

Lemma payload_current (N : Num) (P G : Type) effq essq ratio ratio_var cte pbeta resample_o mutate_o o st st' brk evs c :
  step N P G effq essq ratio ratio_var cte pbeta resample_o mutate_o o st = Ok (st', brk, evs) ->
  In c evs -> c = mk_ckpt N P G st' None.
Proof.
  intros Hs Hin. apply step_shape in Hs as (b & ms & tr & _ & _ & _ & _ & _ & _ & Hev).
  rewrite Hev in Hin. unfold maybe_checkpoint in Hin.
  destruct (should_checkpoint N o false (s_iter N P G st')); simpl in Hin; [|contradiction].
  destruct Hin as [E|[]]. symmetry. exact E.
Qed.
