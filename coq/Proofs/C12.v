From Coq Require Import List Arith Init.Byte Lia.
From AV Require Import Lib.Num Model.SMC Model.Blob Proofs.SMCGeneric.
Import ListNotations.

Lemma resize_length old n : length (resize old n) = n.
Proof. revert old; induction n; intros [|b old]; simpl; auto. Qed.

Lemma overwrite_same_length dst src : length dst = length src -> overwrite dst src = src.
Proof.
  revert src; induction dst as [|d dst IH]; intros [|s src] H; simpl in *; try discriminate; auto.
  f_equal. apply IH. lia.
Qed.

Lemma write_blob_exact old new : write_blob old new = new.
Proof.
  unfold write_blob. destruct old as [o|].
  - destruct (Nat.eqb (length new) (length o)) eqn:E.
    + apply Nat.eqb_eq in E. apply overwrite_same_length. auto.
    + apply overwrite_same_length. apply resize_length.
  - apply overwrite_same_length. apply resize_length.
Qed.

Lemma payload_current (N : Num) (P G : Type) effq essq ratio ratio_var cte pbeta resample_o mutate_o o st st' brk evs c :
  step N P G effq essq ratio ratio_var cte pbeta resample_o mutate_o o st = Ok (st', brk, evs) ->
  In c evs -> c = mk_ckpt N P G st' None.
Proof.
  intros Hs Hin. apply step_shape in Hs as (b & ms & tr & _ & _ & _ & _ & _ & _ & Hev).
  rewrite Hev in Hin. unfold maybe_checkpoint in Hin.
  destruct (should_checkpoint N o false (s_iter N P G st')); simpl in Hin; [|contradiction].
  destruct Hin as [E|[]]. symmetry. exact E.
Qed.

(* an interruption after any number k of the run's checkpoint writes leaves the dataset equal,
   byte for byte, to the last payload written before it (or untouched when k = 0) *)
Lemma file_after_last old blobs :
  file_after old blobs = match blobs with [] => old | _ => Some (last blobs []) end.
Proof.
  unfold file_after. revert old. induction blobs as [|b bs IH]; intros old; [reflexivity|].
  cbn [fold_left]. rewrite IH, write_blob_exact. destruct bs; reflexivity.
Qed.

Lemma file_after_interruption old blobs k :
  file_after old (firstn k blobs)
  = match firstn k blobs with [] => old | _ => Some (last (firstn k blobs) []) end.
Proof. apply file_after_last. Qed.

Lemma In_firstn_In {A} (x : A) k l : In x (firstn k l) -> In x l.
Proof.
  revert l; induction k as [|k IH]; intros [|y l] H; simpl in *; try contradiction.
  destruct H as [H|H]; [left; exact H|right; apply IH; exact H].
Qed.

(* never a mixture: the dataset is one of the payloads written (or the old one), whole *)
Lemma file_after_is_a_payload old blobs k b :
  file_after old (firstn k blobs) = Some b -> old = Some b \/ In b blobs.
Proof.
  rewrite file_after_last. destruct (firstn k blobs) as [|x xs] eqn:E; intros H; [left; exact H|right].
  injection H as <-. assert (Hin : In (last (x :: xs) []) (x :: xs)).
  { clear. revert x; induction xs as [|y ys IH]; intros x; [left; reflexivity|]. right. apply IH. }
  apply (In_firstn_In _ k). rewrite E. exact Hin.
Qed.
