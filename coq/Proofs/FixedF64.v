(* The fixed schedule in binary64: for every n up to a stated bound, and for EVERY population,
   kernel and random stream, the loop performs exactly n iterations and ends at temperature exactly
   1.0.  The iteration count of the model's loop is reduced (for any numeric instance) to the
   count-only recursion fixed_iter (Proofs/SMCGeneric.v, loop_fixed_iter); that recursion is then
   evaluated at the binary64 instance over the whole finite domain by vm_compute and lifted with
   forallb_forall. *)
From Coq Require Import List Bool Arith ZArith PrimFloat Uint63 Lia.
From AV Require Import Lib.Num Model.SMC Proofs.SMCGeneric.
Import ListNotations.

Definition f_of_nat (n : nat) : float := PrimFloat.of_uint63 (Uint63.of_Z (Z.of_nat n)).
Definition f_step (n : nat) : float := PrimFloat.div 1%float (f_of_nat n).     (* Python: 1 / n_steps *)

Definition fixed_ok (n : nat) : bool :=
  match fixed_iter NumF (f_step n) (2 * n + 2) 0%float with
  | Some (k, bf) => Nat.eqb k n && PrimFloat.eqb bf 1%float
  | None => false
  end.

Definition fixed_bound : nat := 4096.

Lemma fixed_all_ok : forallb fixed_ok (seq 1 fixed_bound) = true.
Proof. vm_compute. reflexivity. Qed.

Lemma fixed_n_f64 : forall n, 1 <= n <= fixed_bound -> fixed_ok n = true.
Proof.
  intros n [H1 H2]. pose proof fixed_all_ok as H. rewrite forallb_forall in H. apply H.
  apply in_seq. lia.
Qed.

Section AnyOracle.
  Variables (P G : Type).
  Variable effq essq ratio ratio_var : P -> float -> float.
  Variable cte : float -> float.
  Variable pbeta : P -> float.
  Variable psize : P -> nat.
  Variable resample_o : G -> P -> float -> option nat -> P * G.
  Variable mutate_o : G -> P -> float -> bool -> P * G.

  Theorem sample_fixed_n_f64 (o : opts NumF) n p0 g0 :
    1 <= n <= fixed_bound ->
    adaptive _ o = false -> max_n_steps _ o = None -> beta_step _ o = f_step n ->
    exists out evs,
      sample NumF P G effq essq ratio ratio_var cte pbeta psize resample_o mutate_o (2 * n + 2) o p0 g0 = Ok (out, evs)
      /\ o_iter _ _ _ out = n.
  Proof.
    intros Hn Ha Hc Hs. pose proof (fixed_n_f64 n Hn) as Hok. unfold fixed_ok in Hok.
    destruct (fixed_iter NumF (f_step n) (2 * n + 2) 0%float) as [[k bf]|] eqn:Hf; [|discriminate].
    apply andb_prop in Hok as [Hk _]. apply Nat.eqb_eq in Hk. subst k.
    rewrite <- Hs in Hf.
    destruct (loop_fixed_iter NumF P G effq essq ratio ratio_var cte pbeta resample_o mutate_o o Ha Hc
                (2 * n + 2) (init_state NumF P G o p0 g0) n bf Hf) as (stf & evs & Hl & Hi & _).
    unfold sample, run_from. rewrite Hl.
    destruct (finish NumF P G pbeta psize resample_o mutate_o o stf) as [out ev2] eqn:Hfin.
    exists out, (evs ++ ev2). split; [reflexivity|].
    apply finish_spec in Hfin as (_ & _ & F3 & _). rewrite F3, Hi. reflexivity.
  Qed.
End AnyOracle.
