(* C02 with rows equal to -inf ("a subset equal to -inf" in the property's quantifier).
   About Gen/KernelsX.v: the SAME source functions (utils.logsumexp, Samples.compute_weights) translated over XR,
   the reals extended with NaN / -inf / +inf and the IEEE rules for them (no rounding).
   A row whose log-weight is -inf has weight zero: it drops out of every sum but still counts in N; as long as one row is
   finite nothing becomes NaN; if EVERY row is -inf the result is NaN (stated, not hidden). *)
From Coq Require Import Reals List Bool Lra Lia.
From AV Require Import Lib.Vec Lib.XR Gen.Kernels Gen.KernelsX Proofs.C02.
Import ListNotations.
Open Scope R_scope.

Definition xrow_ok (a : XR) : Prop := match a with Fin _ | NInf => True | _ => False end.
Definition xfinite (a : XR) : Prop := match a with Fin _ => True | _ => False end.
(* the finite rows, in order *)
Definition fins (l : list XR) : list R := flat_map (fun a => match a with Fin r => [r] | _ => [] end) l.

Lemma fins_cons_fin r l : fins (Fin r :: l) = r :: fins l.  Proof. reflexivity. Qed.
Lemma fins_cons_ninf l : fins (NInf :: l) = fins l.          Proof. reflexivity. Qed.

(* ------------------------------------------------------------------ the max reduction *)
Lemma xmax2_fin_fin r s : xmax2 (Fin r) (Fin s) = Fin (Rmax r s).
Proof.
  unfold xmax2, xltb, Rmax. destruct (Rlt_dec r s) as [H|H]; destruct (Rle_dec r s) as [H'|H']; try reflexivity; try lra.
  f_equal. lra.
Qed.

Lemma fold_xmax_fin t r : Forall xrow_ok t -> fold_left xmax2 t (Fin r) = Fin (fold_left Rmax (fins t) r).
Proof.
  revert r. induction t as [|a t IH]; intros r Hok; [reflexivity|].
  inversion Hok as [|? ? Ha Ht]; subst. destruct a as [| | |s]; try contradiction.
  - cbn [fold_left]. change (xmax2 (Fin r) NInf) with (Fin r). rewrite fins_cons_ninf. now apply IH.
  - cbn [fold_left]. rewrite xmax2_fin_fin, fins_cons_fin. cbn [fold_left]. now apply IH.
Qed.

Lemma fold_xmax_ninf t : Forall xrow_ok t ->
  fold_left xmax2 t NInf = match fins t with [] => NInf | _ => Fin (vmax (fins t)) end.
Proof.
  induction t as [|a t IH]; intros Hok; [reflexivity|].
  inversion Hok as [|? ? Ha Ht]; subst. destruct a as [| | |s]; try contradiction.
  - cbn [fold_left]. change (xmax2 NInf NInf) with NInf. rewrite fins_cons_ninf. now apply IH.
  - cbn [fold_left]. change (xmax2 NInf (Fin s)) with (Fin s). rewrite fold_xmax_fin by assumption. reflexivity.
Qed.

Lemma xvmax_fins l : Forall xrow_ok l -> fins l <> [] -> xvmax l = Fin (vmax (fins l)).
Proof.
  intros Hok Hne. destruct l as [|a t]; [contradiction Hne; reflexivity|].
  inversion Hok as [|? ? Ha Ht]; subst. destruct a as [| | |s]; try contradiction.
  - unfold xvmax. rewrite fold_xmax_ninf by assumption. rewrite fins_cons_ninf in *.
    destruct (fins t); [contradiction Hne; reflexivity| reflexivity].
  - unfold xvmax. rewrite fold_xmax_fin by assumption. reflexivity.
Qed.

(* ------------------------------------------------------------------ the shifted exponential sum *)
Lemma xsum_exp_shift l m : Forall xrow_ok l ->
  xvsum (map xexp (map (fun t_ => xsub t_ (Fin m)) l)) = Fin (vsum (map exp (map (fun t => t - m) (fins l)))).
Proof.
  induction l as [|a l IH]; intros Hok; [reflexivity|].
  inversion Hok as [|? ? Ha Hl]; subst. specialize (IH Hl).
  destruct a as [| | |r]; try contradiction; cbn [map].
  - change (xvsum (?h :: ?t)) with (xadd h (xvsum t)). rewrite IH. rewrite fins_cons_ninf. cbn. f_equal. lra.
  - change (xvsum (?h :: ?t)) with (xadd h (xvsum t)). rewrite IH. rewrite fins_cons_fin. cbn [map xsub xneg xadd xexp].
    rewrite vsum_cons. reflexivity.
Qed.

Lemma xln_pos s : 0 < s -> xln (Fin s) = Fin (ln s).
Proof. intros H. unfold xln. destruct (Rlt_dec 0 s); [reflexivity|contradiction]. Qed.

(* ------------------------------------------------------------------ logsumexp *)
Theorem x_logsumexp l : Forall xrow_ok l -> fins l <> [] -> xlogsumexp l = Fin (logsumexp (fins l)).
Proof.
  intros Hok Hne. unfold xlogsumexp. cbv zeta. rewrite (xvmax_fins l Hok Hne), (xsum_exp_shift l _ Hok).
  rewrite xln_pos.
  - reflexivity.
  - apply sum_exp_pos. destruct (fins l); [contradiction Hne; reflexivity| discriminate].
Qed.

(* every row -inf: the result is NaN in this model (and in the code: -inf - -inf), never a number *)
Theorem x_logsumexp_all_ninf l : l <> [] -> Forall (fun a => a = NInf) l -> xlogsumexp l = NaN.
Proof.
  intros Hne Hall. destruct l as [|a t]; [contradiction Hne; reflexivity|].
  inversion Hall as [|? ? Ha Ht]; subst.
  assert (Hm : xvmax (NInf :: t) = NInf).
  { unfold xvmax. clear Hne Hall. induction t as [|b t IH]; [reflexivity|].
    inversion Ht as [|? ? Hb Ht']; subst. cbn [fold_left]. change (xmax2 NInf NInf) with NInf. now apply IH. }
  unfold xlogsumexp. cbv zeta. rewrite Hm. cbn [map]. reflexivity.
Qed.

(* ------------------------------------------------------------------ log-weights of a population with -inf entries *)
Lemma log_w_rows_ok ll lp lq : Forall xrow_ok ll -> Forall xrow_ok lp -> Forall xfinite lq ->
  Forall xrow_ok (vmap2 xsub (vmap2 xadd ll lp) lq).
Proof.
  revert lp lq. induction ll as [|a ll IH]; intros lp lq Hl Hp Hq; [constructor|].
  destruct lp as [|b lp]; [constructor|]. destruct lq as [|c lq]; [constructor|].
  inversion Hl; inversion Hp; inversion Hq; subst. cbn [vmap2]. constructor; [|now apply IH].
  destruct a, b, c; try contradiction; exact I.
Qed.

(* ------------------------------------------------------------------ log-evidence *)
Theorem x_log_evidence {X} (x : list X) ll lp lq :
  let lw := xcompute_weights_log_w x ll lp lq in
  Forall xrow_ok lw -> fins lw <> [] -> x <> [] ->
  xcompute_weights_log_evidence x ll lp lq = Fin (ln (vsum (map exp (fins lw)) / INR (length x))).
Proof.
  intros lw Hok Hne Hx. unfold xcompute_weights_log_evidence. cbv zeta.
  unfold lw, xcompute_weights_log_w in *. cbv zeta in *.
  rewrite (x_logsumexp _ Hok Hne). unfold xvlen.
  assert (HN : 0 < INR (length x)) by (apply lt_0_INR; destruct x; [contradiction Hx; reflexivity| simpl; lia]).
  rewrite xln_pos by assumption. cbn [xsub xneg xadd]. f_equal.
  rewrite logsumexp_ln by (destruct (fins _); [contradiction Hne; reflexivity| discriminate]).
  unfold Rdiv. rewrite ln_mult, ln_Rinv; [lra| assumption| | now apply Rinv_0_lt_compat].
  apply sum_exp_pos. destruct (fins _); [contradiction Hne; reflexivity| discriminate].
Qed.

(* ------------------------------------------------------------------ effective sample size *)
Lemma fins_shift l m : Forall xrow_ok l -> fins (map (fun t_ => xsub t_ (Fin m)) l) = map (fun r => r - m) (fins l)
  /\ Forall xrow_ok (map (fun t_ => xsub t_ (Fin m)) l).
Proof.
  induction l as [|a l IH]; intros Hok; [split; [reflexivity|constructor]|].
  inversion Hok as [|? ? Ha Hl]; subst. destruct (IH Hl) as [E F]. destruct a as [| | |r]; try contradiction; cbn [map].
  - change (xsub NInf (Fin m)) with NInf. rewrite !fins_cons_ninf. split; [exact E| constructor; [exact I|exact F]].
  - change (xsub (Fin r) (Fin m)) with (Fin (r + - m)). rewrite !fins_cons_fin. cbn [map]. split; [now rewrite E| constructor; [exact I|exact F]].
Qed.

Lemma xmul_ninf_2 : xmul NInf (Fin 2) = NInf.
Proof. cbn. unfold xmul_inf. destruct (Rlt_dec 0 2); [reflexivity|lra]. Qed.

Lemma fins_double l : Forall xrow_ok l -> fins (map (fun t_ => xmul t_ (Fin 2)) l) = map (fun r => r * 2) (fins l)
  /\ Forall xrow_ok (map (fun t_ => xmul t_ (Fin 2)) l).
Proof.
  induction l as [|a l IH]; intros Hok; [split; [reflexivity|constructor]|].
  inversion Hok as [|? ? Ha Hl]; subst. destruct (IH Hl) as [E F]. destruct a as [| | |r]; try contradiction; cbn [map].
  - rewrite xmul_ninf_2, !fins_cons_ninf. split; [exact E| constructor; [exact I|exact F]].
  - change (xmul (Fin r) (Fin 2)) with (Fin (r * 2)). rewrite !fins_cons_fin. cbn [map]. split; [now rewrite E| constructor; [exact I|exact F]].
Qed.

Theorem x_ess {X} (x : list X) ll lp lq :
  let lw := xcompute_weights_log_w x ll lp lq in
  Forall xrow_ok lw -> fins lw <> [] ->
  xcompute_weights_ess x ll lp lq = Fin (ess_of (map exp (fins lw)))
  /\ 1 <= ess_of (map exp (fins lw)) <= INR (length (fins lw)).
Proof.
  intros lw Hok Hne. unfold xcompute_weights_ess. cbv zeta.
  unfold lw, xcompute_weights_log_w in *. cbv zeta in *.
  set (W := vmap2 xsub (vmap2 xadd ll lp) lq) in *.
  assert (HneR : fins W <> []) by exact Hne.
  rewrite (xvmax_fins W Hok Hne).
  destruct (fins_shift W (vmax (fins W)) Hok) as [E1 F1].
  set (S1 := map (fun t_ : XR => xsub t_ (Fin (vmax (fins W)))) W) in *.
  destruct (fins_double S1 F1) as [E2 F2].
  assert (N1 : fins S1 <> []) by (rewrite E1; destruct (fins W); [contradiction Hne; reflexivity| discriminate]).
  assert (N2 : fins (map (fun t_ : XR => xmul t_ (Fin 2)) S1) <> []) by (rewrite E2; destruct (fins S1); [contradiction N1; reflexivity| discriminate]).
  rewrite (x_logsumexp S1 F1 N1), (x_logsumexp _ F2 N2), E2.
  change (xmul (Fin ?a) (Fin 2)) with (Fin (a * 2)). cbn [xsub xneg xadd xexp].
  split.
  - f_equal. change (?a * 2 + - ?b) with (a * 2 - b). rewrite (ess_expr_spec (fins S1) N1), E1.
    (* shifting every log-weight by the maximum does not change the ESS *)
    rewrite map_map.
    assert (Hs : map (fun r => exp (r - vmax (fins W))) (fins W) = map (fun t => t * / exp (vmax (fins W))) (map exp (fins W))).
    { rewrite map_map. apply map_ext. intros r. unfold Rminus. rewrite exp_plus, exp_Ropp. reflexivity. }
    rewrite Hs. apply ess_of_scale.
    + apply Rinv_neq_0_compat. pose proof (exp_pos (vmax (fins W))). lra.
    + apply Rgt_not_eq. apply sum_sq_pos; [destruct (fins W); [contradiction Hne; reflexivity| discriminate]| apply map_exp_pos].
  - replace (INR (length (fins W))) with (vlen (map exp (fins W))) by (unfold vlen; now rewrite map_length).
    apply ess_of_bounds; [destruct (fins W); [contradiction Hne; reflexivity| discriminate]| apply map_exp_pos].
Qed.

(* non-vacuity: two finite rows and one -inf row *)
Example x_rows_example :
  let lw := xcompute_weights_log_w [tt; tt; tt] [Fin 1; NInf; Fin 0] [Fin 0; Fin 0; Fin (-1)] [Fin 0; Fin 0; Fin 0] in
  Forall xrow_ok lw /\ fins lw <> [] /\ length (fins lw) = 2%nat.
Proof. cbn. repeat split; try (repeat constructor); discriminate. Qed.
