(* C15 — exhaustive (finite-domain) proofs about the conversion model: vm_compute over the whole
   space, lifted to a universally quantified statement with forallb_forall. *)
From Coq Require Import List Bool.
From AV Require Import Model.Convert.
Import ListNotations.

(* behaviour of the installed array libraries, as probed by the check on every run *)
Definition std_oracle : oracle :=
  {| accepts := fun xp k => kind_eqb k (native xp);
     default_w := fun xp => match xp with TO => F32 | _ => F64 end |}.

Record conv_case := {
  k_cls : cls; k_src : ns; k_w : width; k_spell : dspec; k_fields : list bool;
  k_tgt : ns; k_d2 : dspec;
}.

Definition target_spellings (tgt : ns) : list dspec :=
  [DNone; DStr F32; DStr F64; DObj (native tgt) F32; DObj (native tgt) F64].

Definition space : list conv_case :=
  flat_map (fun c => flat_map (fun src => flat_map (fun w => flat_map (fun sp => flat_map (fun f =>
  flat_map (fun tgt => map (fun d2 =>
    {| k_cls := c; k_src := src; k_w := w; k_spell := sp; k_fields := f; k_tgt := tgt; k_d2 := d2 |})
  (target_spellings tgt)) all_ns) all_fields) (spellings src w)) all_w) all_ns) all_cls.

Definition with_source (o : oracle) (k : conv_case) (f : sset -> bool) : bool :=
  match construct o (k_cls k) (k_src k) (k_spell k) (k_w k) (k_fields k) with
  | Ok s => f s
  | Err => false
  end.

(* every ordered pair of namespaces: succeeds, lands in the target namespace with the target's own dtype
   object, keeps every optional field, keeps the width (or takes the requested one) *)
Definition ok_to_namespace (o : oracle) (k : conv_case) : bool :=
  with_source o k (fun s =>
    good (to_namespace o s (k_tgt k) (k_d2 k)) (k_tgt k) (requested_width (k_d2 k) (s_width s)) (k_fields k)).

Definition ok_from_samples (o : oracle) (k : conv_case) : bool :=
  with_source o k (fun s =>
    forallb (fun c2 => good (from_samples o c2 s (k_tgt k) (k_d2 k)) (k_tgt k)
                            (requested_width (k_d2 k) (s_width s)) (k_fields k)) all_cls).

Definition ok_to_numpy (o : oracle) (k : conv_case) : bool :=
  with_source o k (fun s =>
    good (to_numpy o s DNone) NP (s_width s) (k_fields k)
    && match k_cls k with
       | CBase => good (to_numpy o s (k_d2 k)) NP (requested_width (match k_d2 k with DObj _ w => DStr w | d => d end) (s_width s)) (k_fields k)
                  || negb (match k_d2 k with DObj KTo _ => false | _ => true end)
       | _ => true
       end).

(* a sample set built with an explicit dtype has that width; the SMC result keeps it *)
Definition ok_requested_precision (o : oracle) (k : conv_case) : bool :=
  with_source o k (fun s =>
    width_eqb (s_width s) (requested_width (k_spell k) (default_w o (k_src k)))
    && match k_cls k with
       | CSMC => good (to_standard o s) (k_src k) (s_width s) [nth 0 (k_fields k) false; nth 1 (k_fields k) false; false]
       | _ => true
       end).

Definition all_ok (o : oracle) : bool :=
  forallb (fun k => ok_to_namespace o k && ok_from_samples o k && ok_to_numpy o k && ok_requested_precision o k) space.

Lemma all_ok_std : all_ok std_oracle = true.
Proof. vm_compute. reflexivity. Qed.

Lemma space_complete c src w sp f tgt d2 :
  In c all_cls -> In src all_ns -> In w all_w -> In sp (spellings src w) -> In f all_fields ->
  In tgt all_ns -> In d2 (target_spellings tgt) ->
  In {| k_cls := c; k_src := src; k_w := w; k_spell := sp; k_fields := f; k_tgt := tgt; k_d2 := d2 |} space.
Proof.
  intros. unfold space.
  apply in_flat_map; exists c; split; auto. apply in_flat_map; exists src; split; auto.
  apply in_flat_map; exists w; split; auto. apply in_flat_map; exists sp; split; auto.
  apply in_flat_map; exists f; split; auto. apply in_flat_map; exists tgt; split; auto.
  apply in_map. auto.
Qed.

Theorem conversions_ok k : In k space ->
  ok_to_namespace std_oracle k = true /\ ok_from_samples std_oracle k = true
  /\ ok_to_numpy std_oracle k = true /\ ok_requested_precision std_oracle k = true.
Proof.
  intros Hin. pose proof all_ok_std as H. unfold all_ok in H. rewrite forallb_forall in H.
  specialize (H k Hin). repeat (apply andb_prop in H as [H ?]). auto.
Qed.

Definition space_size := length space.
