(* C03 — the proposal's log-probability and its sampler agree; Jacobians of the data transform are all
   accounted for.  About the four methods regenerated in Gen/Flows.v. *)
From Coq Require Import Reals List Bool Lra.
From AV Require Import Lib.Vec Gen.Flows.
Import ListNotations.
Open Scope R_scope.

Section C03.
  Context {X Z : Type}.
  Variables (Base : Z -> R) (Tfwd_pt : X -> Z) (Tfwd_lj : X -> R) (Tinv_pt : Z -> X) (Tinv_lj : Z -> R).

  (* property C04 for the data transform: forward o inverse = id and inverse log-Jacobian = - forward *)
  Hypothesis Hround : forall z, Tfwd_pt (Tinv_pt z) = z.
  Hypothesis Hlogj : forall z, Tfwd_lj (Tinv_pt z) = - Tinv_lj z.

  Lemma map2_minus_map (f g : Z -> R) zs :
    vmap2 Rminus (map f zs) (map g zs) = map (fun z => f z - g z) zs.
  Proof. induction zs; simpl; auto. now rewrite IHzs. Qed.
  Lemma map2_plus_map {A} (f g : A -> R) l :
    vmap2 Rplus (map f l) (map g l) = map (fun a => f a + g a) l.
  Proof. induction l; simpl; auto. now rewrite IHl. Qed.

  (* log_prob is, row by row, base(T x) + log|dT/dx| — every data-transform Jacobian is included *)
  Lemma flowjax_log_prob_rows x : flowjax_log_prob Base Tfwd_pt Tfwd_lj x = map (fun a => Base (Tfwd_pt a) + Tfwd_lj a) x.
  Proof. unfold flowjax_log_prob. cbv zeta. rewrite map_map. apply map2_plus_map. Qed.
  Lemma zuko_log_prob_rows x : zuko_log_prob Base Tfwd_pt Tfwd_lj x = map (fun a => Base (Tfwd_pt a) + Tfwd_lj a) x.
  Proof. unfold zuko_log_prob. cbv zeta. rewrite map_map. apply map2_plus_map. Qed.

  (* the log-density returned WITH the drawn samples is the log-probability evaluated AT those samples *)
  Theorem flowjax_sample_eval_agree zs :
    flowjax_log_prob Base Tfwd_pt Tfwd_lj (flowjax_sample_x Tinv_pt zs) = flowjax_sample_logq Base Tinv_lj zs.
  Proof.
    rewrite flowjax_log_prob_rows. unfold flowjax_sample_x, flowjax_sample_logq. cbv zeta.
    rewrite map_map, map2_minus_map. apply map_ext. intros z. rewrite Hround, Hlogj. lra.
  Qed.

  (* zuko hands back the base log-density together with the latent draw: base_lp = map Base zs (trusted: zuko) *)
  Theorem zuko_sample_eval_agree zs :
    zuko_log_prob Base Tfwd_pt Tfwd_lj (zuko_sample_x Tinv_pt zs (map Base zs)) = zuko_sample_logq Tinv_lj zs (map Base zs).
  Proof.
    rewrite zuko_log_prob_rows. unfold zuko_sample_x, zuko_sample_logq. cbv zeta.
    rewrite map_map, map2_minus_map. apply map_ext. intros z. rewrite Hround, Hlogj. lra.
  Qed.
End C03.
