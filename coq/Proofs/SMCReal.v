(* Loop-level theorems at the exact-real instance: the temperature schedule (C06) and
   resume-equals-uninterrupted (C11), for every oracle and every valid option record. *)
From Coq Require Import Reals List Bool Arith ZArith Lra Lia.
From AV Require Import Lib.Num Model.SMC Proofs.Schedule Proofs.SMCGeneric.
Import ListNotations.
Open Scope R_scope.

Fixpoint incr_from (a : R) (l : list R) : Prop :=
  match l with [] => True | b :: l' => a < b /\ incr_from b l' end.

Lemma incr_from_pos l : forall a, 0 <= a -> incr_from a l -> Forall (fun b => b <= 1) l ->
  Forall (fun b => 0 < b <= 1) l.
Proof.
  induction l as [|b l IH]; intros a Ha H3 H4; constructor.
  - destruct H3 as [H3 _]. inversion H4; subst. lra.
  - destruct H3 as [H3 H3']. inversion H4; subst. apply (IH b); auto. lra.
Qed.

Section Real.
  Variables (P G : Type).
  Variable effq essq ratio ratio_var : P -> R -> R.
  Variable cte : R -> R.
  Variable pbeta : P -> R.
  Variable psize : P -> nat.
  Variable resample_o : G -> P -> R -> option nat -> P * G.
  Variable mutate_o : G -> P -> R -> bool -> P * G.

  Notation opts := (opts NumR).
  Notation state := (state NumR P G).
  Notation STEP := (step NumR P G effq essq ratio ratio_var cte pbeta resample_o mutate_o).
  Notation LOOP := (loop NumR P G effq essq ratio ratio_var cte pbeta resample_o mutate_o).
  Notation FINISH := (finish NumR P G pbeta psize resample_o mutate_o).
  Notation DBETA := (determine_beta NumR P effq cte).
  Notation SAMPLE := (sample NumR P G effq essq ratio ratio_var cte pbeta psize resample_o mutate_o).
  Notation RESUMED := (sample_resumed NumR P G effq essq ratio ratio_var cte pbeta psize resample_o mutate_o).
  Notation sbeta := (s_beta NumR P G).
  Notation siter := (s_iter NumR P G).
  Notation shist := (s_hist NumR P G).
  Notation hbeta := (h_beta NumR P).

  Definition fuel_ok (o : opts) : Prop := 2 ^ (bisect_fuel NumR o - 1) * tol NumR o >= 1.

  (* ---------- one iteration ---------- *)
  Lemma step_real o st st' brk evs :
    valid o -> 0 <= sbeta st < 1 -> STEP o st = Ok (st', brk, evs) ->
    sbeta st < sbeta st' <= 1
    /\ (sbeta st' = 1 \/ sbeta st + delta o <= sbeta st')
    /\ hbeta (shist st') = hbeta (shist st) ++ [sbeta st']
    /\ siter st' = S (siter st)
    /\ (brk = false -> sbeta st' < 1 /\ cap_reached NumR o (siter st') = false)
    /\ (brk = true -> sbeta st' = 1 \/ cap_reached NumR o (siter st') = true).
  Proof.
    intros Hv Hb Hs.
    apply step_shape in Hs as (b & ms & tr & Hd & Hh & Hbe & _ & Hit & Hbrk & _).
    destruct (determine_beta_step P effq cte o _ _ _ _ _ _ Hv Hb Hd) as [H1 H2].
    rewrite Hbe, Hit. split; [exact H1|]. split; [exact H2|].
    split; [rewrite Hh; reflexivity|]. split; [reflexivity|].
    rewrite Hbrk. cbn [NumR eqb one]. split.
    - intros E. apply orb_false_iff in E as [E1 E2]. apply Reqb'_false in E1. split; [lra| exact E2].
    - intros E. apply orb_true_iff in E as [E|E]; [left; now apply Reqb'_spec in E| right; exact E].
  Qed.

  Lemma step_ok o st :
    valid o -> fuel_ok o -> 0 <= sbeta st < 1 -> exists st' brk evs, STEP o st = Ok (st', brk, evs).
  Proof.
    intros Hv Hf Hb.
    destruct (determine_beta_no_error P effq cte o (s_pop _ _ _ st) _ (s_min_step _ _ _ st) Hv Hb Hf)
      as (b & ms & tr & Hd).
    destruct (step_complete NumR P G effq essq ratio ratio_var cte pbeta resample_o mutate_o o st b ms tr Hd)
      as (st' & evs & Hs & _).
    eauto.
  Qed.

  (* ---------- the schedule produced by the loop ---------- *)
  Lemma loop_real fuel : forall o st stf evs,
    valid o -> 0 <= sbeta st < 1 -> LOOP fuel o st = Ok (stf, evs) ->
    exists bs,
      hbeta (shist stf) = hbeta (shist st) ++ bs
      /\ bs <> [] /\ incr_from (sbeta st) bs /\ Forall (fun b => b <= 1) bs
      /\ last bs 0 = sbeta stf
      /\ (sbeta stf = 1 \/ cap_reached NumR o (siter stf) = true)
      /\ siter stf = (siter st + length bs)%nat
      /\ (forall m, max_n_steps NumR o = Some m -> (siter st < m)%nat -> (siter stf <= m)%nat).
  Proof.
    induction fuel as [|f IH]; intros o st stf evs Hv Hb H; [discriminate|].
    cbn [loop] in H.
    destruct (STEP o st) as [[[st1 brk] ev1]| |] eqn:Hs; try discriminate.
    destruct (step_real _ _ _ _ _ Hv Hb Hs) as (H1 & H2 & H3 & H4 & H5 & H6).
    destruct brk.
    - inversion H; subst; clear H. exists [sbeta stf].
      split; [exact H3|]. split; [discriminate|]. split; [simpl; split; [lra| exact I]|].
      split; [constructor; [lra| constructor]|]. split; [reflexivity|].
      split; [apply H6; reflexivity|]. split; [simpl; lia|].
      intros m Hm Hlt. lia.
    - destruct (LOOP f o st1) as [[st2 ev2]| |] eqn:Hl; try discriminate.
      inversion H; subst; clear H.
      destruct (H5 eq_refl) as [Hlt1 Hcap1].
      destruct (IH _ _ _ _ Hv (conj (Rle_trans _ _ _ (proj1 Hb) (Rlt_le _ _ (proj1 H1))) Hlt1) Hl)
        as (bs & B1 & B2 & B3 & B4 & B5 & B6 & B7 & B8).
      exists (sbeta st1 :: bs).
      split; [rewrite B1, H3, <- app_assoc; reflexivity|]. split; [discriminate|].
      split; [simpl; split; [lra| exact B3]|].
      split; [constructor; [lra| exact B4]|].
      split; [rewrite last_cons_ne by auto; exact B5|].
      split; [exact B6|]. split; [rewrite B7, H4; simpl; rewrite <- plus_n_Sm; reflexivity|].
      intros m Hm Hlt. apply B8; auto.
      unfold cap_reached in Hcap1. rewrite Hm in Hcap1. apply Nat.leb_gt in Hcap1. exact Hcap1.
  Qed.

  (* ---------- termination with an explicit bound ---------- *)
  Lemma loop_terminates f : forall o st,
    valid o -> fuel_ok o -> 0 <= sbeta st < 1 -> 1 - sbeta st <= INR f * delta o ->
    exists r, LOOP f o st = Ok r.
  Proof.
    induction f as [|f IH]; intros o st Hv Hf Hb Hm.
    - simpl in Hm. lra.
    - destruct (step_ok o st Hv Hf Hb) as (st1 & brk & ev1 & Hs).
      cbn [loop]. rewrite Hs. destruct brk; [eauto|].
      destruct (step_real _ _ _ _ _ Hv Hb Hs) as (H1 & H2 & _ & _ & H5 & _).
      destruct (H5 eq_refl) as [Hlt _].
      assert (Hd : sbeta st + delta o <= sbeta st1) by (destruct H2; lra).
      destruct (IH o st1 Hv Hf) as [[st2 ev2] Hl].
      + lra.
      + rewrite S_INR in Hm. lra.
      + rewrite Hl. eauto.
  Qed.

  (* ---------- fixed schedule of n steps: exactly n iterations ---------- *)
  Lemma loop_fixed o (n : nat) :
    adaptive NumR o = false -> (0 < n)%nat -> beta_step NumR o = 1 / INR n -> max_n_steps NumR o = None ->
    forall m k st, (k + m = n)%nat -> (0 < m)%nat -> sbeta st = INR k / INR n ->
    forall extra, exists stf evs,
      LOOP (m + extra) o st = Ok (stf, evs) /\ siter stf = (siter st + m)%nat /\ sbeta stf = 1.
  Proof.
    intros Ha Hn Hs Hcap m. induction m as [|m IH]; intros k st Hkm Hm Hb extra; [lia|].
    assert (Hk : (k < n)%nat) by lia.
    pose proof (fixed_step_value P effq cte o (s_pop _ _ _ st) n k (s_min_step _ _ _ st) Ha Hn Hs Hk) as Hd.
    rewrite <- Hb in Hd.
    destruct (step_complete NumR P G effq essq ratio ratio_var cte pbeta resample_o mutate_o o st _ _ _ Hd)
      as (st1 & ev1 & Hst & Hb1 & Hi1 & _).
    cbn [plus loop]. rewrite Hst.
    unfold cap_reached. rewrite Hcap. rewrite orb_false_r.
    destruct (Nat.eqb (S k) n) eqn:He.
    - apply Nat.eqb_eq in He. cbn [NumR eqb one].
      assert (E : Reqb' 1 1 = true) by (apply Reqb'_spec; reflexivity). rewrite E.
      exists st1, ev1. split; [reflexivity|]. split; [lia| exact Hb1].
    - apply Nat.eqb_neq in He. cbn [NumR eqb one].
      assert (Hn0 : 0 < INR n) by (apply lt_0_INR; lia).
      assert (E : Reqb' (INR (S k) / INR n) 1 = false).
      { apply Reqb'_false. intro E.
        assert (INR (S k) = INR n) by (apply (Rmult_eq_reg_r (/ INR n)); [unfold Rdiv in E; rewrite E; field; lra|
                                        apply Rinv_neq_0_compat; lra]).
        apply INR_eq in H. lia. }
      rewrite E.
      destruct (IH (S k) st1) with (extra := extra) as (stf & evs & Hl & Hi & Hbf); [lia|lia|exact Hb1|].
      rewrite Hl. exists stf, (ev1 ++ evs). split; [reflexivity|]. split; [lia| exact Hbf].
  Qed.

  (* ---------- C11: resuming from any checkpoint ---------- *)
  Hypothesis Hres_size : forall g p b n, psize (fst (resample_o g p b (Some n))) = n.
  Hypothesis Hmut_size : forall g p b f, psize (fst (mutate_o g p b f)) = psize p.

  Notation MSINV := (ms_inv NumR P G).
  Notation MK := (mk_ckpt NumR P G).

  Definition is_suffix {A} (s l : list A) : Prop := exists pre, l = pre ++ s.

  Lemma loop_resume f : forall o st stf evs,
    valid o -> 0 <= sbeta st < 1 -> MSINV o st -> LOOP f o st = Ok (stf, evs) ->
    forall c, In c evs ->
    exists stk,
      c = MK stk None /\ MSINV o stk
      /\ last (hbeta (shist stk)) (sbeta stk) = sbeta stk /\ sbeta stk <= 1
      /\ ((stk = stf /\ (sbeta stk = 1 \/ cap_reached NumR o (siter stk) = true))
          \/ (sbeta stk < 1 /\ cap_reached NumR o (siter stk) = false
              /\ exists evs', LOOP f o stk = Ok (stf, evs') /\ is_suffix evs' evs)).
  Proof.
    induction f as [|f IH]; intros o st stf evs Hv Hb Hi H c Hin; [discriminate|].
    cbn [loop] in H.
    destruct (STEP o st) as [[[st1 brk] ev1]| |] eqn:Hs; try discriminate.
    destruct (step_real _ _ _ _ _ Hv Hb Hs) as (H1 & H2 & H3 & H4 & H5 & H6).
    pose proof (step_ms_inv _ _ _ _ _ _ _ _ _ _ _ _ _ _ _ _ Hs Hi) as Hi1.
    pose proof (step_shape _ _ _ _ _ _ _ _ _ _ _ _ _ _ _ _ Hs) as (b & ms & tr & _ & _ & _ & _ & _ & _ & Hev).
    assert (Hlast1 : last (hbeta (shist st1)) (sbeta st1) = sbeta st1) by (rewrite H3; apply last_last).
    assert (Hin1 : In c ev1 -> c = MK st1 None).
    { rewrite Hev. unfold maybe_checkpoint. destruct (should_checkpoint NumR o false (siter st1)); simpl.
      - intros [E|[]]. symmetry; exact E.
      - intros []. }
    destruct brk.
    - injection H as <- <-. exists st1.
      split; [apply Hin1; exact Hin|]. split; [exact Hi1|]. split; [exact Hlast1|]. split; [lra|].
      left. split; [reflexivity| apply H6; reflexivity].
    - destruct (LOOP f o st1) as [[st2 ev2]| |] eqn:Hl; try discriminate.
      injection H as <- <-.
      destruct (H5 eq_refl) as [Hlt1 Hcap1].
      apply in_app_or in Hin as [Hin|Hin].
      + exists st1. split; [apply Hin1; exact Hin|]. split; [exact Hi1|]. split; [exact Hlast1|]. split; [lra|].
        right. split; [exact Hlt1|]. split; [exact Hcap1|].
        exists ev2. split; [apply (loop_fuel_mono _ _ _ _ _ _ _ _ _ _ _ _ _ _ _ _ Hl); lia| exists ev1; reflexivity].
      + assert (Hb1 : 0 <= sbeta st1 < 1) by lra.
        destruct (IH _ _ _ _ Hv Hb1 Hi1 Hl c Hin) as (stk & E1 & E2 & E3 & E4 & E5).
        exists stk. split; [exact E1|]. split; [exact E2|]. split; [exact E3|]. split; [exact E4|].
        destruct E5 as [E5|(E5 & E6 & evs' & E7 & [pre E8])]; [left; exact E5|].
        right. split; [exact E5|]. split; [exact E6|]. exists evs'.
        split; [apply (loop_fuel_mono _ _ _ _ _ _ _ _ _ _ _ _ _ _ _ _ E7); lia|].
        exists (ev1 ++ pre). rewrite E8, app_assoc. reflexivity.
  Qed.

  (* finishing again from the forced final checkpoint changes nothing *)
  Notation FSTATE := (finish_state NumR P G pbeta psize resample_o mutate_o).
  Notation ENLARGE := (enlarge NumR P G pbeta psize resample_o mutate_o).

  Lemma enlarge_size o st n : n_final NumR o = Some n -> psize (fst (fst (ENLARGE o st))) = n.
  Proof.
    intros Hn. unfold enlarge. rewrite Hn. destruct (Nat.eqb (psize (s_pop _ _ _ st)) n) eqn:He.
    - apply Nat.eqb_eq in He. exact He.
    - unfold resample.
      pose proof (Hres_size (s_g _ _ _ st) (s_pop _ _ _ st) (s_beta _ _ _ st) n) as Hr.
      destruct (resample_o (s_g _ _ _ st) (s_pop _ _ _ st) (s_beta _ _ _ st) (Some n)) as [p1 g1]. cbn [fst] in Hr.
      pose proof (Hmut_size g1 p1 (s_beta _ _ _ st) true) as Hm.
      destruct (mutate_o g1 p1 (s_beta _ _ _ st) true) as [p2 g2]. cbn [fst] in *. congruence.
  Qed.

  Lemma finish_state_idem o st : FSTATE o (FSTATE o st) = FSTATE o st.
  Proof.
    unfold finish_state at 1.
    assert (E : ENLARGE o (FSTATE o st)
                = (s_pop _ _ _ (FSTATE o st), s_g _ _ _ (FSTATE o st), h_nmut _ _ (s_hist _ _ _ (FSTATE o st)))).
    { unfold enlarge at 1. destruct (n_final NumR o) as [n|] eqn:Hn; [|reflexivity].
      assert (Hs : psize (s_pop _ _ _ (FSTATE o st)) = n).
      { unfold finish_state. pose proof (enlarge_size o st n Hn) as Hz.
        destruct (ENLARGE o st) as [[p g] nm]. cbn in *. exact Hz. }
      rewrite Hs, Nat.eqb_refl. reflexivity. }
    rewrite E. unfold finish_state. destruct (ENLARGE o st) as [[p g] nm]. cbn. reflexivity.
  Qed.

  Lemma finish_idem o st out evs c :
    MSINV o st -> FINISH o st = (out, evs) -> In c evs ->
    exists stf, restore NumR P G o c = stf /\ FINISH o stf = (out, evs)
                /\ hbeta (shist stf) = hbeta (shist st) /\ sbeta stf = sbeta st /\ siter stf = siter st.
  Proof.
    intros Hi Hf Hin. unfold finish in Hf. injection Hf as <- <-.
    unfold maybe_checkpoint in Hin.
    destruct (should_checkpoint NumR o true (siter (FSTATE o st))) eqn:Hsc; [|inversion Hin].
    destruct Hin as [<-|[]].
    assert (Hi2 : MSINV o (FSTATE o st)).
    { unfold ms_inv, finish_state. destruct (ENLARGE o st) as [[p g] nm]. cbn. exact Hi. }
    exists (FSTATE o st). split; [apply restore_mk; exact Hi2|].
    split; [unfold finish; rewrite finish_state_idem; reflexivity|].
    unfold finish_state. destruct (ENLARGE o st) as [[p g] nm]. cbn. auto.
  Qed.

  Theorem resume_equals_uninterrupted fuel o p0 g0 out evs :
    valid o -> SAMPLE fuel o p0 g0 = Ok (out, evs) ->
    forall c, In c evs ->
    exists evs', RESUMED fuel o c = Ok (out, evs') /\ is_suffix evs' evs.
  Proof.
    intros Hv H c Hin. unfold sample, run_from in H.
    destruct (LOOP fuel o (init_state NumR P G o p0 g0)) as [[stf ev1]| |] eqn:Hl; try discriminate.
    destruct (FINISH o stf) as [out' ev2] eqn:Hf. inversion H; subst out' evs; clear H.
    assert (Hb0 : 0 <= sbeta (init_state NumR P G o p0 g0) < 1) by (cbn; lra).
    assert (Hi0 : MSINV o (init_state NumR P G o p0 g0)) by (unfold ms_inv; cbn; auto).
    destruct (loop_real _ _ _ _ _ Hv Hb0 Hl) as (bs & B1 & B2 & B3 & B4 & B5 & B6 & B7 & _).
    assert (Hif : MSINV o stf).
    { clear - Hl Hi0. revert Hl Hi0. generalize (init_state NumR P G o p0 g0). generalize ev1.
      induction fuel as [|f IH]; intros evs st Hl Hi; [discriminate|].
      cbn [loop] in Hl. destruct (STEP o st) as [[[st1 brk] e1]| |] eqn:Hs; try discriminate.
      pose proof (step_ms_inv _ _ _ _ _ _ _ _ _ _ _ _ _ _ _ _ Hs Hi) as Hi1.
      destruct brk; [inversion Hl; subst; exact Hi1|].
      destruct (LOOP f o st1) as [[st2 e2]| |] eqn:Hl2; try discriminate.
      inversion Hl; subst. eapply IH; eauto. }
    apply in_app_or in Hin as [Hin|Hin].
    - destruct (loop_resume _ _ _ _ _ Hv Hb0 Hi0 Hl c Hin) as (stk & E1 & E2 & E3 & E4 & E5).
      unfold sample_resumed. rewrite E1, (restore_mk _ _ _ _ _ _ E2).
      unfold resumed_skips_loop, run_from. rewrite E3. cbn [NumR geb leb one].
      destruct E5 as [[-> E5]|(E5 & E6 & evs' & E7 & [pre E8])].
      + assert (Hskip : Rleb' 1 (sbeta stf) || cap_reached NumR o (siter stf) = true).
        { destruct E5 as [E5|E5]; [rewrite E5; replace (Rleb' 1 1) with true; auto; symmetry; apply Rleb'_spec; lra|
                                  rewrite E5; apply orb_true_r]. }
        rewrite Hskip, Hf. exists ev2. split; [reflexivity| exists ev1; reflexivity].
      + assert (Hskip : Rleb' 1 (sbeta stk) || cap_reached NumR o (siter stk) = false).
        { rewrite E6, orb_false_r. apply Rleb'_false. lra. }
        rewrite Hskip, E7, Hf. exists (evs' ++ ev2). split; [reflexivity|].
        exists pre. rewrite E8, app_assoc. reflexivity.
    - destruct (finish_idem _ _ _ _ _ Hif Hf Hin) as (st2 & R1 & R2 & R3 & R4 & R5).
      unfold sample_resumed. rewrite R1. unfold resumed_skips_loop, run_from. rewrite R3, R4, R5.
      assert (Hlast : last (hbeta (shist stf)) (sbeta stf) = sbeta stf).
      { rewrite B1. cbn [init_state s_hist h_beta app]. rewrite <- B5. apply last_indep; auto. }
      rewrite Hlast. cbn [NumR geb leb one].
      assert (Hle : sbeta stf <= 1).
      { rewrite <- B5. clear - B2 B4. induction bs as [|b bs IH]; [congruence|].
        destruct bs as [|b' bs]; [inversion B4; auto| apply IH; [discriminate| inversion B4; auto]]. }
      assert (Hskip : Rleb' 1 (sbeta stf) || cap_reached NumR o (siter stf) = true).
      { destruct B6 as [E|E]; [rewrite E; replace (Rleb' 1 1) with true; auto; symmetry; apply Rleb'_spec; lra|
                                rewrite E; apply orb_true_r]. }
      rewrite Hskip, R2. exists ev2. split; [reflexivity| exists ev1; reflexivity].
  Qed.

  (* ---------- C06 for the whole run ---------- *)
  Theorem sample_schedule fuel o p0 g0 out evs :
    valid o -> SAMPLE fuel o p0 g0 = Ok (out, evs) ->
    let bs := hbeta (o_hist _ _ _ out) in
    incr_from 0 bs /\ Forall (fun b => 0 < b <= 1) bs /\ bs <> []
    /\ o_iter _ _ _ out = length bs
    /\ (last bs 0 = 1 \/ exists m, max_n_steps NumR o = Some m /\ (m <= length bs)%nat)
    /\ (forall m, max_n_steps NumR o = Some m -> (0 < m)%nat -> (length bs <= m)%nat).
  Proof.
    intros Hv H. unfold sample, run_from in H.
    destruct (LOOP fuel o (init_state NumR P G o p0 g0)) as [[stf ev1]| |] eqn:Hl; try discriminate.
    destruct (FINISH o stf) as [out' ev2] eqn:Hf. inversion H; subst out' evs; clear H.
    assert (Hb0 : 0 <= sbeta (init_state NumR P G o p0 g0) < 1) by (cbn; lra).
    destruct (loop_real _ _ _ _ _ Hv Hb0 Hl) as (bs & B1 & B2 & B3 & B4 & B5 & B6 & B7 & B8).
    apply finish_spec in Hf as (_ & _ & F3 & F4 & _).
    cbv zeta. rewrite F4, B1, F3, B7. cbn [init_state s_hist h_beta s_beta s_iter app plus] in *.
    split; [exact B3|]. split.
    { apply (incr_from_pos bs 0); auto. lra. }
    split; [exact B2|]. split; [reflexivity|]. split.
    - destruct B6 as [E|E]; [left; rewrite B5; exact E|].
      right. unfold cap_reached in E. destruct (max_n_steps NumR o) as [m|]; [|discriminate].
      exists m. split; auto. apply Nat.leb_le in E. lia.
    - intros m Hm Hpos. specialize (B8 m Hm Hpos). lia.
  Qed.

  (* ... and for a run resumed from any payload the run emitted (C11 composed with the above) *)
  Theorem sample_schedule_resumed fuel o p0 g0 out evs :
    valid o -> SAMPLE fuel o p0 g0 = Ok (out, evs) ->
    forall c, In c evs ->
    exists out' evs',
      RESUMED fuel o c = Ok (out', evs')
      /\ let bs := hbeta (o_hist _ _ _ out') in
         incr_from 0 bs /\ Forall (fun b => 0 < b <= 1) bs /\ bs <> []
         /\ o_iter _ _ _ out' = length bs
         /\ (last bs 0 = 1 \/ exists m, max_n_steps NumR o = Some m /\ (m <= length bs)%nat)
         /\ (forall m, max_n_steps NumR o = Some m -> (0 < m)%nat -> (length bs <= m)%nat).
  Proof.
    intros Hv Hs c Hc.
    destruct (resume_equals_uninterrupted fuel o p0 g0 out evs Hv Hs c Hc) as (evs' & Hres & _).
    exists out, evs'. split; [exact Hres|]. exact (sample_schedule fuel o p0 g0 out evs Hv Hs).
  Qed.

  Theorem sample_terminates f o p0 g0 :
    valid o -> fuel_ok o -> 1 <= INR f * delta o -> exists r, SAMPLE f o p0 g0 = Ok r.
  Proof.
    intros Hv Hf Hm. unfold sample, run_from.
    destruct (loop_terminates f o (init_state NumR P G o p0 g0) Hv Hf) as [[stf ev] Hl]; [cbn; lra| cbn; lra|].
    rewrite Hl. destruct (FINISH o stf) as [out ev2]. eauto.
  Qed.

  Theorem sample_fixed_n o (n : nat) p0 g0 extra :
    adaptive NumR o = false -> (0 < n)%nat -> beta_step NumR o = 1 / INR n -> max_n_steps NumR o = None ->
    exists out evs, SAMPLE (n + extra) o p0 g0 = Ok (out, evs) /\ o_iter _ _ _ out = n
                    /\ last (hbeta (o_hist _ _ _ out)) 0 = 1.
  Proof.
    intros Ha Hn Hs Hc. unfold sample, run_from.
    assert (Hb : sbeta (init_state NumR P G o p0 g0) = INR 0 / INR n) by (cbn; unfold Rdiv; lra).
    destruct (loop_fixed o n Ha Hn Hs Hc n 0%nat (init_state NumR P G o p0 g0) eq_refl Hn Hb extra)
      as (stf & evs & Hl & Hi & Hbf).
    rewrite Hl. destruct (FINISH o stf) as [out ev2] eqn:Hf.
    exists out, (evs ++ ev2). split; [reflexivity|].
    pose proof Hf as Hf'. apply finish_spec in Hf' as (_ & _ & F3 & F4 & _).
    split; [rewrite F3, Hi; reflexivity|].
    rewrite F4.
    assert (Hv : valid o \/ True) by auto.
    (* the last recorded temperature is the state's temperature *)
    clear - Hl Hbf. revert Hl. generalize (init_state NumR P G o p0 g0). generalize evs. clear evs.
    induction (n + extra)%nat as [|f IH]; intros evs st Hl; [discriminate|].
    cbn [loop] in Hl. destruct (STEP o st) as [[[st1 brk] e1]| |] eqn:Hs; try discriminate.
    pose proof (step_shape _ _ _ _ _ _ _ _ _ _ _ _ _ _ _ _ Hs) as (b & ms & tr & _ & Hh & Hb & _).
    destruct brk.
    - inversion Hl; subst. rewrite Hh. cbn. unfold snoc. rewrite last_last. exact Hbf.
    - destruct (LOOP f o st1) as [[st2 e2]| |] eqn:Hl2; try discriminate. inversion Hl; subst.
      eapply IH; eauto.
  Qed.
End Real.
