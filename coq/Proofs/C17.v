(* C17 — at every translated call site the user's likelihood receives samples that already carry
   the log-prior of exactly those points, and the evaluation counter grows by exactly the number of
   points handed to the likelihood.  About Gen/Calls.v (regenerated from the samplers). *)
From Coq Require Import Reals List Bool Lra.
From AV Require Import Lib.Vec Lib.XR Gen.Calls.
Import ListNotations.

Fixpoint lik_points {X} (cs : list (ucall X)) : nat :=
  match cs with
  | [] => 0
  | ULik pts _ :: r => length pts + lik_points r
  | _ :: r => lik_points r
  end.

Definition prior_first {X} (Pi : X -> XR) (cs : list (ucall X)) : Prop :=
  Forall (fun c => match c with ULik pts att => att = Some (map Pi pts) | _ => True end) cs.

(* the prior is evaluated (UPrior pts) before the likelihood on the same points *)
Fixpoint prior_called_before {X} (seen : list (list X)) (cs : list (ucall X)) : Prop :=
  match cs with
  | [] => True
  | UPrior pts :: r => prior_called_before (pts :: seen) r
  | ULik pts _ :: r => In pts seen /\ prior_called_before seen r
  | _ :: r => prior_called_before seen r
  end.

Section C17.
  Context {X Z : Type}.
  Variables (L Pi Q : X -> XR) (Tinv_pt : Z -> X) (Tinv_lj : Z -> XR).

  Ltac site := unfold prior_first; cbv zeta; repeat constructor.

  Definition site_ok (cs : list (ucall X)) (count n0 : XR) : Prop :=
    prior_first Pi cs /\ prior_called_before [] cs /\ count = xadd n0 (Fin (INR (lik_points cs))).

  Lemma len_plus0 {A} (l : list A) : (length l + 0)%nat = length l.
  Proof. now rewrite Nat.add_0_r. Qed.

  Lemma smc_log_prob_site z beta n0 :
    site_ok (smc_log_prob_calls Pi Tinv_pt z beta n0) (smc_log_prob_count Tinv_pt z beta n0) n0.
  Proof.
    unfold site_ok, smc_log_prob_calls, smc_log_prob_count, prior_first. cbv zeta. cbn [lik_points prior_called_before].
    rewrite ?len_plus0. repeat split; try (repeat constructor); auto.
  Qed.

  Lemma blackjax_log_prob_site z beta n0 :
    site_ok (blackjax_log_prob_calls Pi Tinv_pt z beta n0) (blackjax_log_prob_count Tinv_pt z beta n0) n0.
  Proof.
    unfold site_ok, blackjax_log_prob_calls, blackjax_log_prob_count, prior_first. cbv zeta. cbn [lik_points prior_called_before].
    rewrite ?len_plus0. repeat split; try (repeat constructor); auto.
  Qed.

  Lemma mcmc_log_prob_site z n0 :
    site_ok (mcmc_log_prob_calls Pi Tinv_pt z n0) (mcmc_log_prob_count Tinv_pt z n0) n0.
  Proof.
    unfold site_ok, mcmc_log_prob_calls, mcmc_log_prob_count, prior_first. cbv zeta. cbn [lik_points prior_called_before].
    rewrite ?len_plus0. repeat split; try (repeat constructor); auto.
  Qed.

  Lemma minipcn_mutate_site znew beta n0 :
    site_ok (minipcn_mutate_calls Pi Tinv_pt znew beta n0) (minipcn_mutate_count Tinv_pt znew beta n0) n0.
  Proof.
    unfold site_ok, minipcn_mutate_calls, minipcn_mutate_count, prior_first. cbv zeta. cbn [lik_points prior_called_before].
    rewrite ?len_plus0. repeat split; try (repeat constructor); auto.
  Qed.

  Lemma emcee_mutate_site znew beta n0 :
    site_ok (emcee_mutate_calls Pi Tinv_pt znew beta n0) (emcee_mutate_count Tinv_pt znew beta n0) n0.
  Proof.
    unfold site_ok, emcee_mutate_calls, emcee_mutate_count, prior_first. cbv zeta. cbn [lik_points prior_called_before].
    rewrite ?len_plus0. repeat split; try (repeat constructor); auto.
  Qed.

  Lemma importance_sample_site (x : list X) (lq : list XR) n0 :
    site_ok (importance_sample_calls Pi x lq n0) (importance_sample_count x lq n0) n0.
  Proof.
    unfold site_ok, importance_sample_calls, importance_sample_count, prior_first. cbv zeta. cbn [lik_points prior_called_before].
    rewrite ?len_plus0. repeat split; try (repeat constructor); auto.
  Qed.

  Lemma convert_to_samples_site (x : list X) (lq : list XR) :
    prior_first Pi (convert_to_samples_calls Pi x lq) /\ prior_called_before [] (convert_to_samples_calls Pi x lq).
  Proof.
    unfold convert_to_samples_calls, prior_first. cbv zeta. cbn [prior_called_before].
    repeat split; try (repeat constructor); auto.
  Qed.
End C17.

(* ---------- the initial draw (hand model, Model/InitDraw.v) ---------- *)
From AV Require Import Model.InitDraw Proofs.C10.
Section InitCalls.
  Variables (X V : Type) (L Pi : X -> V) (isfinite : V -> bool).

  Lemma draw_calls_only_prior batches : forall acc n,
    Forall (fun c => match c with IPrior _ _ _ => True | ILik _ _ _ _ => False end)
           (draw_calls X V Pi isfinite batches acc n).
  Proof.
    induction batches as [|b bs IH]; intros acc n; cbn [draw_calls].
    - destruct (Nat.leb n (length acc)); constructor.
    - destruct (Nat.leb n (length acc)); constructor; auto.
  Qed.

  Lemma initial_draw_calls batches n rows :
    draw_initial X V L Pi isfinite batches n = Some rows ->
    exists pre, draw_initial_calls X V L Pi isfinite batches n
                = pre ++ [ILik X V (map (fun r => fst (fst (fst r))) rows) (map (fun r => snd (fst r)) rows)]
    /\ map (fun r => snd (fst r)) rows = map Pi (map (fun r => fst (fst (fst r))) rows)
    /\ Forall (fun c => match c with IPrior _ _ _ => True | ILik _ _ _ _ => False end) pre.
  Proof.
    intros H. exists (draw_calls X V Pi isfinite batches [] n). unfold draw_initial_calls. rewrite H.
    split; [reflexivity|]. split; [|apply draw_calls_only_prior].
    apply draw_initial_spec in H as [_ Hrows]. rewrite map_map.
    apply map_ext_in. intros [[[x q] p] l] Hin. rewrite Forall_forall in Hrows.
    specialize (Hrows _ Hin). cbn in *. tauto.
  Qed.
End InitCalls.
