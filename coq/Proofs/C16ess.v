(* C16/C02 — the effective sample size reported by a SELECTION of a weighted set (generated Samples.__getitem__, Gen/Rows.v)
   is (sum w)^2 / sum w^2 of the selected weights: the selection is itself a weighted sample set in the sense of C02. *)
From Coq Require Import Reals List Bool Lra Lia.
From AV Require Import Lib.Vec Lib.Soa Gen.Kernels Gen.Rows Proofs.C02 Proofs.C07.
Import ListNotations.
Open Scope R_scope.

Lemma samples_getitem_ess_spec {X} (x : list X) ll lp lq lw w le lee idx dX :
  select idx lw 0 <> [] ->
  samples_getitem_ess x ll lp lq lw w le lee idx dX = ess_of (map exp (select idx lw 0))
  /\ 1 <= samples_getitem_ess x ll lp lq lw w le lee idx dX <= INR (length (select idx lw 0)).
Proof.
  intros Hne. unfold samples_getitem_ess. cbv zeta.
  set (S := select idx lw 0) in *.
  assert (E : exp (Rminus (Rmult (logsumexp (map (fun t_ => Rminus t_ (vmax S)) S)) 2)
                          (logsumexp (map (fun t_ => Rmult t_ 2) (map (fun t_ => Rminus t_ (vmax S)) S))))
              = ess_expr (map (fun t => t - vmax S) S)) by reflexivity.
  rewrite E, ess_expr_shift by exact Hne.
  split; [reflexivity|].
  replace (INR (length S)) with (vlen (map exp S)) by (unfold vlen; now rewrite map_length).
  apply ess_of_bounds; [destruct S; [contradiction Hne; reflexivity| discriminate]| apply map_exp_pos].
Qed.
