(* Composition of transform stages (CompositeTransform): if every stage is a bijection on its domain with
   inverse log-Jacobian = minus forward log-Jacobian, so is the composite, whatever the on/off combination;
   the stage order is read from the code (Gen/Composite.v). *)
From Coq Require Import Reals List Lra.
From AV Require Import Gen.Composite.
Import ListNotations.
Open Scope R_scope.

Section Compose.
  Variable Row : Type.
  (* a stage: forward and inverse maps returning (row, log|det J|), valid on a domain *)
  Record stage_impl := {
    fwd : Row -> Row * R;
    inv : Row -> Row * R;
    dom : Row -> Prop;                     (* where the stage is a bijection (inside bounds, outside the clip margin) *)
  }.
  Definition stage_ok (s : stage_impl) : Prop :=
    forall x, dom s x -> fst (inv s (fst (fwd s x))) = x /\ snd (inv s (fst (fwd s x))) = - snd (fwd s x).

  (* CompositeTransform.forward: run the enabled stages in order, adding the log-Jacobians *)
  Fixpoint comp_forward (l : list stage_impl) (x : Row) : Row * R :=
    match l with
    | [] => (x, 0)
    | s :: r => let '(y, j) := fwd s x in let '(z, k) := comp_forward r y in (z, j + k)
    end.
  (* CompositeTransform.inverse: the same stages in reverse order *)
  Definition comp_inverse (l : list stage_impl) (y : Row) : Row * R :=
    fold_left (fun acc s => let '(z, k) := inv s (fst acc) in (z, snd acc + k)) (rev l) (y, 0).

  Fixpoint comp_dom (l : list stage_impl) (x : Row) : Prop :=
    match l with
    | [] => True
    | s :: r => dom s x /\ comp_dom r (fst (fwd s x))
    end.

  Lemma fold_inv_shift l : forall y a,
    fold_left (fun acc s => let '(z, k) := inv s (fst acc) in (z, snd acc + k)) l (y, a)
    = (fst (fold_left (fun acc s => let '(z, k) := inv s (fst acc) in (z, snd acc + k)) l (y, 0)),
       a + snd (fold_left (fun acc s => let '(z, k) := inv s (fst acc) in (z, snd acc + k)) l (y, 0))).
  Proof.
    induction l as [|s l IH]; intros y a; cbn [fold_left fst snd].
    - f_equal. lra.
    - destruct (inv s y) as [z k]. rewrite (IH z (a + k)), (IH z (0 + k)). cbn [fst snd]. f_equal. lra.
  Qed.

  Theorem composite_roundtrip l : Forall stage_ok l -> forall x, comp_dom l x ->
    fst (comp_inverse l (fst (comp_forward l x))) = x
    /\ snd (comp_inverse l (fst (comp_forward l x))) = - snd (comp_forward l x).
  Proof.
    induction 1 as [|s r Hs Hr IH]; intros x Hd.
    - cbn. split; [reflexivity| lra].
    - destruct Hd as [Hd1 Hd2]. cbn [comp_dom comp_forward] in *.
      destruct (Hs x Hd1) as [S1 S2].
      destruct (fwd s x) as [y j] eqn:Ef. cbn [fst snd] in *.
      destruct (IH y Hd2) as [I1 I2].
      destruct (comp_forward r y) as [z k] eqn:Ec. cbn [fst snd] in *.
      unfold comp_inverse in *. cbn [rev]. rewrite fold_left_app. cbn [fold_left].
      destruct (fold_left _ (rev r) (z, 0)) as [y' a'] eqn:Efold. cbn [fst snd] in *. subst y'.
      destruct (inv s y) as [x' j'] eqn:Ei. cbn [fst snd] in *. subst x'. split; [reflexivity| lra].
  Qed.
End Compose.

(* the order used by the code: inverse runs the forward stages backwards; fit runs them in forward order *)
Lemma composite_orders : inverse_order = rev forward_order /\ fit_order = forward_order /\ accumulates_by_addition = true.
Proof. repeat split; reflexivity. Qed.
