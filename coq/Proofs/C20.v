From Coq Require Import List String Bool.
From AV Require Import Gen.Routing Model.Routing.
Import ListNotations.

(* a generator supplied through a way the class accepts is the one used *)
Definition accepted_ok (c : sclass) (w : way) : bool :=
  match route c w with
  | UserGenerator | Rejected | NotApplicable => true
  | _ => false
  end.

(* every generator-consuming class can be given a generator through the top-level call *)
Definition top_level_ok (c : sclass) : bool :=
  negb (uses_generator c) || source_eqb (route c ViaTopLevel) UserGenerator.

Definition good_classes := [CMiniPCN; CMiniPCNSMC; CEmceeSMC; CBlackJAXSMC].

Lemma routing_partial : forallb (fun c => top_level_ok c && forallb (accepted_ok c) all_ways) good_classes = true.
Proof. vm_compute. reflexivity. Qed.

Lemma routing_partial_forall c w : In c good_classes -> In w all_ways ->
  top_level_ok c = true /\ accepted_ok c w = true.
Proof.
  intros Hc Hw. pose proof routing_partial as H. rewrite forallb_forall in H. specialize (H c Hc).
  apply andb_prop in H as [H1 H2]. rewrite forallb_forall in H2. auto.
Qed.

(* the full statement fails for the two emcee-based classes *)
Lemma routing_refuted :
  route CEmcee ViaSample = AcceptedButUnused /\ route CEmcee ViaTopLevel = AcceptedButUnused.
Proof. vm_compute. repeat split. Qed.
