(* C07 support: the efficiency curve of the code — the ESS of the incremental weights exp(d * a_i),
   d = beta - beta0 >= 0 — is non-increasing in d, for every population.  This discharges the
   monotonicity hypothesis of C07_maximal_if_monotone for the curve the implementation really uses.
   d/dd log ESS = 2 (m(d) - m(2d)) with m the tilted mean S1/S0, and m' = (S2 S0 - S1^2)/S0^2 >= 0
   (Cauchy-Schwarz). *)
From Coq Require Import Reals List Lra Psatz.
From Coquelicot Require Import Coquelicot.
From AV Require Import Lib.Vec Gen.Kernels Proofs.C02 Proofs.C07.
Import ListNotations.
Open Scope R_scope.

Fixpoint S0 (a : list R) : R -> R :=
  match a with [] => fun _ => 0 | x :: a' => fun t => exp (t * x) + S0 a' t end.
Fixpoint S1 (a : list R) : R -> R :=
  match a with [] => fun _ => 0 | x :: a' => fun t => x * exp (t * x) + S1 a' t end.
Fixpoint S2 (a : list R) : R -> R :=
  match a with [] => fun _ => 0 | x :: a' => fun t => x * x * exp (t * x) + S2 a' t end.

Lemma S0_derive a t : is_derive (S0 a) t (S1 a t).
Proof.
  induction a as [|x a IH]; simpl.
  - apply (is_derive_const (K:=R_AbsRing) (V:=R_NormedModule)).
  - apply (is_derive_plus (K:=R_AbsRing) (V:=R_NormedModule) (fun t => exp (t * x)) (S0 a) t (x * exp (t * x)) (S1 a t)); [|exact IH].
    auto_derive; [exact I|ring].
Qed.

Lemma S1_derive a t : is_derive (S1 a) t (S2 a t).
Proof.
  induction a as [|x a IH]; simpl.
  - apply (is_derive_const (K:=R_AbsRing) (V:=R_NormedModule)).
  - apply (is_derive_plus (K:=R_AbsRing) (V:=R_NormedModule) (fun t => x * exp (t * x)) (S1 a) t (x * x * exp (t * x)) (S2 a t)); [|exact IH].
    auto_derive; [exact I|ring].
Qed.

Lemma S0_nonneg a t : 0 <= S0 a t.
Proof. induction a as [|x a IH]; simpl; [lra|]. pose proof (exp_pos (t * x)). lra. Qed.

Lemma S0_pos a t : a <> [] -> 0 < S0 a t.
Proof. destruct a as [|x a]; [congruence|]. intros _. simpl. pose proof (exp_pos (t * x)). pose proof (S0_nonneg a t). lra. Qed.

(* sum of (a_i - l)^2 e_i >= 0 *)
Lemma quad_nonneg a t l : 0 <= S2 a t - 2 * l * S1 a t + l * l * S0 a t.
Proof.
  induction a as [|x a IH]; simpl; [lra|].
  pose proof (exp_pos (t * x)) as He.
  assert (0 <= (x - l) * (x - l) * exp (t * x)) by (apply Rmult_le_pos; [apply Rle_0_sqr|lra]).
  lra.
Qed.

Lemma cauchy_schwarz a t : a <> [] -> S1 a t * S1 a t <= S2 a t * S0 a t.
Proof.
  intros Hne. pose proof (S0_pos a t Hne) as H0.
  pose proof (quad_nonneg a t (S1 a t / S0 a t)) as Hq.
  assert (E : S2 a t - 2 * (S1 a t / S0 a t) * S1 a t + S1 a t / S0 a t * (S1 a t / S0 a t) * S0 a t
              = (S2 a t * S0 a t - S1 a t * S1 a t) / S0 a t) by (field; lra).
  rewrite E in Hq.
  assert (0 <= (S2 a t * S0 a t - S1 a t * S1 a t) / S0 a t * S0 a t) by (apply Rmult_le_pos; lra).
  replace ((S2 a t * S0 a t - S1 a t * S1 a t) / S0 a t * S0 a t) with (S2 a t * S0 a t - S1 a t * S1 a t) in H by (field; lra).
  lra.
Qed.

(* mean value theorem in the form used twice below *)
Lemma mvt (f df : R -> R) s t :
  (forall x, s <= x <= t -> is_derive f x (df x)) -> s <= t ->
  exists c, s <= c <= t /\ f t - f s = df c * (t - s).
Proof.
  intros Hd Hst.
  destruct (MVT_gen f s t df) as (c & Hc & Heq).
  - rewrite Rmin_left, Rmax_right by lra. intros x Hx. apply Hd. lra.
  - rewrite Rmin_left, Rmax_right by lra. intros x Hx.
    apply continuity_pt_filterlim. apply (ex_derive_continuous (K:=R_AbsRing) (V:=R_NormedModule)).
    exists (df x). apply Hd. lra.
  - rewrite Rmin_left, Rmax_right in Hc by lra. exists c. split; [exact Hc|exact Heq].
Qed.

(* the tilted mean *)
Definition tmean (a : list R) (t : R) : R := S1 a t / S0 a t.

Lemma tmean_derive a t : a <> [] ->
  is_derive (tmean a) t ((S2 a t * S0 a t - S1 a t * S1 a t) / S0 a t ^ 2).
Proof.
  intros Hne. pose proof (S0_pos a t Hne) as H0. unfold tmean.
  apply (is_derive_div (S1 a) (S0 a) t (S2 a t) (S1 a t)); [apply S1_derive|apply S0_derive|lra].
Qed.

Lemma tmean_mono a s t : a <> [] -> s <= t -> tmean a s <= tmean a t.
Proof.
  intros Hne Hst.
  destruct (mvt (tmean a) (fun u => (S2 a u * S0 a u - S1 a u * S1 a u) / S0 a u ^ 2) s t) as (c & Hc & Heq).
  - intros x _. apply tmean_derive, Hne.
  - exact Hst.
  - pose proof (S0_pos a c Hne) as H0. pose proof (cauchy_schwarz a c Hne) as Hcs.
    assert (0 <= (S2 a c * S0 a c - S1 a c * S1 a c) / S0 a c ^ 2).
    { apply Rmult_le_pos; [lra|]. apply Rlt_le, Rinv_0_lt_compat. apply pow_lt. exact H0. }
    assert (0 <= (S2 a c * S0 a c - S1 a c * S1 a c) / S0 a c ^ 2 * (t - s)) by (apply Rmult_le_pos; lra).
    lra.
Qed.

(* log of the efficiency curve (times N): 2 ln S0(d) - ln S0(2d) *)
Definition less (a : list R) (t : R) : R := 2 * ln (S0 a t) - ln (S0 a (2 * t)).

Lemma less_derive a t : a <> [] -> is_derive (less a) t (2 * tmean a t - 2 * tmean a (2 * t)).
Proof.
  intros Hne. pose proof (S0_pos a t Hne) as H0. pose proof (S0_pos a (2 * t) Hne) as H1.
  unfold less, tmean.
  pose proof (S0_derive a t) as D0. pose proof (S0_derive a (2 * t)) as D1.
  auto_derive.
  - repeat split; try lra; try exact I; eexists; eassumption.
  - replace (Derive (fun x : R => S0 a x) t) with (S1 a t) by (symmetry; apply is_derive_unique; exact D0).
    replace (Derive (fun x : R => S0 a x) (2 * t)) with (S1 a (2 * t)) by (symmetry; apply is_derive_unique; exact D1). field. lra.
Qed.

Lemma less_nonincr a s t : a <> [] -> 0 <= s <= t -> less a t <= less a s.
Proof.
  intros Hne [Hs Hst].
  destruct (mvt (less a) (fun u => 2 * tmean a u - 2 * tmean a (2 * u)) s t) as (c & Hc & Heq).
  - intros x _. apply less_derive, Hne.
  - exact Hst.
  - assert (Hm : tmean a c <= tmean a (2 * c)) by (apply tmean_mono; [exact Hne|lra]).
    assert (0 <= (2 * tmean a (2 * c) - 2 * tmean a c) * (t - s)) by (apply Rmult_le_pos; lra).
    lra.
Qed.

(* the curve itself *)
Lemma vsum_exp_scaled a t : vsum (map exp (map (fun x => t * x) a)) = S0 a t.
Proof. unfold vsum. induction a as [|x a IH]; simpl; [reflexivity|]. rewrite IH. reflexivity. Qed.

Lemma vsum_sq_exp_scaled a t :
  vsum (map (fun w => w * w) (map exp (map (fun x => t * x) a))) = S0 a (2 * t).
Proof.
  unfold vsum. induction a as [|x a IH]; simpl; [reflexivity|]. rewrite IH.
  f_equal. rewrite <- exp_plus. f_equal. ring.
Qed.

Lemma ess_scaled_as_exp a t : a <> [] ->
  ess_of (map exp (map (fun x => t * x) a)) = exp (less a t).
Proof.
  intros Hne. pose proof (S0_pos a t Hne) as H0. pose proof (S0_pos a (2 * t) Hne) as H1.
  unfold ess_of, less. rewrite vsum_exp_scaled, vsum_sq_exp_scaled.
  unfold Rminus. rewrite exp_plus, exp_Ropp, exp_ln by exact H1.
  replace (2 * ln (S0 a t)) with (ln (S0 a t) + ln (S0 a t)) by ring.
  rewrite exp_plus, exp_ln by exact H0. reflexivity.
Qed.

Lemma ess_incremental_nonincreasing a s t : a <> [] -> 0 <= s <= t ->
  ess_of (map exp (map (fun x => t * x) a)) <= ess_of (map exp (map (fun x => s * x) a)).
Proof.
  intros Hne Hst. rewrite !ess_scaled_as_exp by exact Hne.
  destruct (less_nonincr a s t Hne Hst) as [Hlt|Heq].
  - left. apply exp_increasing. exact Hlt.
  - right. rewrite Heq. reflexivity.
Qed.

(* ... and for the translated kernels: the efficiency the temperature search of the code queries,
   effective_sample_size(samples.log_weights(b)) / len(samples), is non-increasing in b >= beta0 *)
Lemma code_curve_nonincreasing {X} (x : list X) ll lp lq beta0 b1 b2 :
  ll <> [] -> length x = length ll -> length lp = length ll -> length lq = length ll ->
  beta0 <= b1 <= b2 ->
  effective_sample_size (log_weights x ll lp lq beta0 b2) / vlen x
  <= effective_sample_size (log_weights x ll lp lq beta0 b1) / vlen x.
Proof.
  intros Hne Hx Hp Hq Hb. rewrite !ess_log_weights by assumption.
  assert (Hn : 0 < vlen x). { apply vlen_pos. destruct x; [destruct ll; simpl in *; congruence|congruence]. }
  apply Rmult_le_compat_r; [apply Rlt_le, Rinv_0_lt_compat, Hn|].
  apply ess_incremental_nonincreasing; [|lra].
  pose proof (lw_ne x ll lp lq Hne Hx Hp Hq) as H. exact H.
Qed.

Lemma code_curve_maximal {X} (x : list X) ll lp lq beta0 bb target :
  ll <> [] -> length x = length ll -> length lp = length ll -> length lq = length ll ->
  beta0 <= bb ->
  effective_sample_size (log_weights x ll lp lq beta0 bb) / vlen x < target ->
  forall y, bb <= y ->
  effective_sample_size (log_weights x ll lp lq beta0 y) / vlen x < target.
Proof.
  intros Hne Hx Hp Hq Hb Hlt y Hy.
  eapply Rle_lt_trans; [|exact Hlt]. apply code_curve_nonincreasing; auto; lra.
Qed.
