(* C07 support: what the efficiency oracle is in the code (translated kernels). *)
From Coq Require Import Reals List Bool Lra Lia.
From AV Require Import Lib.Vec Gen.Kernels Proofs.C02.
Import ListNotations.
Open Scope R_scope.

(* Proved by simultaneous induction on the three lists with the generated body unfolded: the proof does not depend on how
   the source spells the element-wise expression (e.g. (b0-b)*lq + (b-b0)*(ll+lp) or -d*lq + d*(ll+lp) with d = b-b0). *)
Lemma unnormalized_log_weights_spec {X} (x : list X) ll lp lq b0 b :
  length lp = length ll -> length lq = length ll ->
  unnormalized_log_weights x ll lp lq b0 b
  = map (fun t => (b - b0) * t) (compute_weights_log_w x ll lp lq).
Proof.
  intros Hp Hq. unfold unnormalized_log_weights, compute_weights_log_w. cbv zeta.
  revert lp lq Hp Hq. induction ll as [|a ll IH]; intros [|p lp] [|q lq] Hp Hq; simpl in *; try discriminate; auto.
  f_equal; [ring|]. apply IH; lia.
Qed.

Lemma log_weights_fn {X} (x : list X) ll lp lq b0 b :
  log_weights x ll lp lq b0 b
  = map (fun t => t - (logsumexp (unnormalized_log_weights x ll lp lq b0 b) - ln (vlen x)))
        (unnormalized_log_weights x ll lp lq b0 b).
Proof. reflexivity. Qed.

Lemma ess_shift_invariant l c : l <> [] ->
  effective_sample_size (map (fun t => t + c) l) = effective_sample_size l.
Proof.
  intros Hne. rewrite !effective_sample_size_spec; auto; [|destruct l; simpl; congruence].
  replace (map exp (map (fun t => t + c) l)) with (map (fun t => t * exp c) (map exp l)).
  - apply ess_of_scale; [pose proof (exp_pos c); lra|].
    assert (0 < vsum (map (fun t => t * t) (map exp l))); [|lra].
    apply sum_sq_pos; [destruct l; simpl; congruence| apply map_exp_pos].
  - rewrite !map_map. apply map_ext. intros; now rewrite exp_plus.
Qed.

Lemma ess_log_weights {X} (x : list X) ll lp lq b0 b :
  ll <> [] -> length x = length ll -> length lp = length ll -> length lq = length ll ->
  effective_sample_size (log_weights x ll lp lq b0 b)
  = ess_of (map exp (map (fun t => (b - b0) * t) (compute_weights_log_w x ll lp lq))).
Proof.
  intros Hne Hx Hp Hq. rewrite log_weights_fn.
  assert (Hu : unnormalized_log_weights x ll lp lq b0 b <> []).
  { rewrite unnormalized_log_weights_spec by auto.
    pose proof (lw_ne x ll lp lq Hne Hx Hp Hq) as H. destruct (compute_weights_log_w x ll lp lq); simpl; congruence. }
  change (fun t : R => t - (logsumexp (unnormalized_log_weights x ll lp lq b0 b) - ln (vlen x)))
    with (fun t : R => t + - (logsumexp (unnormalized_log_weights x ll lp lq b0 b) - ln (vlen x))).
  rewrite ess_shift_invariant by exact Hu.
  rewrite effective_sample_size_spec by exact Hu.
  now rewrite unnormalized_log_weights_spec.
Qed.

Lemma cte_spec e0 e1 rate beta scalar :
  current_target_efficiency_adaptive e0 e1 rate beta = e0 + (e1 - e0) * rpow beta rate
  /\ current_target_efficiency_scalar scalar beta = scalar.
Proof. split; reflexivity. Qed.
