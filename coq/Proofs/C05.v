(* C05 — the density handed to the kernels, about the call sites regenerated in Gen/Calls.v
   (SMCSampler.log_prob, MCMCSampler.log_prob) over reals extended with NaN / -inf / +inf. *)
From Coq Require Import Reals List Bool Lra.
From AV Require Import Lib.Vec Lib.XR Gen.Calls.
Import ListNotations.
Open Scope R_scope.

Section C05.
  Context {X Z : Type}.
  Variables (L Pi Q : X -> XR) (Tinv_pt : Z -> X) (Tinv_lj : Z -> XR).

  (* the value computed for one row *)
  Definition smc_row (beta : XR) (zi : Z) : XR :=
    let x := Tinv_pt zi in
    let v := xadd (xadd (xmul (xsub (Fin 1) beta) (Q x)) (xmul beta (xadd (L x) (Pi x)))) (Tinv_lj zi) in
    xwhere (xisnan v) (xneg PInf) v.

  Definition mcmc_row (zi : Z) : XR :=
    let x := Tinv_pt zi in xadd (xadd (L x) (Pi x)) (Tinv_lj zi).

  (* the vectorised code is the per-row function mapped over the batch *)
  Lemma smc_log_prob_rows z beta n0 :
    smc_log_prob_value L Pi Q Tinv_pt Tinv_lj z beta n0 = map (smc_row beta) z.
  Proof.
    unfold smc_log_prob_value. cbv zeta. induction z as [|zi z IH]; [reflexivity|].
    cbn [map vmap2]. f_equal. exact IH.
  Qed.

  Lemma blackjax_log_prob_rows z beta n0 :
    blackjax_log_prob_value L Pi Q Tinv_pt Tinv_lj z beta n0 = map (smc_row beta) z.
  Proof.
    unfold blackjax_log_prob_value. cbv zeta. induction z as [|zi z IH]; [reflexivity|].
    cbn [map vmap2]. f_equal. exact IH.
  Qed.

  Lemma mcmc_log_prob_rows z n0 :
    mcmc_log_prob_value L Pi Tinv_pt Tinv_lj z n0 = map mcmc_row z.
  Proof.
    unfold mcmc_log_prob_value. cbv zeta. induction z as [|zi z IH]; [reflexivity|].
    cbn [map vmap2]. f_equal. exact IH.
  Qed.

  (* finite inputs: exactly the tempered target plus the log-Jacobian of the inverse map *)
  Lemma smc_row_finite b zi q l p j :
    Q (Tinv_pt zi) = Fin q -> L (Tinv_pt zi) = Fin l -> Pi (Tinv_pt zi) = Fin p -> Tinv_lj zi = Fin j ->
    smc_row (Fin b) zi = Fin ((1 - b) * q + b * (l + p) + j).
  Proof. intros Hq Hl Hp Hj. unfold smc_row. cbv zeta. rewrite Hq, Hl, Hp, Hj. cbn. f_equal; lra. Qed.

  Lemma mcmc_row_finite zi l p j :
    L (Tinv_pt zi) = Fin l -> Pi (Tinv_pt zi) = Fin p -> Tinv_lj zi = Fin j ->
    mcmc_row zi = Fin (l + p + j).
  Proof. intros Hl Hp Hj. unfold mcmc_row. cbv zeta. rewrite Hl, Hp, Hj. reflexivity. Qed.

  (* zero prior: minus infinity, never a finite number *)
  Lemma smc_row_zero_prior b zi q j lval :
    0 < b <= 1 -> Pi (Tinv_pt zi) = NInf -> Q (Tinv_pt zi) = Fin q -> Tinv_lj zi = Fin j ->
    L (Tinv_pt zi) = lval -> lval <> PInf ->
    smc_row (Fin b) zi = NInf.
  Proof.
    intros Hb Hp Hq Hj Hl Hne. unfold smc_row. cbv zeta. rewrite Hp, Hq, Hj, Hl.
    destruct lval as [| | |l]; try congruence; cbn; unfold xmul_inf;
      destruct (Rlt_dec 0 b); try lra; reflexivity.
  Qed.

  Lemma mcmc_row_zero_prior zi j lval :
    Pi (Tinv_pt zi) = NInf -> Tinv_lj zi = Fin j -> L (Tinv_pt zi) = lval -> (exists l, lval = Fin l) \/ lval = NInf ->
    mcmc_row zi = NInf.
  Proof.
    intros Hp Hj Hl Hc. unfold mcmc_row. cbv zeta. rewrite Hp, Hj, Hl.
    destruct Hc as [[l ->]| ->]; reflexivity.
  Qed.

  (* an undefined tempered value is never handed to the SMC kernel *)
  Lemma smc_row_never_nan beta zi : xisnan (smc_row beta zi) = false.
  Proof.
    unfold smc_row. cbv zeta.
    destruct (xadd (xadd (xmul (xsub (Fin 1) beta) (Q (Tinv_pt zi))) (xmul beta (xadd (L (Tinv_pt zi)) (Pi (Tinv_pt zi))))) (Tinv_lj zi));
      reflexivity.
  Qed.

  Lemma smc_never_nan z beta n0 :
    Forall (fun v => xisnan v = false) (smc_log_prob_value L Pi Q Tinv_pt Tinv_lj z beta n0).
  Proof.
    rewrite smc_log_prob_rows. apply Forall_forall. intros v Hv. apply in_map_iff in Hv as [zi [<- _]].
    apply smc_row_never_nan.
  Qed.
End C05.
