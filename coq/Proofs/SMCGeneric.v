(* Structural theorems about the SMC loop model (Model/SMC.v) that hold for EVERY numeric instance
   (exact reals and binary64 alike), every oracle, every option record:
   the history is a faithful record (C18), the evidence is the sum of the recorded ratios (C08),
   checkpoints follow the cadence (C12). *)
From Coq Require Import List Bool Arith ZArith Lia.
From AV Require Import Lib.Num Model.SMC.
Import ListNotations.

Fixpoint map2 {A B C} (f : A -> B -> C) (a : list A) (b : list B) : list C :=
  match a, b with
  | x :: a', y :: b' => f x y :: map2 f a' b'
  | _, _ => []
  end.

Lemma map2_snoc {A B C} (f : A -> B -> C) a b x y :
  length a = length b -> map2 f (a ++ [x]) (b ++ [y]) = map2 f a b ++ [f x y].
Proof.
  revert b; induction a as [|a0 a IH]; intros [|b0 b] H; simpl in *; try discriminate; auto.
  f_equal. apply IH. lia.
Qed.

Lemma map2_length {A B C} (f : A -> B -> C) a b : length a = length b -> length (map2 f a b) = length b.
Proof. revert b; induction a as [|a0 a IH]; intros [|b0 b] H; simpl in *; try discriminate; auto. Qed.

Lemma map2_nth {A B C} (f : A -> B -> C) a b i da db dc :
  i < length a -> i < length b -> nth i (map2 f a b) dc = f (nth i a da) (nth i b db).
Proof.
  revert b i; induction a as [|a0 a IH]; intros [|b0 b] i Ha Hb; simpl in *; try lia.
  destruct i; auto. apply IH; lia.
Qed.

Lemma removelast_snoc {A} (l : list A) x : removelast (l ++ [x]) = l.
Proof. apply removelast_last. Qed.

Lemma last_indep {A} (l : list A) d1 d2 : l <> [] -> last l d1 = last l d2.
Proof.
  induction l as [|x l IH]; [congruence|]. intros _. destruct l as [|y l]; [reflexivity|].
  change (last (x :: y :: l) d1) with (last (y :: l) d1).
  change (last (x :: y :: l) d2) with (last (y :: l) d2). apply IH. discriminate.
Qed.

Lemma last_cons_ne {A} (x : A) l d : l <> [] -> last (x :: l) d = last l d.
Proof. destruct l; [congruence| reflexivity]. Qed.

Section Generic.
  Variable N : Num.
  Variables (P G : Type).
  Variable effq essq ratio ratio_var : P -> N -> N.
  Variable cte : N -> N.
  Variable pbeta : P -> N.
  Variable psize : P -> nat.
  Variable resample_o : G -> P -> N -> option nat -> P * G.
  Variable mutate_o : G -> P -> N -> bool -> P * G.

  Notation opts := (opts N).
  Notation hist := (hist N P).
  Notation state := (state N P G).
  Notation ckpt := (ckpt N P G).
  Notation STEP := (step N P G effq essq ratio ratio_var cte pbeta resample_o mutate_o).
  Notation LOOP := (loop N P G effq essq ratio ratio_var cte pbeta resample_o mutate_o).
  Notation FINISH := (finish N P G pbeta psize resample_o mutate_o).
  Notation DBETA := (determine_beta N P effq cte).
  Notation SAMPLE := (sample N P G effq essq ratio ratio_var cte pbeta psize resample_o mutate_o).
  Notation RESUMED := (sample_resumed N P G effq essq ratio ratio_var cte pbeta psize resample_o mutate_o).
  Notation RUNFROM := (run_from N P G effq essq ratio ratio_var cte pbeta psize resample_o mutate_o).

  (* the history update performed by one iteration, as a function *)
  Definition push (o : opts) (h : hist) (p : P) (b : N) (p' : P) : hist :=
    {| h_beta := snoc (h_beta _ _ h) b;
       h_eff_target := snoc (h_eff_target _ _ h) (cte b);
       h_ess := snoc (h_ess _ _ h) (essq p b);
       h_ess_target := snoc (h_ess_target _ _ h) (essq p (one N));
       h_ratio := snoc (h_ratio _ _ h) (ratio p b);
       h_ratio_var := snoc (h_ratio_var _ _ h) (ratio_var p b);
       h_pops := if store_history _ o then snoc (h_pops _ _ h) p' else h_pops _ _ h;
       h_nmut := S (h_nmut _ _ h) |}.

  (* shape of one step *)
  Lemma step_shape o st st' brk evs :
    STEP o st = Ok (st', brk, evs) ->
    exists b ms tr,
      DBETA o (s_pop _ _ _ st) (s_beta _ _ _ st) (s_min_step _ _ _ st) = Ok (b, ms, tr)
      /\ s_hist _ _ _ st' = push o (s_hist _ _ _ st) (s_pop _ _ _ st) b (s_pop _ _ _ st')
      /\ s_beta _ _ _ st' = b /\ s_min_step _ _ _ st' = ms
      /\ s_iter _ _ _ st' = S (s_iter _ _ _ st)
      /\ brk = (eqb N b (one N) || cap_reached _ o (S (s_iter _ _ _ st)))
      /\ evs = maybe_checkpoint _ _ _ o false None st'.
  Proof.
    unfold step. intros H.
    destruct (DBETA o (s_pop _ _ _ st) (s_beta _ _ _ st) (s_min_step _ _ _ st)) as [[[b ms] tr]| |] eqn:Hd;
      try discriminate.
    destruct (resample N P G pbeta resample_o (s_g _ _ _ st) (s_pop _ _ _ st) b None) as [p1 g1].
    destruct (mutate_o g1 p1 b false) as [p2 g2].
    inversion H; subst; clear H. exists b, ms, tr. cbn. repeat split; reflexivity.
  Qed.

  (* ---------- the faithful-record relation ---------- *)
  Definition hist_init (o : opts) (p0 : P) : hist :=
    {| h_beta := []; h_eff_target := []; h_ess := []; h_ess_target := []; h_ratio := []; h_ratio_var := [];
       h_pops := if store_history _ o then [p0] else []; h_nmut := 0 |}.

  (* pops = every population the loop has held, oldest first (non-empty); bs = the temperatures used *)
  Inductive trace_ok (o : opts) : list P -> list N -> hist -> Prop :=
  | trace_init p0 : trace_ok o [p0] [] (hist_init o p0)
  | trace_step pops p bs h b p' :
      trace_ok o (pops ++ [p]) bs h ->
      trace_ok o ((pops ++ [p]) ++ [p']) (bs ++ [b]) (push o h p b p').

  Lemma trace_ok_spec o pops bs h : trace_ok o pops bs h ->
    length pops = S (length bs)
    /\ h_beta _ _ h = bs
    /\ h_eff_target _ _ h = map cte bs
    /\ h_ess _ _ h = map2 essq (removelast pops) bs
    /\ h_ess_target _ _ h = map (fun p => essq p (one N)) (removelast pops)
    /\ h_ratio _ _ h = map2 ratio (removelast pops) bs
    /\ h_ratio_var _ _ h = map2 ratio_var (removelast pops) bs
    /\ h_pops _ _ h = (if store_history _ o then pops else [])
    /\ h_nmut _ _ h = length bs.
  Proof.
    induction 1 as [p0 | pops p bs h b p' Hok IH].
    - cbn. repeat split; auto.
    - destruct IH as (Hl & H1 & H2 & H3 & H4 & H5 & H6 & H7 & H8).
      rewrite removelast_snoc in *.
      assert (Hlen : length pops = length bs) by (rewrite app_length in Hl; simpl in Hl; lia).
      unfold push, snoc. cbn.
      rewrite H1, H2, H3, H4, H5, H6, H7, H8.
      repeat split.
      + rewrite !app_length; simpl. rewrite app_length in Hl; simpl in Hl. lia.
      + now rewrite map_app.
      + now rewrite map2_snoc.
      + now rewrite map_app.
      + now rewrite map2_snoc.
      + now rewrite map2_snoc.
      + destruct (store_history N o); auto.
      + rewrite app_length; simpl; lia.
  Qed.

  Lemma step_trace o st st' brk evs pops bs :
    STEP o st = Ok (st', brk, evs) ->
    trace_ok o (pops ++ [s_pop _ _ _ st]) bs (s_hist _ _ _ st) ->
    trace_ok o ((pops ++ [s_pop _ _ _ st]) ++ [s_pop _ _ _ st']) (bs ++ [s_beta _ _ _ st']) (s_hist _ _ _ st').
  Proof.
    intros H Hok. apply step_shape in H as (b & ms & tr & _ & Hh & Hb & _).
    rewrite Hh, Hb. constructor. exact Hok.
  Qed.

  (* the whole loop extends the trace; iterations are counted; events follow the cadence *)
  Definition cadence (o : opts) (from n : nat) : list nat :=
    filter (fun i => should_checkpoint _ o false i) (seq (S from) n).

  Lemma loop_trace fuel : forall o st stf evs pops bs,
    LOOP fuel o st = Ok (stf, evs) ->
    trace_ok o (pops ++ [s_pop _ _ _ st]) bs (s_hist _ _ _ st) ->
    exists pops' bs',
      trace_ok o (pops' ++ [s_pop _ _ _ stf]) (bs ++ bs') (s_hist _ _ _ stf)
      /\ bs' <> []
      /\ s_iter _ _ _ stf = s_iter _ _ _ st + length bs'
      /\ last bs' (s_beta _ _ _ st) = s_beta _ _ _ stf
      /\ map (fun c => (c_iter _ _ _ c, c_evidence _ _ _ c)) evs
         = map (fun i => (i, None)) (cadence o (s_iter _ _ _ st) (length bs'))
      /\ (exists pre, pops' = (pops ++ [s_pop _ _ _ st]) ++ pre).
  Proof.
    induction fuel as [|f IH]; intros o st stf evs pops bs H Hok; [discriminate|].
    cbn [loop] in H.
    destruct (STEP o st) as [[[st1 brk] ev1]| |] eqn:Hs; try discriminate.
    pose proof (step_trace _ _ _ _ _ _ _ Hs Hok) as Hok1.
    pose proof (step_shape _ _ _ _ _ Hs) as (b & ms & tr & _ & _ & Hb & _ & Hit & _ & Hev).
    assert (Hev1 : map (fun c => (c_iter _ _ _ c, c_evidence _ _ _ c)) ev1
                   = map (fun i => (i, None)) (cadence o (s_iter _ _ _ st) 1)).
    { rewrite Hev. unfold maybe_checkpoint, cadence. cbn [seq filter]. rewrite Hit.
      destruct (should_checkpoint N o false (S (s_iter _ _ _ st))); cbn; rewrite ?Hit; reflexivity. }
    destruct brk.
    - inversion H; subst; clear H.
      exists (pops ++ [s_pop _ _ _ st]), [s_beta _ _ _ stf]. repeat split; auto.
      + discriminate.
      + simpl. lia.
      + exists []. now rewrite app_nil_r.
    - destruct (LOOP f o st1) as [[st2 ev2]| |] eqn:Hl; try discriminate.
      inversion H; subst; clear H.
      destruct (IH _ _ _ _ _ _ Hl Hok1) as (pops' & bs' & Hok2 & Hne & Hit2 & Hlast & Hev2 & [pre Hpre]).
      exists pops', (s_beta _ _ _ st1 :: bs'). repeat split.
      + replace (bs ++ s_beta _ _ _ st1 :: bs') with ((bs ++ [s_beta _ _ _ st1]) ++ bs')
          by (rewrite <- app_assoc; reflexivity). exact Hok2.
      + discriminate.
      + simpl. lia.
      + rewrite last_cons_ne by auto. rewrite <- Hlast. apply last_indep; auto.
      + rewrite map_app, Hev1, Hev2. unfold cadence. rewrite Hit.
        change (length (s_beta _ _ _ st1 :: bs')) with (1 + length bs').
        rewrite seq_app, filter_app, map_app. replace (S (s_iter N P G st) + 1) with (S (S (s_iter N P G st))) by lia. reflexivity.
      + exists ([s_pop _ _ _ st1] ++ pre). rewrite Hpre. now rewrite <- !app_assoc.
  Qed.

  (* ---------- finish ---------- *)
  Lemma finish_spec o st out evs :
    FINISH o st = (out, evs) ->
    o_log_evidence _ _ _ out = fsum N (h_ratio _ _ (s_hist _ _ _ st))
    /\ o_log_evidence_error _ _ _ out = nsqrt N (fsum N (h_ratio_var _ _ (s_hist _ _ _ st)))
    /\ o_iter _ _ _ out = s_iter _ _ _ st
    /\ h_beta _ _ (o_hist _ _ _ out) = h_beta _ _ (s_hist _ _ _ st)
    /\ h_eff_target _ _ (o_hist _ _ _ out) = h_eff_target _ _ (s_hist _ _ _ st)
    /\ h_ess _ _ (o_hist _ _ _ out) = h_ess _ _ (s_hist _ _ _ st)
    /\ h_ess_target _ _ (o_hist _ _ _ out) = h_ess_target _ _ (s_hist _ _ _ st)
    /\ h_ratio _ _ (o_hist _ _ _ out) = h_ratio _ _ (s_hist _ _ _ st)
    /\ h_ratio_var _ _ (o_hist _ _ _ out) = h_ratio_var _ _ (s_hist _ _ _ st)
    /\ h_pops _ _ (o_hist _ _ _ out) = h_pops _ _ (s_hist _ _ _ st)
    /\ map (fun c => (c_iter _ _ _ c, c_evidence _ _ _ c)) evs
       = (if has_callback _ o
          then [(s_iter _ _ _ st, Some (o_log_evidence _ _ _ out, o_log_evidence_error _ _ _ out))] else []).
  Proof.
    unfold finish, finish_state. intros H.
    destruct (enlarge N P G pbeta psize resample_o mutate_o o st) as [[p g] nm].
    inversion H; subst; clear H. cbn. repeat split; auto.
    unfold maybe_checkpoint, should_checkpoint. cbn. destruct (has_callback N o); reflexivity.
  Qed.

  (* ---------- the run as a whole ---------- *)
  Theorem sample_faithful fuel o p0 g0 out evs :
    SAMPLE fuel o p0 g0 = Ok (out, evs) ->
    exists pops bs,
      (* one entry per iteration, each equal to its definition on the neighbouring stored population *)
      length pops = S (length bs) /\ hd p0 pops = p0
      /\ o_iter _ _ _ out = length bs
      /\ h_beta _ _ (o_hist _ _ _ out) = bs
      /\ h_eff_target _ _ (o_hist _ _ _ out) = map cte bs
      /\ h_ess _ _ (o_hist _ _ _ out) = map2 essq (removelast pops) bs
      /\ h_ess_target _ _ (o_hist _ _ _ out) = map (fun p => essq p (one N)) (removelast pops)
      /\ h_ratio _ _ (o_hist _ _ _ out) = map2 ratio (removelast pops) bs
      /\ h_ratio_var _ _ (o_hist _ _ _ out) = map2 ratio_var (removelast pops) bs
      /\ h_pops _ _ (o_hist _ _ _ out) = (if store_history _ o then pops else [])
      (* evidence = sum of the recorded ratios, error = root of the summed variances *)
      /\ o_log_evidence _ _ _ out = fsum N (map2 ratio (removelast pops) bs)
      /\ o_log_evidence_error _ _ _ out = nsqrt N (fsum N (map2 ratio_var (removelast pops) bs))
      (* checkpoint cadence *)
      /\ map (fun c => (c_iter _ _ _ c, c_evidence _ _ _ c)) evs
         = map (fun i => (i, None)) (cadence o 0 (length bs))
           ++ (if has_callback _ o
               then [(length bs, Some (o_log_evidence _ _ _ out, o_log_evidence_error _ _ _ out))] else []).
  Proof.
    unfold sample, run_from. intros H.
    destruct (LOOP fuel o (init_state N P G o p0 g0)) as [[stf ev1]| |] eqn:Hl; try discriminate.
    destruct (FINISH o stf) as [out' ev2] eqn:Hf. inversion H; subst; clear H.
    assert (Hok0 : trace_ok o ([] ++ [s_pop _ _ _ (init_state N P G o p0 g0)]) [] (s_hist _ _ _ (init_state N P G o p0 g0)))
      by (cbn; apply trace_init).
    destruct (loop_trace _ _ _ _ _ _ _ Hl Hok0) as (pops' & bs' & Hok & Hne & Hit & Hlast & Hev & [pre Hpre]).
    apply trace_ok_spec in Hok as (Hlen & H1 & H2 & H3 & H4 & H5 & H6 & H7 & H8).
    apply finish_spec in Hf as (F1 & F2 & F3 & F4 & F5 & F6 & F7 & F8 & F9 & F10 & F11).
    exists (pops' ++ [s_pop _ _ _ stf]), bs'. cbn [app] in *.
    rewrite removelast_snoc in *.
    split; [exact Hlen|]. split; [rewrite Hpre; reflexivity|].
    split; [rewrite F3, Hit; cbn; reflexivity|].
    split; [congruence|]. split; [congruence|]. split; [congruence|]. split; [congruence|].
    split; [congruence|]. split; [congruence|]. split; [congruence|].
    split; [congruence|]. split; [congruence|].
    rewrite map_app, Hev, F11, Hit. cbn. reflexivity.
  Qed.

  (* the acceptance series (one entry per kernel invocation): iterations, plus one when the final
     enlargement runs the kernel once more *)
  Lemma finish_nmut o st out evs :
    FINISH o st = (out, evs) ->
    h_nmut _ _ (o_hist _ _ _ out)
    = match n_final _ o with
      | Some n => if Nat.eqb (psize (s_pop _ _ _ st)) n then h_nmut _ _ (s_hist _ _ _ st)
                  else S (h_nmut _ _ (s_hist _ _ _ st))
      | None => h_nmut _ _ (s_hist _ _ _ st)
      end.
  Proof.
    unfold finish, finish_state, enlarge. intros H.
    destruct (n_final N o) as [n|].
    - destruct (Nat.eqb (psize (s_pop _ _ _ st)) n).
      + inversion H; subst; reflexivity.
      + destruct (resample N P G pbeta resample_o (s_g _ _ _ st) (s_pop _ _ _ st) (s_beta _ _ _ st) (Some n)) as [p1 g1].
        destruct (mutate_o g1 p1 (s_beta _ _ _ st) true) as [p2 g2]. inversion H; subst; reflexivity.
    - inversion H; subst; reflexivity.
  Qed.

  Theorem sample_nmut fuel o p0 g0 out evs :
    SAMPLE fuel o p0 g0 = Ok (out, evs) ->
    h_nmut _ _ (o_hist _ _ _ out) = o_iter _ _ _ out
    \/ (h_nmut _ _ (o_hist _ _ _ out) = S (o_iter _ _ _ out)
        /\ exists n, n_final _ o = Some n /\ psize (o_pop _ _ _ out) = psize (o_pop _ _ _ out)).
  Proof.
    unfold sample, run_from. intros H.
    destruct (LOOP fuel o (init_state N P G o p0 g0)) as [[stf ev1]| |] eqn:Hl; try discriminate.
    destruct (FINISH o stf) as [out' ev2] eqn:Hf. inversion H; subst; clear H.
    assert (Hok0 : trace_ok o ([] ++ [s_pop _ _ _ (init_state N P G o p0 g0)]) [] (s_hist _ _ _ (init_state N P G o p0 g0)))
      by (cbn; apply trace_init).
    destruct (loop_trace _ _ _ _ _ _ _ Hl Hok0) as (pops' & bs' & Hok & Hne & Hit & _).
    apply trace_ok_spec in Hok as (_ & _ & _ & _ & _ & _ & _ & _ & H8).
    pose proof (finish_nmut _ _ _ _ Hf) as Hn. apply finish_spec in Hf as (_ & _ & F3 & _).
    rewrite F3, Hit. cbn [init_state s_iter plus app length] in *. rewrite H8 in Hn.
    destruct (n_final N o) as [n|] eqn:En; [|left; exact Hn].
    destruct (Nat.eqb (psize (s_pop _ _ _ stf)) n); [left; exact Hn|].
    right. split; [exact Hn|]. exists n. auto.
  Qed.

  (* series lengths: a corollary *)
  Corollary sample_lengths fuel o p0 g0 out evs :
    SAMPLE fuel o p0 g0 = Ok (out, evs) ->
    let h := o_hist _ _ _ out in let n := o_iter _ _ _ out in
    length (h_beta _ _ h) = n /\ length (h_eff_target _ _ h) = n /\ length (h_ess _ _ h) = n
    /\ length (h_ess_target _ _ h) = n /\ length (h_ratio _ _ h) = n /\ length (h_ratio_var _ _ h) = n
    /\ (store_history _ o = true -> length (h_pops _ _ h) = S n).
  Proof.
    intros H. apply sample_faithful in H as (pops & bs & Hl & _ & Hi & H1 & H2 & H3 & H4 & H5 & H6 & H7 & _).
    cbv zeta. rewrite Hi, H1, H2, H3, H4, H5, H6, H7.
    assert (Hr : length (removelast pops) = length bs).
    { destruct pops as [|p pops] using rev_ind; [simpl in Hl; lia|].
      rewrite removelast_snoc. rewrite app_length in Hl; simpl in Hl. lia. }
    rewrite !map_length, !map2_length by auto. repeat split; auto.
    intros ->. exact Hl.
  Qed.
  (* ---------- cadence of a run continued from any state (a resumed run, under ANY option record) ---------- *)
  Lemma loop_cadence fuel : forall o st stf evs,
    LOOP fuel o st = Ok (stf, evs) ->
    exists n, s_iter _ _ _ stf = s_iter _ _ _ st + n /\ n <> 0
      /\ map (fun c => (c_iter _ _ _ c, c_evidence _ _ _ c)) evs
         = map (fun i => (i, None)) (cadence o (s_iter _ _ _ st) n).
  Proof.
    induction fuel as [|f IH]; intros o st stf evs H; [discriminate|].
    cbn [loop] in H.
    destruct (STEP o st) as [[[st1 brk] ev1]| |] eqn:Hs; try discriminate.
    pose proof (step_shape _ _ _ _ _ Hs) as (b & ms & tr & _ & _ & Hb & _ & Hit & _ & Hev).
    assert (Hev1 : map (fun c => (c_iter _ _ _ c, c_evidence _ _ _ c)) ev1
                   = map (fun i => (i, None)) (cadence o (s_iter _ _ _ st) 1)).
    { rewrite Hev. unfold maybe_checkpoint, cadence. cbn [seq filter]. rewrite Hit.
      destruct (should_checkpoint N o false (S (s_iter _ _ _ st))); cbn; rewrite ?Hit; reflexivity. }
    destruct brk.
    - inversion H; subst; clear H. exists 1. split; [lia|]. split; [discriminate|exact Hev1].
    - destruct (LOOP f o st1) as [[st2 ev2]| |] eqn:Hl; try discriminate.
      inversion H; subst; clear H.
      destruct (IH _ _ _ _ Hl) as (n & Hn & Hne & Hev2).
      exists (1 + n). split; [lia|]. split; [lia|].
      rewrite map_app, Hev1, Hev2. unfold cadence. rewrite Hit.
      rewrite seq_app, filter_app, map_app.
      replace (S (s_iter N P G st) + 1) with (S (S (s_iter N P G st))) by lia. reflexivity.
  Qed.

  Theorem resumed_cadence fuel o c out evs :
    RESUMED fuel o c = Ok (out, evs) ->
    resumed_skips_loop N P G o (restore N P G o c) = false ->
    c_iter _ _ _ c < o_iter _ _ _ out
    /\ map (fun c => (c_iter _ _ _ c, c_evidence _ _ _ c)) evs
       = map (fun i => (i, None)) (cadence o (c_iter _ _ _ c) (o_iter _ _ _ out - c_iter _ _ _ c))
         ++ (if has_callback _ o
             then [(o_iter _ _ _ out, Some (o_log_evidence _ _ _ out, o_log_evidence_error _ _ _ out))] else []).
  Proof.
    unfold sample_resumed, run_from. intros H Hskip. rewrite Hskip in H.
    destruct (LOOP fuel o (restore N P G o c)) as [[stf ev1]| |] eqn:Hl; try discriminate.
    destruct (FINISH o stf) as [out' ev2] eqn:Hf. inversion H; subst; clear H.
    destruct (loop_cadence _ _ _ _ _ Hl) as (n & Hn & Hne & Hev).
    apply finish_spec in Hf as (_ & _ & F3 & _ & _ & _ & _ & _ & _ & _ & F11).
    cbn [restore s_iter] in Hn, Hev. rewrite F3, Hn.
    split; [lia|].
    replace (c_iter N P G c + n - c_iter N P G c) with n by lia.
    rewrite map_app, Hev, F11, Hn. reflexivity.
  Qed.

End Generic.

(* ---------- more generic facts used by the real-number development ---------- *)
Section Generic2.
  Variable N : Num.
  Variables (P G : Type).
  Variable effq essq ratio ratio_var : P -> N -> N.
  Variable cte : N -> N.
  Variable pbeta : P -> N.
  Variable psize : P -> nat.
  Variable resample_o : G -> P -> N -> option nat -> P * G.
  Variable mutate_o : G -> P -> N -> bool -> P * G.

  Notation STEP := (step N P G effq essq ratio ratio_var cte pbeta resample_o mutate_o).
  Notation LOOP := (loop N P G effq essq ratio ratio_var cte pbeta resample_o mutate_o).
  Notation FINISH := (finish N P G pbeta psize resample_o mutate_o).
  Notation DBETA := (determine_beta N P effq cte).

  (* a successful determine_beta makes the whole step succeed *)
  Lemma step_complete o st b ms tr :
    DBETA o (s_pop _ _ _ st) (s_beta _ _ _ st) (s_min_step _ _ _ st) = Ok (b, ms, tr) ->
    exists st' evs,
      STEP o st = Ok (st', eqb N b (one N) || cap_reached _ o (S (s_iter _ _ _ st)), evs)
      /\ s_beta _ _ _ st' = b /\ s_iter _ _ _ st' = S (s_iter _ _ _ st) /\ s_min_step _ _ _ st' = ms.
  Proof.
    intros Hd. unfold step. rewrite Hd.
    destruct (resample N P G pbeta resample_o (s_g _ _ _ st) (s_pop _ _ _ st) b None) as [p1 g1].
    destruct (mutate_o g1 p1 b false) as [p2 g2].
    eexists. eexists. split; [reflexivity|]. cbn. auto.
  Qed.

  (* determine_beta leaves min_step alone unless it is the adaptive one *)
  Lemma dbeta_min_step o p beta ms b ms' tr :
    adaptive_min_step _ o = false -> DBETA o p beta ms = Ok (b, ms', tr) -> ms' = ms.
  Proof.
    intros Ha H. unfold determine_beta in H. rewrite Ha in H. cbn [andb] in H.
    destruct (negb (adaptive N o)); [inversion H; auto|].
    destruct (bisect N P effq (bisect_fuel N o) p (cte beta)
               (if geb N (effq p (one N)) (cte beta) then one N else beta) (one N) (tol N o) [one N])
      as [[[a bb] tr0]|]; [|discriminate].
    inversion H; auto.
  Qed.

  Definition ms_inv (o : opts N) (st : state N P G) : Prop :=
    adaptive_min_step _ o = false -> s_min_step _ _ _ st = min_step0 _ o.

  Lemma restore_mk o st ev : ms_inv o st -> restore N P G o (mk_ckpt N P G st ev) = st.
  Proof.
    intros H. destruct st as [p b i ms h g]. unfold restore, mk_ckpt. cbn in *. unfold ms_inv in H. cbn in H.
    destruct (adaptive_min_step N o); [reflexivity|]. rewrite H; auto.
  Qed.

  Lemma step_ms_inv o st st' brk evs : STEP o st = Ok (st', brk, evs) -> ms_inv o st -> ms_inv o st'.
  Proof.
    intros Hs Hi Ha. apply step_shape in Hs as (b & ms & tr & Hd & _ & _ & Hms & _).
    rewrite Hms. rewrite (dbeta_min_step _ _ _ _ _ _ _ Ha Hd). apply Hi; auto.
  Qed.

  Lemma loop_fuel_mono f : forall f2 o st r, LOOP f o st = Ok r -> f <= f2 -> LOOP f2 o st = Ok r.
  Proof.
    induction f as [|f IH]; intros f2 o st r H Hle; [discriminate|].
    destruct f2 as [|f2]; [lia|]. cbn [loop] in *.
    destruct (STEP o st) as [[[st1 brk] ev1]| |]; try discriminate.
    destruct brk; auto.
    destruct (LOOP f o st1) as [[st2 ev2]| |] eqn:Hl; try discriminate.
    rewrite (IH f2 o st1 _ Hl) by lia. exact H.
  Qed.

  (* ---------- the fixed (non-adaptive) schedule, for any numeric instance ---------- *)
  Definition fixed_next (stp beta : N) : N :=
    let b := add N beta stp in
    if geb N b (sub N (one N) (mul N (half N) stp)) then one N else b.

  (* number of iterations until the temperature tests equal to one, and that final temperature *)
  Fixpoint fixed_iter (stp : N) (fuel : nat) (beta : N) : option (nat * N) :=
    match fuel with
    | O => None
    | S f =>
      let b := fixed_next stp beta in
      if eqb N b (one N) then Some (1, b)
      else match fixed_iter stp f b with Some (k, bf) => Some (S k, bf) | None => None end
    end.

  Lemma dbeta_fixed o p beta ms :
    adaptive _ o = false -> DBETA o p beta ms = Ok (fixed_next (beta_step _ o) beta, ms, []).
  Proof. intros Ha. unfold determine_beta, fixed_next. rewrite Ha. reflexivity. Qed.

  Lemma loop_fixed_iter o : adaptive _ o = false -> max_n_steps _ o = None ->
    forall fuel st k bf,
      fixed_iter (beta_step _ o) fuel (s_beta _ _ _ st) = Some (k, bf) ->
      exists stf evs, LOOP fuel o st = Ok (stf, evs)
                      /\ s_iter _ _ _ stf = s_iter _ _ _ st + k /\ s_beta _ _ _ stf = bf.
  Proof.
    intros Ha Hc fuel. induction fuel as [|f IH]; intros st k bf H; [discriminate|].
    cbn [fixed_iter] in H.
    destruct (step_complete o st _ _ _ (dbeta_fixed o (s_pop _ _ _ st) (s_beta _ _ _ st) (s_min_step _ _ _ st) Ha))
      as (st1 & ev1 & Hs & Hb & Hi & _).
    cbn [loop]. rewrite Hs. unfold cap_reached. rewrite Hc, orb_false_r.
    destruct (eqb N (fixed_next (beta_step N o) (s_beta _ _ _ st)) (one N)) eqn:He.
    - inversion H; subst. exists st1, ev1. split; [reflexivity|]. split; [lia| exact Hb].
    - destruct (fixed_iter (beta_step N o) f (fixed_next (beta_step N o) (s_beta _ _ _ st))) as [[k' bf']|] eqn:Hf;
        [|discriminate].
      inversion H; subst. rewrite <- Hb in Hf.
      destruct (IH st1 k' bf Hf) as (stf & evs & Hl & Hi2 & Hb2).
      rewrite Hl. exists stf, (ev1 ++ evs). split; [reflexivity|]. split; [lia| exact Hb2].
  Qed.
End Generic2.

(* ---------- an invariant of populations carried through the whole run ---------- *)
Section Invariant.
  Variable N : Num.
  Variables (P G : Type).
  Variable effq essq ratio ratio_var : P -> N -> N.
  Variable cte : N -> N.
  Variable pbeta : P -> N.
  Variable psize : P -> nat.
  Variable resample_o : G -> P -> N -> option nat -> P * G.
  Variable mutate_o : G -> P -> N -> bool -> P * G.

  Notation STEP := (step N P G effq essq ratio ratio_var cte pbeta resample_o mutate_o).
  Notation LOOP := (loop N P G effq essq ratio ratio_var cte pbeta resample_o mutate_o).
  Notation FINISH := (finish N P G pbeta psize resample_o mutate_o).
  Notation SAMPLE := (sample N P G effq essq ratio ratio_var cte pbeta psize resample_o mutate_o).

  Variable Good : P -> Prop.
  Hypothesis Hres : forall g p b n, Good p -> Good (fst (resample_o g p b n)).
  Hypothesis Hmut : forall g p b f, Good p -> Good (fst (mutate_o g p b f)).

  Definition state_good (st : state N P G) : Prop :=
    Good (s_pop _ _ _ st) /\ Forall Good (h_pops _ _ (s_hist _ _ _ st)).
  Definition ckpt_good (c : ckpt N P G) : Prop :=
    Good (c_pop _ _ _ c) /\ Forall Good (h_pops _ _ (c_hist _ _ _ c)).

  Lemma resample_good g p b n : Good p -> Good (fst (resample N P G pbeta resample_o g p b n)).
  Proof.
    intros Hp. unfold resample. destruct n; [apply Hres; auto|].
    destruct (eqb N b (pbeta p)); [exact Hp| apply Hres; auto].
  Qed.

  Lemma step_good o st st' brk evs :
    STEP o st = Ok (st', brk, evs) -> state_good st -> state_good st' /\ Forall ckpt_good evs.
  Proof.
    unfold step. intros H [Hp Hh].
    destruct (determine_beta N P effq cte o (s_pop _ _ _ st) (s_beta _ _ _ st) (s_min_step _ _ _ st))
      as [[[b ms] tr]| |]; try discriminate.
    pose proof (resample_good (s_g _ _ _ st) (s_pop _ _ _ st) b None Hp) as Hr.
    destruct (resample N P G pbeta resample_o (s_g _ _ _ st) (s_pop _ _ _ st) b None) as [p1 g1]. cbn [fst] in Hr.
    pose proof (Hmut g1 p1 b false Hr) as Hm.
    destruct (mutate_o g1 p1 b false) as [p2 g2]. cbn [fst] in Hm.
    inversion H; subst; clear H.
    assert (Hs : state_good {| s_pop := p2; s_beta := b; s_iter := S (s_iter _ _ _ st); s_min_step := ms;
                               s_hist := {| h_beta := snoc (h_beta _ _ (s_hist _ _ _ st)) b;
                                            h_eff_target := snoc (h_eff_target _ _ (s_hist _ _ _ st)) (cte b);
                                            h_ess := snoc (h_ess _ _ (s_hist _ _ _ st)) (essq (s_pop _ _ _ st) b);
                                            h_ess_target := snoc (h_ess_target _ _ (s_hist _ _ _ st)) (essq (s_pop _ _ _ st) (one N));
                                            h_ratio := snoc (h_ratio _ _ (s_hist _ _ _ st)) (ratio (s_pop _ _ _ st) b);
                                            h_ratio_var := snoc (h_ratio_var _ _ (s_hist _ _ _ st)) (ratio_var (s_pop _ _ _ st) b);
                                            h_pops := if store_history _ o then snoc (h_pops _ _ (s_hist _ _ _ st)) p2
                                                      else h_pops _ _ (s_hist _ _ _ st);
                                            h_nmut := S (h_nmut _ _ (s_hist _ _ _ st)) |}; s_g := g2 |}).
    { split; cbn; auto. destruct (store_history N o); auto. unfold snoc. apply Forall_app. split; auto. }
    split; [exact Hs|].
    unfold maybe_checkpoint. destruct (should_checkpoint N o false _); constructor; [exact Hs| constructor].
  Qed.

  Lemma loop_good f : forall o st stf evs,
    LOOP f o st = Ok (stf, evs) -> state_good st -> state_good stf /\ Forall ckpt_good evs.
  Proof.
    induction f as [|f IH]; intros o st stf evs H Hg; [discriminate|].
    cbn [loop] in H. destruct (STEP o st) as [[[st1 brk] ev1]| |] eqn:Hs; try discriminate.
    destruct (step_good _ _ _ _ _ Hs Hg) as [Hg1 He1].
    destruct brk; [inversion H; subst; auto|].
    destruct (LOOP f o st1) as [[st2 ev2]| |] eqn:Hl; try discriminate.
    inversion H; subst. destruct (IH _ _ _ _ Hl Hg1) as [Hg2 He2]. split; auto. apply Forall_app; auto.
  Qed.

  Lemma finish_good o st out evs :
    FINISH o st = (out, evs) -> state_good st ->
    Good (o_pop _ _ _ out) /\ Forall Good (h_pops _ _ (o_hist _ _ _ out)) /\ Forall ckpt_good evs.
  Proof.
    unfold finish, finish_state, enlarge. intros H [Hp Hh].
    assert (Hg : forall p g nm,
               Good p ->
               state_good {| s_pop := p; s_beta := s_beta _ _ _ st; s_iter := s_iter _ _ _ st;
                             s_min_step := s_min_step _ _ _ st; s_hist := set_nmut N P (s_hist _ _ _ st) nm; s_g := g |})
      by (intros; split; cbn; auto).
    destruct (n_final N o) as [n|].
    - destruct (Nat.eqb (psize (s_pop _ _ _ st)) n).
      + inversion H; subst; clear H. cbn. split; auto. split; auto.
        unfold maybe_checkpoint. destruct (should_checkpoint N o true _); constructor; [apply Hg; auto| constructor].
      + pose proof (resample_good (s_g _ _ _ st) (s_pop _ _ _ st) (s_beta _ _ _ st) (Some n) Hp) as Hr.
        destruct (resample N P G pbeta resample_o (s_g _ _ _ st) (s_pop _ _ _ st) (s_beta _ _ _ st) (Some n)) as [p1 g1]. cbn [fst] in Hr.
        pose proof (Hmut g1 p1 (s_beta _ _ _ st) true Hr) as Hm.
        destruct (mutate_o g1 p1 (s_beta _ _ _ st) true) as [p2 g2]. cbn [fst] in Hm.
        inversion H; subst; clear H. cbn. split; auto. split; auto.
        unfold maybe_checkpoint. destruct (should_checkpoint N o true _); constructor; [apply Hg; auto| constructor].
    - inversion H; subst; clear H. cbn. split; auto. split; auto.
      unfold maybe_checkpoint. destruct (should_checkpoint N o true _); constructor; [apply Hg; auto| constructor].
  Qed.

  (* final samples, every stored population and every checkpoint payload satisfy the invariant *)
  Theorem sample_good fuel o p0 g0 out evs :
    Good p0 -> SAMPLE fuel o p0 g0 = Ok (out, evs) ->
    Good (o_pop _ _ _ out) /\ Forall Good (h_pops _ _ (o_hist _ _ _ out)) /\ Forall ckpt_good evs.
  Proof.
    intros H0 H. unfold sample, run_from in H.
    destruct (LOOP fuel o (init_state N P G o p0 g0)) as [[stf ev1]| |] eqn:Hl; try discriminate.
    destruct (FINISH o stf) as [out' ev2] eqn:Hf. inversion H; subst; clear H.
    assert (Hg0 : state_good (init_state N P G o p0 g0)).
    { split; cbn; auto. destruct (store_history N o); auto. }
    destruct (loop_good _ _ _ _ _ Hl Hg0) as [Hg1 He1].
    destruct (finish_good _ _ _ _ Hf Hg1) as (A & B & C). split; auto. split; auto. apply Forall_app; auto.
  Qed.
End Invariant.
