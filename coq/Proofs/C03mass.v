(* C03 — one-dimensional normalisation of the proposal density through a data transform.
   exp(log_prob) with log_prob x = Base (T x) + ln |T'(x)|  (that shape is C03_log_prob_includes_jacobian_partial, about the
   generated methods) carries, on EVERY interval [a,b], exactly the mass the base density has on [T a, T b]
   (substitution rule, Coquelicot RInt_comp).  Instantiated with the logit and affine coordinate maps whose derivatives are
   the ones C04 proves the reported log-Jacobians to be.  One coordinate only: no multivariate integration library is
   available (DESIGN.md section 7); the base density (zuko / flowjax) stays trusted. *)
From Coq Require Import Reals Lra.
From Coquelicot Require Import Coquelicot.
From AV Require Import Proofs.C04.
Open Scope R_scope.

Section Mass1D.
  Variables (Base T dT : R -> R) (a b : R).
  Hypothesis HT : forall x, Rmin a b <= x <= Rmax a b -> is_derive T x (dT x) /\ continuous dT x.
  Hypothesis HB : forall x, Rmin a b <= x <= Rmax a b -> continuous Base (T x).

  Definition flow_density (x : R) : R := exp (Base (T x) + ln (Rabs (dT x))).

  Lemma comp_continuous x : Rmin a b <= x <= Rmax a b -> continuous (fun z => exp (Base z)) (T x).
  Proof. intros Hx. apply continuous_exp_comp. now apply HB. Qed.

  (* increasing transform *)
  Theorem mass_preserved_incr : (forall x, Rmin a b <= x <= Rmax a b -> 0 < dT x) ->
    RInt flow_density a b = RInt (fun z => exp (Base z)) (T a) (T b).
  Proof.
    intros Hpos. rewrite <- (RInt_comp (fun z => exp (Base z)) T dT a b); [|exact comp_continuous|exact HT].
    apply RInt_ext. intros x Hx. assert (Hx' : Rmin a b <= x <= Rmax a b) by lra.
    unfold flow_density, scal; simpl; unfold mult; simpl.
    rewrite exp_plus, exp_ln; [rewrite Rabs_pos_eq by (left; now apply Hpos); ring|].
    apply Rabs_pos_lt. apply Rgt_not_eq. now apply Hpos.
  Qed.

End Mass1D.

(* ---- the coordinate maps of the data transforms (C04): derivative, positivity, continuity on a closed interval inside the domain *)

Lemma logit_coord_d_continuous lo up t : lo < up -> 0 < unit_of t lo up < 1 -> continuous (logit_coord_d lo up) t.
Proof.
  intros Hlu [H0 H1]. apply (ex_derive_continuous (logit_coord_d lo up)).
  unfold logit_coord_d, unit_of in *. auto_derive.
  assert (E : (t + - lo) * / (up - lo) = (t - lo) / (up - lo)) by reflexivity.
  rewrite !E. repeat split; try lra.
  apply Rmult_integral_contrapositive_currified; [|lra].
  apply Rmult_integral_contrapositive_currified; lra.
Qed.

Lemma unit_of_inside lo up a b x : lo < up -> lo < Rmin a b -> Rmax a b < up -> Rmin a b <= x <= Rmax a b -> 0 < unit_of x lo up < 1.
Proof.
  intros Hlu Ha Hb Hx. unfold unit_of. split.
  - apply Rdiv_lt_0_compat; lra.
  - apply (Rmult_lt_reg_r (up - lo)); [lra|]. unfold Rdiv. rewrite Rmult_assoc, Rinv_l by lra. lra.
Qed.

(* LogitTransform coordinate: every closed interval inside (lower, upper) keeps its mass *)
Theorem logit_mass_preserved (Base : R -> R) lo up a b :
  lo < up -> lo < Rmin a b -> Rmax a b < up ->
  (forall x, Rmin a b <= x <= Rmax a b -> continuous Base (logit_coord lo up x)) ->
  RInt (flow_density Base (logit_coord lo up) (logit_coord_d lo up)) a b
  = RInt (fun z => exp (Base z)) (logit_coord lo up a) (logit_coord lo up b).
Proof.
  intros Hlu Ha Hb HB. apply mass_preserved_incr; auto.
  - intros x Hx. pose proof (unit_of_inside lo up a b x Hlu Ha Hb Hx) as Hu. split.
    + now apply logit_coord_derive.
    + now apply logit_coord_d_continuous.
  - intros x Hx. pose proof (unit_of_inside lo up a b x Hlu Ha Hb Hx) as Hu. now apply logit_coord_derive.
Qed.

(* AffineTransform coordinate (standardisation by a positive scale) *)
Theorem affine_mass_preserved (Base : R -> R) m s a b : 0 < s ->
  (forall x, Rmin a b <= x <= Rmax a b -> continuous Base (affine_fwd x m s)) ->
  RInt (flow_density Base (fun t => affine_fwd t m s) (fun _ => / s)) a b
  = RInt (fun z => exp (Base z)) (affine_fwd a m s) (affine_fwd b m s).
Proof.
  intros Hs HB. apply (mass_preserved_incr Base (fun t => affine_fwd t m s) (fun _ => / s) a b); auto.
  - intros x Hx. split; [apply affine_fwd_derive; lra | apply continuous_const].
  - intros x Hx. now apply Rinv_0_lt_compat.
Qed.

(* the hypotheses are satisfiable: a standard-normal base log-density (up to its constant) through the logit map of (0,1) on [1/4, 3/4] *)
Example logit_mass_nonvacuous :
  RInt (flow_density (fun z => - (z * z) / 2) (logit_coord 0 1) (logit_coord_d 0 1)) (1/4) (3/4)
  = RInt (fun z => exp (- (z * z) / 2)) (logit_coord 0 1 (1/4)) (logit_coord 0 1 (3/4)).
Proof.
  apply logit_mass_preserved; try lra.
  - unfold Rmin. destruct (Rle_dec (1/4) (3/4)); lra.
  - unfold Rmax. destruct (Rle_dec (1/4) (3/4)); lra.
  - intros x _. apply (ex_derive_continuous (fun z : R => - (z * z) / 2)). auto_derive. exact I.
Qed.
