(* C10 — cached per-particle log-densities always belong to the particle's coordinates. *)
From Coq Require Import Reals List Bool Arith Lia.
From AV Require Import Lib.Vec Lib.XR Lib.Soa Gen.Calls Gen.Rows Model.InitDraw.
Import ListNotations.

(* ---------- coherence of a struct-of-arrays population ---------- *)
Definition coherent {X V} (L Pi Q : X -> V) (x : list X) (ll lp lq : list V) : Prop :=
  ll = map L x /\ lp = map Pi x /\ lq = map Q x.

(* selecting the same rows of every field preserves coherence (resampling, slicing, masks, index arrays) *)
Lemma coherent_select {X V} (L Pi Q : X -> V) x ll lp lq idx (dX : X) (dV : V) :
  Forall (fun i => (i < length x)%nat) idx -> coherent L Pi Q x ll lp lq ->
  coherent L Pi Q (select idx x dX) (select idx ll dV) (select idx lp dV) (select idx lq dV).
Proof.
  intros Hi (H1 & H2 & H3). subst. unfold coherent.
  repeat split; apply (select_map _ idx x dX dV); exact Hi.
Qed.

Lemma coherent_app {X V} (L Pi Q : X -> V) x1 ll1 lp1 lq1 x2 ll2 lp2 lq2 :
  coherent L Pi Q x1 ll1 lp1 lq1 -> coherent L Pi Q x2 ll2 lp2 lq2 ->
  coherent L Pi Q (x1 ++ x2) (ll1 ++ ll2) (lp1 ++ lp2) (lq1 ++ lq2).
Proof. intros (A1 & A2 & A3) (B1 & B2 & B3). subst. unfold coherent. now rewrite !map_app. Qed.

(* ---------- the translated mutation step and importance sampler return coherent populations ---------- *)
Section Sites.
  Context {X Z : Type}.
  Variables (L Pi Q : X -> XR) (Tinv_pt : Z -> X) (Tinv_lj : Z -> XR).

  Lemma minipcn_mutate_coherent znew beta n0 :
    coherent L Pi Q (minipcn_mutate_x Tinv_pt znew beta n0) (minipcn_mutate_log_likelihood L Tinv_pt znew beta n0)
             (minipcn_mutate_log_prior Pi Tinv_pt znew beta n0) (minipcn_mutate_log_q Q Tinv_pt znew beta n0)
    /\ minipcn_mutate_beta znew beta n0 = beta
    /\ length (minipcn_mutate_x Tinv_pt znew beta n0) = length znew.
  Proof.
    unfold coherent, minipcn_mutate_x, minipcn_mutate_log_likelihood, minipcn_mutate_log_prior, minipcn_mutate_log_q, minipcn_mutate_beta.
    cbv zeta. repeat split; auto. now rewrite map_length.
  Qed.

  Lemma emcee_mutate_coherent znew beta n0 :
    coherent L Pi Q (emcee_mutate_x Tinv_pt znew beta n0) (emcee_mutate_log_likelihood L Tinv_pt znew beta n0)
             (emcee_mutate_log_prior Pi Tinv_pt znew beta n0) (emcee_mutate_log_q Q Tinv_pt znew beta n0)
    /\ emcee_mutate_beta znew beta n0 = beta.
  Proof.
    unfold coherent, emcee_mutate_x, emcee_mutate_log_likelihood, emcee_mutate_log_prior, emcee_mutate_log_q, emcee_mutate_beta.
    cbv zeta. repeat split; auto.
  Qed.

  (* importance sampling: prior and likelihood are those of the drawn points; the proposal density is the
     one returned together with those points *)
  Lemma importance_sample_coherent (x : list X) (lq : list XR) n0 :
    importance_sample_x x lq n0 = x
    /\ importance_sample_log_prior Pi x lq n0 = map Pi x
    /\ importance_sample_log_likelihood L x lq n0 = map L x
    /\ importance_sample_log_q x lq n0 = lq.
  Proof.
    unfold importance_sample_x, importance_sample_log_prior, importance_sample_log_likelihood, importance_sample_log_q.
    cbv zeta. auto.
  Qed.
End Sites.

(* resampling (Gen/Rows.v) preserves coherence *)
Lemma resample_coherent {X} (L Pi Q : X -> R) (x : list X) ll lp lq b0 b idx dX :
  Forall (fun i => (i < length x)%nat) idx -> coherent L Pi Q x ll lp lq ->
  coherent L Pi Q (resample_rows_x x ll lp lq b0 b idx dX) (resample_rows_log_likelihood x ll lp lq b0 b idx dX)
           (resample_rows_log_prior x ll lp lq b0 b idx dX) (resample_rows_log_q x ll lp lq b0 b idx dX).
Proof. intros Hi Hc. unfold resample_rows_x, resample_rows_log_likelihood, resample_rows_log_prior, resample_rows_log_q.
  cbv zeta. apply coherent_select; auto. Qed.

Lemma getitem_coherent {X} (L Pi Q : X -> R) (x : list X) ll lp lq idx dX :
  Forall (fun i => (i < length x)%nat) idx -> coherent L Pi Q x ll lp lq ->
  coherent L Pi Q (base_getitem_x x ll lp lq idx dX) (base_getitem_log_likelihood x ll lp lq idx dX)
           (base_getitem_log_prior x ll lp lq idx dX) (base_getitem_log_q x ll lp lq idx dX).
Proof. intros Hi Hc. unfold base_getitem_x, base_getitem_log_likelihood, base_getitem_log_prior, base_getitem_log_q.
  apply coherent_select; auto. Qed.

(* ---------- the initial population ---------- *)
Local Open Scope nat_scope.
Lemma firstn_In' {A} (l : list A) n x : In x (firstn n l) -> In x l.
Proof. revert n; induction l as [|a l IH]; intros [|n] H; simpl in *; auto; try contradiction. destruct H; [left; auto| right; eauto]. Qed.

Section Init.
  Variables (X V : Type) (L Pi : X -> V) (isfinite : V -> bool).
  Notation draw_loop := (draw_loop X V Pi isfinite).
  Notation draw_initial := (draw_initial X V L Pi isfinite).

  Definition prow_ok (batches : list (list (X * V))) (r : prow X V) : Prop :=
    snd r = Pi (fst (fst r)) /\ isfinite (snd r) = true /\ In (fst r) (concat batches).

  Lemma draw_loop_inv batches : forall acc n res all,
    Forall (prow_ok all) acc -> (forall b, In b batches -> incl b (concat all)) ->
    draw_loop batches acc n = Some res -> Forall (prow_ok all) res /\ n <= length res.
  Proof.
    induction batches as [|b bs IH]; intros acc n res all Hacc Hsub H; cbn [InitDraw.draw_loop] in H.
    - destruct (Nat.leb n (length acc)) eqn:E; [|discriminate]. inversion H; subst. split; auto. now apply Nat.leb_le.
    - destruct (Nat.leb n (length acc)) eqn:E.
      + inversion H; subst. split; auto. now apply Nat.leb_le.
      + apply IH with (all := all) in H; auto.
        * apply Forall_app. split; auto. unfold keep_valid, eval_prior.
          apply Forall_forall. intros r Hr. apply filter_In in Hr as [Hr Hf].
          apply in_map_iff in Hr as [xq [<- Hxq]]. unfold prow_ok. cbn. repeat split; auto.
          apply (Hsub b); [left; auto|]. destruct xq; exact Hxq.
        * intros b' Hb'. apply Hsub. right; auto.
  Qed.

  (* exactly n rows; every row: finite prior = Pi x, likelihood = L x, proposal density the one drawn with x *)
  Theorem draw_initial_spec batches n rows :
    draw_initial batches n = Some rows ->
    length rows = n
    /\ Forall (fun r => match r with (x, q, p, l) =>
                 p = Pi x /\ isfinite p = true /\ l = L x /\ In (x, q) (concat batches) end) rows.
  Proof.
    unfold InitDraw.draw_initial. destruct (draw_loop batches [] n) as [acc|] eqn:E; [|discriminate].
    intros H. inversion H; subst; clear H.
    destruct (draw_loop_inv batches [] n acc batches) as [Hok Hlen]; auto.
    { intros b Hb x Hx. apply in_concat. exists b. auto. }
    split.
    - rewrite map_length, firstn_length. lia.
    - apply Forall_forall. intros r Hr. apply in_map_iff in Hr as [[[x q] p] [<- Hin]].
      apply firstn_In' in Hin. rewrite Forall_forall in Hok. destruct (Hok _ Hin) as (H1 & H2 & H3). cbn in *.
      repeat split; auto.
  Qed.
End Init.
