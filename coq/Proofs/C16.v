(* C16 — selection, concatenation, pickling and dict conversion keep rows aligned. *)
From Coq Require Import Reals List Bool Arith Lia.
From AV Require Import Lib.Vec Lib.Soa Gen.Rows Model.SamplesAlg.
Import ListNotations.
Local Open Scope nat_scope.
Local Arguments select : simpl never.
Local Arguments oselect : simpl never.

Section Alg.
  Variables (X V : Type) (dX : X) (dV : V).
  Notation sset := (sset X V).
  Notation getitem := (getitem X V dX dV).
  Notation rows_of := (rows_of X V dX dV).
  Notation row_at := (row_at X V dX dV).
  Notation wf := (wf X V).
  Notation op := (op).

  Lemma orow_oselect idx (l : option (list V)) j : j < length idx ->
    orow V dV (oselect idx l dV) j = orow V dV l (nth j idx 0).
  Proof.
    intros Hj. destruct l as [v|]; unfold orow, oselect; cbn [option_map]; [|reflexivity]. f_equal. apply select_nth. exact Hj.
  Qed.

  (* every field of the selection is the same selection of that field: row j of the result IS row idx_j of the source *)
  Lemma getitem_rows i s :
    let idx := idx_of (length (a_x _ _ s)) i in
    rows_of (getitem i s) = map (row_at s) idx.
  Proof.
    cbv zeta. unfold SamplesAlg.rows_of, SamplesAlg.getitem. cbn [a_x].
    set (idx := idx_of (length (a_x X V s)) i). rewrite select_length.
    apply nth_ext with (d := row_at s 0) (d' := row_at s 0).
    - now rewrite !map_length, seq_length.
    - intros j Hj. rewrite map_length, seq_length in Hj.
      rewrite (nth_indep _ _ (SamplesAlg.row_at X V dX dV
                                {| a_x := select idx (a_x X V s) dX; a_ll := oselect idx (a_ll X V s) dV;
                                   a_lp := oselect idx (a_lp X V s) dV; a_lq := oselect idx (a_lq X V s) dV;
                                   a_lw := oselect idx (a_lw X V s) dV; a_w := oselect idx (a_w X V s) dV;
                                   a_beta := a_beta X V s; a_le := a_le X V s; a_lee := a_lee X V s |} 0))
        by (now rewrite map_length, seq_length).
      rewrite map_nth, seq_nth by exact Hj. cbn [plus].
      rewrite (map_nth (row_at s) idx 0 j).
      unfold SamplesAlg.row_at. cbn [a_x a_ll a_lp a_lq a_lw a_w].
      rewrite select_nth by exact Hj. rewrite !orow_oselect by exact Hj. reflexivity.
  Qed.

  Lemma getitem_scalars i s :
    a_beta _ _ (getitem i s) = a_beta _ _ s /\ a_le _ _ (getitem i s) = a_le _ _ s /\ a_lee _ _ (getitem i s) = a_lee _ _ s.
  Proof. cbn. auto. Qed.

  Lemma getitem_wf i s : wf (getitem i s).
  Proof.
    unfold SamplesAlg.wf, SamplesAlg.getitem. cbn. rewrite select_length.
    repeat split; match goal with |- olen _ (oselect _ ?l _) _ => destruct l; unfold oselect, olen; cbn [option_map]; auto; apply select_length end.
  Qed.

  (* concatenating the pieces of a partition restores every per-sample field *)
  Lemma oselect_app idx1 idx2 (l : option (list V)) :
    oapp V (oselect idx1 l dV) (oselect idx2 l dV) = oselect (idx1 ++ idx2) l dV.
  Proof. destruct l; unfold oselect, oapp; cbn [option_map]; [now rewrite select_app| reflexivity]. Qed.

  Lemma concat2_getitem idx1 idx2 s :
    let r := concat2 X V (getitem (IList idx1) s) (getitem (IList idx2) s) in
    a_x _ _ r = a_x _ _ (getitem (IList (idx1 ++ idx2)) s)
    /\ a_ll _ _ r = a_ll _ _ (getitem (IList (idx1 ++ idx2)) s)
    /\ a_lp _ _ r = a_lp _ _ (getitem (IList (idx1 ++ idx2)) s)
    /\ a_lq _ _ r = a_lq _ _ (getitem (IList (idx1 ++ idx2)) s)
    /\ a_lw _ _ r = a_lw _ _ (getitem (IList (idx1 ++ idx2)) s)
    /\ a_w _ _ r = a_w _ _ (getitem (IList (idx1 ++ idx2)) s).
  Proof. cbn. rewrite select_app, !oselect_app. repeat split; reflexivity. Qed.

  Lemma oselect_all (l : option (list V)) n : olen V l n -> oselect (seq 0 n) l dV = l.
  Proof. destruct l as [v|]; unfold oselect, olen; cbn [option_map]; [intros <-; now rewrite select_seq_all| reflexivity]. Qed.

  Lemma getitem_all s : wf s ->
    let r := getitem (IList (seq 0 (length (a_x _ _ s)))) s in
    a_x _ _ r = a_x _ _ s /\ a_ll _ _ r = a_ll _ _ s /\ a_lp _ _ r = a_lp _ _ s /\ a_lq _ _ r = a_lq _ _ s
    /\ a_lw _ _ r = a_lw _ _ s /\ a_w _ _ r = a_w _ _ s.
  Proof.
    intros (H1 & H2 & H3 & H4 & H5). cbn. rewrite select_seq_all, !oselect_all by assumption. repeat split; reflexivity.
  Qed.

  (* concatenating ANY two aligned sets - also sets that carry different optional fields - gives an aligned set: a field is kept
     only when both have it, and then it has one entry per row *)
  (* the pieces of one set carry the same temperature / evidence, so their union carries them too *)
  Lemma concat2c_getitem_scalars (veqb : V -> V -> bool) idx1 idx2 s :
    (forall v, veqb v v = true) ->
    let r := concat2c X V veqb (getitem (IList idx1) s) (getitem (IList idx2) s) in
    a_beta _ _ r = a_beta _ _ s /\ a_le _ _ r = a_le _ _ s /\ a_lee _ _ r = a_lee _ _ s.
  Proof.
    intros Hrefl. cbn [concat2c getitem a_beta a_le a_lee]. unfold ocarry.
    repeat split; match goal with |- context [match ?o with _ => _ end] => destruct o as [v|]; [rewrite Hrefl|]; reflexivity end.
  Qed.

  Lemma concat2_wf a b : wf a -> wf b -> wf (concat2 X V a b).
  Proof.
    unfold SamplesAlg.wf. intros (A1 & A2 & A3 & A4 & A5) (B1 & B2 & B3 & B4 & B5). cbn [concat2 a_x a_ll a_lp a_lq a_lw a_w].
    rewrite app_length.
    repeat split;
      match goal with |- olen _ (oapp _ ?u ?v) _ => destruct u, v; unfold oapp, olen in *; auto; rewrite app_length; lia end.
  Qed.

  (* two consecutive slices [0,k) and [k,n) partition the rows *)
  Lemma partition2 s k : wf s -> k <= length (a_x _ _ s) ->
    let n := length (a_x _ _ s) in
    let r := concat2 X V (getitem (IList (seq 0 k)) s) (getitem (IList (seq k (n - k))) s) in
    a_x _ _ r = a_x _ _ s /\ a_ll _ _ r = a_ll _ _ s /\ a_lp _ _ r = a_lp _ _ s /\ a_lq _ _ r = a_lq _ _ s
    /\ a_lw _ _ r = a_lw _ _ s /\ a_w _ _ r = a_w _ _ s.
  Proof.
    intros Hwf Hk n r.
    destruct (concat2_getitem (seq 0 k) (seq k (n - k)) s) as (E1 & E2 & E3 & E4 & E5 & E6).
    assert (Hs : seq 0 k ++ seq k (n - k) = seq 0 n) by (rewrite <- seq_app; f_equal; unfold n; lia).
    rewrite Hs in E1, E2, E3, E4, E5, E6. destruct (getitem_all s Hwf) as (G1 & G2 & G3 & G4 & G5 & G6).
    fold n in G1, G2, G3, G4, G5, G6.
    unfold r. rewrite E1, E2, E3, E4, E5, E6, G1, G2, G3, G4, G5, G6. repeat split; reflexivity.
  Qed.

  (* any finite sequence of select / pickle / dict operations equals ONE selection of the source rows
     (refinement to the plain list-of-rows reference): all fields of a result row come from one source row *)
  Fixpoint compose_idx (ops : list (op)) (cur : list nat) : list nat :=
    match ops with
    | [] => cur
    | OGet i :: r => compose_idx r (select (idx_of (length cur) i) cur 0)
    | _ :: r => compose_idx r cur
    end.

  Fixpoint ops_valid (ops : list (op)) (n : nat) : Prop :=
    match ops with
    | [] => True
    | OGet i :: r => Forall (fun j => j < n) (idx_of n i) /\ ops_valid r (length (idx_of n i))
    | _ :: r => ops_valid r n
    end.

  Lemma rows_of_nth s j : j < length (a_x _ _ s) -> nth j (rows_of s) (row_at s 0) = row_at s j.
  Proof.
    intros Hj. unfold SamplesAlg.rows_of.
    rewrite (map_nth (row_at s) (seq 0 (length (a_x X V s))) 0 j). now rewrite seq_nth.
  Qed.

  Lemma ops_refine ops : forall s0 s cur,
    rows_of s = map (row_at s0) cur -> length (a_x _ _ s) = length cur -> ops_valid ops (length cur) ->
    rows_of (fold_left (fun st o => apply_op X V dX dV o st) ops s) = map (row_at s0) (compose_idx ops cur).
  Proof.
    induction ops as [|o ops IH]; intros s0 s cur Hrows Hlen Hv; [exact Hrows|].
    cbn [fold_left]. destruct o as [i| |]; cbn [apply_op pickle_roundtrip dict_roundtrip compose_idx ops_valid] in *.
    - destruct Hv as [Hin Hv]. apply IH.
      + rewrite getitem_rows. rewrite Hlen. unfold select. rewrite map_map. apply map_ext_in. intros j Hj.
        rewrite Forall_forall in Hin. specialize (Hin j Hj).
        rewrite <- (rows_of_nth s j) by (rewrite Hlen; exact Hin). rewrite Hrows.
        rewrite (nth_indep _ _ (row_at s0 0)) by (now rewrite map_length).
        apply (map_nth (row_at s0) cur 0 j).
      + cbn. rewrite !select_length. now rewrite Hlen.
      + rewrite select_length. exact Hv.
    - apply IH; auto.
    - apply IH; auto.
  Qed.

  Theorem ops_refine_top ops s :
    ops_valid ops (length (a_x _ _ s)) ->
    rows_of (fold_left (fun st o => apply_op X V dX dV o st) ops s)
    = map (row_at s) (compose_idx ops (seq 0 (length (a_x _ _ s)))).
  Proof.
    intros Hv. apply ops_refine; [reflexivity| now rewrite seq_length| now rewrite seq_length].
  Qed.
End Alg.

(* ---------- bridge: the generated __getitem__ of the three classes IS this selection ---------- *)
Lemma gen_getitem_is_select {X} (x : list X) ll lp lq idx dX :
  base_getitem_x x ll lp lq idx dX = select idx x dX
  /\ base_getitem_log_likelihood x ll lp lq idx dX = select idx ll 0%R
  /\ base_getitem_log_prior x ll lp lq idx dX = select idx lp 0%R
  /\ base_getitem_log_q x ll lp lq idx dX = select idx lq 0%R.
Proof. repeat split; reflexivity. Qed.

Lemma gen_smc_getitem {X} (x : list X) ll lp lq b le lee idx dX :
  smc_getitem_x x ll lp lq b le lee idx dX = select idx x dX
  /\ smc_getitem_log_likelihood x ll lp lq b le lee idx dX = select idx ll 0%R
  /\ smc_getitem_log_prior x ll lp lq b le lee idx dX = select idx lp 0%R
  /\ smc_getitem_log_q x ll lp lq b le lee idx dX = select idx lq 0%R
  /\ smc_getitem_beta x ll lp lq b le lee idx dX = b
  /\ smc_getitem_log_evidence x ll lp lq b le lee idx dX = le
  /\ smc_getitem_log_evidence_error x ll lp lq b le lee idx dX = lee.
Proof. repeat split; reflexivity. Qed.

(* a weightless set that carries an evidence (the final result of an SMC run: to_standard_samples) keeps it under selection *)
Lemma gen_samples_getitem_unweighted {X} (x : list X) ll lp le lee idx dX :
  samples_getitem_unweighted_x x ll lp le lee idx dX = select idx x dX
  /\ samples_getitem_unweighted_log_likelihood x ll lp le lee idx dX = select idx ll 0%R
  /\ samples_getitem_unweighted_log_prior x ll lp le lee idx dX = select idx lp 0%R
  /\ samples_getitem_unweighted_log_evidence x ll lp le lee idx dX = le
  /\ samples_getitem_unweighted_log_evidence_error x ll lp le lee idx dX = lee.
Proof. repeat split; reflexivity. Qed.

Lemma gen_samples_getitem {X} (x : list X) ll lp lq lw w le lee idx dX :
  samples_getitem_x x ll lp lq lw w le lee idx dX = select idx x dX
  /\ samples_getitem_log_likelihood x ll lp lq lw w le lee idx dX = select idx ll 0%R
  /\ samples_getitem_log_prior x ll lp lq lw w le lee idx dX = select idx lp 0%R
  /\ samples_getitem_log_q x ll lp lq lw w le lee idx dX = select idx lq 0%R
  /\ samples_getitem_log_w x ll lp lq lw w le lee idx dX = select idx lw 0%R
  /\ samples_getitem_weights x ll lp lq lw w le lee idx dX = select idx w 0%R
  /\ samples_getitem_log_evidence x ll lp lq lw w le lee idx dX = le        (* carried, not recomputed *)
  /\ samples_getitem_log_evidence_error x ll lp lq lw w le lee idx dX = lee.
Proof. repeat split; reflexivity. Qed.
