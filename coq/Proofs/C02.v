(* C02 — weights, evidence and ESS are exact functionals of the per-sample log-densities.
   All statements are about the GENERATED definitions in Gen/Kernels.v (translated from
   samples.py / utils.py on every run). *)
From Coq Require Import Reals List Bool Lra Lia Permutation.
From AV Require Import Lib.Vec Gen.Kernels.
Import ListNotations.
Open Scope R_scope.

(* ------------------------------------------------------------------ logsumexp *)
Lemma map_exp_pos l : Forall (fun t => 0 < t) (map exp l).
Proof. induction l; simpl; constructor; auto. apply exp_pos. Qed.

Lemma sum_exp_pos l : l <> [] -> 0 < vsum (map exp l).
Proof. intros H. apply vsum_pos; [destruct l; simpl; congruence| apply map_exp_pos]. Qed.

Lemma sum_exp_shift c l : vsum (map exp (map (fun t => t - c) l)) = vsum (map exp l) / exp c.
Proof.
  rewrite map_map. rewrite <- vsum_map_div. rewrite map_map. apply vsum_ext.
  intros t _. unfold Rminus, Rdiv. rewrite exp_plus, exp_Ropp. reflexivity.
Qed.

Lemma logsumexp_spec l : l <> [] -> exp (logsumexp l) = vsum (map exp l).
Proof.
  intros Hne. unfold logsumexp. cbv zeta.
  change (fun t_ : R => Rminus t_ (vmax l)) with (fun t : R => t - vmax l).
  rewrite exp_plus, sum_exp_shift, exp_ln.
  - field. pose proof (exp_pos (vmax l)); lra.
  - apply Rdiv_lt_0_compat; [apply sum_exp_pos; auto| apply exp_pos].
Qed.

Lemma logsumexp_ln l : l <> [] -> logsumexp l = ln (vsum (map exp l)).
Proof. intros H. rewrite <- (logsumexp_spec l H). now rewrite ln_exp. Qed.

Lemma logsumexp_perm a b : Permutation a b -> logsumexp a = logsumexp b.
Proof.
  intros P. unfold logsumexp. cbv zeta. rewrite (vmax_perm _ _ P).
  f_equal. f_equal. apply vsum_perm. do 2 apply Permutation_map. exact P.
Qed.

Lemma logsumexp_shift c l : l <> [] -> logsumexp (map (fun t => t + c) l) = logsumexp l + c.
Proof.
  intros Hne. rewrite !logsumexp_ln; auto; [|destruct l; simpl; congruence].
  rewrite map_map.
  replace (vsum (map (fun x => exp (x + c)) l)) with (exp c * vsum (map exp l)).
  - rewrite ln_mult; [rewrite ln_exp; lra| apply exp_pos| apply sum_exp_pos; auto].
  - rewrite <- vsum_map_mul, map_map. apply vsum_ext. intros; rewrite exp_plus; lra.
Qed.

(* exp arguments of logsumexp: all <= 0, and the maximal element gives exactly 0 *)
Lemma logsumexp_expargs_nonpos l : Forall (fun t => t <= 0) (logsumexp_expargs l).
Proof.
  unfold logsumexp_expargs. cbv zeta. apply Forall_forall. intros y Hy.
  apply in_map_iff in Hy as [t [<- Ht]]. pose proof (vmax_ge _ _ Ht). lra.
Qed.
Lemma logsumexp_expargs_zero l : l <> [] -> In 0 (logsumexp_expargs l).
Proof.
  intros Hne. unfold logsumexp_expargs. cbv zeta. apply in_map_iff.
  exists (vmax l). split; [lra| apply vmax_in; auto].
Qed.

(* ------------------------------------------------------------------ ESS *)
Definition ess_of (w : list R) : R := (vsum w * vsum w) / vsum (map (fun t => t * t) w).

Lemma map_exp_double l : map exp (map (fun t => t * 2) l) = map (fun t => t * t) (map exp l).
Proof.
  rewrite !map_map. apply map_ext. intros t. replace (t * 2) with (t + t) by lra. apply exp_plus.
Qed.

Lemma sum_sq_pos w : w <> [] -> Forall (fun t => 0 < t) w -> 0 < vsum (map (fun t => t * t) w).
Proof.
  intros Hne H. apply vsum_pos; [destruct w; simpl; congruence|].
  apply Forall_forall. intros y Hy. apply in_map_iff in Hy as [t [<- Ht]].
  rewrite Forall_forall in H. specialize (H _ Ht). nra.
Qed.

Lemma ess_expr_spec l : l <> [] ->
  exp (logsumexp l * 2 - logsumexp (map (fun t => t * 2) l)) = ess_of (map exp l).
Proof.
  intros Hne. assert (Hne2 : map (fun t => t * 2) l <> []) by (destruct l; simpl; congruence).
  rewrite (logsumexp_ln l Hne), (logsumexp_ln _ Hne2), map_exp_double.
  set (A := vsum (map exp l)). set (B := vsum (map (fun t => t * t) (map exp l))).
  assert (HA : 0 < A) by (apply sum_exp_pos; auto).
  assert (HB : 0 < B).
  { apply sum_sq_pos; [destruct l; simpl; congruence| apply map_exp_pos]. }
  unfold ess_of. fold A B. unfold Rminus. rewrite exp_plus, exp_Ropp.
  replace (ln A * 2) with (ln A + ln A) by lra. rewrite exp_plus, !exp_ln; auto.
Qed.

(* the expression both the helper and compute_weights evaluate on max-shifted log-weights *)
Definition ess_expr (l : list R) : R := exp (logsumexp l * 2 - logsumexp (map (fun t => t * 2) l)).

Lemma ess_expr_spec' l : l <> [] -> ess_expr l = ess_of (map exp l).
Proof. intros H. unfold ess_expr. apply ess_expr_spec; auto. Qed.

Lemma effective_sample_size_fn l : effective_sample_size l = ess_expr (map (fun t => t - vmax l) l).
Proof. reflexivity. Qed.

Lemma ess_of_bounds w : w <> [] -> Forall (fun t => 0 < t) w -> 1 <= ess_of w <= vlen w.
Proof.
  intros Hne Hpos. unfold ess_of.
  assert (HB : 0 < vsum (map (fun t => t * t) w)) by (apply sum_sq_pos; auto).
  assert (Hnn : Forall (fun t => 0 <= t) w) by (eapply Forall_impl; [|exact Hpos]; simpl; intros; lra).
  pose proof (sum_sq_le_sq_sum w Hnn) as H1. pose proof (sq_sum_le_len_sum_sq w) as H2.
  split.
  - apply Rmult_le_reg_r with (vsum (map (fun t => t * t) w)); auto.
    unfold Rdiv. rewrite Rmult_assoc, Rinv_l; lra.
  - apply Rmult_le_reg_r with (vsum (map (fun t => t * t) w)); auto.
    unfold Rdiv. rewrite Rmult_assoc, Rinv_l; lra.
Qed.

Lemma ess_of_scale c w : c <> 0 -> vsum (map (fun t => t * t) w) <> 0 ->
  ess_of (map (fun t => t * c) w) = ess_of w.
Proof.
  intros Hc HB. unfold ess_of. rewrite map_map, !vsum_map_mul_r.
  replace (vsum (map (fun x => x * c * (x * c)) w)) with (vsum (map (fun t => t * t) w) * (c * c)).
  - field. split; auto.
  - rewrite <- vsum_map_mul_r, map_map. apply vsum_ext. intros; ring.
Qed.

Lemma ess_of_perm a b : Permutation a b -> ess_of a = ess_of b.
Proof.
  intros P. unfold ess_of. rewrite (vsum_perm _ _ P).
  rewrite (vsum_perm _ _ (Permutation_map (fun t => t * t) P)). reflexivity.
Qed.

Lemma map_exp_shift c l : map exp (map (fun t => t - c) l) = map (fun t => t * exp (- c)) (map exp l).
Proof. rewrite !map_map. apply map_ext. intros; unfold Rminus; now rewrite exp_plus. Qed.

Lemma ess_expr_shift c l : l <> [] -> ess_expr (map (fun t => t - c) l) = ess_of (map exp l).
Proof.
  intros Hne. rewrite ess_expr_spec' by (destruct l; simpl; congruence).
  rewrite map_exp_shift. apply ess_of_scale.
  - pose proof (exp_pos (- c)); lra.
  - assert (0 < vsum (map (fun t => t * t) (map exp l))); [| lra].
    apply sum_sq_pos; [destruct l; simpl; congruence| apply map_exp_pos].
Qed.

(* utils.effective_sample_size (shifts by the maximum itself since repair F34) *)
Lemma effective_sample_size_spec l : l <> [] -> effective_sample_size l = ess_of (map exp l).
Proof. intros H. rewrite effective_sample_size_fn. now apply ess_expr_shift. Qed.

(* ------------------------------------------------------------------ compute_weights *)
Lemma cw_log_evidence_fn {X} (x : list X) ll lp lq :
  compute_weights_log_evidence x ll lp lq = logsumexp (compute_weights_log_w x ll lp lq) - ln (vlen x).
Proof. reflexivity. Qed.

Lemma cw_ess_fn {X} (x : list X) ll lp lq :
  compute_weights_ess x ll lp lq =
  let lw := compute_weights_log_w x ll lp lq in
  ess_expr (map (fun t => t - vmax lw) lw).
Proof. reflexivity. Qed.

Section CW.
  Context {X : Type}.
  Variables (x : list X) (ll lp lq : list R).
  Hypothesis Hne : ll <> [].
  Hypothesis Hx : length x = length ll.
  Hypothesis Hp : length lp = length ll.
  Hypothesis Hq : length lq = length ll.

  Let lw := compute_weights_log_w x ll lp lq.

  Lemma lw_length : length lw = length ll.
  Proof. unfold lw, compute_weights_log_w. cbv zeta. rewrite !vmap2_length. lia. Qed.

  Lemma lw_ne : lw <> [].
  Proof. intro E. pose proof lw_length as H. rewrite E in H. destruct ll; simpl in *; congruence. Qed.

  Lemma cw_log_w_nth i : (i < length ll)%nat ->
    nth i lw 0 = nth i ll 0 + nth i lp 0 - nth i lq 0.
  Proof.
    intros Hi. unfold lw, compute_weights_log_w. cbv zeta.
    rewrite (vmap2_nth Rminus _ _ i 0 0 0); [| rewrite vmap2_length; lia | lia].
    rewrite (vmap2_nth Rplus _ _ i 0 0 0); [reflexivity | lia | lia].
  Qed.

  Lemma cw_weights : compute_weights_weights x ll lp lq = map exp lw.
  Proof. reflexivity. Qed.

  Lemma cw_log_evidence : exp (compute_weights_log_evidence x ll lp lq) = vsum (map exp lw) / vlen ll.
  Proof.
    rewrite cw_log_evidence_fn. fold lw.
    unfold Rminus. rewrite exp_plus, exp_Ropp, (logsumexp_spec lw lw_ne).
    rewrite exp_ln; [unfold vlen; rewrite Hx; reflexivity|].
    apply vlen_pos. intro E; subst x; simpl in Hx. destruct ll; simpl in *; congruence.
  Qed.

  Lemma cw_log_evidence_eq :
    compute_weights_log_evidence x ll lp lq = ln (vsum (map exp lw) / vlen ll).
  Proof. rewrite <- cw_log_evidence. now rewrite ln_exp. Qed.

  Lemma cw_evidence : compute_weights_evidence x ll lp lq = vsum (map exp lw) / vlen ll.
  Proof. unfold compute_weights_evidence. cbv zeta. apply cw_log_evidence. Qed.

  Lemma cw_ess : compute_weights_ess x ll lp lq = ess_of (map exp lw).
  Proof.
    rewrite cw_ess_fn. fold lw. cbv zeta. apply ess_expr_shift. exact lw_ne.
  Qed.

  Lemma cw_ess_bounds : 1 <= compute_weights_ess x ll lp lq <= vlen ll.
  Proof.
    rewrite cw_ess.
    replace (vlen ll) with (vlen (map exp lw)) by (unfold vlen; now rewrite map_length, lw_length).
    apply ess_of_bounds; [pose proof lw_ne; destruct lw; simpl; congruence| apply map_exp_pos].
  Qed.
End CW.

(* rows as triples, so that "permuting the samples" is one Permutation of rows *)
Definition row_ll (rows : list (R * R * R)) := map (fun r => fst (fst r)) rows.
Definition row_lp (rows : list (R * R * R)) := map (fun r => snd (fst r)) rows.
Definition row_lq (rows : list (R * R * R)) := map (fun r => snd r) rows.
Definition row_lw (rows : list (R * R * R)) := map (fun r => fst (fst r) + snd (fst r) - snd r) rows.

Lemma cw_log_w_rows {X} (x : list X) rows :
  compute_weights_log_w x (row_ll rows) (row_lp rows) (row_lq rows) = row_lw rows.
Proof.
  unfold compute_weights_log_w, row_ll, row_lp, row_lq, row_lw. cbv zeta.
  induction rows as [|[[a b] c] rows IH]; simpl; auto. now rewrite IH.
Qed.

Lemma cw_perm {X} (x x' : list X) rows rows' :
  Permutation rows rows' -> length x = length x' ->
  compute_weights_log_evidence x (row_ll rows) (row_lp rows) (row_lq rows)
  = compute_weights_log_evidence x' (row_ll rows') (row_lp rows') (row_lq rows')
  /\ compute_weights_ess x (row_ll rows) (row_lp rows) (row_lq rows)
  = compute_weights_ess x' (row_ll rows') (row_lp rows') (row_lq rows')
  /\ Permutation (compute_weights_log_w x (row_ll rows) (row_lp rows) (row_lq rows))
                 (compute_weights_log_w x' (row_ll rows') (row_lp rows') (row_lq rows')).
Proof.
  intros P Hlen.
  assert (PW : Permutation (row_lw rows) (row_lw rows')) by (apply Permutation_map; exact P).
  rewrite !cw_log_evidence_fn, !cw_ess_fn, !cw_log_w_rows. cbv zeta.
  split; [|split].
  - rewrite (logsumexp_perm _ _ PW). unfold vlen. now rewrite Hlen.
  - unfold ess_expr. rewrite (vmax_perm _ _ PW).
    assert (P2 : Permutation (map (fun t => t - vmax (row_lw rows')) (row_lw rows))
                             (map (fun t => t - vmax (row_lw rows')) (row_lw rows')))
      by (apply Permutation_map; exact PW).
    rewrite (logsumexp_perm _ _ P2).
    rewrite (logsumexp_perm _ _ (Permutation_map (fun t_ => Rmult t_ 2) P2)). reflexivity.
  - exact PW.
Qed.

Lemma cw_shift {X} (x : list X) rows c : rows <> [] -> length x = length rows ->
  let rows' := map (fun r => (fst (fst r) + c, snd (fst r), snd r)) rows in
  compute_weights_log_evidence x (row_ll rows') (row_lp rows') (row_lq rows')
  = compute_weights_log_evidence x (row_ll rows) (row_lp rows) (row_lq rows) + c
  /\ compute_weights_ess x (row_ll rows') (row_lp rows') (row_lq rows')
  = compute_weights_ess x (row_ll rows) (row_lp rows) (row_lq rows).
Proof.
  intros Hne Hlen rows'.
  assert (Hlw : row_lw rows' = map (fun t => t + c) (row_lw rows)).
  { unfold rows', row_lw. rewrite !map_map. apply map_ext. intros [[a b] d]; simpl; lra. }
  assert (Hne2 : row_lw rows <> []) by (unfold row_lw; destruct rows; simpl; congruence).
  rewrite !cw_log_evidence_fn, !cw_ess_fn, !cw_log_w_rows, Hlw. cbv zeta. split.
  - rewrite logsumexp_shift; auto. lra.
  - rewrite vmax_map_add; auto. rewrite map_map. f_equal. apply map_ext. intros; lra.
Qed.

(* ------------------------------------------------------------------ relative evidence error *)
(* The mathematical quantity: standard error of the mean weight divided by the mean weight. *)
Definition rel_err (w : list R) : R :=
  let n := vlen w in let z := vsum w / n in
  sqrt (vsum (map (fun t => (t - z) * (t - z)) w) / (n * (n - 1))) / z.

Lemma rel_err_scale c w : 0 < c -> w <> [] -> 0 < vsum w -> 1 < vlen w ->
  rel_err (map (fun t => t * c) w) = rel_err w.
Proof.
  intros Hc Hne Hs Hn. unfold rel_err. cbv zeta. rewrite vlen_map, vsum_map_mul_r.
  set (n := vlen w) in *. set (z := vsum w / n).
  assert (Hn0 : 0 < n) by lra.
  replace (vsum w * c / n) with (z * c) by (unfold z; field; lra).
  rewrite map_map.
  replace (vsum (map (fun x => (x * c - z * c) * (x * c - z * c)) w))
    with (vsum (map (fun t => (t - z) * (t - z)) w) * (c * c)).
  2:{ rewrite <- vsum_map_mul_r, map_map. apply vsum_ext; intros; ring. }
  set (Q := vsum (map (fun t => (t - z) * (t - z)) w)).
  assert (HQ : 0 <= Q).
  { unfold Q. apply vsum_nonneg. apply Forall_forall. intros y Hy.
    apply in_map_iff in Hy as [t [<- _]]. pose proof (Rle_0_sqr (t - z)) as Hsq; unfold Rsqr in Hsq; lra. }
  replace (Q * (c * c) / (n * (n - 1))) with ((Q / (n * (n - 1))) * (c * c)) by (field; split; lra).
  rewrite sqrt_mult_alt.
  2:{ apply Rmult_le_pos; [lra|]. apply Rlt_le, Rinv_0_lt_compat. nra. }
  replace (sqrt (c * c)) with c by (rewrite sqrt_square; lra).
  assert (0 < z) by (unfold z; apply Rdiv_lt_0_compat; lra).
  field. split; lra.
Qed.

(* ------------------------------------------------------------------ rejection rule *)
Lemma rejection_accept_nth lw u i : (i < length lw)%nat -> (i < length u)%nat -> 0 < nth i u 1 ->
  nth i (rejection_accept lw u) false = true <-> nth i u 1 < exp (nth i lw 0) / exp (vmax lw).
Proof.
  intros Hi Hu Hpos. unfold rejection_accept. cbv zeta.
  rewrite (vmap2_nth Rgtb _ _ i 0 0 false); [| now rewrite map_length | now rewrite map_length].
  rewrite Rgtb_true.
  rewrite (map_nth' _ lw i 0 0) by auto. rewrite (map_nth' ln u i 0 1) by auto.
  replace (exp (nth i lw 0) / exp (vmax lw)) with (exp (nth i lw 0 - vmax lw))
    by (unfold Rminus, Rdiv; now rewrite exp_plus, exp_Ropp).
  split; intros H.
  - apply ln_lt_inv; auto; [apply exp_pos|]. rewrite ln_exp. lra.
  - apply ln_increasing in H; auto. rewrite ln_exp in H. lra.
Qed.

Ltac use L H := pose proof L as H;
  repeat match type of H with ?A -> _ => specialize (H ltac:(assumption)) end.

(* ------------------------------------------------------------------ relative error of the generated code *)
Section CWerr.
  Context {X : Type}.
  Variables (x : list X) (ll lp lq : list R).
  Hypothesis Hx : length x = length ll.
  Hypothesis Hp : length lp = length ll.
  Hypothesis Hq : length lq = length ll.
  Hypothesis Hn : (2 <= length ll)%nat.

  Let lw := compute_weights_log_w x ll lp lq.

  Lemma Hne' : ll <> [].
  Proof. destruct ll; simpl in *; [lia| congruence]. Qed.

  Lemma cw_log_evidence_error :
    compute_weights_log_evidence_error x ll lp lq = rel_err (map exp lw).
  Proof.
    pose proof Hne' as Hne.
    use (lw_length x ll lp lq) Hlen. fold lw in Hlen.
    use (lw_ne x ll lp lq) Hlne. fold lw in Hlne.
    unfold compute_weights_log_evidence_error. cbv zeta.
    change (vmap2 Rminus (vmap2 Rplus ll lp) lq) with lw.
    change (fun t_ : R => Rminus t_ (vmax lw)) with (fun t : R => t - vmax lw).
    rewrite map_exp_shift.
    set (c := exp (- vmax lw)). assert (Hc : 0 < c) by apply exp_pos.
    rewrite <- (rel_err_scale c (map exp lw) Hc).
    - unfold rel_err. cbv zeta. unfold vmean.
      assert (Hv : vlen (map (fun t => t * c) (map exp lw)) = vlen x).
      { unfold vlen. rewrite !map_length, Hlen, Hx. reflexivity. }
      rewrite Hv. f_equal. f_equal.
      assert (Hvx : 2 <= vlen x).
      { unfold vlen. rewrite Hx. change 2 with (INR 2). apply le_INR. exact Hn. }
      (* S / n / (n - 1) in the source (two divisions: n (n - 1) would overflow int32 for n > 46341, repair F40) *)
      rewrite map_map.
      match goal with |- ?A / _ / _ = ?B / _ =>
        replace A with B; [field; lra|] end.
      f_equal. apply map_ext. intros; simpl; ring.
    - destruct lw; simpl; congruence.
    - apply sum_exp_pos; auto.
    - unfold vlen. rewrite map_length, Hlen. change 1 with (INR 1). apply lt_INR. lia.
  Qed.
End CWerr.

(* ------------------------------------------------------------------ no overflow *)
(* every argument handed to exp() on the way to log_evidence, to the relative error and to the ESS is
   bounded above by ln N (and by 0 for everything but the final ESS exponent), and each logsumexp
   sees the exponent 0 at least once, so its sum is >= 1. *)
Lemma Forall_app_intro {A} (P : A -> Prop) a b : Forall P a -> Forall P b -> Forall P (a ++ b).
Proof. intros; apply Forall_app; split; auto. Qed.

Lemma Forall_le_weaken (l : list R) b : 0 <= b -> Forall (fun t => t <= 0) l -> Forall (fun t => t <= b) l.
Proof. intros Hb H. eapply Forall_impl; [|exact H]. simpl; intros; lra. Qed.

Section NoOverflow.
  Context {X : Type}.
  Variables (x : list X) (ll lp lq : list R).
  Hypothesis Hne : ll <> [].
  Hypothesis Hx : length x = length ll.
  Hypothesis Hp : length lp = length ll.
  Hypothesis Hq : length lq = length ll.

  Lemma no_overflow_log_evidence :
    Forall (fun t => t <= 0) (compute_weights_log_evidence_expargs x ll lp lq)
    /\ In 0 (compute_weights_log_evidence_expargs x ll lp lq).
  Proof.
    unfold compute_weights_log_evidence_expargs. cbv zeta. split.
    - apply logsumexp_expargs_nonpos.
    - apply logsumexp_expargs_zero. use (lw_ne x ll lp lq) Hl. exact Hl.
  Qed.

  Lemma no_overflow_log_evidence_error :
    Forall (fun t => t <= 0) (compute_weights_log_evidence_error_expargs x ll lp lq)
    /\ In 0 (compute_weights_log_evidence_error_expargs x ll lp lq).
  Proof.
    unfold compute_weights_log_evidence_error_expargs. cbv zeta.
    change (map (fun t_ : R => Rminus t_ (vmax (vmap2 Rminus (vmap2 Rplus ll lp) lq)))
                (vmap2 Rminus (vmap2 Rplus ll lp) lq))
      with (logsumexp_expargs (vmap2 Rminus (vmap2 Rplus ll lp) lq)).
    split; [apply logsumexp_expargs_nonpos| apply logsumexp_expargs_zero].
    use (lw_ne x ll lp lq) Hl. exact Hl.
  Qed.

  (* Proved element-wise (membership in the concatenation), so the statement does not depend on the ORDER in which the source
     evaluates its exponentials, nor on how it names the intermediate values. *)
  Lemma no_overflow_ess :
    Forall (fun t => t <= ln (vlen ll)) (compute_weights_ess_expargs x ll lp lq).
  Proof.
    assert (Hln : 0 <= ln (vlen ll)).
    { rewrite <- ln_1. destruct (Rle_lt_or_eq_dec _ _ (vlen_ge1 ll Hne)) as [Hlt|Heq].
      - left. apply ln_increasing; lra. - rewrite <- Heq. lra. }
    unfold compute_weights_ess_expargs. cbv zeta.
    set (lw := vmap2 Rminus (vmap2 Rplus ll lp) lq).
    set (lw' := map (fun t_ => Rminus t_ (vmax lw)) lw).
    set (e := Rminus (Rmult (logsumexp lw') 2) (logsumexp (map (fun t_ => Rmult t_ 2) lw'))).
    assert (He : e <= ln (vlen ll)).
    { use (cw_ess_bounds x ll lp lq) Hb. destruct Hb as [_ Hub].
      rewrite cw_ess_fn in Hub. cbv zeta in Hub. unfold ess_expr in Hub.
      change (compute_weights_log_w x ll lp lq) with lw in Hub.
      change (map (fun t => t - vmax lw) lw) with lw' in Hub. fold e in Hub.
      rewrite <- (ln_exp e). destruct (Rle_lt_or_eq_dec _ _ Hub) as [Hlt|Heq].
      - left. apply ln_increasing; [apply exp_pos| exact Hlt].
      - rewrite Heq. lra. }
    apply Forall_forall. intros t Ht.
    repeat (apply in_app_or in Ht; destruct Ht as [Ht|Ht]);
      try (destruct Ht as [<-|[]]; exact He);
      try (pose proof (logsumexp_expargs_nonpos lw') as Hnp; rewrite Forall_forall in Hnp; specialize (Hnp t Ht); lra);
      try (pose proof (logsumexp_expargs_nonpos (map (fun t_ => Rmult t_ 2) lw')) as Hnp; rewrite Forall_forall in Hnp; specialize (Hnp t Ht); lra).
  Qed.
End NoOverflow.

Lemma scaled_weights_expargs_nonpos lw : Forall (fun t => t <= 0) (scaled_weights_expargs lw).
Proof. apply logsumexp_expargs_nonpos. Qed.

Lemma scaled_weights_nth lw i : (i < length lw)%nat ->
  nth i (scaled_weights lw) 0 = exp (nth i lw 0) / exp (vmax lw).
Proof.
  intros Hi. unfold scaled_weights. rewrite (map_nth' exp _ i 0 0) by (now rewrite map_length).
  rewrite (map_nth' _ lw i 0 0) by auto. unfold Rminus, Rdiv. now rewrite exp_plus, exp_Ropp.
Qed.
