(* binary64: a positive tolerance below the spacing of the floats around the bracket.  Before repair F58 the bisection
   `while beta_max - beta_min > beta_tolerance` never exited on a bracket of adjacent floats (the midpoint rounds onto an end);
   with the exit `if not (beta_min < beta_try < beta_max): break` it stops at once and returns the bracket. *)
From Coq Require Import List Bool Arith ZArith PrimFloat Uint63 Lia.
From AV Require Import Lib.Num Model.SMC.
Import ListNotations.

Section Stall.
  Variables (P : Type) (effq : P -> float -> float).
  Definition b_lo : float := 0.5%float.
  Definition b_hi : float := Eval vm_compute in PrimFloat.next_up 0.5%float.
  Definition tiny_tol : float := 0x1.70ef54646d497p-57%float.   (* the binary64 number nearest 1e-17 *)

  (* the loop condition holds (the bracket is wider than the tolerance) and the midpoint is the lower end *)
  Lemma stall_step_facts :
    gtb NumF (sub NumF b_hi b_lo) tiny_tol = true /\ mul NumF (half NumF) (add NumF b_hi b_lo) = b_lo
    /\ ltb NumF b_lo b_lo = false.
  Proof. repeat split; vm_compute; reflexivity. Qed.

  Theorem bisect_stops_on_adjacent_floats (p : P) (target : float) fuel trace :
    bisect NumF P effq (S fuel) p target b_lo b_hi tiny_tol trace = Some (b_lo, b_hi, trace).
  Proof.
    cbn [bisect]. destruct stall_step_facts as (H1 & H2 & H3). rewrite H1, H2, H3. reflexivity.
  Qed.
End Stall.
