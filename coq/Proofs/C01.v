(* C01 — estimator identities behind "the evidence estimate is unbiased" and "the tempering path
   telescopes", on finite spaces / finite sequences (no measure theory is available). *)
From Coq Require Import Reals List Bool Lra Lia.
From AV Require Import Lib.Vec.
Import ListNotations.
Open Scope R_scope.

(* expectation of f under a distribution given as a list of (point, probability) *)
Definition expect {A} (q : list (A * R)) (f : A -> R) : R := vsum (map (fun xp => snd xp * f (fst xp)) q).

Lemma expect_const {A} (q : list (A * R)) c : vsum (map snd q) = 1 -> expect q (fun _ => c) = c.
Proof.
  intros H. unfold expect.
  replace (map (fun xp : A * R => snd xp * c) q) with (map (fun t => t * c) (map snd q)) by (now rewrite map_map).
  rewrite vsum_map_mul_r, H. lra.
Qed.

Lemma expect_plus {A} (q : list (A * R)) f g : expect q (fun x => f x + g x) = expect q f + expect q g.
Proof.
  unfold expect. induction q as [|[x p] q IH]; cbn [map]; [unfold vsum; simpl; lra|].
  rewrite !vsum_cons, IH. cbn. lra.
Qed.

Lemma expect_scale {A} (q : list (A * R)) c f : expect q (fun x => c * f x) = c * expect q f.
Proof.
  unfold expect. induction q as [|[x p] q IH]; cbn [map]; [unfold vsum; simpl; lra|].
  rewrite !vsum_cons, IH. cbn. lra.
Qed.

Lemma vsum_map_ext {A} (f g : A -> R) (l : list A) : (forall a, In a l -> f a = g a) -> vsum (map f l) = vsum (map g l).
Proof.
  induction l as [|a l IH]; intros H; [reflexivity|]. cbn [map]. rewrite !vsum_cons, (H a) by (left; auto).
  rewrite IH; auto. intros; apply H; right; auto.
Qed.

(* importance weight identity: E_q[ target/q ] = sum of the target, wherever q > 0 on the support *)
Lemma weight_expectation {A} (pts : list (A * R)) (target : A -> R) :
  Forall (fun xp => snd xp <> 0) pts ->
  vsum (map (fun xp => snd xp * (target (fst xp) / snd xp)) pts) = vsum (map (fun xp => target (fst xp)) pts).
Proof.
  intros H. induction pts as [|[x p] r IH]; [reflexivity|]. inversion H; subst. cbn [map]. rewrite !vsum_cons, IH by assumption.
  cbn in *. field. assumption.
Qed.

(* expectation over n i.i.d. draws: E_n f = sum_x q(x) E_{n-1} (f o (x ::)) *)
Fixpoint expect_n {A} (q : list (A * R)) (n : nat) (f : list A -> R) : R :=
  match n with
  | O => f []
  | S m => expect q (fun x => expect_n q m (fun l => f (x :: l)))
  end.

Lemma expect_n_const {A} (q : list (A * R)) n c : vsum (map snd q) = 1 -> expect_n q n (fun _ => c) = c.
Proof. intros H. induction n; cbn; auto. rewrite (expect_const q); auto. Qed.

Lemma expect_n_ext {A} (q : list (A * R)) n f g : (forall l, f l = g l) -> expect_n q n f = expect_n q n g.
Proof.
  revert f g; induction n as [|n IH]; intros f g H; cbn; auto.
  unfold expect. apply vsum_map_ext. intros [x p] _. cbn. f_equal. apply IH. intros; apply H.
Qed.

Lemma expect_n_plus {A} (q : list (A * R)) n f g :
  expect_n q n (fun l => f l + g l) = expect_n q n f + expect_n q n g.
Proof.
  revert f g; induction n as [|n IH]; intros f g; cbn; auto.
  rewrite <- expect_plus. unfold expect. apply vsum_map_ext. intros [x p] _. cbn. f_equal. apply IH.
Qed.

Lemma expect_n_scale {A} (q : list (A * R)) n c f : expect_n q n (fun l => c * f l) = c * expect_n q n f.
Proof.
  revert f; induction n as [|n IH]; intros f; cbn; auto.
  rewrite <- expect_scale. unfold expect. apply vsum_map_ext. intros [x p] _. cbn. f_equal. apply IH.
Qed.

(* E_n [ sum_i w(x_i) ] = n E[w] *)
Lemma expect_n_sum {A} (q : list (A * R)) (w : A -> R) n : vsum (map snd q) = 1 ->
  expect_n q n (fun l => vsum (map w l)) = INR n * expect q w.
Proof.
  intros H. induction n as [|n IH].
  - cbn. unfold vsum; simpl. lra.
  - cbn [expect_n].
    replace (expect q (fun x => expect_n q n (fun l => vsum (map w (x :: l)))))
      with (expect q (fun x => w x + INR n * expect q w)).
    + rewrite expect_plus, (expect_const q _ H), S_INR. lra.
    + unfold expect. apply vsum_map_ext. intros [x p] _. cbn [fst snd]. f_equal.
      transitivity (expect_n q n (fun l => w x + vsum (map w l))).
      * rewrite expect_n_plus, (expect_n_const q n (w x) H), IH. reflexivity.
      * apply expect_n_ext. intros l. cbn [map]. now rewrite vsum_cons.
Qed.

(* the importance-sampling evidence estimate (mean weight of n i.i.d. proposal draws) is unbiased *)
Theorem evidence_unbiased {A} (q : list (A * R)) (target : A -> R) (n : nat) :
  vsum (map snd q) = 1 -> Forall (fun xp => snd xp <> 0) q -> (0 < n)%nat ->
  forall (w : A -> R), (forall xp, In xp q -> w (fst xp) = target (fst xp) / snd xp) ->
  expect_n q n (fun l => vsum (map w l) / INR n) = vsum (map (fun xp => target (fst xp)) q).
Proof.
  intros Hs Hq Hn w Hw.
  replace (fun l : list A => vsum (map w l) / INR n) with (fun l : list A => / INR n * vsum (map w l)).
  2:{ apply FunctionalExtensionality.functional_extensionality. intros. unfold Rdiv. ring. }
  rewrite expect_n_scale, expect_n_sum by assumption.
  assert (Hn0 : INR n <> 0) by (apply not_0_INR; lia).
  replace (/ INR n * (INR n * expect q w)) with (expect q w) by (field; assumption).
  unfold expect. rewrite <- (weight_expectation q target Hq). apply vsum_map_ext. intros xp Hin. rewrite (Hw xp Hin). reflexivity.
Qed.

(* the initial SMC population as draw_initial_samples builds it: proposal draws that fall outside the prior support S are
   rejected and redrawn, so the particles follow q restricted to S (density q/P, P = q(S)), but their weights keep the
   UNRESTRICTED log q.  The mean weight then has expectation (sum over S of target) / P: too large by 1/P whenever the
   proposal leaks (finding F55) *)
Theorem truncated_population_weight_mean {A} (q : list (A * R)) (target w : A -> R) (inS : A -> bool) :
  let qS := filter (fun xp => inS (fst xp)) q in
  let P := vsum (map snd qS) in
  Forall (fun xp => snd xp <> 0) q -> P <> 0 ->
  (forall xp, In xp q -> w (fst xp) = target (fst xp) / snd xp) ->
  expect (map (fun xp => (fst xp, snd xp / P)) qS) w = vsum (map (fun xp => target (fst xp)) qS) / P.
Proof.
  intros qS P Hnz HP Hw. unfold expect. rewrite map_map. cbn [fst snd].
  rewrite <- vsum_map_div, map_map. apply vsum_map_ext. intros [x p] Hin. cbn [fst snd].
  unfold qS in Hin. apply filter_In in Hin as [Hin _].
  pose proof (Hw (x, p) Hin) as E. cbn [fst snd] in E. rewrite E.
  rewrite Forall_forall in Hnz. specialize (Hnz _ Hin). cbn in Hnz. field. split; assumption.
Qed.

Theorem truncated_population_biased :
  exists (q : list (nat * R)) (target w : nat -> R) (inS : nat -> bool),
    vsum (map snd q) = 1 /\ (forall xp, In xp q -> w (fst xp) = target (fst xp) / snd xp)
    /\ (forall xp, In xp q -> inS (fst xp) = false -> target (fst xp) = 0)
    /\ let qS := filter (fun xp => inS (fst xp)) q in
       expect (map (fun xp => (fst xp, snd xp / vsum (map snd qS))) qS) w <> vsum (map (fun xp => target (fst xp)) q).
Proof.
  exists [(0%nat, 1 / 2); (1%nat, 1 / 2)], (fun x => if Nat.eqb x 0 then 1 / 4 else 0),
         (fun x => if Nat.eqb x 0 then 1 / 2 else 0), (fun x => Nat.eqb x 0).
  split; [unfold vsum; simpl; lra|]. split.
  - intros xp [E|[E|[]]]; subst; simpl; lra.
  - split.
    + intros xp [E|[E|[]]]; subst; simpl; intros; try discriminate; reflexivity.
    + unfold expect, vsum. simpl. lra.
Qed.

Lemma last_indep' {A} (l : list A) d1 d2 : l <> [] -> last l d1 = last l d2.
Proof.
  induction l as [|x l IH]; [congruence|]. intros _. destruct l as [|y l]; [reflexivity|].
  change (last (x :: y :: l) d1) with (last (y :: l) d1). change (last (x :: y :: l) d2) with (last (y :: l) d2). apply IH. discriminate.
Qed.

(* the tempering path telescopes: the recorded log-ratios of ANY temperature ladder sum to ln Z_T - ln Z_0 *)
Lemma telescope (z0 : R) (zs : list R) :
  fold_right Rplus 0 (map (fun ab => ln (snd ab) - ln (fst ab)) (combine (z0 :: zs) zs)) = ln (last zs z0) - ln z0.
Proof.
  revert z0; induction zs as [|z zs IH]; intros z0; [cbn; lra|].
  change (combine (z0 :: z :: zs) (z :: zs)) with ((z0, z) :: combine (z :: zs) zs).
  cbn [map fold_right fst snd]. rewrite IH.
  destruct zs as [|z' zs].
  - cbn. lra.
  - change (last (z :: z' :: zs) z0) with (last (z' :: zs) z0). rewrite (last_indep' (z' :: zs) z z0) by discriminate. lra.
Qed.

(* ---- the SMC incremental weight: under the tempered distribution at b0, the mean incremental weight
        exp((b1-b0)(log L + log pi - log q)) is Z_{b1}/Z_{b0}  (finite space) ---- *)
Section Tempered.
  Context {A : Type}.
  Variables (pts : list A) (lq lt : A -> R).     (* log proposal density, log (likelihood x prior) *)
  Hypothesis Hne : pts <> [].

  Definition gam (b : R) (x : A) : R := exp ((1 - b) * lq x + b * lt x).
  Definition Zb (b : R) : R := vsum (map (gam b) pts).
  Definition pb (b : R) : list (A * R) := map (fun x => (x, gam b x / Zb b)) pts.

  Lemma Zb_pos b : 0 < Zb b.
  Proof.
    unfold Zb. apply vsum_pos.
    - destruct pts; [congruence|discriminate].
    - apply Forall_forall. intros t Ht. apply in_map_iff in Ht. destruct Ht as [x [<- _]]. apply exp_pos.
  Qed.

  Lemma pb_normalised b : vsum (map snd (pb b)) = 1.
  Proof.
    unfold pb. rewrite map_map. cbn [snd].
    replace (map (fun x => gam b x / Zb b) pts) with (map (fun t => t / Zb b) (map (gam b) pts)) by (now rewrite map_map).
    rewrite vsum_map_div. fold (Zb b). pose proof (Zb_pos b). field. lra.
  Qed.

  Theorem incremental_weight_expectation b0 b1 :
    expect (pb b0) (fun x => exp ((b1 - b0) * (lt x - lq x))) = Zb b1 / Zb b0.
  Proof.
    unfold expect, pb. rewrite map_map. cbn [fst snd].
    pose proof (Zb_pos b0) as Hz.
    replace (map (fun x => gam b0 x / Zb b0 * exp ((b1 - b0) * (lt x - lq x))) pts)
      with (map (fun t => t / Zb b0) (map (gam b1) pts)).
    - rewrite vsum_map_div. reflexivity.
    - rewrite map_map. apply map_ext. intros x. unfold gam.
      replace ((1 - b1) * lq x + b1 * lt x) with (((1 - b0) * lq x + b0 * lt x) + (b1 - b0) * (lt x - lq x)) by ring.
      rewrite exp_plus. field. lra.
  Qed.

  Lemma Zb_0 : Zb 0 = vsum (map (fun x => exp (lq x)) pts).
  Proof. unfold Zb, gam. f_equal. apply map_ext. intros x. f_equal. ring. Qed.
  Lemma Zb_1 : Zb 1 = vsum (map (fun x => exp (lt x)) pts).
  Proof. unfold Zb, gam. f_equal. apply map_ext. intros x. f_equal. ring. Qed.

  (* for ANY ladder starting at 0 and ending at 1, the log mean incremental weights sum to ln(evidence) when q is normalised *)
  Theorem ladder_targets_evidence (bs : list R) :
    vsum (map (fun x => exp (lq x)) pts) = 1 -> last bs 0 = 1 ->
    fold_right Rplus 0 (map (fun ab => ln (expect (pb (fst ab)) (fun x => exp ((snd ab - fst ab) * (lt x - lq x)))))
                            (combine (0 :: bs) bs))
    = ln (vsum (map (fun x => exp (lt x)) pts)).
  Proof.
    intros Hq Hlast.
    assert (E : forall l : list (R * R),
      map (fun ab => ln (expect (pb (fst ab)) (fun x => exp ((snd ab - fst ab) * (lt x - lq x))))) l
      = map (fun ab => ln (Zb (snd ab)) - ln (Zb (fst ab))) l).
    { intros l. apply map_ext. intros [a b]. cbn [fst snd]. rewrite incremental_weight_expectation.
      pose proof (Zb_pos a); pose proof (Zb_pos b). unfold Rdiv. rewrite ln_mult, ln_Rinv; [lra|lra|lra|now apply Rinv_0_lt_compat]. }
    rewrite E.
    assert (T : forall b0 l, fold_right Rplus 0 (map (fun ab => ln (Zb (snd ab)) - ln (Zb (fst ab))) (combine (b0 :: l) l))
                             = ln (Zb (last l b0)) - ln (Zb b0)).
    { intros b0 l. revert b0. induction l as [|b l IH]; intros b0; [cbn; lra|].
      change (combine (b0 :: b :: l) (b :: l)) with ((b0, b) :: combine (b :: l) l).
      cbn [map fold_right fst snd]. rewrite IH.
      destruct l as [|b' l]; [cbn; lra|].
      change (last (b :: b' :: l) b0) with (last (b' :: l) b0). rewrite (last_indep' (b' :: l) b b0) by discriminate. lra. }
    rewrite T, Hlast, Zb_1, Zb_0, Hq, ln_1. lra.
  Qed.
End Tempered.
