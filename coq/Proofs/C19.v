(* C19 — temporary overrides are fully restored on every exit path. *)
From Coq Require Import List Bool Arith.
From AV Require Import Model.Contexts.
Import ListNotations.

(* every program (any nesting, exceptions anywhere) leaves the likelihood and the prior exactly as they were *)
Lemma exec_callables p : forall w,
  i_ll (w_inst (fst (exec p w))) = i_ll (w_inst w) /\ i_lp (w_inst (fst (exec p w))) = i_lp (w_inst w).
Proof.
  induction p as [| |a IHa b IHb|pool close par body IH|path every sc sf body IH|]; intros w; cbn [exec].
  - auto.
  - auto.
  - destruct (exec a w) as [w1 o] eqn:Ea. specialize (IHa w). rewrite Ea in IHa. cbn [fst] in IHa.
    destruct o; [|cbn; exact IHa]. specialize (IHb w1). destruct IHb as [B1 B2]. destruct IHa as [A1 A2].
    split; congruence.
  - destruct (exec body _) as [w2 o]. destruct close, pool; cbn; auto.
  - destruct (exec body _) as [w2 o] eqn:Eb. specialize (IH (set_inst w {| i_ll := i_ll (w_inst w); i_lp := i_lp (w_inst w);
        i_defaults := Some {| d_path := path; d_every := every; d_save_config := sc; d_save_flow := sf;
                              d_saved_config := false; d_saved_flow := false |} |})).
    rewrite Eb in IH. cbn in *. exact IH.
  - unfold sample_effect. destruct (i_defaults (w_inst w)); cbn; auto.
Qed.

(* the automatic-checkpoint context restores the defaults attribute to exactly what it was *)
Lemma auto_restores path every sc sf body w :
  i_defaults (w_inst (fst (exec (WithAuto path every sc sf body) w))) = i_defaults (w_inst w).
Proof. cbn [exec]. destruct (exec body _) as [w2 o]. reflexivity. Qed.

(* both contexts together: the instance is exactly as on entry, normally or through an exception *)
Lemma both_restore pool close par path every sc sf body w :
  w_inst (fst (exec (WithPool pool close par (WithAuto path every sc sf body)) w)) = w_inst w
  /\ w_inst (fst (exec (WithAuto path every sc sf (WithPool pool close par body)) w)) = w_inst w.
Proof.
  split.
  - pose proof (exec_callables (WithPool pool close par (WithAuto path every sc sf body)) w) as [H1 H2].
    cbn [exec] in *. destruct (exec body _) as [w2 o]. destruct w as [[ll lp d] c f].
    destruct close, pool; cbn in *; reflexivity.
  - pose proof (exec_callables (WithAuto path every sc sf (WithPool pool close par body)) w) as [H1 H2].
    pose proof (auto_restores path every sc sf (WithPool pool close par body) w) as H3.
    destruct (exec (WithAuto path every sc sf (WithPool pool close par body)) w) as [w' o]. cbn [fst] in *.
    destruct w as [[ll lp d] c f]. destruct w' as [[ll' lp' d'] c' f']. cbn in *. congruence.
Qed.

Definition entered (pool : option nat) (par : bool) (i : inst) : inst :=
  match pool with
  | Some k => {| i_ll := i_ll i ++ [k]; i_lp := if par then i_lp i ++ [k] else i_lp i; i_defaults := i_defaults i |}
  | None => i
  end.

(* the outcome of the body propagates unchanged: the contexts neither swallow nor invent exceptions *)
Lemma outcome_propagates_pool pool close par body w :
  snd (exec (WithPool pool close par body) w) = snd (exec body (set_inst w (entered pool par (w_inst w)))).
Proof. unfold entered. cbn [exec]. destruct (exec body _) as [w2 o]. destruct close, pool; reflexivity. Qed.

(* the pool is closed exactly when asked to, after the body, whatever the body did *)
Lemma pool_closed_iff_asked pool close par body w :
  w_closed (fst (exec (WithPool pool close par body) w))
  = w_closed (fst (exec body (set_inst w (entered pool par (w_inst w)))))
    ++ (match close, pool with true, Some k => [k] | _, _ => [] end).
Proof.
  unfold entered. cbn [exec]. destruct (exec body _) as [w2 o]. destruct close, pool; cbn; now rewrite ?app_nil_r.
Qed.
