(* C14 — the checkpoint file under operation sequences.  The full invariant is REFUTED on the faithful
   model (and on the code) by short histories; it is proved for histories whose every step satisfies an
   explicit guard stated on the state BEFORE the step. *)
From Coq Require Import List Bool Arith Lia.
From AV Require Import Model.FileSM.
Import ListNotations.

Definition uses_file (w : world) (explicit : bool) : bool :=
  explicit || match dflt (wi w) with [] => false | _ => true end.
Definition cur_save_config (w : world) (explicit : bool) : bool :=
  if explicit then true else match dflt (wi w) with d0 :: _ => d_save_config d0 | [] => true end.
Definition cur_saved_flow (w : world) : bool :=
  match dflt (wi w) with d0 :: _ => d_saved_flow d0 | [] => false end.
Definition on_eqb (a b : option nat) : bool :=
  match a, b with Some x, Some y => Nat.eqb x y | None, None => true | _, _ => false end.

(* guard of one operation, in terms of the state before it *)
Definition safe (w : world) (o : op) : bool :=
  match o with
  | Fit d e ov =>
    (* a fit may touch the file only while it holds no checkpoint *)
    negb (uses_file w e) || match f_ckpt (wf w) with None => true | Some _ => false end
  | Sample s0 e =>
    match mem_flow (wi w) with
    | None => true
    | Some fl =>
      let s := match s0, resume_type (wi w) with Importance, Some r => r | _, _ => s0 end in
      negb (uses_file w e) ||
      (if checkpoints s then
         (* the configuration is rewritten (or already names this sampler), and the file's flow is (or becomes) the one the new checkpoint is weighted under *)
         (cur_save_config w e || match f_cfg (wf w) with Some (Some s') => sampler_eqb s s' | _ => false end)
         && let under := match resume_bytes (wi w) with Some old => old | None => fl end in
            match f_flow (wf w) with
            | Some g => Nat.eqb g under
            | None => negb (cur_saved_flow w) && Nat.eqb fl under
            end
       else
         (* a sampler that writes no checkpoint must not rewrite the configuration of a file that has one *)
         match f_ckpt (wf w) with None => true | Some _ => negb (cur_save_config w e) end)
    end
  | _ => true
  end.

Fixpoint all_safe (w : world) (ops : list op) : bool :=
  match ops with
  | [] => true
  | o :: r => safe w o && all_safe (step w o) r
  end.

Ltac natfix :=
  repeat match goal with
  | H : Nat.eqb _ _ = true |- _ => apply Nat.eqb_eq in H; subst
  | H : (_ && _)%bool = true |- _ => apply andb_prop in H as [? ?]
  | H : (_ || _)%bool = true |- _ => apply orb_prop in H as [?|?]
  | H : negb _ = true |- _ => apply negb_true_iff in H
  | H : Some _ = Some _ |- _ => inversion H; subst; clear H
  | H : (_, _) = (_, _) |- _ => inversion H; subst; clear H
  end;
  rewrite ?Nat.eqb_refl in *.

Ltac split_match :=
  match goal with
  | H : context [match ?x with _ => _ end] |- _ =>
      (is_var x; destruct x) || (let E := fresh "E" in destruct x eqn:E)
  | |- context [match ?x with _ => _ end] =>
      (is_var x; destruct x) || (let E := fresh "E" in destruct x eqn:E)
  | H : context [if ?x then _ else _] |- _ =>
      (is_var x; destruct x) || (let E := fresh "E" in destruct x eqn:E)
  | |- context [if ?x then _ else _] =>
      (is_var x; destruct x) || (let E := fresh "E" in destruct x eqn:E)
  end.

Lemma sampler_eqb_refl s : sampler_eqb s s = true.
Proof. destruct s; reflexivity. Qed.

Ltac subst_bools :=
  repeat match goal with
  | H : ?x = true |- _ => progress (rewrite H in * |-)
  | H : ?x = false |- _ => progress (rewrite H in * |-)
  | H : ?x = true |- _ => progress (rewrite H)
  | H : ?x = false |- _ => progress (rewrite H)
  end.

Ltac crush := cbn in *; try discriminate; try reflexivity; try assumption; natfix; subst; subst_bools; cbn in *;
              rewrite ?Nat.eqb_refl, ?sampler_eqb_refl in *; cbn in *;
              try discriminate; try reflexivity; try assumption; try congruence.

Lemma step_preserves w o : consistent (wf w) = true -> safe w o = true -> consistent (wf (step w o)) = true.
Proof.
  intros Hc Hs. destruct w as [i f]. destruct i as [mf ls df rt rb]. destruct f as [ff fc fk].
  destruct o as [d e ov|s0 e|sc| |]; cbn [step].
  - unfold do_fit, safe, uses_file, consistent in *. crush; repeat (split_match; crush).
  - unfold do_sample, safe, uses_file, cur_save_config, cur_saved_flow, consistent in *.
    crush; repeat (split_match; crush).
  - exact Hc.
  - exact Hc.
  - unfold do_resume. cbn. destruct fc; [destruct ff|]; exact Hc.
Qed.

Theorem guarded_histories_consistent ops : forall w,
  consistent (wf w) = true -> all_safe w ops = true -> consistent (wf (fold_left step ops w)) = true.
Proof.
  induction ops as [|o r IH]; intros w Hc Hs; [exact Hc|].
  cbn in *. apply andb_prop in Hs as [H1 H2]. apply IH; [apply step_preserves; assumption| exact H2].
Qed.

(* ---------- refutations of the unguarded statement (each replayed on the implementation by the check) ---------- *)
Definition start : world :=
  {| wi := {| mem_flow := Some 0; last_sampler := None; dflt := []; resume_type := None; resume_bytes := None |};
     wf := {| f_flow := None; f_cfg := None; f_ckpt := None |} |}.

Lemma refuted_refit_then_sample :
  consistent (wf (fold_left step [Fit 1 true false; Fit 2 true false; Sample SMC true] start)) = false.
Proof. reflexivity. Qed.
Lemma refuted_importance_after_smc :
  consistent (wf (fold_left step [Sample SMC true; Sample Importance true] start)) = false.
Proof. reflexivity. Qed.
Lemma refuted_fit_overwrite_over_checkpoint :
  consistent (wf (fold_left step [Sample SMC true; Fit 2 true true] start)) = false.
Proof. reflexivity. Qed.
Lemma refuted_resume_then_fit_rewrites_config :
  consistent (wf (fold_left step [Sample SMC true; Resume; Fit 2 true false] start)) = false.
Proof. reflexivity. Qed.

(* non-vacuity of the guarded theorem: a history with fit, SMC sampling, contexts and resume that satisfies every guard *)
Example guarded_example :
  all_safe start [Fit 1 true false; EnterAuto true; Sample SMC false; ExitAuto; Resume; Sample Importance false; Sample SMC true] = true.
Proof. reflexivity. Qed.
