(* C08 support: the recorded ratio is the log of the mean incremental weight; the evidence does not
   depend on checkpoint options or the final enlargement. *)
From Coq Require Import Reals List Bool Arith Lra Lia.
From AV Require Import Lib.Num Lib.Vec Gen.Kernels Model.SMC Proofs.SMCGeneric Proofs.C02 Proofs.C07.
Import ListNotations.

Lemma log_evidence_ratio_spec {X} (x : list X) ll lp lq b0 b :
  ll <> [] -> length x = length ll -> length lp = length ll -> length lq = length ll ->
  exp (log_evidence_ratio x ll lp lq b0 b)
  = (vsum (map exp (map (fun t => (b - b0) * t) (compute_weights_log_w x ll lp lq))) / vlen ll)%R.
Proof.
  intros Hne Hx Hp Hq.
  assert (E : log_evidence_ratio x ll lp lq b0 b
              = (logsumexp (unnormalized_log_weights x ll lp lq b0 b) - ln (vlen x))%R) by reflexivity.
  rewrite E. unfold Rminus. rewrite exp_plus, exp_Ropp.
  assert (Hu : unnormalized_log_weights x ll lp lq b0 b <> []).
  { rewrite unnormalized_log_weights_spec by auto.
    pose proof (lw_ne x ll lp lq Hne Hx Hp Hq) as H. destruct (compute_weights_log_w x ll lp lq); simpl; congruence. }
  rewrite (logsumexp_spec _ Hu), unnormalized_log_weights_spec by auto.
  rewrite exp_ln; [unfold vlen; rewrite Hx; reflexivity|].
  apply vlen_pos. intro E2; subst x; simpl in Hx. destruct ll; simpl in *; congruence.
Qed.

Section Indep.
  Variable N : Num.
  Variables (P G : Type).
  Variable effq essq ratio ratio_var : P -> N -> N.
  Variable cte : N -> N.
  Variable pbeta : P -> N.
  Variable psize : P -> nat.
  Variable resample_o : G -> P -> N -> option nat -> P * G.
  Variable mutate_o : G -> P -> N -> bool -> P * G.

  Notation STEP := (step N P G effq essq ratio ratio_var cte pbeta resample_o mutate_o).
  Notation LOOP := (loop N P G effq essq ratio ratio_var cte pbeta resample_o mutate_o).
  Notation FINISH := (finish N P G pbeta psize resample_o mutate_o).
  Notation SAMPLE := (sample N P G effq essq ratio ratio_var cte pbeta psize resample_o mutate_o).

  (* options that may differ: n_final, has_callback, ckpt_every *)
  Definition agree (o o' : opts N) : Prop :=
    adaptive _ o = adaptive _ o' /\ beta_step _ o = beta_step _ o' /\ min_step0 _ o = min_step0 _ o'
    /\ adaptive_min_step _ o = adaptive_min_step _ o' /\ max_n_steps _ o = max_n_steps _ o'
    /\ tol _ o = tol _ o' /\ store_history _ o = store_history _ o' /\ bisect_fuel _ o = bisect_fuel _ o'.

  Lemma dbeta_agree o o' p beta ms : agree o o' ->
    determine_beta N P effq cte o p beta ms = determine_beta N P effq cte o' p beta ms.
  Proof.
    intros (H1 & H2 & H3 & H4 & H5 & H6 & H7 & H8). unfold determine_beta.
    rewrite H1, H2, H4, H6, H8. reflexivity.
  Qed.

  Lemma step_agree o o' st st' brk evs : agree o o' ->
    STEP o st = Ok (st', brk, evs) -> exists evs', STEP o' st = Ok (st', brk, evs').
  Proof.
    intros Hag H. pose proof Hag as (H1 & H2 & H3 & H4 & H5 & H6 & H7 & H8).
    unfold step in *. rewrite <- (dbeta_agree o o' _ _ _ Hag).
    destruct (determine_beta N P effq cte o (s_pop _ _ _ st) (s_beta _ _ _ st) (s_min_step _ _ _ st))
      as [[[b ms] tr]| |]; try discriminate.
    destruct (resample N P G pbeta resample_o (s_g _ _ _ st) (s_pop _ _ _ st) b None) as [p1 g1].
    destruct (mutate_o g1 p1 b false) as [p2 g2].
    unfold cap_reached in *. rewrite <- H5, <- H7. inversion H; subst. eexists. reflexivity.
  Qed.

  Lemma loop_agree f : forall o o' st stf evs, agree o o' ->
    LOOP f o st = Ok (stf, evs) -> exists evs', LOOP f o' st = Ok (stf, evs').
  Proof.
    induction f as [|f IH]; intros o o' st stf evs Hag H; [discriminate|].
    cbn [loop] in *. destruct (STEP o st) as [[[st1 brk] ev1]| |] eqn:Hs; try discriminate.
    destruct (step_agree _ _ _ _ _ _ Hag Hs) as [ev1' Hs']. rewrite Hs'.
    destruct brk; [inversion H; subst; eauto|].
    destruct (LOOP f o st1) as [[st2 ev2]| |] eqn:Hl; try discriminate.
    destruct (IH _ _ _ _ _ Hag Hl) as [ev2' Hl']. rewrite Hl'. inversion H; subst. eauto.
  Qed.

  Theorem evidence_independent fuel o o' p0 g0 out evs out' evs' :
    adaptive _ o = adaptive _ o' -> beta_step _ o = beta_step _ o' -> min_step0 _ o = min_step0 _ o' ->
    adaptive_min_step _ o = adaptive_min_step _ o' -> max_n_steps _ o = max_n_steps _ o' -> tol _ o = tol _ o' ->
    store_history _ o = store_history _ o' -> bisect_fuel _ o = bisect_fuel _ o' ->
    SAMPLE fuel o p0 g0 = Ok (out, evs) -> SAMPLE fuel o' p0 g0 = Ok (out', evs') ->
    o_log_evidence _ _ _ out = o_log_evidence _ _ _ out'
    /\ o_log_evidence_error _ _ _ out = o_log_evidence_error _ _ _ out'
    /\ h_beta _ _ (o_hist _ _ _ out) = h_beta _ _ (o_hist _ _ _ out').
  Proof.
    intros H1 H2 H3 H4 H5 H6 H7 H8 Ha Hb.
    assert (Hag : agree o o') by (unfold agree; repeat split; assumption).
    unfold sample, run_from in *.
    assert (Hinit : init_state N P G o p0 g0 = init_state N P G o' p0 g0)
      by (unfold init_state; rewrite H3, H7; reflexivity).
    destruct (LOOP fuel o (init_state N P G o p0 g0)) as [[stf ev1]| |] eqn:Hl; try discriminate.
    destruct (loop_agree _ _ _ _ _ _ Hag Hl) as [ev1' Hl']. rewrite <- Hinit, Hl' in Hb.
    destruct (FINISH o stf) as [o1 e1] eqn:Hf1. destruct (FINISH o' stf) as [o2 e2] eqn:Hf2.
    inversion Ha; subst. inversion Hb; subst.
    apply finish_spec in Hf1 as (A1 & A2 & _ & A4 & _). apply finish_spec in Hf2 as (B1 & B2 & _ & B4 & _).
    rewrite A1, A2, A4, B1, B2, B4. auto.
  Qed.
End Indep.
