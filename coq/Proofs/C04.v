(* C04 — parameter transforms (periodic / logit / probit / affine) of Gen/Transforms.v:
   round trips, reported log-Jacobians = sum_i ln |f_i'(x_i)| (derivatives witnessed by Coquelicot's is_derive),
   inverse log-Jacobian = - forward log-Jacobian at the image point, and fit = forward.

   Convention (Gen/Transforms.v): a transform acts on ONE row x : list R; lower/upper/mean/std are per-coordinate
   lists; the log-Jacobian is one real per row.

   NOT PROVED: (nothing — every required sub-result below is proved)
*)
From Coq Require Import Reals List Bool Lra Lia ZArith.
From Coquelicot Require Import Coquelicot.
From AV Require Import Lib.Vec Gen.Kernels Gen.Transforms.
Import ListNotations.
Open Scope R_scope.

(* ====================================================================================================== *)
(* Three-list vocabulary                                                                                  *)
(* ====================================================================================================== *)

(* coordinate-wise map over a row and its two per-coordinate parameter lists *)
Fixpoint vmap3 {A B C D} (f : A -> B -> C -> D) (a : list A) (b : list B) (c : list C) : list D :=
  match a, b, c with
  | x :: a', y :: b', z :: c' => f x y z :: vmap3 f a' b' c'
  | _, _, _ => []
  end.

Inductive Forall3 {A B C} (P : A -> B -> C -> Prop) : list A -> list B -> list C -> Prop :=
| Forall3_nil : Forall3 P [] [] []
| Forall3_cons a b c la lb lc : P a b c -> Forall3 P la lb lc -> Forall3 P (a :: la) (b :: lb) (c :: lc).

Lemma Forall3_of_nth {A B C} (P : A -> B -> C -> Prop) da db dc x l u :
  length l = length x -> length u = length x ->
  (forall i, (i < length x)%nat -> P (nth i x da) (nth i l db) (nth i u dc)) ->
  Forall3 P x l u.
Proof.
  revert l u; induction x as [|a x IH]; intros [|b l] [|c u] Hl Hu H; simpl in *; try discriminate.
  - constructor.
  - constructor.
    + apply (H 0%nat); lia.
    + apply IH; try lia. intros i Hi. apply (H (S i)); lia.
Qed.

Lemma Forall3_nth {A B C} (P : A -> B -> C -> Prop) da db dc x l u :
  Forall3 P x l u -> forall i, (i < length x)%nat -> P (nth i x da) (nth i l db) (nth i u dc).
Proof.
  induction 1 as [|a b c x l u Hp _ IH]; intros i Hi; simpl in *; [lia|].
  destruct i; auto. apply IH; lia.
Qed.

Lemma Forall3_length {A B C} (P : A -> B -> C -> Prop) x l u :
  Forall3 P x l u -> length l = length x /\ length u = length x.
Proof. induction 1; simpl; [auto|]. destruct IHForall3; split; congruence. Qed.

Lemma Forall3_impl {A B C} (P Q : A -> B -> C -> Prop) x l u :
  (forall a b c, P a b c -> Q a b c) -> Forall3 P x l u -> Forall3 Q x l u.
Proof. intros H; induction 1; constructor; auto. Qed.

Lemma Forall3_and {A B C} (P Q : A -> B -> C -> Prop) x l u :
  Forall3 P x l u -> Forall3 Q x l u -> Forall3 (fun a b c => P a b c /\ Q a b c) x l u.
Proof. induction 1; intros H2; inversion H2; subst; constructor; auto. Qed.

Lemma Forall3_same_length {A B C} (x : list A) (l : list B) (u : list C) :
  length l = length x -> length u = length x -> Forall3 (fun _ _ _ => True) x l u.
Proof.
  revert l u; induction x as [|a x IH]; intros [|b l] [|c u] Hl Hu; simpl in *; try discriminate; constructor; auto.
Qed.

Lemma vmap3_length {A B C D} (f : A -> B -> C -> D) x l u :
  length l = length x -> length u = length x -> length (vmap3 f x l u) = length x.
Proof.
  revert l u; induction x as [|a x IH]; intros [|b l] [|c u] Hl Hu; simpl in *; try discriminate; auto.
Qed.

Lemma vmap3_nth {A B C D} (f : A -> B -> C -> D) x l u i da db dc dd :
  (i < length x)%nat -> length l = length x -> length u = length x ->
  nth i (vmap3 f x l u) dd = f (nth i x da) (nth i l db) (nth i u dc).
Proof.
  revert l u i; induction x as [|a x IH]; intros [|b l] [|c u] i Hi Hl Hu; simpl in *; try discriminate; try lia.
  destruct i; auto. apply IH; lia.
Qed.

Lemma vmap3_ext_F3 {A B C D} (f g : A -> B -> C -> D) x l u :
  Forall3 (fun a b c => f a b c = g a b c) x l u -> vmap3 f x l u = vmap3 g x l u.
Proof. induction 1; simpl; congruence. Qed.

(* g undoes f coordinate-wise *)
Lemma vmap3_roundtrip {A B C} (f g : A -> B -> C -> A) x l u :
  Forall3 (fun a b c => g (f a b c) b c = a) x l u -> vmap3 g (vmap3 f x l u) l u = x.
Proof. induction 1; simpl; congruence. Qed.

Lemma Forall3_vmap3 {A B C D} (f : A -> B -> C -> D) (P : D -> B -> C -> Prop) x l u :
  Forall3 (fun a b c => P (f a b c) b c) x l u -> Forall3 P (vmap3 f x l u) l u.
Proof. induction 1; simpl; constructor; auto. Qed.

Lemma vsum_vmap3_ext {A B C} (f g : A -> B -> C -> R) x l u :
  Forall3 (fun a b c => f a b c = g a b c) x l u -> vsum (vmap3 f x l u) = vsum (vmap3 g x l u).
Proof. intros H. now rewrite (vmap3_ext_F3 f g x l u H). Qed.

Lemma vsum_vmap3_opp {A B C} (f : A -> B -> C -> R) x l u :
  vsum (vmap3 (fun a b c => - f a b c) x l u) = - vsum (vmap3 f x l u).
Proof.
  revert l u; induction x as [|a x IH]; intros [|b l] [|c u]; cbn [vmap3]; try (unfold vsum; simpl; lra).
  rewrite !vsum_cons, IH. lra.
Qed.

(* ====================================================================================================== *)
(* 1. PERIODIC                                                                                            *)
(* ====================================================================================================== *)

Definition wrap (t lo up : R) : R := lo + Rmod (t - lo) (up - lo).

Lemma periodic_forward_y_eq x l u : periodic_forward_y x l u = vmap3 wrap x l u.
Proof.
  unfold periodic_forward_y; cbv zeta.
  revert l u; induction x as [|a x IH]; intros [|b l] [|c u]; simpl; auto.
  rewrite <- IH. reflexivity.
Qed.

Lemma periodic_inverse_y_eq y l u : periodic_inverse_y y l u = vmap3 wrap y l u.
Proof. exact (periodic_forward_y_eq y l u). Qed.

Lemma periodic_fit_forward x l u : periodic_fit_y x l u = periodic_forward_y x l u.
Proof. reflexivity. Qed.

Lemma periodic_forward_logj_zero x l u : periodic_forward_logj x l u = 0.
Proof. reflexivity. Qed.
Lemma periodic_inverse_logj_zero y l u : periodic_inverse_logj y l u = 0.
Proof. reflexivity. Qed.

Lemma Int_part_unit r : 0 <= r < 1 -> Int_part r = 0%Z.
Proof.
  intros [H0 H1]. destruct (base_Int_part r) as [Ha Hb].
  assert (IZR (Int_part r) < IZR 1) by (simpl; lra).
  assert (IZR (-1) < IZR (Int_part r)) by (simpl; lra).
  apply lt_IZR in H, H2. lia.
Qed.

Lemma Rmod_range a w : 0 < w -> 0 <= Rmod a w < w.
Proof.
  intros Hw. unfold Rmod. destruct (base_Int_part (a / w)) as [Ha Hb].
  assert (E : a = w * (a / w)) by (field; lra).
  split.
  - assert (w * IZR (Int_part (a / w)) <= w * (a / w)) by (apply Rmult_le_compat_l; lra). lra.
  - assert (w * (a / w - 1) < w * IZR (Int_part (a / w))) by (apply Rmult_lt_compat_l; lra).
    rewrite Rmult_minus_distr_l in H. lra.
Qed.

Lemma Rmod_small a w : 0 <= a < w -> Rmod a w = a.
Proof.
  intros [H0 H1]. unfold Rmod. rewrite Int_part_unit; [simpl; lra|].
  assert (Hw : 0 < w) by lra. split.
  - apply Rmult_le_pos; [lra|]. left; apply Rinv_0_lt_compat; auto.
  - apply (Rmult_lt_reg_r w); auto. unfold Rdiv. rewrite Rmult_assoc, Rinv_l by lra. lra.
Qed.

Lemma wrap_range t lo up : lo < up -> lo <= wrap t lo up < up.
Proof. intros H. unfold wrap. pose proof (Rmod_range (t - lo) (up - lo)). lra. Qed.

Lemma wrap_shift t lo up : exists k : Z, wrap t lo up = t + IZR k * (up - lo).
Proof.
  exists (- Int_part ((t - lo) / (up - lo)))%Z. unfold wrap, Rmod. rewrite opp_IZR. ring.
Qed.

Lemma wrap_fixed t lo up : lo <= t < up -> wrap t lo up = t.
Proof. intros H. unfold wrap. rewrite Rmod_small; lra. Qed.

Lemma wrap_idem t lo up : lo < up -> wrap (wrap t lo up) lo up = wrap t lo up.
Proof. intros H. apply wrap_fixed, wrap_range, H. Qed.

Section PeriodicRows.
  Variables (x lower upper : list R).
  Hypothesis Hl : length lower = length x.
  Hypothesis Hu : length upper = length x.
  Hypothesis Hlu : forall i, (i < length x)%nat -> nth i lower 0 < nth i upper 0.

  Lemma periodic_forward_length : length (periodic_forward_y x lower upper) = length x.
  Proof. rewrite periodic_forward_y_eq. now apply vmap3_length. Qed.

  Lemma periodic_forward_nth i : (i < length x)%nat ->
    nth i (periodic_forward_y x lower upper) 0 = wrap (nth i x 0) (nth i lower 0) (nth i upper 0).
  Proof. intros Hi. rewrite periodic_forward_y_eq. now apply vmap3_nth. Qed.

  Lemma periodic_forward_range i : (i < length x)%nat ->
    nth i lower 0 <= nth i (periodic_forward_y x lower upper) 0 < nth i upper 0.
  Proof. intros Hi. rewrite periodic_forward_nth by auto. apply wrap_range, Hlu, Hi. Qed.

  Lemma periodic_forward_shift i : (i < length x)%nat ->
    exists k : Z, nth i (periodic_forward_y x lower upper) 0
                  = nth i x 0 + IZR k * (nth i upper 0 - nth i lower 0).
  Proof. intros Hi. rewrite periodic_forward_nth by auto. apply wrap_shift. Qed.

  (* a row already inside [lower, upper) is left unchanged *)
  Lemma periodic_forward_fixed :
    (forall i, (i < length x)%nat -> nth i lower 0 <= nth i x 0 < nth i upper 0) ->
    periodic_forward_y x lower upper = x.
  Proof.
    intros Hin. rewrite periodic_forward_y_eq.
    assert (F : Forall3 (fun t lo up => lo <= t < up) x lower upper)
      by (apply (Forall3_of_nth _ 0 0 0); auto).
    clear -F. induction F; simpl; [reflexivity|]. rewrite wrap_fixed, IHF; auto.
  Qed.

  Lemma periodic_inverse_forward :
    periodic_inverse_y (periodic_forward_y x lower upper) lower upper = periodic_forward_y x lower upper.
  Proof.
    rewrite periodic_inverse_y_eq, !periodic_forward_y_eq.
    assert (F : Forall3 (fun _ lo up => lo < up) x lower upper)
      by (apply (Forall3_of_nth _ 0 0 0); auto).
    clear -F. induction F; simpl; [reflexivity|]. rewrite wrap_idem, IHF; auto.
  Qed.

  Lemma periodic_forward_spec :
    length (periodic_forward_y x lower upper) = length x
    /\ forall i, (i < length x)%nat ->
         nth i lower 0 <= nth i (periodic_forward_y x lower upper) 0 < nth i upper 0
         /\ exists k : Z, nth i (periodic_forward_y x lower upper) 0
                          = nth i x 0 + IZR k * (nth i upper 0 - nth i lower 0).
  Proof.
    split; [apply periodic_forward_length|]. intros i Hi. split.
    - now apply periodic_forward_range. - now apply periodic_forward_shift.
  Qed.
End PeriodicRows.

Lemma periodic_logj_zero x l u : periodic_forward_logj x l u = 0 /\ periodic_inverse_logj x l u = 0.
Proof. split; reflexivity. Qed.

(* ====================================================================================================== *)
(* 4. AFFINE                                                                                              *)
(* ====================================================================================================== *)

Definition affine_fwd (t m s : R) : R := (t - m) / s.
Definition affine_inv (y m s : R) : R := y * s + m.

Lemma affine_forward_y_eq x m s : affine_forward_y x m s = vmap3 affine_fwd x m s.
Proof.
  unfold affine_forward_y; cbv zeta.
  revert m s; induction x as [|a x IH]; intros [|b m] [|c s]; simpl; auto.
  rewrite <- IH. reflexivity.
Qed.

Lemma affine_inverse_y_eq y m s :
  length m = length y -> length s = length y -> affine_inverse_y y m s = vmap3 affine_inv y m s.
Proof.
  unfold affine_inverse_y; cbv zeta.
  revert m s; induction y as [|a y IH]; intros [|b m] [|c s] Hm Hs; simpl in *; try discriminate; auto.
  rewrite <- IH by lia. reflexivity.
Qed.

Lemma affine_fit_forward x m s : affine_fit_y x m s = affine_forward_y x m s.
Proof. reflexivity. Qed.

(* a transform fitted twice is the transform of the LAST fit: nothing of the first fit (mean0, std0) survives, in either direction *)
Lemma affine_refit_is_last_fit x m0 s0 m s :
  affine_refit_forward_y x m0 s0 m s = affine_forward_y x m s
  /\ affine_refit_forward_logj x m0 s0 m s = affine_forward_logj x m s
  /\ affine_refit_inverse_y x m0 s0 m s = affine_inverse_y x m s
  /\ affine_refit_inverse_logj x m0 s0 m s = affine_inverse_logj x m s.
Proof. repeat split; reflexivity. Qed.

Lemma affine_fwd_derive t m s : s <> 0 -> is_derive (fun t => affine_fwd t m s) t (/ s).
Proof. intros Hs. unfold affine_fwd. auto_derive; [auto|]. field; auto. Qed.

Lemma affine_inv_derive y m s : is_derive (fun y => affine_inv y m s) y s.
Proof. unfold affine_inv. auto_derive; [auto|]. ring. Qed.

Lemma ln_abs_inv s : s <> 0 -> ln (Rabs (/ s)) = - ln (Rabs s).
Proof. intros Hs. rewrite Rabs_inv, ln_Rinv; auto. apply Rabs_pos_lt; auto. Qed.

Section AffineRows.
  Variables (mean std : list R).
  Hypothesis Hms : length mean = length std.
  Hypothesis Hstd : forall i, (i < length std)%nat -> nth i std 0 <> 0.

  Lemma affine_F3 (x : list R) : length x = length std ->
    Forall3 (fun _ _ s => s <> 0) x mean std.
  Proof. intros Hx. apply (Forall3_of_nth _ 0 0 0); try congruence. rewrite Hx; auto. Qed.

  Lemma affine_forward_length x : length x = length std -> length (affine_forward_y x mean std) = length x.
  Proof. intros Hx. rewrite affine_forward_y_eq. apply vmap3_length; congruence. Qed.

  Lemma affine_inverse_forward x : length x = length std ->
    affine_inverse_y (affine_forward_y x mean std) mean std = x.
  Proof.
    intros Hx. rewrite affine_inverse_y_eq by (rewrite affine_forward_length; congruence).
    rewrite affine_forward_y_eq. apply vmap3_roundtrip.
    eapply Forall3_impl; [|apply affine_F3, Hx]. simpl; intros t m s Hs.
    unfold affine_inv, affine_fwd. field; auto.
  Qed.

  Lemma affine_forward_inverse y : length y = length std ->
    affine_forward_y (affine_inverse_y y mean std) mean std = y.
  Proof.
    intros Hy. rewrite affine_inverse_y_eq by congruence.
    rewrite affine_forward_y_eq. apply vmap3_roundtrip.
    eapply Forall3_impl; [|apply affine_F3, Hy]. simpl; intros t m s Hs.
    unfold affine_inv, affine_fwd. field; auto.
  Qed.

  Lemma affine_forward_logj_std x :
    affine_forward_logj x mean std = - vsum (map (fun s => ln (Rabs s)) std).
  Proof. unfold affine_forward_logj; cbv zeta. rewrite map_map. lra. Qed.

  Lemma affine_inverse_logj_std y :
    affine_inverse_logj y mean std = vsum (map (fun s => ln (Rabs s)) std).
  Proof. unfold affine_inverse_logj; cbv zeta. rewrite map_map. lra. Qed.

  (* forward log-Jacobian = sum_i ln |d/dt ((t - mean_i)/std_i)| *)
  Lemma affine_forward_logj_derive x : length x = length std ->
    (forall i, (i < length x)%nat ->
       is_derive (fun t => affine_fwd t (nth i mean 0) (nth i std 0)) (nth i x 0) (/ nth i std 0))
    /\ affine_forward_logj x mean std = vsum (vmap3 (fun _ _ s => ln (Rabs (/ s))) x mean std).
  Proof.
    intros Hx. split.
    - intros i Hi. apply affine_fwd_derive, Hstd. congruence.
    - rewrite affine_forward_logj_std. pose proof (affine_F3 x Hx) as F.
      clear -F. induction F; [unfold vsum; simpl; lra|].
      cbn [map vmap3]. rewrite !vsum_cons, ln_abs_inv by auto. lra.
  Qed.

  (* inverse log-Jacobian = sum_i ln |d/dy (y std_i + mean_i)| *)
  Lemma affine_inverse_logj_derive y : length y = length std ->
    (forall i, (i < length y)%nat ->
       is_derive (fun t => affine_inv t (nth i mean 0) (nth i std 0)) (nth i y 0) (nth i std 0))
    /\ affine_inverse_logj y mean std = vsum (vmap3 (fun _ _ s => ln (Rabs s)) y mean std).
  Proof.
    intros Hy. split.
    - intros i Hi. apply affine_inv_derive.
    - rewrite affine_inverse_logj_std. pose proof (affine_F3 y Hy) as F.
      clear -F. induction F; [reflexivity|].
      cbn [map vmap3]. rewrite !vsum_cons. lra.
  Qed.

  Lemma affine_forward_logj_spec x : length x = length std ->
    affine_forward_logj x mean std = - vsum (map (fun s => ln (Rabs s)) std)
    /\ (forall i, (i < length x)%nat ->
         is_derive (fun t => affine_fwd t (nth i mean 0) (nth i std 0)) (nth i x 0) (/ nth i std 0))
    /\ affine_forward_logj x mean std = vsum (vmap3 (fun _ _ s => ln (Rabs (/ s))) x mean std).
  Proof. intros Hx. split; [apply affine_forward_logj_std|]. now apply affine_forward_logj_derive. Qed.

  Lemma affine_inverse_logj_neg x :
    affine_inverse_logj (affine_forward_y x mean std) mean std = - affine_forward_logj x mean std.
  Proof. rewrite affine_inverse_logj_std, affine_forward_logj_std. lra. Qed.
End AffineRows.

(* ====================================================================================================== *)
(* Shared pieces of the bounded (logit / probit) transforms                                                *)
(* ====================================================================================================== *)

(* rescaling of [lo, up] to the unit interval, and its inverse *)
Definition unit_of (t lo up : R) : R := (t - lo) / (up - lo).
Definition of_unit (s lo up : R) : R := (up - lo) * s + lo.

Lemma unit_of_rows x l u : vmap2 Rdiv (vmap2 Rminus x l) (vmap2 Rminus u l) = vmap3 unit_of x l u.
Proof.
  revert l u; induction x as [|a x IH]; intros [|b l] [|c u]; simpl; auto.
  rewrite IH. reflexivity.
Qed.

Lemma of_unit_rows s l u : length l = length s -> length u = length s ->
  vmap2 Rplus (vmap2 Rmult (vmap2 Rminus u l) s) l = vmap3 of_unit s l u.
Proof.
  revert l u; induction s as [|a s IH]; intros [|b l] [|c u] Hl Hu; simpl in *; try discriminate; auto.
  rewrite IH by lia. reflexivity.
Qed.

Lemma map_vmap3 {A B C D E} (g : D -> E) (f : A -> B -> C -> D) x l u :
  map g (vmap3 f x l u) = vmap3 (fun a b c => g (f a b c)) x l u.
Proof. revert l u; induction x as [|a x IH]; intros [|b l] [|c u]; simpl; auto. now rewrite IH. Qed.

Lemma vmap3_map {A A' B C D} (f : A' -> B -> C -> D) (g : A -> A') x l u :
  vmap3 f (map g x) l u = vmap3 (fun a b c => f (g a) b c) x l u.
Proof. revert l u; induction x as [|a x IH]; intros [|b l] [|c u]; simpl; auto. now rewrite IH. Qed.

Lemma vmap3_vmap3 {A B C D E} (g : D -> B -> C -> E) (f : A -> B -> C -> D) x l u :
  vmap3 g (vmap3 f x l u) l u = vmap3 (fun a b c => g (f a b c) b c) x l u.
Proof. revert l u; induction x as [|a x IH]; intros [|b l] [|c u]; simpl; auto. now rewrite IH. Qed.

Lemma vsum_vmap3_plus {A B C} (f g : A -> B -> C -> R) x l u :
  vsum (vmap3 f x l u) + vsum (vmap3 g x l u) = vsum (vmap3 (fun a b c => f a b c + g a b c) x l u).
Proof.
  revert l u; induction x as [|a x IH]; intros [|b l] [|c u]; cbn [vmap3]; try (unfold vsum; simpl; lra).
  rewrite !vsum_cons, <- IH. lra.
Qed.

(* the constant "scale" term -sum ln(upper - lower), spread over the coordinates of the row *)
Lemma scale_rows {A} (x : list A) l u : length l = length x -> length u = length x ->
  vsum (map ln (vmap2 Rminus u l)) = vsum (vmap3 (fun _ lo up => ln (up - lo)) x l u).
Proof.
  revert l u; induction x as [|a x IH]; intros [|b l] [|c u] Hl Hu; simpl in *; try discriminate; auto.
  change (vsum (ln (c - b) :: map ln (vmap2 Rminus u l))
          = vsum (ln (c - b) :: vmap3 (fun _ lo up => ln (up - lo)) x l u)).
  rewrite !vsum_cons, (IH l u) by lia. reflexivity.
Qed.

Lemma unit_of_of_unit s lo up : lo < up -> unit_of (of_unit s lo up) lo up = s.
Proof. intros H. unfold unit_of, of_unit. field. lra. Qed.

Lemma of_unit_unit_of t lo up : lo < up -> of_unit (unit_of t lo up) lo up = t.
Proof. intros H. unfold unit_of, of_unit. field. lra. Qed.

Lemma of_unit_inside s lo up : lo < up -> 0 < s < 1 -> lo < of_unit s lo up < up.
Proof. intros H [H0 H1]. unfold of_unit. split; nra. Qed.

Lemma unit_of_derive t lo up : lo < up -> is_derive (fun t => unit_of t lo up) t (/ (up - lo)).
Proof. intros H. unfold unit_of. auto_derive; [lra|]. field; lra. Qed.

Lemma clip_id u lo hi : lo <= u <= hi -> clip u lo hi = u.
Proof. intros [H1 H2]. unfold clip. rewrite Rmax_left by lra. rewrite Rmin_left by lra. reflexivity. Qed.

(* ====================================================================================================== *)
(* 2. LOGIT                                                                                               *)
(* ====================================================================================================== *)

(* clipping as done by utils.logit: only when eps <> 0 *)
Definition clipe (eps u : R) : R := if Rneqb eps 0 then clip u eps (1 - eps) else u.
Definition logit1 (u : R) : R := ln u - log1p (- u).
Definition sigmoid1 (y : R) : R := 1 / (1 + exp (- y)).

Definition logit_fwd (eps t lo up : R) : R := logit1 (clipe eps (unit_of t lo up)).
Definition logit_inv (y lo up : R) : R := of_unit (sigmoid1 y) lo up.
Definition logit_fwd_lj (eps t lo up : R) : R :=
  (- ln (clipe eps (unit_of t lo up)) - log1p (- clipe eps (unit_of t lo up))) - ln (up - lo).
Definition logit_inv_lj (y lo up : R) : R :=
  (ln (sigmoid1 y) + log1p (- sigmoid1 y)) + ln (up - lo).

(* the coordinate map without clipping, and its derivative *)
Definition logit_coord (lo up t : R) : R := ln (unit_of t lo up) - ln (1 - unit_of t lo up).
Definition logit_coord_d (lo up t : R) : R :=
  / (unit_of t lo up * (1 - unit_of t lo up) * (up - lo)).

Lemma logit_y_eq U eps : logit_y U eps = map (fun u => logit1 (clipe eps u)) U.
Proof.
  unfold logit_y, clipe, logit1; cbv zeta. destruct (Rneqb eps 0).
  - induction U as [|a U IH]; simpl; auto. now rewrite <- IH.
  - induction U as [|a U IH]; simpl; auto. now rewrite <- IH.
Qed.

Lemma logit_logj_eq U eps :
  logit_logj U eps = vsum (map (fun u => - ln (clipe eps u) - log1p (- clipe eps u)) U).
Proof.
  unfold logit_logj, clipe; cbv zeta. destruct (Rneqb eps 0).
  - induction U as [|a U IH]; cbn [map vmap2]; auto. rewrite !vsum_cons, IH. reflexivity.
  - induction U as [|a U IH]; cbn [map vmap2]; auto. rewrite !vsum_cons, IH. reflexivity.
Qed.

Lemma sigmoid_y_eq Y : sigmoid_y Y = map sigmoid1 Y.
Proof. unfold sigmoid_y, sigmoid1; cbv zeta. now rewrite !map_map. Qed.

(* the log-Jacobian of the sigmoid is evaluated from y itself (repair F46): - |y| - 2 log1p(exp(-|y|)) = ln s + ln(1 - s), s = sigmoid y *)
Lemma sigmoid_logj_scalar y : - Rabs y - 2 * log1p (exp (- Rabs y)) = ln (sigmoid1 y) + log1p (- sigmoid1 y).
Proof.
  assert (E0 : ln (sigmoid1 y) + log1p (- sigmoid1 y) = - y - 2 * ln (1 + exp (- y))).
  { unfold sigmoid1, log1p. pose proof (exp_pos (- y)) as He.
    replace (1 + - (1 / (1 + exp (- y)))) with (exp (- y) * / (1 + exp (- y))) by (field; lra).
    replace (1 / (1 + exp (- y))) with (/ (1 + exp (- y))) by (field; lra).
    rewrite ln_mult by (try apply Rinv_0_lt_compat; lra).
    rewrite !ln_Rinv by lra. rewrite ln_exp. lra. }
  rewrite E0. unfold log1p. destruct (Rle_dec 0 y) as [H|H].
  - rewrite Rabs_right by lra. lra.
  - rewrite Rabs_left by lra. rewrite Ropp_involutive.
    assert (E : 1 + exp (- y) = exp (- y) * (1 + exp y)).
    { rewrite Rmult_plus_distr_l, Rmult_1_r, <- exp_plus. replace (- y + y) with 0 by lra. rewrite exp_0. lra. }
    pose proof (exp_pos y) as Hy. pose proof (exp_pos (- y)) as Hny.
    rewrite E, ln_mult, ln_exp by lra. lra.
Qed.

Lemma sigmoid_logj_eq Y :
  sigmoid_logj Y = vsum (map (fun y => ln (sigmoid1 y) + log1p (- sigmoid1 y)) Y).
Proof.
  unfold sigmoid_logj; cbv zeta.
  induction Y as [|a Y IH]; cbn [map vmap2]; auto. rewrite !vsum_cons, IH.
  f_equal. rewrite <- sigmoid_logj_scalar. unfold Rminus. reflexivity.
Qed.

Lemma logit_t_forward_y_eq x l u eps : logit_t_forward_y x l u eps = vmap3 (logit_fwd eps) x l u.
Proof.
  unfold logit_t_forward_y; cbv zeta. rewrite unit_of_rows, logit_y_eq, map_vmap3. reflexivity.
Qed.

Lemma logit_t_fit_forward x l u eps : logit_t_fit_y x l u eps = logit_t_forward_y x l u eps.
Proof. reflexivity. Qed.

Lemma logit_t_inverse_y_eq y l u eps : length l = length y -> length u = length y ->
  logit_t_inverse_y y l u eps = vmap3 logit_inv y l u.
Proof.
  intros Hl Hu. unfold logit_t_inverse_y; cbv zeta. rewrite sigmoid_y_eq.
  rewrite of_unit_rows by (rewrite map_length; auto). rewrite vmap3_map. reflexivity.
Qed.

Lemma logit_t_forward_logj_eq x l u eps : length l = length x -> length u = length x ->
  logit_t_forward_logj x l u eps = vsum (vmap3 (logit_fwd_lj eps) x l u).
Proof.
  intros Hl Hu. unfold logit_t_forward_logj; cbv zeta.
  rewrite unit_of_rows, logit_logj_eq, map_vmap3, (scale_rows x l u Hl Hu).
  rewrite Rmult_1_r, <- vsum_vmap3_opp, vsum_vmap3_plus. reflexivity.
Qed.

Lemma logit_t_inverse_logj_eq y l u eps : length l = length y -> length u = length y ->
  logit_t_inverse_logj y l u eps = vsum (vmap3 logit_inv_lj y l u).
Proof.
  intros Hl Hu. unfold logit_t_inverse_logj; cbv zeta.
  rewrite sigmoid_logj_eq, (scale_rows y l u Hl Hu), Rmult_1_r, Ropp_involutive.
  replace (map (fun y0 => ln (sigmoid1 y0) + log1p (- sigmoid1 y0)) y)
    with (vmap3 (fun y0 (_ _ : R) => ln (sigmoid1 y0) + log1p (- sigmoid1 y0)) y l u).
  - rewrite vsum_vmap3_plus. reflexivity.
  - clear -Hl Hu. revert l u Hl Hu; induction y as [|a y IH]; intros [|b l] [|c u] Hl Hu;
      simpl in *; try discriminate; auto. rewrite IH by lia. reflexivity.
Qed.

(* ---- scalar facts *)
Lemma clipe_id eps u : eps <= u <= 1 - eps -> clipe eps u = u.
Proof. intros H. unfold clipe. destruct (Rneqb eps 0); auto. now apply clip_id. Qed.

Lemma sigmoid1_range y : 0 < sigmoid1 y < 1.
Proof.
  unfold sigmoid1. pose proof (exp_pos (- y)) as He.
  assert (0 < / (1 + exp (- y))) by (apply Rinv_0_lt_compat; lra).
  split; [lra|]. unfold Rdiv. rewrite Rmult_1_l.
  rewrite <- Rinv_1 at 2. apply Rinv_lt_contravar; lra.
Qed.

Lemma sigmoid1_logit1 u : 0 < u < 1 -> sigmoid1 (logit1 u) = u.
Proof.
  intros [H0 H1]. unfold sigmoid1, logit1, log1p.
  replace (- (ln u - ln (1 + - u))) with (ln (1 + - u) - ln u) by ring.
  unfold Rminus at 1. rewrite exp_plus, exp_Ropp, !exp_ln by lra. field. lra.
Qed.

Lemma logit1_sigmoid1 y : logit1 (sigmoid1 y) = y.
Proof.
  unfold sigmoid1, logit1, log1p. pose proof (exp_pos (- y)) as He.
  replace (1 + - (1 / (1 + exp (- y)))) with (exp (- y) / (1 + exp (- y))) by (field; lra).
  unfold Rdiv at 1. rewrite Rmult_1_l, ln_Rinv by lra.
  rewrite ln_div by lra. rewrite ln_exp. ring.
Qed.

Lemma logit_coord_derive lo up t : lo < up -> 0 < unit_of t lo up < 1 ->
  is_derive (logit_coord lo up) t (logit_coord_d lo up t) /\ 0 < logit_coord_d lo up t.
Proof.
  intros Hlu [H0 H1]. split.
  - pose proof (of_unit_inside _ lo up Hlu (conj H0 H1)) as Hin. rewrite of_unit_unit_of in Hin by auto.
    unfold logit_coord, logit_coord_d. unfold unit_of in *.
    auto_derive.
    + assert (E : (t + - lo) * / (up - lo) = (t - lo) / (up - lo)) by reflexivity.
      rewrite E. repeat split; lra.
    + field. repeat split; lra.
  - unfold logit_coord_d. apply Rinv_0_lt_compat.
    apply Rmult_lt_0_compat; [apply Rmult_lt_0_compat|]; lra.
Qed.

Lemma logit_coord_d_ln lo up t : lo < up -> 0 < unit_of t lo up < 1 ->
  ln (logit_coord_d lo up t) = - ln (unit_of t lo up) - ln (1 - unit_of t lo up) - ln (up - lo).
Proof.
  intros Hlu [H0 H1]. unfold logit_coord_d.
  assert (0 < unit_of t lo up * (1 - unit_of t lo up)) by (apply Rmult_lt_0_compat; lra).
  rewrite ln_Rinv by (apply Rmult_lt_0_compat; lra).
  rewrite !ln_mult by lra. ring.
Qed.

Definition logit_ok (eps t lo up : R) : Prop :=
  lo < up /\ eps <= unit_of t lo up <= 1 - eps /\ 0 < unit_of t lo up < 1.

Lemma logit_fwd_coord eps t lo up : logit_ok eps t lo up -> logit_fwd eps t lo up = logit_coord lo up t.
Proof.
  intros (Hlu & Hc & Hu). unfold logit_fwd, logit_coord, logit1, log1p. rewrite clipe_id by auto.
  replace (1 + - unit_of t lo up) with (1 - unit_of t lo up) by ring. reflexivity.
Qed.

Lemma logit_fwd_lj_coord eps t lo up : logit_ok eps t lo up ->
  logit_fwd_lj eps t lo up = ln (logit_coord_d lo up t).
Proof.
  intros (Hlu & Hc & Hu). unfold logit_fwd_lj, log1p. rewrite clipe_id, logit_coord_d_ln by auto.
  replace (1 + - unit_of t lo up) with (1 - unit_of t lo up) by ring. reflexivity.
Qed.

Lemma logit_inv_fwd eps t lo up : logit_ok eps t lo up -> logit_inv (logit_fwd eps t lo up) lo up = t.
Proof.
  intros (Hlu & Hc & Hu). unfold logit_inv, logit_fwd. rewrite clipe_id, sigmoid1_logit1 by auto.
  now apply of_unit_unit_of.
Qed.

Lemma logit_fwd_inv eps y lo up : lo < up -> eps <= sigmoid1 y <= 1 - eps ->
  logit_fwd eps (logit_inv y lo up) lo up = y.
Proof.
  intros Hlu Hc. unfold logit_inv, logit_fwd. rewrite unit_of_of_unit, clipe_id by auto.
  apply logit1_sigmoid1.
Qed.

Lemma logit_inv_lj_fwd eps t lo up : logit_ok eps t lo up ->
  logit_inv_lj (logit_fwd eps t lo up) lo up = - logit_fwd_lj eps t lo up.
Proof.
  intros (Hlu & Hc & Hu). unfold logit_inv_lj, logit_fwd, logit_fwd_lj.
  rewrite clipe_id, sigmoid1_logit1 by auto. ring.
Qed.

Section LogitRows.
  Variables (x lower upper : list R) (eps : R).
  Hypothesis Hl : length lower = length x.
  Hypothesis Hu : length upper = length x.
  (* x is outside the clipping margin: u_i = (x_i - lower_i)/(upper_i - lower_i) in [eps, 1-eps] and in (0,1) *)
  Hypothesis Hok : forall i, (i < length x)%nat ->
    nth i lower 0 < nth i upper 0
    /\ eps <= unit_of (nth i x 0) (nth i lower 0) (nth i upper 0) <= 1 - eps
    /\ 0 < unit_of (nth i x 0) (nth i lower 0) (nth i upper 0) < 1.

  Lemma logit_F3 : Forall3 (logit_ok eps) x lower upper.
  Proof. apply (Forall3_of_nth _ 0 0 0); auto. Qed.

  Lemma logit_forward_length : length (logit_t_forward_y x lower upper eps) = length x.
  Proof. rewrite logit_t_forward_y_eq. now apply vmap3_length. Qed.

  (* without clipping the forward map is, coordinate by coordinate, t |-> ln u - ln (1 - u) *)
  Lemma logit_forward_nth i : (i < length x)%nat ->
    nth i (logit_t_forward_y x lower upper eps) 0 = logit_coord (nth i lower 0) (nth i upper 0) (nth i x 0).
  Proof.
    intros Hi. rewrite logit_t_forward_y_eq, (vmap3_nth _ _ _ _ _ 0 0 0) by auto.
    apply logit_fwd_coord. apply (Forall3_nth _ 0 0 0 _ _ _ logit_F3 i Hi).
  Qed.

  Lemma logit_inverse_forward :
    logit_t_inverse_y (logit_t_forward_y x lower upper eps) lower upper eps = x.
  Proof.
    rewrite logit_t_inverse_y_eq by (rewrite logit_forward_length; auto).
    rewrite logit_t_forward_y_eq. apply vmap3_roundtrip.
    eapply Forall3_impl; [|apply logit_F3]. intros t lo up H. now apply logit_inv_fwd.
  Qed.

  Lemma logit_forward_logj_derive :
    (forall i, (i < length x)%nat ->
       is_derive (logit_coord (nth i lower 0) (nth i upper 0)) (nth i x 0)
                 (logit_coord_d (nth i lower 0) (nth i upper 0) (nth i x 0))
       /\ 0 < logit_coord_d (nth i lower 0) (nth i upper 0) (nth i x 0))
    /\ logit_t_forward_logj x lower upper eps
       = vsum (vmap3 (fun t lo up => ln (logit_coord_d lo up t)) x lower upper).
  Proof.
    split.
    - intros i Hi. destruct (Hok i Hi) as (H1 & H2 & H3). now apply logit_coord_derive.
    - rewrite logit_t_forward_logj_eq by auto. apply vsum_vmap3_ext.
      eapply Forall3_impl; [|apply logit_F3]. intros t lo up H. now apply logit_fwd_lj_coord.
  Qed.

  Lemma logit_inverse_logj_neg :
    logit_t_inverse_logj (logit_t_forward_y x lower upper eps) lower upper eps
    = - logit_t_forward_logj x lower upper eps.
  Proof.
    rewrite logit_t_inverse_logj_eq by (rewrite logit_forward_length; auto).
    rewrite logit_t_forward_y_eq, logit_t_forward_logj_eq, vmap3_vmap3, <- vsum_vmap3_opp by auto.
    apply vsum_vmap3_ext. eapply Forall3_impl; [|apply logit_F3].
    intros t lo up H. now apply logit_inv_lj_fwd.
  Qed.
End LogitRows.

Section LogitInverseRows.
  Variables (y lower upper : list R) (eps : R).
  Hypothesis Hl : length lower = length y.
  Hypothesis Hu : length upper = length y.
  Hypothesis Hlu : forall i, (i < length y)%nat -> nth i lower 0 < nth i upper 0.

  Lemma logit_inverse_length : length (logit_t_inverse_y y lower upper eps) = length y.
  Proof. rewrite logit_t_inverse_y_eq by auto. now apply vmap3_length. Qed.

  (* the inverse image lies strictly inside (lower_i, upper_i) *)
  Lemma logit_inverse_inside i : (i < length y)%nat ->
    nth i lower 0 < nth i (logit_t_inverse_y y lower upper eps) 0 < nth i upper 0.
  Proof.
    intros Hi. rewrite logit_t_inverse_y_eq, (vmap3_nth _ _ _ _ _ 0 0 0) by auto.
    apply of_unit_inside; [auto| apply sigmoid1_range].
  Qed.

  Lemma logit_forward_inverse :
    (forall i, (i < length y)%nat -> eps <= sigmoid1 (nth i y 0) <= 1 - eps) ->
    logit_t_forward_y (logit_t_inverse_y y lower upper eps) lower upper eps = y.
  Proof.
    intros Hc. rewrite logit_t_inverse_y_eq, logit_t_forward_y_eq by auto. apply vmap3_roundtrip.
    apply (Forall3_of_nth _ 0 0 0); auto. intros i Hi. apply logit_fwd_inv; auto.
  Qed.

  (* eps = 0: no clipping at all, the round trip holds for every y *)
  Lemma logit_forward_inverse_eps0 : eps = 0 ->
    logit_t_forward_y (logit_t_inverse_y y lower upper eps) lower upper eps = y.
  Proof.
    intros E. apply logit_forward_inverse. intros i _. pose proof (sigmoid1_range (nth i y 0)). lra.
  Qed.
End LogitInverseRows.

(* ====================================================================================================== *)
(* 3. PROBIT                                                                                              *)
(* ====================================================================================================== *)

Lemma map_as_vmap3 {A B C D} (f : A -> D) (x : list A) (l : list B) (u : list C) :
  length l = length x -> length u = length x -> map f x = vmap3 (fun a _ _ => f a) x l u.
Proof.
  revert l u; induction x as [|a x IH]; intros [|b l] [|c u] Hl Hu; simpl in *; try discriminate; auto.
  rewrite (IH l u) by lia. reflexivity.
Qed.

Lemma vsum_vmap3_mul {A B C} k (f : A -> B -> C -> R) x l u :
  k * vsum (vmap3 f x l u) = vsum (vmap3 (fun a b c => k * f a b c) x l u).
Proof.
  revert l u; induction x as [|a x IH]; intros [|b l] [|c u]; cbn [vmap3]; try (unfold vsum; simpl; lra).
  rewrite !vsum_cons, <- IH. lra.
Qed.

Lemma sqrt2_pos : 0 < sqrt 2.
Proof. apply sqrt_lt_R0; lra. Qed.

Lemma ln_sqrt_half a : 0 < a -> ln (sqrt a) = 1 / 2 * ln a.
Proof.
  intros Ha. assert (Hs : 0 < sqrt a) by (apply sqrt_lt_R0; auto).
  assert (E : ln a = ln (sqrt a) + ln (sqrt a)).
  { rewrite <- ln_mult by auto. rewrite sqrt_sqrt by lra. reflexivity. }
  lra.
Qed.

Section Probit.
  Variables (erf erfinv : R -> R).
  Hypothesis erf_erfinv : forall t, -1 < t < 1 -> erf (erfinv t) = t.
  Hypothesis erfinv_erf : forall y, erfinv (erf y) = y.
  Hypothesis erf_range : forall y, -1 < erf y < 1.
  Hypothesis erfinv_derive : forall t, -1 < t < 1 ->
    is_derive erfinv t (sqrt PI / 2 * exp (erfinv t * erfinv t)).

  (* standard normal CDF, as computed by ProbitTransform.inverse *)
  Definition Phi (y : R) : R := 1 / 2 * (1 + erf (y / sqrt 2)).

  Definition probit_fwd (eps t lo up : R) : R :=
    erfinv (2 * clip (unit_of t lo up) eps (1 - eps) - 1) * sqrt 2.
  Definition probit_inv (y lo up : R) : R := of_unit (Phi y) lo up.
  Definition probit_fwd_lj (eps t lo up : R) : R :=
    1 / 2 * (ln (2 * PI) + (probit_fwd eps t lo up) ^ 2) - ln (up - lo).
  Definition probit_inv_lj (y lo up : R) : R := - (1 / 2 * (ln (2 * PI) + y ^ 2)) + ln (up - lo).

  (* the coordinate map without clipping, and its derivative *)
  Definition probit_coord (lo up t : R) : R := sqrt 2 * erfinv (2 * unit_of t lo up - 1).
  Definition probit_coord_d (lo up t : R) : R :=
    sqrt (2 * PI) * exp ((probit_coord lo up t) ^ 2 / 2) / (up - lo).

  Lemma probit_t_forward_y_eq x l u eps :
    probit_t_forward_y erfinv x l u eps = vmap3 (probit_fwd eps) x l u.
  Proof.
    unfold probit_t_forward_y; cbv zeta. rewrite unit_of_rows, !map_map, map_vmap3. reflexivity.
  Qed.

  Lemma probit_t_fit_forward x l u eps :
    probit_t_fit_y erfinv x l u eps = probit_t_forward_y erfinv x l u eps.
  Proof. reflexivity. Qed.

  Lemma probit_t_inverse_y_eq y l u eps : length l = length y -> length u = length y ->
    probit_t_inverse_y erf y l u eps = vmap3 probit_inv y l u.
  Proof.
    intros Hl Hu. unfold probit_t_inverse_y; cbv zeta. rewrite !map_map.
    rewrite of_unit_rows by (rewrite map_length; auto). rewrite vmap3_map. reflexivity.
  Qed.

  Lemma probit_t_forward_logj_eq x l u eps : length l = length x -> length u = length x ->
    probit_t_forward_logj erfinv x l u eps = vsum (vmap3 (probit_fwd_lj eps) x l u).
  Proof.
    intros Hl Hu. unfold probit_t_forward_logj; cbv zeta.
    rewrite unit_of_rows, !map_map, map_vmap3, vsum_vmap3_mul, (scale_rows x l u Hl Hu).
    rewrite Rmult_1_r, <- vsum_vmap3_opp, vsum_vmap3_plus. reflexivity.
  Qed.

  Lemma probit_t_inverse_logj_eq y l u eps : length l = length y -> length u = length y ->
    probit_t_inverse_logj y l u eps = vsum (vmap3 probit_inv_lj y l u).
  Proof.
    intros Hl Hu. unfold probit_t_inverse_logj; cbv zeta.
    rewrite !map_map, (map_as_vmap3 _ y l u Hl Hu), (scale_rows y l u Hl Hu).
    rewrite Rmult_1_r, Ropp_involutive, <- vsum_vmap3_opp, vsum_vmap3_plus. reflexivity.
  Qed.

  (* ---- scalar facts *)
  Lemma Phi_range y : 0 < Phi y < 1.
  Proof. unfold Phi. pose proof (erf_range (y / sqrt 2)). lra. Qed.

  Lemma probit_fwd_coord eps t lo up : logit_ok eps t lo up ->
    probit_fwd eps t lo up = probit_coord lo up t.
  Proof.
    intros (Hlu & Hc & Hu). unfold probit_fwd, probit_coord. rewrite clip_id by auto. ring.
  Qed.

  Lemma probit_inv_fwd eps t lo up : logit_ok eps t lo up ->
    probit_inv (probit_fwd eps t lo up) lo up = t.
  Proof.
    intros (Hlu & Hc & Hu). unfold probit_inv, probit_fwd, Phi. rewrite clip_id by auto.
    pose proof sqrt2_pos.
    replace (erfinv (2 * unit_of t lo up - 1) * sqrt 2 / sqrt 2)
      with (erfinv (2 * unit_of t lo up - 1)) by (field; lra).
    rewrite erf_erfinv by lra.
    replace (1 / 2 * (1 + (2 * unit_of t lo up - 1))) with (unit_of t lo up) by field.
    now apply of_unit_unit_of.
  Qed.

  Lemma probit_fwd_inv eps y lo up : lo < up -> eps <= Phi y <= 1 - eps ->
    probit_fwd eps (probit_inv y lo up) lo up = y.
  Proof.
    intros Hlu Hc. unfold probit_inv, probit_fwd. rewrite unit_of_of_unit, clip_id by auto.
    unfold Phi. replace (2 * (1 / 2 * (1 + erf (y / sqrt 2))) - 1) with (erf (y / sqrt 2)) by field.
    rewrite erfinv_erf. pose proof sqrt2_pos. field; lra.
  Qed.

  Lemma probit_inv_lj_fwd eps t lo up :
    probit_inv_lj (probit_fwd eps t lo up) lo up = - probit_fwd_lj eps t lo up.
  Proof. unfold probit_inv_lj, probit_fwd_lj. ring. Qed.

  Lemma probit_coord_sq lo up t :
    (probit_coord lo up t) ^ 2 / 2
    = erfinv (2 * unit_of t lo up - 1) * erfinv (2 * unit_of t lo up - 1).
  Proof.
    unfold probit_coord. set (e := erfinv _).
    replace ((sqrt 2 * e) ^ 2 / 2) with ((sqrt 2 * sqrt 2) * (e * e) / 2) by (simpl; field).
    rewrite sqrt_sqrt by lra. field.
  Qed.

  Lemma probit_coord_derive lo up t : lo < up -> 0 < unit_of t lo up < 1 ->
    is_derive (probit_coord lo up) t (probit_coord_d lo up t) /\ 0 < probit_coord_d lo up t.
  Proof.
    intros Hlu [H0 H1]. split.
    - unfold probit_coord_d. rewrite probit_coord_sq. unfold probit_coord.
      set (v := 2 * unit_of t lo up - 1).
      replace (sqrt (2 * PI) * exp (erfinv v * erfinv v) / (up - lo))
        with (sqrt 2 * (2 / (up - lo) * (sqrt PI / 2 * exp (erfinv v * erfinv v)))).
      + apply is_derive_scal.
        apply (is_derive_comp erfinv (fun t => 2 * unit_of t lo up - 1) t
                 (sqrt PI / 2 * exp (erfinv v * erfinv v)) (2 / (up - lo))).
        * apply erfinv_derive. unfold v. lra.
        * unfold unit_of. auto_derive; [auto|]. field. lra.
      + rewrite sqrt_mult by (pose proof PI_RGT_0; lra). field. lra.
    - unfold probit_coord_d. assert (0 < sqrt (2 * PI)) by (apply sqrt_lt_R0; pose proof PI_RGT_0; lra).
      apply Rdiv_lt_0_compat; [|lra]. apply Rmult_lt_0_compat; [auto| apply exp_pos].
  Qed.

  Lemma probit_coord_d_ln lo up t : lo < up ->
    ln (probit_coord_d lo up t) = 1 / 2 * (ln (2 * PI) + (probit_coord lo up t) ^ 2) - ln (up - lo).
  Proof.
    intros Hlu. unfold probit_coord_d.
    assert (H2pi : 0 < 2 * PI) by (pose proof PI_RGT_0; lra).
    assert (0 < sqrt (2 * PI)) by (apply sqrt_lt_R0; auto).
    pose proof (exp_pos ((probit_coord lo up t) ^ 2 / 2)).
    rewrite ln_div by (try apply Rmult_lt_0_compat; lra).
    rewrite ln_mult, ln_exp, ln_sqrt_half by auto. field.
  Qed.

  Lemma probit_fwd_lj_coord eps t lo up : logit_ok eps t lo up ->
    probit_fwd_lj eps t lo up = ln (probit_coord_d lo up t).
  Proof.
    intros H. unfold probit_fwd_lj. rewrite (probit_fwd_coord _ _ _ _ H).
    destruct H as (Hlu & _). now rewrite probit_coord_d_ln.
  Qed.

  Section ProbitRows.
    Variables (x lower upper : list R) (eps : R).
    Hypothesis Hl : length lower = length x.
    Hypothesis Hu : length upper = length x.
    Hypothesis Hok : forall i, (i < length x)%nat ->
      nth i lower 0 < nth i upper 0
      /\ eps <= unit_of (nth i x 0) (nth i lower 0) (nth i upper 0) <= 1 - eps
      /\ 0 < unit_of (nth i x 0) (nth i lower 0) (nth i upper 0) < 1.

    Lemma probit_F3 : Forall3 (logit_ok eps) x lower upper.
    Proof. apply (Forall3_of_nth _ 0 0 0); auto. Qed.

    Lemma probit_forward_length : length (probit_t_forward_y erfinv x lower upper eps) = length x.
    Proof. rewrite probit_t_forward_y_eq. now apply vmap3_length. Qed.

    Lemma probit_forward_nth i : (i < length x)%nat ->
      nth i (probit_t_forward_y erfinv x lower upper eps) 0
      = probit_coord (nth i lower 0) (nth i upper 0) (nth i x 0).
    Proof.
      intros Hi. rewrite probit_t_forward_y_eq, (vmap3_nth _ _ _ _ _ 0 0 0) by auto.
      apply probit_fwd_coord. apply (Forall3_nth _ 0 0 0 _ _ _ probit_F3 i Hi).
    Qed.

    Lemma probit_inverse_forward :
      probit_t_inverse_y erf (probit_t_forward_y erfinv x lower upper eps) lower upper eps = x.
    Proof.
      rewrite probit_t_inverse_y_eq by (rewrite probit_forward_length; auto).
      rewrite probit_t_forward_y_eq. apply vmap3_roundtrip.
      eapply Forall3_impl; [|apply probit_F3]. intros t lo up H. now apply probit_inv_fwd.
    Qed.

    Lemma probit_forward_logj_derive :
      (forall i, (i < length x)%nat ->
         is_derive (probit_coord (nth i lower 0) (nth i upper 0)) (nth i x 0)
                   (probit_coord_d (nth i lower 0) (nth i upper 0) (nth i x 0))
         /\ 0 < probit_coord_d (nth i lower 0) (nth i upper 0) (nth i x 0))
      /\ probit_t_forward_logj erfinv x lower upper eps
         = vsum (vmap3 (fun t lo up => ln (probit_coord_d lo up t)) x lower upper).
    Proof.
      split.
      - intros i Hi. destruct (Hok i Hi) as (H1 & H2 & H3). now apply probit_coord_derive.
      - rewrite probit_t_forward_logj_eq by auto. apply vsum_vmap3_ext.
        eapply Forall3_impl; [|apply probit_F3]. intros t lo up H. now apply probit_fwd_lj_coord.
    Qed.
  End ProbitRows.

  (* no clipping hypothesis needed here: the inverse log-Jacobian is evaluated at whatever forward returned *)
  Lemma probit_inverse_logj_neg x lower upper eps :
    length lower = length x -> length upper = length x ->
    probit_t_inverse_logj (probit_t_forward_y erfinv x lower upper eps) lower upper eps
    = - probit_t_forward_logj erfinv x lower upper eps.
  Proof.
    intros Hl Hu.
    rewrite probit_t_inverse_logj_eq
      by (rewrite probit_t_forward_y_eq, vmap3_length; auto).
    rewrite probit_t_forward_y_eq, probit_t_forward_logj_eq, vmap3_vmap3, <- vsum_vmap3_opp by auto.
    apply vsum_vmap3_ext. apply (Forall3_of_nth _ 0 0 0); auto.
    intros i _. apply probit_inv_lj_fwd.
  Qed.

  Section ProbitInverseRows.
    Variables (y lower upper : list R) (eps : R).
    Hypothesis Hl : length lower = length y.
    Hypothesis Hu : length upper = length y.
    Hypothesis Hlu : forall i, (i < length y)%nat -> nth i lower 0 < nth i upper 0.

    Lemma probit_inverse_length : length (probit_t_inverse_y erf y lower upper eps) = length y.
    Proof. rewrite probit_t_inverse_y_eq by auto. now apply vmap3_length. Qed.

    Lemma probit_inverse_inside i : (i < length y)%nat ->
      nth i lower 0 < nth i (probit_t_inverse_y erf y lower upper eps) 0 < nth i upper 0.
    Proof.
      intros Hi. rewrite probit_t_inverse_y_eq, (vmap3_nth _ _ _ _ _ 0 0 0) by auto.
      apply of_unit_inside; [auto| apply Phi_range].
    Qed.

    Lemma probit_forward_inverse :
      (forall i, (i < length y)%nat -> eps <= Phi (nth i y 0) <= 1 - eps) ->
      probit_t_forward_y erfinv (probit_t_inverse_y erf y lower upper eps) lower upper eps = y.
    Proof.
      intros Hc. rewrite probit_t_inverse_y_eq, probit_t_forward_y_eq by auto. apply vmap3_roundtrip.
      apply (Forall3_of_nth _ 0 0 0); auto. intros i Hi. apply probit_fwd_inv; auto.
    Qed.

    Lemma probit_forward_inverse_eps0 : eps = 0 ->
      probit_t_forward_y erfinv (probit_t_inverse_y erf y lower upper eps) lower upper eps = y.
    Proof.
      intros E. apply probit_forward_inverse. intros i _. pose proof (Phi_range (nth i y 0)). lra.
    Qed.
  End ProbitInverseRows.
End Probit.

(* ====================================================================================================== *)
(* The hypotheses of the logit round trip are satisfiable: a concrete 2-coordinate row                     *)
(* ====================================================================================================== *)

Example logit_hypotheses_satisfiable :
  let x := [1; 3] in let lower := [0; 2] in let upper := [2; 6] in let eps := 1 / 1000 in
  (length lower = length x /\ length upper = length x
   /\ forall i, (i < length x)%nat ->
        nth i lower 0 < nth i upper 0
        /\ eps <= unit_of (nth i x 0) (nth i lower 0) (nth i upper 0) <= 1 - eps
        /\ 0 < unit_of (nth i x 0) (nth i lower 0) (nth i upper 0) < 1)
  /\ logit_t_inverse_y (logit_t_forward_y x lower upper eps) lower upper eps = x.
Proof.
  intros x lower upper eps.
  assert (H : length lower = length x /\ length upper = length x
   /\ forall i, (i < length x)%nat ->
        nth i lower 0 < nth i upper 0
        /\ eps <= unit_of (nth i x 0) (nth i lower 0) (nth i upper 0) <= 1 - eps
        /\ 0 < unit_of (nth i x 0) (nth i lower 0) (nth i upper 0) < 1).
  { split; [reflexivity|]. split; [reflexivity|]. intros i Hi. unfold x, lower, upper, eps in *.
    assert (E1 : unit_of 1 0 2 = 1 / 2) by (unfold unit_of; field).
    assert (E2 : unit_of 3 2 6 = 1 / 4) by (unfold unit_of; field).
    destruct i as [|[|i]]; simpl in *; [rewrite E1 | rewrite E2 | lia]; lra. }
  split; [exact H|]. destruct H as (Hl & Hu & Hok). now apply logit_inverse_forward.
Qed.
