(* C04 in binary64: the periodic wrap is NOT always in [lower, upper): an offset of less than half an ulp of the width
   below `lower` is rounded up to exactly `upper`.  Witness evaluated by the kernel's VM on the model Model/PeriodicF.v. *)
From Coq Require Import Floats.PrimFloat Bool.
From AV Require Import Model.PeriodicF.
Local Open Scope float_scope.

(* lower = 0, upper = 2 pi (as numpy prints it), x = -1e-17 *)
Definition w_lo : float := 0.
Definition w_up : float := 0x1.921fb54442d18p+2.
Definition w_x  : float := (-0x1.70ef54646d497p-57).

Lemma periodic_range_binary64_refuted :
  exists x lo up : float,
    fwrap_dom x lo up = true /\ (lo <? up) = true /\ (x <? lo) = true /\ (fwrap x lo up =? up) = true.
Proof. exists w_x, w_lo, w_up. vm_compute. repeat split; reflexivity. Qed.

(* the same wrap is fine one ulp of the WIDTH further down: the model does not make the claim false everywhere *)
Example periodic_range_binary64_ok_somewhere :
  let x := (-0x1p-50) in fwrap_dom x w_lo w_up = true /\ (w_lo <=? fwrap x w_lo w_up) = true /\ (fwrap x w_lo w_up <? w_up) = true.
Proof. vm_compute. repeat split; reflexivity. Qed.
