(* C13 — the HDF5 dictionary codec (Model/Codec.v): save / load round trip, order independence,
   dataset names, canon idempotence.  Everything below ends with Qed; Print Assumptions reports
   "Closed under the global context" for every theorem.

   PROVED:
     decode_encode            wf v -> encode v = Some s -> decode s = canon v
     load_save                wf (VDict kvs) -> VDict (load (save kvs)) = canon (VDict kvs)   (structural)
     roundtrip_lookup         wf (VDict kvs) -> forall p, lookup p (VDict (load (save kvs))) = lookup p (canon (VDict kvs))
     roundtrip_leaves, roundtrip_no_extra
     insert/lookup algebra    lookup_insert_same (I1), lookup_insert_incomp (I2, unconditional),
                              lookup_insert_prefix (a proper prefix sees a non-empty dict), lookup_insert_leaf_inv
     good_save                leaf paths of a wf configuration are pairwise incomparable
     load_inv                 for ANY list of datasets with non-empty pairwise incomparable paths, in any
                              order: every dataset is found at its path, and every leaf is a dataset
     load_permutation_general, load_permutation (observational form, see below), load_permutation_canon,
     load_permutation_leaves (literal lookup form on leaf paths), load_permutation_no_extra
     join_split, save_names_split, canon_idem_all, canon_idem, examples.

   NOT PROVED: the LITERAL statement of order independence
       forall p, lookup p (VDict (load l')) = lookup p (VDict (load (save kvs)))
     It is FALSE: lookup at [] or at an inner-dictionary path returns a VDict whose association list
     records insertion order (machine-checked counterexample: load_permutation_literal_false).
     Proved instead: the same statement with `obs` in place of `lookup` (obs p v = absent / inner
     dictionary / leaf with its value), which pins the loaded tree down up to the order of keys inside
     each dictionary; and the literal lookup statement for every leaf path. *)
From Coq Require Import List Bool ZArith String Ascii Permutation Lia.
From AV Require Import Model.Codec.
Import ListNotations.
Local Open Scope list_scope.

(* ------------------------------------------------------------------------------------------ *)
(* induction on the nested type                                                                *)

Definition leaf (v : value) : bool := match v with VDict (_ :: _) => false | _ => true end.

Section ValueInd.
  Variable P : value -> Prop.
  Hypothesis Hleaf : forall v, leaf v = true -> P v.
  Hypothesis Hdict : forall x r, Forall (fun kv => P (snd kv)) (x :: r) -> P (VDict (x :: r)).
  Fixpoint value_ind' (v : value) : P v :=
    match v as v0 return P v0 with
    | VDict (x :: r) =>
        Hdict x r
          ((fix go (l : list (string * value)) : Forall (fun kv => P (snd kv)) l :=
              match l with
              | [] => Forall_nil _
              | kv :: l' => Forall_cons kv (value_ind' (snd kv)) (go l')
              end) (x :: r))
    | v0 => Hleaf v0 eq_refl
    end.
End ValueInd.

(* ------------------------------------------------------------------------------------------ *)
(* the inner fixes as map / flat_map / forallb                                                 *)

Definition cmap (kvs : list (string * value)) : list (string * value) :=
  map (fun kv => (fst kv, canon (snd kv))) kvs.

Lemma canon_dict : forall kvs, canon (VDict kvs) = VDict (cmap kvs).
Proof.
  intros kvs. simpl. f_equal. induction kvs as [|[k v] r IH]; simpl; [reflexivity|].
  f_equal. exact IH.
Qed.

Lemma wf_dict : forall kvs,
  wf (VDict kvs) = nodup_keys (map fst kvs) && forallb (fun kv => key_ok (fst kv) && wf (snd kv)) kvs.
Proof.
  intros kvs. simpl. f_equal. induction kvs as [|[k v] r IH]; simpl; [reflexivity|].
  f_equal. exact IH.
Qed.

Lemma existsb_eqb_false : forall k l, existsb (String.eqb k) l = false -> forall k', In k' l -> k <> k'.
Proof.
  intros k l H k' Hin Heq. subst k'.
  assert (existsb (String.eqb k) l = true).
  { apply existsb_exists. exists k. split; [assumption|apply String.eqb_refl]. }
  congruence.
Qed.

Lemma wf_dict_cons : forall k v r, wf (VDict ((k, v) :: r)) = true ->
  (forall k', In k' (map fst r) -> k <> k') /\ key_ok k = true /\ wf v = true /\ wf (VDict r) = true.
Proof.
  intros k v r H. rewrite wf_dict in H. simpl in H.
  apply andb_true_iff in H. destruct H as [H1 H2].
  apply andb_true_iff in H1. destruct H1 as [H1 H1'].
  apply andb_true_iff in H2. destruct H2 as [H2 H2'].
  apply andb_true_iff in H2. destruct H2 as [H2 H2''].
  apply negb_true_iff in H1.
  repeat split; try assumption.
  - apply existsb_eqb_false. exact H1.
  - rewrite wf_dict. rewrite H1', H2'. reflexivity.
Qed.

Definition flat (v : value) : list (list string * stored) := flatten [] v.
Definition prep (k : string) (ps : list string * stored) : list string * stored := (k :: fst ps, snd ps).

Lemma flatten_leaf : forall pre v, leaf v = true ->
  flatten pre v = match encode v with Some s => [(pre, s)] | None => [] end.
Proof. intros pre v H. destruct v; try reflexivity. destruct kvs; [reflexivity|discriminate]. Qed.

Lemma encode_leaf : forall v, leaf v = true -> exists s, encode v = Some s.
Proof. intros v H. destruct v; simpl; eauto. destruct kvs; [eauto|discriminate]. Qed.

Lemma flatten_dict : forall pre x r,
  flatten pre (VDict (x :: r)) = flat_map (fun kv => flatten (pre ++ [fst kv]) (snd kv)) (x :: r).
Proof.
  intros pre x r. destruct x as [k v0].
  change (flatten pre (VDict ((k, v0) :: r))) with
    ((fix go (kvs : list (string * value)) : list (list string * stored) :=
         match kvs with
         | [] => []
         | (k', v') :: r' => (flatten (pre ++ [k'])%list v' ++ go r')%list
         end) ((k, v0) :: r)).
  generalize ((k, v0) :: r). intros l. induction l as [|[k' v'] l IH]; [reflexivity|].
  simpl flat_map. rewrite <- IH. reflexivity.
Qed.

Lemma save_flat_map0 : forall kvs, save kvs = flat_map (fun kv => flatten [fst kv] (snd kv)) kvs.
Proof.
  intros kvs. unfold save. induction kvs as [|[k v] r IH]; [reflexivity|].
  simpl flat_map. rewrite <- IH. reflexivity.
Qed.

Lemma flat_map_ext_Forall : forall (A B : Type) (f g : A -> list B) l,
  Forall (fun a => f a = g a) l -> flat_map f l = flat_map g l.
Proof. intros A B f g l H. induction H; simpl; [reflexivity|]. rewrite H, IHForall. reflexivity. Qed.

Lemma map_flat_map : forall (A B C : Type) (g : B -> C) (f : A -> list B) l,
  map g (flat_map f l) = flat_map (fun a => map g (f a)) l.
Proof. intros. induction l; simpl; [reflexivity|]. rewrite map_app, IHl. reflexivity. Qed.

Lemma flatten_prefix : forall v pre,
  flatten pre v = map (fun ps => (pre ++ fst ps, snd ps)) (flatten [] v).
Proof.
  induction v as [v Hl | x r IH] using value_ind'; intros pre.
  - rewrite !flatten_leaf by assumption. destruct (encode v); simpl; [|reflexivity].
    rewrite app_nil_r. reflexivity.
  - rewrite !flatten_dict. rewrite map_flat_map. apply flat_map_ext_Forall.
    revert IH. generalize (x :: r). intros l IH. induction IH as [|kv l H _ IH']; constructor; [|exact IH'].
    rewrite (H (pre ++ [fst kv])). rewrite (H ([] ++ [fst kv])).
    rewrite map_map. apply map_ext. intros [p s]. simpl. rewrite <- app_assoc. reflexivity.
Qed.

Lemma flatten_cons : forall k v, flatten [k] v = map (prep k) (flat v).
Proof. intros k v. rewrite flatten_prefix. reflexivity. Qed.

Lemma save_flat_map : forall kvs,
  save kvs = flat_map (fun kv => map (prep (fst kv)) (flat (snd kv))) kvs.
Proof.
  intros kvs. rewrite save_flat_map0. apply flat_map_ext_Forall.
  apply Forall_forall. intros kv _. apply flatten_cons.
Qed.

Lemma save_cons : forall k v r, save ((k, v) :: r) = map (prep k) (flat v) ++ save r.
Proof. intros. rewrite !save_flat_map. reflexivity. Qed.

Lemma flat_dict : forall x r, flat (VDict (x :: r)) = save (x :: r).
Proof. intros x r. unfold flat. rewrite flatten_dict, save_flat_map0. reflexivity. Qed.

Lemma flat_leaf : forall v, leaf v = true -> exists s, encode v = Some s /\ flat v = [([], s)].
Proof.
  intros v H. destruct (encode_leaf v H) as [s Hs]. exists s. split; [assumption|].
  unfold flat. rewrite flatten_leaf by assumption. rewrite Hs. reflexivity.
Qed.

Lemma flat_nonempty : forall v, flat v <> [].
Proof.
  induction v as [v Hl | x r IH] using value_ind'.
  - destruct (flat_leaf v Hl) as [s [_ H]]. rewrite H. discriminate.
  - rewrite flat_dict. destruct x as [k v]. rewrite save_cons.
    inversion IH as [|? ? H _]. simpl in H. destruct (flat v); [congruence|discriminate].
Qed.

Lemma in_save : forall kvs y, In y (save kvs) ->
  exists k p, In k (map fst kvs) /\ fst y = k :: p.
Proof.
  intros kvs y H. rewrite save_flat_map in H. apply in_flat_map in H.
  destruct H as [[k v] [Hin Hy]]. apply in_map_iff in Hy. destruct Hy as [[p s] [Hy _]].
  subst y. exists k, p. split; [|reflexivity]. apply in_map_iff. exists (k, v). auto.
Qed.

Lemma save_paths_nonempty : forall kvs, Forall (fun ps => fst ps <> []) (save kvs).
Proof.
  intros kvs. apply Forall_forall. intros y H. destruct (in_save _ _ H) as [k [p [_ E]]].
  rewrite E. discriminate.
Qed.

(* ------------------------------------------------------------------------------------------ *)
(* decode after encode is canon, on well-formed leaves                                          *)

Lemma decode_encode : forall v s, wf v = true -> encode v = Some s -> decode s = canon v.
Proof.
  intros v s Hwf He.
  destruct v as [ | b | z | f | s0 | l | l | shape data | kvs]; simpl in He;
    try (inversion He; subst; reflexivity).
  - (* VStr *) inversion He; subst. simpl in Hwf. apply andb_true_iff in Hwf. destruct Hwf as [H1 H2].
    apply negb_true_iff in H1. apply negb_true_iff in H2. simpl. rewrite H1, H2. reflexivity.
  - (* VDict *) destruct kvs; [|discriminate]. inversion He; subst. reflexivity.
Qed.

Lemma decode_leaf : forall s, leaf (decode s) = true.
Proof.
  intros s. destruct s as [s | b | z | f | l | shape data]; simpl; try reflexivity.
  - destruct (String.eqb s none_marker); [reflexivity|].
    destruct (String.eqb s empty_dict_marker); reflexivity.
  - destruct shape; [|reflexivity]. destruct data as [|z [|z' d]]; reflexivity.
Qed.

Lemma canon_leaf : forall v, leaf v = true -> leaf (canon v) = true.
Proof.
  intros v H. destruct v as [ | b | z | f | s0 | l | l | shape data | kvs]; try reflexivity.
  - destruct shape; [|reflexivity]. destruct data as [|z [|z' d]]; reflexivity.
  - destruct kvs; [reflexivity|discriminate].
Qed.

(* ------------------------------------------------------------------------------------------ *)
(* insert as set_key / modify                                                                   *)

Fixpoint set_key (k : string) (v : value) (l : list (string * value)) : list (string * value) :=
  match l with
  | [] => [(k, v)]
  | (k', v') :: r => if String.eqb k k' then (k, v) :: r else (k', v') :: set_key k v r
  end.

Fixpoint modify (k : string) (f : list (string * value) -> list (string * value))
         (l : list (string * value)) : list (string * value) :=
  match l with
  | [] => [(k, VDict (f []))]
  | (k', v') :: r =>
      if String.eqb k k'
      then (k', match v' with VDict sub => VDict (f sub) | other => other end) :: r
      else (k', v') :: modify k f r
  end.

Lemma insert_nil : forall v d, insert [] v d = d.
Proof. reflexivity. Qed.

Lemma insert_one : forall k v d, insert [k] v d = set_key k v d.
Proof.
  intros k v d. induction d as [|[k' v'] r IH]; [reflexivity|].
  simpl. simpl in IH. rewrite IH. reflexivity.
Qed.

Lemma insert_cons2 : forall k k2 rest v d,
  insert (k :: k2 :: rest) v d = modify k (insert (k2 :: rest) v) d.
Proof.
  intros k k2 rest v d. induction d as [|[k' v'] r IH]; [reflexivity|].
  simpl. simpl in IH. rewrite IH. reflexivity.
Qed.

Lemma insert_cons : forall k p v d, p <> [] -> insert (k :: p) v d = modify k (insert p v) d.
Proof. intros k p v d H. destruct p as [|k2 rest]; [congruence|]. apply insert_cons2. Qed.

Lemma set_key_fresh : forall k v d, lookup_key k d = None -> set_key k v d = d ++ [(k, v)].
Proof.
  intros k v d. induction d as [|[k' v'] r IH]; simpl; [reflexivity|].
  destruct (String.eqb k k'); [discriminate|]. intros H. rewrite IH by assumption. reflexivity.
Qed.

Lemma modify_fresh : forall k f d, lookup_key k d = None -> modify k f d = d ++ [(k, VDict (f []))].
Proof.
  intros k f d. induction d as [|[k' v'] r IH]; simpl; [reflexivity|].
  destruct (String.eqb k k'); [discriminate|]. intros H. rewrite IH by assumption. reflexivity.
Qed.

Lemma modify_last : forall k f d sub, lookup_key k d = None ->
  modify k f (d ++ [(k, VDict sub)]) = d ++ [(k, VDict (f sub))].
Proof.
  intros k f d sub. induction d as [|[k' v'] r IH]; simpl.
  - rewrite String.eqb_refl. reflexivity.
  - destruct (String.eqb k k'); [discriminate|]. intros H. rewrite IH by assumption. reflexivity.
Qed.

Definition insert_all (l : list (list string * stored)) (d : list (string * value)) :=
  fold_left (fun d ps => insert (fst ps) (decode (snd ps)) d) l d.

Lemma load_insert_all : forall l, load l = insert_all l [].
Proof. reflexivity. Qed.

Lemma insert_all_app : forall l1 l2 d, insert_all (l1 ++ l2) d = insert_all l2 (insert_all l1 d).
Proof. intros. unfold insert_all. apply fold_left_app. Qed.

Lemma insert_all_cons : forall x l d,
  insert_all (x :: l) d = insert_all l (insert (fst x) (decode (snd x)) d).
Proof. reflexivity. Qed.

Lemma insert_all_prep_cons : forall k p s l d,
  insert_all (map (prep k) ((p, s) :: l)) d = insert_all (map (prep k) l) (insert (k :: p) (decode s) d).
Proof. reflexivity. Qed.

Lemma insert_all_prep_last : forall k l d sub,
  Forall (fun ps => fst ps <> []) l -> lookup_key k d = None ->
  insert_all (map (prep k) l) (d ++ [(k, VDict sub)]) = d ++ [(k, VDict (insert_all l sub))].
Proof.
  intros k l d sub Hl Hk. revert sub. induction Hl as [|[p s] l Hp _ IH]; intros sub; [reflexivity|].
  simpl in Hp. rewrite insert_all_prep_cons, insert_all_cons.
  rewrite insert_cons by assumption. rewrite modify_last by assumption. apply IH.
Qed.

Lemma insert_all_prep_fresh : forall k l d,
  l <> [] -> Forall (fun ps => fst ps <> []) l -> lookup_key k d = None ->
  insert_all (map (prep k) l) d = d ++ [(k, VDict (insert_all l []))].
Proof.
  intros k l d Hne Hl Hk. destruct l as [|[p s] l]; [congruence|].
  inversion Hl as [|? ? Hp Hl']; subst. simpl in Hp. rewrite insert_all_prep_cons.
  rewrite insert_cons by assumption. rewrite modify_fresh by assumption.
  rewrite insert_all_prep_last by assumption. reflexivity.
Qed.

Lemma lookup_key_app_fresh : forall k k' v d, k <> k' -> lookup_key k d = None ->
  lookup_key k (d ++ [(k', v)]) = None.
Proof.
  intros k k' v d Hne. induction d as [|[k0 v0] r IH]; simpl.
  - intros _. apply String.eqb_neq in Hne. rewrite Hne. reflexivity.
  - destruct (String.eqb k k0); [discriminate|]. exact IH.
Qed.

(* ------------------------------------------------------------------------------------------ *)
(* GOAL 1: the round trip, structurally                                                         *)

Definition RT (v : value) : Prop :=
  wf v = true -> forall d k, lookup_key k d = None ->
  insert_all (map (prep k) (flat v)) d = d ++ [(k, canon v)].

Lemma RT_save : forall kvs, Forall (fun kv => RT (snd kv)) kvs -> wf (VDict kvs) = true ->
  forall d0, (forall k, In k (map fst kvs) -> lookup_key k d0 = None) ->
  insert_all (save kvs) d0 = d0 ++ cmap kvs.
Proof.
  intros kvs H. induction H as [|[k v] r Hv _ IH]; intros Hwf d0 Hfresh.
  - simpl. rewrite app_nil_r. reflexivity.
  - destruct (wf_dict_cons _ _ _ Hwf) as [Hk [_ [Hwv Hwr]]].
    rewrite save_cons, insert_all_app. simpl in Hv.
    rewrite (Hv Hwv d0 k) by (apply Hfresh; left; reflexivity).
    rewrite IH; [|assumption|].
    + rewrite <- app_assoc. reflexivity.
    + intros k' Hin. apply lookup_key_app_fresh.
      * intro E. apply (Hk k' Hin). symmetry. exact E.
      * apply Hfresh. right. exact Hin.
Qed.

Lemma RT_all : forall v, RT v.
Proof.
  induction v as [v Hl | x r IH] using value_ind'; intros Hwf d k Hk.
  - destruct (flat_leaf v Hl) as [s [He Hf]]. rewrite Hf. rewrite insert_all_prep_cons.
    change (insert_all (map (prep k) []) (insert [k] (decode s) d)) with (insert [k] (decode s) d).
    rewrite insert_one, set_key_fresh by assumption.
    rewrite (decode_encode v s Hwf He). reflexivity.
  - rewrite flat_dict.
    rewrite insert_all_prep_fresh; [| |apply save_paths_nonempty|assumption].
    + rewrite (RT_save (x :: r) IH Hwf []) by reflexivity. rewrite canon_dict. reflexivity.
    + rewrite <- flat_dict. apply flat_nonempty.
Qed.

Theorem load_save : forall kvs, wf (VDict kvs) = true -> VDict (load (save kvs)) = canon (VDict kvs).
Proof.
  intros kvs Hwf. rewrite canon_dict, load_insert_all.
  rewrite (RT_save kvs) with (d0 := []); try reflexivity; try assumption.
  apply Forall_forall. intros kv _. apply RT_all.
Qed.

Theorem roundtrip_lookup : forall kvs, wf (VDict kvs) = true ->
  forall p, lookup p (VDict (load (save kvs))) = lookup p (canon (VDict kvs)).
Proof. intros kvs Hwf p. rewrite load_save by assumption. reflexivity. Qed.

(* ------------------------------------------------------------------------------------------ *)
(* the insert / lookup algebra                                                                  *)

(* p and q diverge at some position: neither is a prefix of the other *)
Fixpoint incomp (p q : list string) : Prop :=
  match p, q with
  | a :: p', b :: q' => a <> b \/ incomp p' q'
  | _, _ => False
  end.

Lemma incomp_sym : forall p q, incomp p q -> incomp q p.
Proof.
  induction p as [|a p IH]; intros [|b q]; simpl; try tauto.
  intros [H|H]; [left; congruence|right; auto].
Qed.

Lemma incomp_nonempty_l : forall p q, incomp p q -> p <> [].
Proof. intros [|a p] q H; [destruct H|discriminate]. Qed.

Lemma incomp_nonempty_r : forall p q, incomp p q -> q <> [].
Proof. intros p q H. apply incomp_sym in H. eapply incomp_nonempty_l; eauto. Qed.

Lemma incomp_spec : forall p q, incomp p q <-> ~ (exists r, q = p ++ r) /\ ~ (exists r, p = q ++ r).
Proof.
  induction p as [|a p IH]; intros q.
  - simpl. split; [tauto|]. intros [H _]. apply H. exists q. reflexivity.
  - destruct q as [|b q].
    + simpl. split; [tauto|]. intros [_ H]. apply H. exists (a :: p). reflexivity.
    + simpl. split.
      * intros [H|H].
        -- split; intros [r E]; inversion E; congruence.
        -- apply IH in H. destruct H as [H1 H2].
           split; intros [r E]; inversion E; [apply H1|apply H2]; exists r; assumption.
      * intros [H1 H2]. destruct (String.eqb_spec a b) as [E|E]; [|left; assumption].
        subst b. right. apply IH. split; intros [r E]; [apply H1|apply H2]; exists r; simpl; congruence.
Qed.

Lemma path_cases : forall p q : list string,
  incomp p q \/ (exists r, q = p ++ r) \/ (exists r, r <> [] /\ p = q ++ r).
Proof.
  induction p as [|a p IH]; intros q.
  - right. left. exists q. reflexivity.
  - destruct q as [|b q].
    + right. right. exists (a :: p). split; [discriminate|reflexivity].
    + destruct (String.eqb_spec a b) as [E|E].
      * subst b. destruct (IH q) as [H|[[r H]|[r [Hr H]]]].
        -- left. right. exact H.
        -- right. left. exists r. simpl. congruence.
        -- right. right. exists r. split; [assumption|simpl; congruence].
      * left. left. exact E.
Qed.

Lemma lookup_key_set_same : forall k v d, lookup_key k (set_key k v d) = Some v.
Proof.
  intros k v d. induction d as [|[k' v'] r IH]; simpl.
  - rewrite String.eqb_refl. reflexivity.
  - destruct (String.eqb k k') eqn:E; simpl; [rewrite String.eqb_refl|rewrite E]; auto.
Qed.

Lemma lookup_key_set_other : forall k k' v d, k <> k' -> lookup_key k' (set_key k v d) = lookup_key k' d.
Proof.
  intros k k' v d Hne. induction d as [|[k0 v0] r IH]; simpl.
  - apply not_eq_sym in Hne. apply String.eqb_neq in Hne. rewrite Hne. reflexivity.
  - destruct (String.eqb_spec k k0) as [E|E]; simpl.
    + subst k0. apply not_eq_sym in Hne. apply String.eqb_neq in Hne. rewrite Hne. reflexivity.
    + rewrite IH. reflexivity.
Qed.

Lemma lookup_key_modify_same : forall k f d,
  lookup_key k (modify k f d) =
  match lookup_key k d with
  | None => Some (VDict (f []))
  | Some (VDict sub) => Some (VDict (f sub))
  | Some other => Some other
  end.
Proof.
  intros k f d. induction d as [|[k' v'] r IH]; simpl.
  - rewrite String.eqb_refl. reflexivity.
  - destruct (String.eqb k k') eqn:E; simpl; rewrite E; [|exact IH].
    destruct v'; reflexivity.
Qed.

Lemma lookup_key_modify_other : forall k k' f d, k <> k' -> lookup_key k' (modify k f d) = lookup_key k' d.
Proof.
  intros k k' f d Hne. induction d as [|[k0 v0] r IH]; simpl.
  - apply not_eq_sym in Hne. apply String.eqb_neq in Hne. rewrite Hne. reflexivity.
  - destruct (String.eqb_spec k k0) as [E|E]; simpl.
    + subst k0. apply not_eq_sym in Hne. apply String.eqb_neq in Hne. rewrite Hne. reflexivity.
    + rewrite IH. reflexivity.
Qed.

Lemma lookup_key_insert_other : forall k p k' v d, k <> k' ->
  lookup_key k' (insert (k :: p) v d) = lookup_key k' d.
Proof.
  intros k p k' v d Hne. destruct p as [|k2 rest].
  - rewrite insert_one. apply lookup_key_set_other. assumption.
  - rewrite insert_cons2. apply lookup_key_modify_other. assumption.
Qed.

Lemma lookup_cons : forall k rest d,
  lookup (k :: rest) (VDict d) = match lookup_key k d with Some v' => lookup rest v' | None => None end.
Proof. reflexivity. Qed.

Lemma lookup_nil_dict : forall q, q <> [] -> lookup q (VDict []) = None.
Proof. intros [|k q] H; [congruence|reflexivity]. Qed.

Lemma lookup_cons_some : forall k r w x, lookup (k :: r) w = Some x -> leaf w = false.
Proof.
  intros k r w x H. destruct w; simpl in H; try discriminate.
  destruct kvs; [discriminate|reflexivity].
Qed.

Lemma lookup_leaf_none : forall r w, r <> [] -> leaf w = true -> lookup r w = None.
Proof.
  intros [|k r] w Hr Hl; [congruence|]. destruct (lookup (k :: r) w) eqn:E; [|reflexivity].
  apply lookup_cons_some in E. congruence.
Qed.

Lemma lookup_app : forall q r v,
  lookup (q ++ r) v = match lookup q v with Some w => lookup r w | None => None end.
Proof.
  induction q as [|k q IH]; intros r v; [reflexivity|].
  simpl. destruct v; try reflexivity. destruct (lookup_key k kvs); [apply IH|reflexivity].
Qed.

(* (I2) an insertion does not disturb any incomparable path — unconditionally *)
Lemma lookup_insert_incomp : forall p q v d, incomp p q ->
  lookup q (VDict (insert p v d)) = lookup q (VDict d).
Proof.
  induction p as [|a p IH]; intros q v d H; [destruct H|].
  destruct q as [|b q]; [destruct H|].
  rewrite !lookup_cons. destruct (String.eqb_spec a b) as [E|E].
  - subst b. destruct H as [H|H]; [congruence|].
    rewrite insert_cons by (eapply incomp_nonempty_l; eauto).
    rewrite lookup_key_modify_same.
    destruct (lookup_key a d) as [w|].
    + destruct w; try reflexivity. apply IH. assumption.
    + rewrite IH by assumption. apply lookup_nil_dict. eapply incomp_nonempty_r; eauto.
  - rewrite lookup_key_insert_other by assumption. reflexivity.
Qed.

(* the walk along p meets only dictionaries or absent keys: stated as "every leaf already present
   lies on a path incomparable with p" *)
Definition clear (p : list string) (d : list (string * value)) : Prop :=
  forall q w, q <> [] -> lookup q (VDict d) = Some w -> leaf w = true -> incomp p q.

Lemma clear_nil : forall p, clear p [].
Proof. intros p q w Hq H. rewrite lookup_nil_dict in H by assumption. discriminate. Qed.

(* (I1) *)
Lemma lookup_insert_same : forall p v d, p <> [] -> clear p d ->
  lookup p (VDict (insert p v d)) = Some v.
Proof.
  induction p as [|k p IH]; intros v d Hp Hc; [congruence|].
  destruct p as [|k2 rest].
  - rewrite insert_one, lookup_cons, lookup_key_set_same. reflexivity.
  - rewrite insert_cons2, lookup_cons, lookup_key_modify_same.
    destruct (lookup_key k d) as [w|] eqn:Ek.
    + assert (Hsub : forall sub, w = VDict sub -> lookup (k2 :: rest) (VDict (insert (k2 :: rest) v sub)) = Some v).
      { intros sub Hw. apply IH; [discriminate|]. intros q x Hq Hx Hlx.
        assert (Hi : incomp (k :: k2 :: rest) (k :: q)).
        { apply (Hc (k :: q) x); [discriminate| |assumption].
          rewrite lookup_cons, Ek, Hw. exact Hx. }
        destruct Hi as [Hi|Hi]; [congruence|exact Hi]. }
      assert (Hleaf : leaf w = true -> False).
      { intros Hl. assert (Hi : incomp (k :: k2 :: rest) [k]).
        { apply (Hc [k] w); [discriminate| |assumption]. rewrite lookup_cons, Ek. reflexivity. }
        destruct Hi as [Hi|Hi]; [congruence|destruct Hi]. }
      destruct w; try (exfalso; apply Hleaf; reflexivity).
      apply Hsub. reflexivity.
    + apply IH; [discriminate|apply clear_nil].
Qed.

(* (I4) what a proper, non-empty prefix of p sees after the insertion: a non-empty dictionary *)
Lemma lookup_insert_prefix : forall q r v d, r <> [] -> clear (q ++ r) d ->
  exists x t, lookup q (VDict (insert (q ++ r) v d)) = Some (VDict (x :: t)).
Proof.
  intros q r v d Hr Hc.
  assert (H : lookup (q ++ r) (VDict (insert (q ++ r) v d)) = Some v).
  { apply lookup_insert_same; [|assumption]. destruct q; [assumption|discriminate]. }
  rewrite lookup_app in H. destruct (lookup q (VDict (insert (q ++ r) v d))) as [w|]; [|discriminate].
  destruct r as [|k r]; [congruence|]. apply lookup_cons_some in H.
  destruct w; try discriminate. destruct kvs as [|x t]; [discriminate|]. eauto.
Qed.

(* (I3) leaves after an insertion: the new one, or one that was already there *)
Lemma lookup_insert_leaf_inv : forall p v d q w, p <> [] -> clear p d -> leaf v = true ->
  q <> [] -> lookup q (VDict (insert p v d)) = Some w -> leaf w = true ->
  (q = p /\ w = v) \/ lookup q (VDict d) = Some w.
Proof.
  intros p v d q w Hp Hc Hv Hq Hlk Hw.
  pose proof (lookup_insert_same p v d Hp Hc) as Hsame.
  destruct (path_cases p q) as [H|[[r H]|[r [Hr H]]]].
  - right. rewrite <- Hlk. symmetry. apply lookup_insert_incomp. assumption.
  - subst q. destruct r as [|k r].
    + rewrite app_nil_r in *. left. split; [reflexivity|congruence].
    + rewrite lookup_app, Hsame in Hlk. rewrite lookup_leaf_none in Hlk; [discriminate|discriminate|assumption].
  - subst p. rewrite lookup_app, Hlk in Hsame. rewrite lookup_leaf_none in Hsame; [discriminate|assumption|assumption].
Qed.

(* ------------------------------------------------------------------------------------------ *)
(* dataset lists with pairwise incomparable paths                                               *)

Fixpoint good (l : list (list string * stored)) : Prop :=
  match l with
  | [] => True
  | x :: r => Forall (fun y => incomp (fst x) (fst y)) r /\ good r
  end.

Lemma good_app : forall l1 l2,
  good (l1 ++ l2) <->
  good l1 /\ good l2 /\ Forall (fun x => Forall (fun y => incomp (fst x) (fst y)) l2) l1.
Proof.
  induction l1 as [|x l1 IH]; intros l2; simpl.
  - split; [intros H; repeat split; auto|tauto].
  - rewrite IH. rewrite Forall_app. split.
    + intros [[H1 H2] [H3 [H4 H5]]]. repeat split; auto.
    + intros [[H1 H3] [H4 H5]]. inversion H5; subst. repeat split; auto.
Qed.

Lemma good_perm : forall l l', Permutation l l' -> good l -> good l'.
Proof.
  intros l l' HP. induction HP as [|x l l' HP IH|x y l|l l' l'' HP1 IH1 HP2 IH2]; simpl.
  - auto.
  - intros [H1 H2]. split; [|auto]. eapply Permutation_Forall; eauto.
  - intros [H1 [H2 H3]]. inversion H1 as [|? ? Hxy H1']; subst.
    repeat split; auto. constructor; [apply incomp_sym; assumption|assumption].
  - auto.
Qed.

Lemma good_map_prep : forall k l, good l -> good (map (prep k) l).
Proof.
  intros k l. induction l as [|x l IH]; simpl; [auto|].
  intros [H1 H2]. split; [|auto]. apply Forall_map. eapply Forall_impl; [|exact H1].
  intros y Hy. simpl. right. exact Hy.
Qed.

Lemma good_save_aux : forall kvs,
  Forall (fun kv => wf (snd kv) = true -> good (flat (snd kv))) kvs ->
  wf (VDict kvs) = true -> good (save kvs).
Proof.
  intros kvs H. induction H as [|[k v] r Hv _ IH]; intros Hwf; [exact I|].
  destruct (wf_dict_cons _ _ _ Hwf) as [Hk [_ [Hwv Hwr]]].
  rewrite save_cons. apply good_app. split; [|split].
  - apply good_map_prep. apply Hv. exact Hwv.
  - apply IH. exact Hwr.
  - apply Forall_map. apply Forall_forall. intros x _. apply Forall_forall. intros y Hy.
    destruct (in_save _ _ Hy) as [k' [p [Hin E]]]. rewrite E. simpl. left. apply Hk. exact Hin.
Qed.

Lemma good_flat : forall v, wf v = true -> good (flat v).
Proof.
  induction v as [v Hl | x r IH] using value_ind'; intros Hwf.
  - destruct (flat_leaf v Hl) as [s [_ Hf]]. rewrite Hf. simpl. auto.
  - rewrite flat_dict. apply good_save_aux; assumption.
Qed.

Lemma good_save : forall kvs, wf (VDict kvs) = true -> good (save kvs).
Proof.
  intros kvs Hwf. apply good_save_aux; [|assumption].
  apply Forall_forall. intros kv _. apply good_flat.
Qed.

(* ------------------------------------------------------------------------------------------ *)
(* what load builds from a good dataset list, whatever its order                                *)

Lemma load_snoc : forall l x, load (l ++ [x]) = insert (fst x) (decode (snd x)) (load l).
Proof. intros l x. unfold load. rewrite fold_left_app. reflexivity. Qed.

Theorem load_inv : forall l, good l -> Forall (fun ps => fst ps <> []) l ->
  (forall p s, In (p, s) l -> lookup p (VDict (load l)) = Some (decode s)) /\
  (forall q w, q <> [] -> lookup q (VDict (load l)) = Some w -> leaf w = true ->
               exists s, In (q, s) l /\ w = decode s).
Proof.
  induction l as [|[p0 s0] l IH] using rev_ind; intros Hg Hne.
  - split; [intros p s []|]. intros q w Hq H. change (load []) with (@nil (string * value)) in H.
    rewrite lookup_nil_dict in H by assumption. discriminate.
  - apply good_app in Hg. destruct Hg as [Hg [_ Hx]].
    apply Forall_app in Hne. destruct Hne as [Hne Hp0]. inversion Hp0 as [|? ? Hp0' _]; subst. simpl in Hp0'.
    destruct (IH Hg Hne) as [IHa IHb].
    assert (Hinc : forall q s, In (q, s) l -> incomp p0 q).
    { intros q s Hin. rewrite Forall_forall in Hx. specialize (Hx _ Hin).
      inversion Hx as [|? ? Hi _]; subst. apply incomp_sym. exact Hi. }
    assert (Hc : clear p0 (load l)).
    { intros q w Hq Hlk Hw. destruct (IHb q w Hq Hlk Hw) as [s [Hin _]]. eapply Hinc; eauto. }
    rewrite load_snoc. simpl fst. simpl snd. split.
    + intros p s Hin. apply in_app_or in Hin. destruct Hin as [Hin|[Hin|[]]].
      * rewrite lookup_insert_incomp by (eapply Hinc; eauto). apply IHa. exact Hin.
      * inversion Hin; subst. apply lookup_insert_same; assumption.
    + intros q w Hq Hlk Hw.
      destruct (lookup_insert_leaf_inv p0 (decode s0) (load l) q w Hp0' Hc (decode_leaf s0) Hq Hlk Hw)
        as [[E1 E2]|H].
      * subst. exists s0. split; [apply in_or_app; right; left; reflexivity|reflexivity].
      * destruct (IHb q w Hq H Hw) as [s [Hin E]]. exists s. split; [apply in_or_app; left; exact Hin|exact E].
Qed.

(* ------------------------------------------------------------------------------------------ *)
(* observation of a tree at a path: absent / inner dictionary / leaf with its value.
   Two trees with the same observations at every path are equal up to the order of keys inside
   each dictionary. *)

Definition obs (p : list string) (v : value) : option (option value) :=
  match lookup p v with
  | None => None
  | Some w => Some (if leaf w then Some w else None)
  end.

Lemma has_leaf : forall v, exists q w, lookup q v = Some w /\ leaf w = true /\ (leaf v = false -> q <> []).
Proof.
  induction v as [v Hl | x r IH] using value_ind'.
  - exists [], v. repeat split; [assumption|congruence].
  - inversion IH as [|? ? H _]; subst. destruct x as [k v]. simpl in H.
    destruct H as [q [w [H1 [H2 _]]]]. exists (k :: q), w. repeat split; [|assumption|discriminate].
    rewrite lookup_cons. simpl. rewrite String.eqb_refl. exact H1.
Qed.

Definition leaves_sub (d1 d2 : list (string * value)) : Prop :=
  forall q w, q <> [] -> lookup q (VDict d1) = Some w -> leaf w = true -> lookup q (VDict d2) = Some w.

Lemma obs_sub : forall d1 d2, leaves_sub d1 d2 -> forall p x, p <> [] ->
  obs p (VDict d1) = Some x -> obs p (VDict d2) = Some x.
Proof.
  intros d1 d2 Hs p x Hp. unfold obs. destruct (lookup p (VDict d1)) as [v|] eqn:E1; [|discriminate].
  destruct (leaf v) eqn:Hl; intros Hx; inversion Hx; subst; clear Hx.
  - rewrite (Hs p v Hp E1 Hl). rewrite Hl. reflexivity.
  - destruct (has_leaf v) as [q [w [H1 [H2 H3]]]]. specialize (H3 Hl).
    assert (E : lookup (p ++ q) (VDict d2) = Some w).
    { apply Hs; [destruct p; [congruence|discriminate]| |assumption].
      rewrite lookup_app, E1. exact H1. }
    rewrite lookup_app in E. destruct (lookup p (VDict d2)) as [v2|]; [|discriminate].
    destruct q as [|k q]; [congruence|]. apply lookup_cons_some in E. rewrite E. reflexivity.
Qed.

Lemma obs_eq : forall d1 d2, leaves_sub d1 d2 -> leaves_sub d2 d1 ->
  forall p, obs p (VDict d1) = obs p (VDict d2).
Proof.
  intros d1 d2 H12 H21 p. destruct p as [|k p].
  - assert (Hempty : forall da db, leaves_sub da db -> db = [] -> da = []).
    { intros da db Hs E. subst db. destruct da as [|x r]; [reflexivity|].
      destruct (has_leaf (VDict (x :: r))) as [q [w [H1 [H2 H3]]]]. specialize (H3 eq_refl).
      pose proof (Hs q w H3 H1 H2) as H. rewrite lookup_nil_dict in H by assumption. discriminate. }
    unfold obs. simpl lookup. destruct d1 as [|x1 r1].
    + rewrite (Hempty d2 [] H21 eq_refl). reflexivity.
    + destruct d2 as [|x2 r2]; [|reflexivity].
      pose proof (Hempty _ _ H12 eq_refl). discriminate.
  - destruct (obs (k :: p) (VDict d1)) as [x|] eqn:E1.
    + symmetry. eapply obs_sub; eauto. discriminate.
    + destruct (obs (k :: p) (VDict d2)) as [y|] eqn:E2; [|reflexivity].
      eapply obs_sub in E2; eauto; [congruence|discriminate].
Qed.

(* ------------------------------------------------------------------------------------------ *)
(* GOAL 2: order independence                                                                   *)

Theorem load_permutation_general : forall l l',
  good l -> Forall (fun ps => fst ps <> []) l -> Permutation l' l ->
  forall p, obs p (VDict (load l')) = obs p (VDict (load l)).
Proof.
  intros l l' Hg Hne HP.
  assert (Hg' : good l') by (eapply good_perm; [apply Permutation_sym|]; eauto).
  assert (Hne' : Forall (fun ps => fst ps <> []) l') by (eapply Permutation_Forall; [apply Permutation_sym|]; eauto).
  destruct (load_inv l Hg Hne) as [Ha Hb]. destruct (load_inv l' Hg' Hne') as [Ha' Hb'].
  apply obs_eq; intros q w Hq Hlk Hw.
  - destruct (Hb' q w Hq Hlk Hw) as [s [Hin E]]. subst w. apply Ha. eapply Permutation_in; eauto.
  - destruct (Hb q w Hq Hlk Hw) as [s [Hin E]]. subst w. apply Ha'.
    eapply Permutation_in; [apply Permutation_sym|]; eauto.
Qed.

(* the observational form of order independence *)
Theorem load_permutation : forall kvs l', wf (VDict kvs) = true -> Permutation l' (save kvs) ->
  forall p, obs p (VDict (load l')) = obs p (VDict (load (save kvs))).
Proof.
  intros kvs l' Hwf HP. apply load_permutation_general; [apply good_save|apply save_paths_nonempty|]; assumption.
Qed.

Theorem load_permutation_canon : forall kvs l', wf (VDict kvs) = true -> Permutation l' (save kvs) ->
  forall p, obs p (VDict (load l')) = obs p (canon (VDict kvs)).
Proof.
  intros kvs l' Hwf HP p. rewrite (load_permutation kvs l' Hwf HP), load_save by assumption. reflexivity.
Qed.

(* the literal (lookup) form, on every leaf path *)
Theorem load_permutation_leaves : forall kvs l', wf (VDict kvs) = true -> Permutation l' (save kvs) ->
  forall p s, In (p, s) (save kvs) ->
  lookup p (VDict (load l')) = Some (decode s) /\
  lookup p (VDict (load l')) = lookup p (VDict (load (save kvs))).
Proof.
  intros kvs l' Hwf HP p s Hin.
  pose proof (good_save kvs Hwf) as Hg. pose proof (save_paths_nonempty kvs) as Hne.
  assert (Hg' : good l') by (eapply good_perm; [apply Permutation_sym|]; eauto).
  assert (Hne' : Forall (fun ps => fst ps <> []) l') by (eapply Permutation_Forall; [apply Permutation_sym|]; eauto).
  destruct (load_inv _ Hg Hne) as [Ha _]. destruct (load_inv l' Hg' Hne') as [Ha' _].
  assert (H : lookup p (VDict (load l')) = Some (decode s)).
  { apply Ha'. eapply Permutation_in; [apply Permutation_sym|]; eauto. }
  split; [exact H|]. rewrite H. symmetry. apply Ha. exact Hin.
Qed.

(* ... and no other leaves appear, in any order *)
Theorem load_permutation_no_extra : forall kvs l', wf (VDict kvs) = true -> Permutation l' (save kvs) ->
  forall q w, q <> [] -> lookup q (VDict (load l')) = Some w -> leaf w = true ->
  exists s, In (q, s) (save kvs) /\ w = decode s.
Proof.
  intros kvs l' Hwf HP q w Hq Hlk Hw.
  pose proof (good_save kvs Hwf) as Hg. pose proof (save_paths_nonempty kvs) as Hne.
  assert (Hg' : good l') by (eapply good_perm; [apply Permutation_sym|]; eauto).
  assert (Hne' : Forall (fun ps => fst ps <> []) l') by (eapply Permutation_Forall; [apply Permutation_sym|]; eauto).
  destruct (load_inv l' Hg' Hne') as [_ Hb']. destruct (Hb' q w Hq Hlk Hw) as [s [Hin E]].
  exists s. split; [eapply Permutation_in; eauto|exact E].
Qed.

Theorem roundtrip_leaves : forall kvs, wf (VDict kvs) = true ->
  forall p s, In (p, s) (save kvs) -> lookup p (VDict (load (save kvs))) = Some (decode s).
Proof.
  intros kvs Hwf p s Hin.
  destruct (load_inv _ (good_save kvs Hwf) (save_paths_nonempty kvs)) as [Ha _]. apply Ha. exact Hin.
Qed.

Theorem roundtrip_no_extra : forall kvs, wf (VDict kvs) = true ->
  forall q w, q <> [] -> lookup q (VDict (load (save kvs))) = Some w -> leaf w = true ->
  exists s, In (q, s) (save kvs) /\ w = decode s.
Proof.
  intros kvs Hwf. destruct (load_inv _ (good_save kvs Hwf) (save_paths_nonempty kvs)) as [_ Hb]. exact Hb.
Qed.

(* The literal statement of order independence is false: the loaded dictionaries record insertion
   order, which lookup exposes at [] and at every inner-dictionary path. *)
Lemma load_permutation_literal_false :
  exists kvs l', wf (VDict kvs) = true /\ Permutation l' (save kvs) /\
    exists p, lookup p (VDict (load l')) <> lookup p (VDict (load (save kvs))).
Proof.
  exists [("a"%string, VInt 1); ("b"%string, VInt 2)].
  exists [(["b"%string], SInt 2); (["a"%string], SInt 1)].
  split; [reflexivity|]. split; [apply perm_swap|].
  exists []. vm_compute. discriminate.
Qed.

(* ------------------------------------------------------------------------------------------ *)
(* GOAL 3: dataset names                                                                        *)

Lemma sapp_assoc : forall a b c : string, ((a ++ b) ++ c)%string = (a ++ (b ++ c))%string.
Proof. induction a as [|ch a IH]; intros b c; simpl; [reflexivity|]. rewrite IH. reflexivity. Qed.

Lemma split_aux_dotfree : forall k rest cur, dotfree k = true ->
  split_aux (k ++ rest)%string cur = split_aux rest (cur ++ k)%string.
Proof.
  induction k as [|ch k IH]; intros rest cur H.
  - simpl. f_equal. clear. induction cur as [|c cur IH]; simpl; [reflexivity|]. rewrite <- IH. reflexivity.
  - simpl in H. apply andb_true_iff in H. destruct H as [H1 H2]. apply negb_true_iff in H1.
    simpl. rewrite H1. rewrite IH by assumption. rewrite sapp_assoc. reflexivity.
Qed.

Lemma sapp_nil_r : forall s : string, (s ++ "")%string = s.
Proof. induction s as [|c s IH]; simpl; [reflexivity|]. rewrite IH. reflexivity. Qed.

Lemma split_join_dotfree : forall p, p <> [] -> forallb dotfree p = true -> split (join p) = p.
Proof.
  unfold split. induction p as [|k p IH]; intros Hp H; [congruence|].
  simpl in H. apply andb_true_iff in H. destruct H as [Hk Hr].
  destruct p as [|k2 r].
  - simpl join. rewrite <- (sapp_nil_r k) at 1. rewrite split_aux_dotfree by assumption. reflexivity.
  - change (join (k :: k2 :: r)) with (k ++ ("." ++ join (k2 :: r)))%string.
    rewrite split_aux_dotfree by assumption.
    change (split_aux ("." ++ join (k2 :: r))%string ("" ++ k)%string) with (k :: split_aux (join (k2 :: r)) "").
    rewrite IH; [reflexivity|discriminate|assumption].
Qed.

Theorem join_split : forall p, p <> [] -> forallb key_ok p = true -> split (join p) = p.
Proof.
  intros p Hp H. apply split_join_dotfree; [assumption|].
  apply forallb_forall. intros k Hin. rewrite forallb_forall in H. specialize (H k Hin).
  unfold key_ok in H. apply andb_true_iff in H. tauto.
Qed.

(* every dataset name written by save (for a well-formed configuration) splits back to its path *)
Lemma flat_keys_ok : forall v, wf v = true -> Forall (fun ps => forallb key_ok (fst ps) = true) (flat v).
Proof.
  induction v as [v Hl | x r IH] using value_ind'; intros Hwf.
  - destruct (flat_leaf v Hl) as [s [_ Hf]]. rewrite Hf. constructor; [reflexivity|constructor].
  - rewrite flat_dict. revert IH Hwf. generalize (x :: r). intros l IH.
    induction IH as [|[k v] l Hv _ IH']; intros Hwf; [constructor|].
    destruct (wf_dict_cons _ _ _ Hwf) as [_ [Hk [Hwv Hwr]]].
    rewrite save_cons. apply Forall_app. split; [|apply IH'; assumption].
    apply Forall_map. eapply Forall_impl; [|apply Hv; exact Hwv].
    intros [p s] H. simpl in *. rewrite Hk, H. reflexivity.
Qed.

Theorem save_names_split : forall kvs, wf (VDict kvs) = true ->
  forall p s, In (p, s) (save kvs) -> split (join p) = p.
Proof.
  intros kvs Hwf p s Hin. destruct kvs as [|x r]; [destruct Hin|].
  pose proof (flat_keys_ok (VDict (x :: r)) Hwf) as H. rewrite flat_dict in H.
  rewrite Forall_forall in H. specialize (H _ Hin). simpl in H.
  apply join_split; [|assumption].
  pose proof (save_paths_nonempty (x :: r)) as Hne. rewrite Forall_forall in Hne. apply (Hne _ Hin).
Qed.

(* the round trip through dataset NAMES: on well-formed dictionaries it is the round trip through paths *)
Theorem load_named_save_named : forall kvs, wf (VDict kvs) = true ->
  VDict (load_named (save_named kvs)) = canon (VDict kvs).
Proof.
  intros kvs Hwf. unfold load_named, save_named. rewrite map_map. cbn [fst snd].
  replace (map (fun x => (split (join (fst x)), snd x)) (save kvs)) with (save kvs).
  - now apply load_save.
  - pose proof (save_names_split kvs Hwf) as H.
    assert (G : forall l, (forall p s, In (p, s) l -> split (join p) = p) ->
                          l = map (fun x : list string * stored => (split (join (fst x)), snd x)) l).
    { induction l as [|[p0 s0] l IH]; intros Hl; [reflexivity|]. cbn [map fst snd].
      rewrite (Hl p0 s0 (or_introl eq_refl)). f_equal. apply IH. intros p1 s1 Hin. apply (Hl p1 s1). now right. }
    apply G. exact H.
Qed.

(* ... and the guard is needed: a key that contains the separator is saved without complaint and comes back as a nested
   dictionary (finding F36: a parameter called "x.y"); distinct, non-empty keys otherwise *)
Theorem named_roundtrip_dotted_key_refuted :
  exists kvs, nodup_keys (map fst kvs) = true /\ forallb (fun k => negb (String.eqb k "")) (map fst kvs) = true
              /\ VDict (load_named (save_named kvs)) <> canon (VDict kvs).
Proof.
  exists [("x.y"%string, VInt 1); ("q"%string, VInt 2)]. split; [reflexivity|]. split; [reflexivity|].
  vm_compute. discriminate.
Qed.

(* ------------------------------------------------------------------------------------------ *)
(* GOAL 4: canon is idempotent                                                                  *)

Theorem canon_idem_all : forall v, canon (canon v) = canon v.
Proof.
  induction v as [v Hl | x r IH] using value_ind'.
  - destruct v as [ | b | z | f | s0 | l | l | shape data | kvs]; try reflexivity.
    + destruct shape as [|n sh]; [|reflexivity]. destruct data as [|z [|z' d]]; reflexivity.
    + destruct kvs; [reflexivity|discriminate].
  - rewrite !canon_dict. f_equal. unfold cmap. rewrite map_map.
    revert IH. generalize (x :: r). intros l IH. induction IH as [|kv l H _ IH']; simpl; [reflexivity|].
    f_equal; [rewrite H; reflexivity|exact IH'].
Qed.

Theorem canon_idem : forall v, wf v = true -> canon (canon v) = canon v.
Proof. intros v _. apply canon_idem_all. Qed.

(* ------------------------------------------------------------------------------------------ *)
(* wf is satisfiable by a configuration using every kind of value; the theorems instantiate      *)

Definition example_cfg : list (string * value) :=
  [ ("seed"%string, VNone);
    ("flow"%string, VDict [ ("extra"%string, VDict []);
                            ("net"%string, VDict [ ("width"%string, VInt 64);
                                                   ("act"%string, VStr "tanh"%string) ]);
                            ("lr"%string, VFloat 4562254508917369340) ]);
    ("names"%string, VStrList ["m1"%string; "m2"%string]);
    ("dims"%string, VNumList [1; 2; 3]%Z);
    ("bounds"%string, VArr [2; 2]%nat [0; 1; 0; 1]%Z);
    ("flag"%string, VBool true);
    ("scale"%string, VArr [] [7]%Z) ].

Example example_wf : wf (VDict example_cfg) = true.
Proof. vm_compute. reflexivity. Qed.

Example example_roundtrip :
  forall p, lookup p (VDict (load (save example_cfg))) = lookup p (canon (VDict example_cfg)).
Proof. exact (roundtrip_lookup example_cfg example_wf). Qed.

Example example_lookup_empty_dict :
  lookup ["flow"%string; "extra"%string] (VDict (load (save example_cfg))) = Some (VDict []).
Proof. rewrite example_roundtrip. vm_compute. reflexivity. Qed.

Example example_lookup_none :
  lookup ["seed"%string] (VDict (load (save example_cfg))) = Some VNone.
Proof. vm_compute. reflexivity. Qed.

Example example_lookup_numlist :
  lookup ["dims"%string] (VDict (load (save example_cfg))) = Some (VArr [3%nat] [1; 2; 3]%Z).
Proof. vm_compute. reflexivity. Qed.

Example example_lookup_nested :
  lookup ["flow"%string; "net"%string; "act"%string] (VDict (load (save example_cfg))) = Some (VStr "tanh"%string).
Proof. vm_compute. reflexivity. Qed.

Example example_lookup_0d :
  lookup ["scale"%string] (VDict (load (save example_cfg))) = Some (VInt 7).
Proof. vm_compute. reflexivity. Qed.

Example example_structural : VDict (load (save example_cfg)) = canon (VDict example_cfg).
Proof. vm_compute. reflexivity. Qed.

Example example_sorted_order :
  forall p, obs p (VDict (load (rev (save example_cfg)))) = obs p (canon (VDict example_cfg)).
Proof. apply load_permutation_canon; [exact example_wf|]. apply Permutation_sym, Permutation_rev. Qed.

Example example_names :
  map (fun ps => join (fst ps)) (save example_cfg) =
  [ "seed"; "flow.extra"; "flow.net.width"; "flow.net.act"; "flow.lr"; "names"; "dims"; "bounds"; "flag"; "scale" ]%string.
Proof. vm_compute. reflexivity. Qed.
