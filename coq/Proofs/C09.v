(* C09 — resampling selects by incremental weight and copies particles intact.
   About Gen/Kernels.v (resample_probs) and Gen/Rows.v (the resample_rows definitions), regenerated from
   SMCSamples.resample. *)
From Coq Require Import Reals List Bool Lra Lia.
From AV Require Import Lib.Vec Lib.Soa Gen.Kernels Gen.Rows Proofs.C02 Proofs.C07.
Import ListNotations.
Open Scope R_scope.

Definition softmax (l : list R) : list R := map (fun t => exp t / vsum (map exp l)) l.

Lemma softmax_lse l : l <> [] ->
  map exp (map (fun t => t - logsumexp l) l) = softmax l.
Proof.
  intros Hne. unfold softmax. rewrite map_map. apply map_ext. intros t.
  unfold Rminus, Rdiv. rewrite exp_plus, exp_Ropp, (logsumexp_spec l Hne). reflexivity.
Qed.

Lemma softmax_shift c l : l <> [] -> softmax (map (fun t => t + c) l) = softmax l.
Proof.
  intros Hne. unfold softmax. rewrite !map_map.
  replace (vsum (map (fun x => exp (x + c)) l)) with (exp c * vsum (map exp l)).
  - apply map_ext. intros t. rewrite exp_plus. field. split.
    + pose proof (sum_exp_pos l Hne); lra.
    + pose proof (exp_pos c); lra.
  - rewrite <- vsum_map_mul, map_map. apply vsum_ext. intros; rewrite exp_plus; lra.
Qed.

Lemma softmax_sum l : l <> [] -> vsum (softmax l) = 1.
Proof.
  intros Hne. unfold softmax.
  replace (map (fun t => exp t / vsum (map exp l)) l) with (map (fun t => t / vsum (map exp l)) (map exp l))
    by (now rewrite map_map).
  rewrite vsum_map_div. field. pose proof (sum_exp_pos l Hne); lra.
Qed.

Lemma softmax_pos l : l <> [] -> Forall (fun p => 0 < p) (softmax l).
Proof.
  intros Hne. unfold softmax. apply Forall_forall. intros p Hp. apply in_map_iff in Hp as [t [<- _]].
  apply Rdiv_lt_0_compat; [apply exp_pos| apply sum_exp_pos; auto].
Qed.

Section Probs.
  Context {X : Type}.
  Variables (x : list X) (ll lp lq : list R) (b0 b : R).
  Hypothesis Hne : ll <> [].
  Hypothesis Hx : length x = length ll.
  Hypothesis Hp : length lp = length ll.
  Hypothesis Hq : length lq = length ll.

  (* incremental log-weights of the temperature move b0 -> b *)
  Definition incr_lw := map (fun t => (b - b0) * t) (compute_weights_log_w x ll lp lq).

  Lemma incr_lw_ne : incr_lw <> [].
  Proof.
    unfold incr_lw. pose proof (lw_ne x ll lp lq Hne Hx Hp Hq) as H.
    destruct (compute_weights_log_w x ll lp lq); simpl; congruence.
  Qed.

  (* the vector handed to the generator: the max-shifted softmax, renormalised once more by its own sum (a no-op over the reals;
     in floating point it removes the rounding of logsumexp — repair F33) *)
  Lemma resample_probs_spec : resample_probs x ll lp lq b0 b = softmax incr_lw.
  Proof.
    set (w := map exp (map (fun t => t - logsumexp (log_weights x ll lp lq b0 b)) (log_weights x ll lp lq b0 b))).
    assert (E : resample_probs x ll lp lq b0 b = map (fun t => t / vsum w) w) by reflexivity.
    assert (Hw : w = softmax incr_lw).
    { unfold w. rewrite log_weights_fn, unnormalized_log_weights_spec by auto. fold incr_lw.
      change (fun t : R => t - (logsumexp incr_lw - ln (vlen x))) with (fun t : R => t + - (logsumexp incr_lw - ln (vlen x))).
      assert (Hn : map (fun t => t + - (logsumexp incr_lw - ln (vlen x))) incr_lw <> []).
      { pose proof incr_lw_ne. destruct incr_lw; simpl; congruence. }
      rewrite (softmax_lse _ Hn). apply softmax_shift. apply incr_lw_ne. }
    rewrite E, Hw, (softmax_sum _ incr_lw_ne).
    rewrite <- (map_id (softmax incr_lw)) at 2. apply map_ext. intros t. unfold Rdiv. rewrite Rinv_1. lra.
  Qed.

  Lemma resample_probs_distribution :
    vsum (resample_probs x ll lp lq b0 b) = 1 /\ Forall (fun p => 0 < p) (resample_probs x ll lp lq b0 b)
    /\ length (resample_probs x ll lp lq b0 b) = length ll.
  Proof.
    rewrite resample_probs_spec. split; [apply softmax_sum, incr_lw_ne|]. split; [apply softmax_pos, incr_lw_ne|].
    unfold softmax, incr_lw. rewrite !map_length. apply (lw_length x ll lp lq Hx Hp Hq).
  Qed.
End Probs.

(* every drawn particle is an exact copy of ONE source row *)
Lemma resample_rows_intact {X} (x : list X) ll lp lq b0 b idx dX j : (j < length idx)%nat ->
  let src := nth j idx 0%nat in
  nth j (resample_rows_x x ll lp lq b0 b idx dX) dX = nth src x dX
  /\ nth j (resample_rows_log_likelihood x ll lp lq b0 b idx dX) 0 = nth src ll 0
  /\ nth j (resample_rows_log_prior x ll lp lq b0 b idx dX) 0 = nth src lp 0
  /\ nth j (resample_rows_log_q x ll lp lq b0 b idx dX) 0 = nth src lq 0.
Proof.
  intros Hj src. unfold resample_rows_x, resample_rows_log_likelihood, resample_rows_log_prior, resample_rows_log_q.
  cbv zeta. repeat split; apply select_nth; exact Hj.
Qed.

Lemma resample_rows_size_beta {X} (x : list X) ll lp lq b0 b idx dX :
  length (resample_rows_x x ll lp lq b0 b idx dX) = length idx
  /\ length (resample_rows_log_likelihood x ll lp lq b0 b idx dX) = length idx
  /\ length (resample_rows_log_prior x ll lp lq b0 b idx dX) = length idx
  /\ length (resample_rows_log_q x ll lp lq b0 b idx dX) = length idx
  /\ resample_rows_beta x ll lp lq b0 b idx dX = b.
Proof.
  unfold resample_rows_x, resample_rows_log_likelihood, resample_rows_log_prior, resample_rows_log_q, resample_rows_beta.
  cbv zeta. rewrite !select_length. auto.
Qed.
