(* Reals extended with the IEEE special values (NaN, -inf, +inf) and the IEEE rules for them — but
   no rounding.  Used where a property speaks about -inf / NaN (zero prior, NaN -> -inf). *)
From Coq Require Import Reals List Bool Lra.
Import ListNotations.
Open Scope R_scope.

Inductive XR : Type := NaN | NInf | PInf | Fin (r : R).

Definition xneg (a : XR) : XR :=
  match a with NaN => NaN | NInf => PInf | PInf => NInf | Fin r => Fin (- r) end.

Definition xadd (a b : XR) : XR :=
  match a, b with
  | NaN, _ | _, NaN => NaN
  | PInf, NInf | NInf, PInf => NaN
  | PInf, _ | _, PInf => PInf
  | NInf, _ | _, NInf => NInf
  | Fin x, Fin y => Fin (x + y)
  end.

Definition xsub (a b : XR) : XR := xadd a (xneg b).

(* sign of a finite real as a three-way case *)
Definition xmul_inf (r : R) (pos : bool) : XR :=
  if Rlt_dec 0 r then (if pos then PInf else NInf)
  else if Rlt_dec r 0 then (if pos then NInf else PInf)
  else NaN.                                   (* 0 * inf = NaN *)

Definition xmul (a b : XR) : XR :=
  match a, b with
  | NaN, _ | _, NaN => NaN
  | Fin x, Fin y => Fin (x * y)
  | Fin x, PInf | PInf, Fin x => xmul_inf x true
  | Fin x, NInf | NInf, Fin x => xmul_inf x false
  | PInf, PInf | NInf, NInf => PInf
  | PInf, NInf | NInf, PInf => NInf
  end.

Definition xdiv (a b : XR) : XR :=
  match a, b with
  | Fin x, Fin y => if Req_EM_T y 0 then NaN else Fin (x / y)
  | _, _ => NaN
  end.

Definition xisnan (a : XR) : bool := match a with NaN => true | _ => false end.
Definition xisfinite (a : XR) : bool := match a with Fin _ => true | _ => false end.
Definition xwhere (m : bool) (y x : XR) : XR := if m then y else x.
Definition xvsum (l : list XR) : XR := fold_right xadd (Fin 0) l.
Definition xvlen {A} (l : list A) : XR := Fin (INR (length l)).
Definition xexp (a : XR) : XR :=
  match a with NaN => NaN | NInf => Fin 0 | PInf => PInf | Fin r => Fin (exp r) end.
Definition xln (a : XR) : XR :=
  match a with
  | Fin r => if Rlt_dec 0 r then Fin (ln r) else if Req_EM_T r 0 then NInf else NaN
  | PInf => PInf | _ => NaN
  end.

(* comparisons: anything involving NaN is false *)
Definition xltb (a b : XR) : bool :=
  match a, b with
  | NaN, _ | _, NaN => false
  | NInf, NInf => false | NInf, _ => true
  | _, NInf => false
  | PInf, _ => false
  | _, PInf => true
  | Fin x, Fin y => if Rlt_dec x y then true else false
  end.
Definition xeqb (a b : XR) : bool :=
  match a, b with
  | NInf, NInf | PInf, PInf => true
  | Fin x, Fin y => if Req_EM_T x y then true else false
  | _, _ => false
  end.
Definition xleb (a b : XR) : bool := xltb a b || xeqb a b.
Definition xgtb (a b : XR) : bool := xltb b a.
Definition xgeb (a b : XR) : bool := xleb b a.
Definition xneqb (a b : XR) : bool := negb (xeqb a b).

(* numpy / torch / jax `max` reduction: NaN wins; the empty reduction raises in the code (NaN here, never relied upon) *)
Definition xmax2 (a b : XR) : XR :=
  match a, b with NaN, _ | _, NaN => NaN | _, _ => if xltb a b then b else a end.
Definition xvmax (l : list XR) : XR :=
  match l with [] => NaN | a :: t => fold_left xmax2 t a end.

(* invocations of the user's callables / the proposal density, as recorded by the translator *)
Inductive ucall (X : Type) : Type :=
| UFlow (pts : list X)                                   (* prior_flow.log_prob(pts) *)
| UPrior (pts : list X)                                  (* user log_prior on these points *)
| ULik (pts : list X) (attached_prior : option (list XR)).  (* user log_likelihood; log_prior carried by the samples *)
Arguments UFlow {X} pts. Arguments UPrior {X} pts. Arguments ULik {X} pts attached_prior.
