(* Struct-of-arrays selection: a sample set is a tuple of parallel lists; row alignment is something
   the theorems prove, not something the type gives away. *)
From Coq Require Import List Arith Lia Bool.
Import ListNotations.

Definition select {A} (idx : list nat) (l : list A) (d : A) : list A := map (fun i => nth i l d) idx.

Definition oselect {A} (idx : list nat) (l : option (list A)) (d : A) : option (list A) :=
  option_map (fun v => select idx v d) l.

(* numpy index kinds reduced to an explicit index list (trusted: numpy's indexing semantics) *)
Fixpoint idx_of_mask (m : list bool) (i : nat) : list nat :=
  match m with
  | [] => []
  | true :: r => i :: idx_of_mask r (S i)
  | false :: r => idx_of_mask r (S i)
  end.

(* slice start:stop:step with 0 <= start, step >= 1, clipped to the length n *)
Fixpoint idx_of_slice_fuel (fuel start stop step : nat) : list nat :=
  match fuel with
  | O => []
  | S f => if start <? stop then start :: idx_of_slice_fuel f (start + step) stop step else []
  end.
Definition idx_of_slice (n start stop step : nat) : list nat :=
  idx_of_slice_fuel n start (Nat.min stop n) step.

Lemma select_length {A} idx (l : list A) d : length (select idx l d) = length idx.
Proof. unfold select. apply map_length. Qed.

Lemma select_nth {A} idx (l : list A) d j : j < length idx ->
  nth j (select idx l d) d = nth (nth j idx 0) l d.
Proof.
  intros Hj. unfold select.
  rewrite (nth_indep _ d (nth 0 l d)) by (now rewrite map_length).
  now rewrite (map_nth (fun i => nth i l d) idx 0 j).
Qed.

Lemma select_map {A B} (f : A -> B) idx (l : list A) dA dB :
  Forall (fun i => i < length l) idx -> select idx (map f l) dB = map f (select idx l dA).
Proof.
  intros H. unfold select. rewrite map_map. apply map_ext_in. intros i Hi.
  rewrite Forall_forall in H. specialize (H i Hi).
  rewrite (nth_indep _ dB (f dA)) by (now rewrite map_length). apply map_nth.
Qed.

Lemma select_app {A} idx1 idx2 (l : list A) d : select (idx1 ++ idx2) l d = select idx1 l d ++ select idx2 l d.
Proof. unfold select. apply map_app. Qed.

Lemma select_seq_all {A} (l : list A) d : select (seq 0 (length l)) l d = l.
Proof.
  unfold select. apply nth_ext with (d := d) (d' := d).
  - now rewrite map_length, seq_length.
  - intros n Hn. rewrite map_length, seq_length in Hn.
    rewrite (nth_indep _ d (nth 0 l d)) by (now rewrite map_length, seq_length).
    rewrite (map_nth (fun i => nth i l d) (seq 0 (length l)) 0 n). now rewrite seq_nth.
Qed.

Lemma select_select {A} idx1 idx2 (l : list A) d :
  Forall (fun j => j < length idx1) idx2 ->
  select idx2 (select idx1 l d) d = select (select idx2 idx1 0) l d.
Proof.
  intros H. unfold select. rewrite map_map. apply map_ext_in. intros j Hj.
  rewrite Forall_forall in H. specialize (H j Hj).
  rewrite (nth_indep _ d (nth 0 l d)) by (now rewrite map_length).
  apply (map_nth (fun i => nth i l d) idx1 0 j).
Qed.
