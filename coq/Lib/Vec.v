(* Real vectors as lists: the vocabulary the generated kernels (Gen/Kernels.v) are printed in,
   plus the list lemmas the proofs need.  No proofs about aspire here. *)
From Coq Require Import Reals List Bool Lra Lia Permutation.
Import ListNotations.
Open Scope R_scope.

(* ---------- vocabulary used by the translator's printer ---------- *)
Fixpoint vmap2 {A B C} (f : A -> B -> C) (a : list A) (b : list B) : list C :=
  match a, b with
  | x :: a', y :: b' => f x y :: vmap2 f a' b'
  | _, _ => []
  end.

Definition vsum (l : list R) : R := fold_right Rplus 0 l.
Definition vmax (l : list R) : R :=
  match l with [] => 0 | x :: t => fold_left Rmax t x end.
Definition vlen {A} (l : list A) : R := INR (length l).
Definition vmean (l : list R) : R := vsum l / vlen l.
Definition vvar (l : list R) : R :=
  vsum (map (fun t => (t - vmean l) * (t - vmean l)) l) / vlen l.
Definition vstd (l : list R) : R := sqrt (vvar l).

Definition Rltb (a b : R) : bool := if Rlt_dec a b then true else false.
Definition Rleb (a b : R) : bool := if Rle_dec a b then true else false.
Definition Rgtb (a b : R) : bool := Rltb b a.
Definition Rgeb (a b : R) : bool := Rleb b a.
Definition Reqb (a b : R) : bool := if Req_EM_T a b then true else false.
Definition Rneqb (a b : R) : bool := negb (Reqb a b).

Definition clip (t lo hi : R) : R := Rmin (Rmax t lo) hi.       (* numpy.clip = minimum(maximum(t,lo),hi) *)
Definition log1p (t : R) : R := ln (1 + t).
(* Python/numpy float modulo for a positive divisor: a - floor(a/w)*w *)
Definition Rmod (a w : R) : R := a - w * IZR (Int_part (a / w)).
(* Python float power, total: 0**r = 0 for r<>0, 0**0 = 1 *)
Definition rpow (b r : R) : R :=
  if Req_EM_T b 0 then (if Req_EM_T r 0 then 1 else 0) else Rpower b r.
(* `xp.nan` has no counterpart in R: the theorems show the branch returning it is unreachable. *)
Definition nan_placeholder : R := 0.

(* ---------- boolean reflection ---------- *)
Lemma Rltb_true a b : Rltb a b = true <-> a < b.
Proof. unfold Rltb; destruct (Rlt_dec a b); split; intros; auto; discriminate. Qed.
Lemma Rleb_true a b : Rleb a b = true <-> a <= b.
Proof. unfold Rleb; destruct (Rle_dec a b); split; intros; auto; discriminate. Qed.
Lemma Rgtb_true a b : Rgtb a b = true <-> a > b.
Proof. unfold Rgtb; rewrite Rltb_true; split; intros; lra. Qed.
Lemma Rgeb_true a b : Rgeb a b = true <-> a >= b.
Proof. unfold Rgeb; rewrite Rleb_true; split; intros; lra. Qed.
Lemma Reqb_true a b : Reqb a b = true <-> a = b.
Proof. unfold Reqb; destruct (Req_EM_T a b); split; intros; auto; discriminate. Qed.
Lemma Rneqb_true a b : Rneqb a b = true <-> a <> b.
Proof. unfold Rneqb, Reqb; destruct (Req_EM_T a b); simpl; split; intros; auto; try discriminate; contradiction. Qed.
Lemma Rneqb_false a b : Rneqb a b = false <-> a = b.
Proof. unfold Rneqb, Reqb; destruct (Req_EM_T a b); simpl; split; intros; auto; try discriminate; contradiction. Qed.

(* ---------- lengths / nth ---------- *)
Lemma vmap2_length {A B C} (f : A -> B -> C) a b :
  length (vmap2 f a b) = Nat.min (length a) (length b).
Proof. revert b; induction a as [|x a IH]; intros [|y b]; simpl; auto. Qed.

Lemma vmap2_nth {A B C} (f : A -> B -> C) a b i da db dc :
  (i < length a)%nat -> (i < length b)%nat ->
  nth i (vmap2 f a b) dc = f (nth i a da) (nth i b db).
Proof.
  revert b i; induction a as [|x a IH]; intros [|y b] i Ha Hb; simpl in *; try lia.
  destruct i; auto. apply IH; lia.
Qed.

Lemma map_nth' {A B} (f : A -> B) l i d d' : (i < length l)%nat -> nth i (map f l) d = f (nth i l d').
Proof. revert i; induction l as [|a l IH]; simpl; intros i Hi; [lia|]. destruct i; auto. apply IH; lia. Qed.

Lemma vmap2_map_l {A A' B C} (f : A' -> B -> C) (g : A -> A') a b :
  vmap2 f (map g a) b = vmap2 (fun x y => f (g x) y) a b.
Proof. revert b; induction a as [|x a IH]; intros [|y b]; simpl; auto. now rewrite IH. Qed.

Lemma vmap2_map_r {A B B' C} (f : A -> B' -> C) (g : B -> B') a b :
  vmap2 f a (map g b) = vmap2 (fun x y => f x (g y)) a b.
Proof. revert b; induction a as [|x a IH]; intros [|y b]; simpl; auto. now rewrite IH. Qed.

Lemma map_vmap2 {A B C D} (g : C -> D) (f : A -> B -> C) a b :
  map g (vmap2 f a b) = vmap2 (fun x y => g (f x y)) a b.
Proof. revert b; induction a as [|x a IH]; intros [|y b]; simpl; auto. now rewrite IH. Qed.

Lemma vmap2_ext {A B C} (f g : A -> B -> C) a b :
  (forall x y, f x y = g x y) -> vmap2 f a b = vmap2 g a b.
Proof. intros H; revert b; induction a as [|x a IH]; intros [|y b]; simpl; auto. now rewrite H, IH. Qed.

Lemma vmap2_same {A C} (f : A -> A -> C) a : vmap2 f a a = map (fun x => f x x) a.
Proof. induction a; simpl; auto. now rewrite IHa. Qed.

(* ---------- vsum ---------- *)
Lemma vsum_cons x l : vsum (x :: l) = x + vsum l.
Proof. reflexivity. Qed.
Lemma vsum_app a b : vsum (a ++ b) = vsum a + vsum b.
Proof. induction a; simpl; [lra|]. unfold vsum in *; simpl; rewrite IHa; lra. Qed.
Lemma vsum_map_mul c l : vsum (map (fun t => c * t) l) = c * vsum l.
Proof. induction l; simpl; [lra|]. unfold vsum in *; simpl; rewrite IHl; lra. Qed.
Lemma vsum_map_mul_r c l : vsum (map (fun t => t * c) l) = vsum l * c.
Proof. induction l; simpl; [lra|]. unfold vsum in *; simpl; rewrite IHl; lra. Qed.
Lemma vsum_map_div c l : vsum (map (fun t => t / c) l) = vsum l / c.
Proof. unfold Rdiv. apply vsum_map_mul_r. Qed.
Lemma vsum_map_plus (f g : R -> R) l :
  vsum (map (fun t => f t + g t) l) = vsum (map f l) + vsum (map g l).
Proof. induction l; simpl; [lra|]. unfold vsum in *; simpl; rewrite IHl; lra. Qed.
Lemma vsum_map_const c (l : list R) : vsum (map (fun _ => c) l) = vlen l * c.
Proof.
  unfold vlen; induction l as [|a l IH]; [simpl; lra|].
  change (length (a :: l)) with (S (length l)); rewrite S_INR.
  change (vsum (map (fun _ => c) (a :: l))) with (c + vsum (map (fun _ => c) l)).
  rewrite IH; lra.
Qed.
Lemma vsum_nonneg l : Forall (fun t => 0 <= t) l -> 0 <= vsum l.
Proof. induction 1; simpl; [lra|]. unfold vsum in *; simpl; lra. Qed.
Lemma vsum_pos l : l <> [] -> Forall (fun t => 0 < t) l -> 0 < vsum l.
Proof.
  intros Hne H; destruct l as [|x l]; [congruence|]. inversion H; subst.
  assert (0 <= vsum l). { apply vsum_nonneg. eapply Forall_impl; [|eassumption]. simpl; intros; lra. }
  rewrite vsum_cons; lra.
Qed.
Lemma vsum_ge_elem l x : Forall (fun t => 0 <= t) l -> In x l -> x <= vsum l.
Proof.
  induction 1 as [|y l Hy Hl IH]; intros Hin; [inversion Hin|].
  rewrite vsum_cons. pose proof (vsum_nonneg _ Hl). destruct Hin as [->|Hin]; [lra|]. specialize (IH Hin); lra.
Qed.
Lemma vsum_ext (f g : R -> R) l : (forall t, In t l -> f t = g t) -> vsum (map f l) = vsum (map g l).
Proof.
  induction l; intros H; simpl; auto. unfold vsum in *; simpl. rewrite H by (left; auto).
  rewrite IHl; auto. intros; apply H; right; auto.
Qed.
Lemma vsum_perm a b : Permutation a b -> vsum a = vsum b.
Proof.
  induction 1 as [|x a b P IH|x y a|a b c P1 IH1 P2 IH2].
  - reflexivity.
  - rewrite !vsum_cons, IH; reflexivity.
  - rewrite !vsum_cons; lra.
  - congruence.
Qed.
Lemma vsum_le (f g : R -> R) l : (forall t, In t l -> f t <= g t) -> vsum (map f l) <= vsum (map g l).
Proof.
  induction l; intros H; simpl; [lra|]. unfold vsum in *; simpl.
  assert (f a <= g a) by (apply H; left; auto).
  assert (fold_right Rplus 0 (map f l) <= fold_right Rplus 0 (map g l)) by (apply IHl; intros; apply H; right; auto).
  lra.
Qed.

(* ---------- vmax ---------- *)
Lemma fold_left_Rmax_ge l x : x <= fold_left Rmax l x.
Proof.
  revert x; induction l as [|y l IH]; intros x; simpl; [lra|].
  eapply Rle_trans; [apply (Rmax_l x y)| apply IH].
Qed.
Lemma fold_left_Rmax_ge_in l x y : In y l -> y <= fold_left Rmax l x.
Proof.
  revert x; induction l as [|z l IH]; intros x Hin; [inversion Hin|]. simpl.
  destruct Hin as [->|Hin]; [|apply IH; auto].
  eapply Rle_trans; [apply (Rmax_r x y)| apply fold_left_Rmax_ge].
Qed.
Lemma fold_left_Rmax_in l x : fold_left Rmax l x = x \/ In (fold_left Rmax l x) l.
Proof.
  revert x; induction l as [|y l IH]; intros x; simpl; auto.
  destruct (IH (Rmax x y)) as [H|H]; [|right; right; exact H].
  rewrite H. unfold Rmax; destruct (Rle_dec x y); auto.
Qed.
Lemma vmax_ge l y : In y l -> y <= vmax l.
Proof.
  destruct l as [|x l]; [intros []|]. simpl. intros [->|Hin].
  - apply fold_left_Rmax_ge. - apply fold_left_Rmax_ge_in; auto.
Qed.
Lemma vmax_in l : l <> [] -> In (vmax l) l.
Proof.
  destruct l as [|x l]; [congruence|]. intros _. simpl.
  destruct (fold_left_Rmax_in l x) as [H|H]; [left; auto| right; auto].
Qed.
Lemma vmax_unique l m : In m l -> (forall y, In y l -> y <= m) -> vmax l = m.
Proof.
  intros Hin Hub. assert (Hne : l <> []) by (destruct l; [inversion Hin| congruence]).
  apply Rle_antisym; [apply Hub, vmax_in; auto | apply vmax_ge; auto].
Qed.
Lemma vmax_perm a b : Permutation a b -> vmax a = vmax b.
Proof.
  intros P. destruct a as [|x a].
  - apply Permutation_nil in P; subst; auto.
  - apply vmax_unique.
    + eapply Permutation_in; [apply Permutation_sym; exact P|]. apply vmax_in. intro E; subst.
      apply Permutation_sym, Permutation_nil in P; discriminate.
    + intros y Hy. apply vmax_ge. eapply Permutation_in; eauto.
Qed.
Lemma vmax_map_add c l : l <> [] -> vmax (map (fun t => t + c) l) = vmax l + c.
Proof.
  intros Hne. apply vmax_unique.
  - apply in_map_iff. exists (vmax l); split; auto. apply vmax_in; auto.
  - intros y Hy. apply in_map_iff in Hy as [t [<- Ht]]. pose proof (vmax_ge _ _ Ht); lra.
Qed.
Lemma vmax_map_mul c l : l <> [] -> 0 <= c -> vmax (map (fun t => t * c) l) = vmax l * c.
Proof.
  intros Hne Hc. apply vmax_unique.
  - apply in_map_iff. exists (vmax l); split; auto. apply vmax_in; auto.
  - intros y Hy. apply in_map_iff in Hy as [t [<- Ht]]. pose proof (vmax_ge _ _ Ht).
    apply Rmult_le_compat_r; auto.
Qed.

(* ---------- vlen ---------- *)
Lemma vlen_pos {A} (l : list A) : l <> [] -> 0 < vlen l.
Proof. destruct l; [congruence|]. intros _. unfold vlen. apply lt_0_INR. simpl; lia. Qed.
Lemma vlen_map {A B} (f : A -> B) l : vlen (map f l) = vlen l.
Proof. unfold vlen; now rewrite map_length. Qed.
Lemma vlen_perm {A} (a b : list A) : Permutation a b -> vlen a = vlen b.
Proof. intros P; unfold vlen; now rewrite (Permutation_length P). Qed.
Lemma vlen_ge1 {A} (l : list A) : l <> [] -> 1 <= vlen l.
Proof.
  destruct l; [congruence|]. intros _. unfold vlen. change 1 with (INR 1). apply le_INR. simpl; lia.
Qed.

(* ---------- Cauchy–Schwarz with the all-ones vector, and its companion ---------- *)
Lemma sum_sq_le_sq_sum l : Forall (fun t => 0 <= t) l ->
  vsum (map (fun t => t * t) l) <= vsum l * vsum l.
Proof.
  induction 1 as [|x l Hx Hl IH]; [unfold vsum; simpl; lra|].
  cbn [map]. rewrite !vsum_cons. pose proof (vsum_nonneg _ Hl).
  assert (0 <= x * vsum l) by (apply Rmult_le_pos; auto). nra.
Qed.

Lemma sq_sum_le_len_sum_sq l :
  vsum l * vsum l <= vlen l * vsum (map (fun t => t * t) l).
Proof.
  (* sum_i sum_j (x_i - x_j)^2 >= 0; by induction: N*Q - S^2 is nondecreasing when adding x *)
  assert (H : forall l, 0 <= vlen l * vsum (map (fun t => t * t) l) - vsum l * vsum l
                        /\ forall x, 0 <= vlen l * (x * x) - 2 * x * vsum l + vsum (map (fun t => t * t) l)).
  { clear l. induction l as [|y l [IH1 IH2]].
    - unfold vlen, vsum; simpl; split; [lra| intros; lra].
    - assert (Hlen : vlen (y :: l) = vlen l + 1).
      { unfold vlen. change (length (y :: l)) with (S (length l)). now rewrite S_INR. }
      cbn [map]. rewrite !vsum_cons, Hlen. split.
      + specialize (IH2 y). revert IH1 IH2.
        generalize (vlen l) (vsum (map (fun t : R => t * t) l)) (vsum l); intros n Q S H1 H2.
        replace ((n + 1) * (y * y + Q) - (y + S) * (y + S))
          with ((n * Q - S * S) + (n * (y * y) - 2 * y * S + Q)) by ring. lra.
      + intros x. pose proof (IH2 x) as H2. revert IH1 H2.
        generalize (vlen l) (vsum (map (fun t : R => t * t) l)) (vsum l); intros n Q S H1 H2.
        replace ((n + 1) * (x * x) - 2 * x * (y + S) + (y * y + Q))
          with ((n * (x * x) - 2 * x * S + Q) + (x - y) * (x - y)) by ring.
        pose proof (Rle_0_sqr (x - y)) as H3; unfold Rsqr in H3. lra. }
  destruct (H l) as [H1 _]. lra.
Qed.
