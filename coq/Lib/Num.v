(* One numeric interface, two instances: exact reals (proofs) and binary64 (execution).
   Control models (schedule, SMC loop) are written ONCE over this record. *)
From Coq Require Import Reals Bool PrimFloat Lra.

Record Num := {
  T :> Type;
  zero : T; one : T; half : T;
  add : T -> T -> T; sub : T -> T -> T; mul : T -> T -> T; div : T -> T -> T;
  nsqrt : T -> T;
  leb : T -> T -> bool;    (* a <= b *)
  ltb : T -> T -> bool;    (* a <  b *)
  eqb : T -> T -> bool;
}.

(* Python built-ins with their tie-breaking: max(a,b) = b if b > a else a; min(a,b) = b if b < a else a *)
Definition pymax (N : Num) (a b : N) : N := if ltb N a b then b else a.
Definition pymin (N : Num) (a b : N) : N := if ltb N b a then b else a.
Definition geb (N : Num) (a b : N) : bool := leb N b a.
Definition gtb (N : Num) (a b : N) : bool := ltb N b a.

(* ---- exact reals ---- *)
Definition Rleb' (a b : R) : bool := if Rle_dec a b then true else false.
Definition Rltb' (a b : R) : bool := if Rlt_dec a b then true else false.
Definition Reqb' (a b : R) : bool := if Req_EM_T a b then true else false.

Definition NumR : Num := {|
  T := R; zero := 0%R; one := 1%R; half := (1/2)%R;
  add := Rplus; sub := Rminus; mul := Rmult; div := Rdiv; nsqrt := R_sqrt.sqrt;
  leb := Rleb'; ltb := Rltb'; eqb := Reqb' |}.

Lemma Rleb'_spec a b : Rleb' a b = true <-> (a <= b)%R.
Proof. unfold Rleb'; destruct (Rle_dec a b); split; intros; auto; discriminate. Qed.
Lemma Rltb'_spec a b : Rltb' a b = true <-> (a < b)%R.
Proof. unfold Rltb'; destruct (Rlt_dec a b); split; intros; auto; discriminate. Qed.
Lemma Reqb'_spec a b : Reqb' a b = true <-> a = b.
Proof. unfold Reqb'; destruct (Req_EM_T a b); split; intros; auto; discriminate. Qed.
Lemma Rleb'_false a b : Rleb' a b = false <-> (b < a)%R.
Proof. unfold Rleb'; destruct (Rle_dec a b); split; intros; try discriminate; auto; lra. Qed.
Lemma Rltb'_false a b : Rltb' a b = false <-> (b <= a)%R.
Proof. unfold Rltb'; destruct (Rlt_dec a b); split; intros; try discriminate; auto; lra. Qed.
Lemma Reqb'_false a b : Reqb' a b = false <-> a <> b.
Proof. unfold Reqb'; destruct (Req_EM_T a b); split; intros; try discriminate; auto; contradiction. Qed.

(* ---- binary64 ---- *)
Definition NumF : Num := {|
  T := float; zero := 0%float; one := 1%float; half := 0.5%float;
  add := PrimFloat.add; sub := PrimFloat.sub; mul := PrimFloat.mul; div := PrimFloat.div;
  nsqrt := PrimFloat.sqrt;
  leb := PrimFloat.leb; ltb := PrimFloat.ltb; eqb := PrimFloat.eqb |}.
