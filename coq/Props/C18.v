(* C18 — the diagnostic history is a faithful record of the run: one entry per iteration in every
   series, stored populations = initial population followed by the population after each iteration,
   every recorded value equal to its definition on the neighbouring stored population; also for a
   resumed run.  Any numeric instance, any oracle. *)
From Coq Require Import Reals List Bool Arith ZArith PrimFloat.
From AV Require Import Lib.Num Model.SMC Proofs.Schedule Proofs.SMCGeneric Proofs.SMCReal.
Import ListNotations.

Theorem C18_faithful_record : forall (N : Num) (P G : Type) effq essq ratio ratio_var cte pbeta psize resample_o mutate_o
    fuel o p0 g0 out evs,
  sample N P G effq essq ratio ratio_var cte pbeta psize resample_o mutate_o fuel o p0 g0 = Ok (out, evs) ->
  exists (pops : list P) (bs : list N),
    length pops = S (length bs) /\ hd p0 pops = p0
    /\ o_iter _ _ _ out = length bs
    /\ h_beta _ _ (o_hist _ _ _ out) = bs
    /\ h_eff_target _ _ (o_hist _ _ _ out) = map cte bs
    /\ h_ess _ _ (o_hist _ _ _ out) = map2 essq (removelast pops) bs
    /\ h_ess_target _ _ (o_hist _ _ _ out) = map (fun p => essq p (one N)) (removelast pops)
    /\ h_ratio _ _ (o_hist _ _ _ out) = map2 ratio (removelast pops) bs
    /\ h_ratio_var _ _ (o_hist _ _ _ out) = map2 ratio_var (removelast pops) bs
    /\ h_pops _ _ (o_hist _ _ _ out) = (if store_history _ o then pops else []).
Proof.
  intros. destruct (sample_faithful _ _ _ _ _ _ _ _ _ _ _ _ _ _ _ _ _ _ H)
    as (pops & bs & H1 & H2 & H3 & H4 & H5 & H6 & H7 & H8 & H9 & H10 & _).
  exists pops, bs. repeat split; assumption.
Qed.

Theorem C18_lengths : forall (N : Num) (P G : Type) effq essq ratio ratio_var cte pbeta psize resample_o mutate_o
    fuel o p0 g0 out evs,
  sample N P G effq essq ratio ratio_var cte pbeta psize resample_o mutate_o fuel o p0 g0 = Ok (out, evs) ->
  let h := o_hist _ _ _ out in let n := o_iter _ _ _ out in
  length (h_beta _ _ h) = n /\ length (h_eff_target _ _ h) = n /\ length (h_ess _ _ h) = n
  /\ length (h_ess_target _ _ h) = n /\ length (h_ratio _ _ h) = n /\ length (h_ratio_var _ _ h) = n
  /\ (store_history _ o = true -> length (h_pops _ _ h) = S n).
Proof. exact sample_lengths. Qed.

(* a resumed run returns the very history of the uninterrupted run (C11), hence a faithful one *)
Theorem C18_after_resume :
  forall (P G : Type) (effq essq ratio ratio_var : P -> R -> R) (cte : R -> R) (pbeta : P -> R) (psize : P -> nat)
         (resample_o : G -> P -> R -> option nat -> P * G) (mutate_o : G -> P -> R -> bool -> P * G),
  (forall g p b n, psize (fst (resample_o g p b (Some n))) = n) ->
  (forall g p b f, psize (fst (mutate_o g p b f)) = psize p) ->
  forall fuel o p0 g0 out evs, valid o ->
  sample NumR P G effq essq ratio ratio_var cte pbeta psize resample_o mutate_o fuel o p0 g0 = Ok (out, evs) ->
  forall c, In c evs ->
  exists out' evs',
    sample_resumed NumR P G effq essq ratio ratio_var cte pbeta psize resample_o mutate_o fuel o c = Ok (out', evs')
    /\ o_hist _ _ _ out' = o_hist _ _ _ out /\ o_iter _ _ _ out' = o_iter _ _ _ out.
Proof.
  intros P G effq essq ratio ratio_var cte pbeta psize resample_o mutate_o Hr Hm fuel o p0 g0 out evs Hv H c Hin.
  destruct (resume_equals_uninterrupted P G effq essq ratio ratio_var cte pbeta psize resample_o mutate_o Hr Hm
              fuel o p0 g0 out evs Hv H c Hin) as (evs' & Hres & _).
  exists out, evs'. auto.
Qed.

(* KNOWN FINDING (known_findings.json, C18 "series-length:mcmc_acceptance:enlargement"): the acceptance
   series gets one entry per kernel invocation, and the final enlargement (n_final_samples) invokes the
   kernel once more.  Full statement "h_nmut = iterations" is refuted by a concrete binary64 run;
   the partial statement says exactly when the extra entry appears. *)
Definition c18_witness :=
  sample NumF unit unit (fun _ _ => nan) (fun _ _ => nan) (fun _ _ => 0%float) (fun _ _ => 0%float)
         (fun _ => 0.5%float) (fun _ => nan) (fun _ => 1%nat) (fun g p _ _ => (p, g)) (fun g p _ _ => (p, g)) 5
         (Build_opts NumF false 0.5%float 0%float false None 0x1p-20%float (Some 2%nat) true false 1%Z 5%nat) tt tt.

Theorem C18_acceptance_series_refuted :
  exists out evs, c18_witness = Ok (out, evs) /\ o_iter _ _ _ out = 2%nat /\ h_nmut _ _ (o_hist _ _ _ out) = 3%nat.
Proof. vm_compute. eexists. eexists. repeat split. Qed.

Theorem C18_acceptance_series_partial : forall (N : Num) (P G : Type) effq essq ratio ratio_var cte pbeta psize resample_o mutate_o
    fuel o p0 g0 out evs,
  sample N P G effq essq ratio ratio_var cte pbeta psize resample_o mutate_o fuel o p0 g0 = Ok (out, evs) ->
  n_final _ o = None -> h_nmut _ _ (o_hist _ _ _ out) = o_iter _ _ _ out.
Proof.
  intros N P G effq essq ratio ratio_var cte pbeta psize resample_o mutate_o fuel o p0 g0 out evs H Hn.
  destruct (sample_nmut _ _ _ _ _ _ _ _ _ _ _ _ _ _ _ _ _ _ H) as [E|(_ & n & E & _)]; [exact E| congruence].
Qed.

Print Assumptions C18_acceptance_series_refuted.
Print Assumptions C18_acceptance_series_partial.
Print Assumptions C18_faithful_record.
Print Assumptions C18_lengths.
Print Assumptions C18_after_resume.
